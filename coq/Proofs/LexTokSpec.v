(* C14 - one lexer step, converse direction (next_tok_spec). *)
From Coq Require Import ZArith List Bool Lia.
From QV Require Import Sx Strs Lex LexChars LexSpan LexTok.
Import ListNotations.
Open Scope Z_scope.

Arguments lex_str : simpl never.
Arguments lex_num : simpl never.
Arguments lex_hex : simpl never.
Arguments lex_word : simpl never.
Arguments lex_rel : simpl never.

(* ---------------------------------------------------------------- *)
(* the other direction *)

Lemma disp_alpha c :
  is_alpha c = true ->
  (c =? 10) = false /\ (c =? 34) = false /\ (c =? 39) = false /\ (c =? 58) = false /\
  is_digit c = false /\ (c =? 46) = false /\ (c =? 38) = false /\ is_blank c = false.
Proof. intro H. repeat split; bz. Qed.

Lemma disp_numstart c :
  (is_digit c || (c =? 46)) = true ->
  (c =? 10) = false /\ (c =? 34) = false /\ (c =? 39) = false /\ (c =? 58) = false /\
  is_blank c = false.
Proof. intro H. repeat split; bz. Qed.

Lemma disp_rel c :
  is_relch c = true ->
  (c =? 10) = false /\ (c =? 34) = false /\ (c =? 39) = false /\ (c =? 58) = false /\
  is_digit c = false /\ (c =? 46) = false /\ (c =? 38) = false /\ is_alpha c = false /\
  is_blank c = false.
Proof. intro H. repeat split; bz. Qed.

Definition spec_goal (t : token) (X : str) : Prop :=
  exists c u, text t = c :: u /\ is_blank c = false /\ next_tok c (u ++ X) = (t, X).

Lemma spec_word run suf X :
  tok_ok (TWord run suf) = true -> stops (TWord run suf) (hd_error X) = true ->
  spec_goal (TWord run suf) X.
Proof.
  cbn [tok_ok stops]. intros Hok Hst.
  destruct run as [|c run0]; [discriminate|].
  apply andb_true_iff in Hok as [Hw Hs]. pose proof Hw as Hw'. simpl in Hw.
  apply andb_true_iff in Hw as [Hc Hr].
  destruct (disp_alpha c Hc) as (D1 & D2 & D3 & D4 & D5 & D6 & D7 & D8).
  exists c, (run0 ++ suf). split; [reflexivity|]. split; [exact D8|].
  unfold next_tok. rewrite D1, D2, D3, D4, D5, D6, D7, Hc. cbn [orb andb].
  unfold lex_word. rewrite <- app_assoc.
  assert (Hn : negb (hd_is is_alnum (suf ++ X)) = true).
  { destruct suf as [|x [|y suf]].
    - simpl in *. rewrite !onhd_hd in Hst. apply andb_true_iff in Hst as [_ Hst]. exact Hst.
    - simpl. destruct (is_rem (c :: run0) || is_dat (c :: run0)).
      + simpl in Hs. rewrite andb_true_r in Hs. apply Z.eqb_eq in Hs. subst x. reflexivity.
      + simpl in Hs. now rewrite (suffix_not_alnum _ Hs).
    - destruct (is_rem (c :: run0) || is_dat (c :: run0)); simpl in Hs;
        [rewrite andb_false_r in Hs|]; discriminate. }
  rewrite (span_app _ _ _ Hr Hn).
  destruct (is_rem (c :: run0) || is_dat (c :: run0)) eqn:K.
  - apply str_eqb_eq in Hs. subst suf. cbn [app hd_is]. unfold is_dollar.
    replace (36 =? 36) with true by reflexivity. cbn [negb]. rewrite !andb_false_r.
    reflexivity.
  - apply orb_false_iff in K as [K1 K2]. rewrite K1, K2. cbn [andb].
    rewrite take_suffix_app; [reflexivity | exact Hs |].
    intro Hnil. destruct suf; [|discriminate]. simpl in Hst. rewrite !onhd_hd in Hst.
    apply andb_true_iff in Hst as [Hst _]. exact Hst.
Qed.

Lemma spec_num run ext suf X :
  tok_ok (TNum run ext suf) = true -> stops (TNum run ext suf) (hd_error X) = true ->
  spec_goal (TNum run ext suf) X.
Proof.
  cbn [tok_ok stops]. intros Hok Hst.
  destruct run as [|c run0]; [discriminate|].
  apply andb_true_iff in Hok as [Hok Hsuf]. apply andb_true_iff in Hok as [Hok Hext].
  apply andb_true_iff in Hok as [Hc Hr].
  assert (Hc' : (is_digit c || (c =? 46)) = true).
  { destruct (is_digit c); [reflexivity|]. simpl in *. now apply andb_true_iff in Hc as [-> _]. }
  destruct (disp_numstart c Hc') as (D1 & D2 & D3 & D4 & D5).
  exists c, (run0 ++ ext ++ suf). split; [reflexivity|]. split; [exact D5|].
  unfold next_tok. rewrite D1, D2, D3, D4. rewrite <- !app_assoc.
  assert (Hcond : (is_digit c || ((c =? 46) && hd_is is_digit (run0 ++ ext ++ suf ++ X))) = true).
  { destruct (is_digit c); [reflexivity|]. simpl in *. apply andb_true_iff in Hc as [H1 H2].
    rewrite H1. simpl. destruct run0; [discriminate|]. exact H2. }
  rewrite Hcond. unfold lex_num.
  (* what follows the suffix-less part *)
  assert (Hsx : is_nil suf = true -> forall q, negb (hd_is q (suf ++ X)) = onhd q (hd_error X)).
  { intros Hn q. destruct suf; [|discriminate]. simpl. now rewrite onhd_hd. }
  assert (Hsuf1 : forall x, suf = [x] -> is_numsuffix x = true).
  { intros x ->. exact Hsuf. }
  destruct ext as [|sg run2].
  - (* no exponent extension *)
    assert (Hn : negb (hd_is is_numch (suf ++ X)) = true).
    { destruct suf as [|x [|y suf]]; [| |discriminate].
      - simpl in *. rewrite onhd_hd in Hst. apply andb_true_iff in Hst as [_ Hst].
        apply andb_true_iff in Hst as [Hst _]. rewrite onhd_hd in Hst. exact Hst.
      - simpl. now rewrite (numsuffix_not_numch _ Hsuf). }
    cbn [app]. rewrite (span_app _ _ _ Hr Hn).
    destruct (suf ++ X) as [|sg r'] eqn:EX.
    { apply app_eq_nil in EX as [-> ->]. reflexivity. }
    assert (Hs : (is_sign sg && ends_exp (c :: run0)) = false).
    { destruct suf as [|x [|y suf]]; [| |discriminate].
      - simpl in EX. subst X. simpl in Hst. apply andb_true_iff in Hst as [_ Hst].
        apply andb_true_iff in Hst as [_ Hst]. apply negb_true_iff in Hst.
        now rewrite andb_comm.
      - simpl in EX. inversion EX; subst. now rewrite (numsuffix_not_sign _ Hsuf). }
    rewrite Hs. rewrite <- EX.
    rewrite take_suffix_app; [reflexivity | exact Hsuf |].
    intro Hnil. rewrite <- onhd_hd. destruct suf; [|discriminate]. simpl in Hst.
    now apply andb_true_iff in Hst as [Hst _].
  - (* exponent sign and digits *)
    apply andb_true_iff in Hext as [Hext Hr2]. apply andb_true_iff in Hext as [Hsg Hee].
    assert (Hn : negb (hd_is is_numch ((sg :: run2) ++ suf ++ X)) = true).
    { simpl. now rewrite (sign_not_numch _ Hsg). }
    rewrite (span_app _ _ _ Hr Hn). cbn [app]. rewrite Hsg, Hee. cbn [andb].
    assert (Hn2 : negb (hd_is is_alnum (suf ++ X)) = true).
    { destruct suf as [|x [|y suf]]; [| |discriminate].
      - simpl in *. rewrite onhd_hd in Hst. apply andb_true_iff in Hst as [_ Hst].
        rewrite onhd_hd in Hst. exact Hst.
      - simpl. now rewrite (numsuffix_not_alnum _ Hsuf). }
    rewrite (span_app _ _ _ Hr2 Hn2).
    rewrite take_suffix_app; [reflexivity | exact Hsuf |].
    intro Hnil. rewrite <- onhd_hd. destruct suf; [|discriminate]. simpl in Hst.
    now apply andb_true_iff in Hst as [Hst _].
Qed.

Lemma spec_hex run suf X :
  tok_ok (THex run suf) = true -> stops (THex run suf) (hd_error X) = true ->
  spec_goal (THex run suf) X.
Proof.
  cbn [tok_ok stops]. intros Hok Hst.
  apply andb_true_iff in Hok as [Hok Hsuf]. apply andb_true_iff in Hok as [Hh Hr].
  exists 38, (run ++ suf). split; [reflexivity|]. split; [reflexivity|].
  unfold next_tok. rewrite <- app_assoc.
  replace (38 =? 10) with false by reflexivity. replace (38 =? 34) with false by reflexivity.
  replace (38 =? 39) with false by reflexivity. replace (38 =? 58) with false by reflexivity.
  replace (is_digit 38) with false by reflexivity. replace (38 =? 46) with false by reflexivity.
  replace (38 =? 38) with true by reflexivity. cbn [orb andb].
  assert (Hh' : hd_is is_ho (run ++ suf ++ X) = true).
  { destruct run; [discriminate|]. exact Hh. }
  rewrite Hh'. unfold lex_hex.
  assert (Hn : negb (hd_is is_alnum (suf ++ X)) = true).
  { destruct suf as [|x [|y suf]]; [| |discriminate].
    - simpl in *. rewrite !onhd_hd in Hst. now apply andb_true_iff in Hst as [_ Hst].
    - simpl. now rewrite (numsuffix_not_alnum _ Hsuf). }
  rewrite (span_app _ _ _ Hr Hn).
  rewrite take_suffix_app; [reflexivity | exact Hsuf |].
  intro Hnil. destruct suf; [|discriminate]. simpl in *. rewrite !onhd_hd in Hst.
  now apply andb_true_iff in Hst as [Hst _].
Qed.

Lemma spec_str body closed X :
  tok_ok (TStr body closed) = true -> stops (TStr body closed) (hd_error X) = true ->
  spec_goal (TStr body closed) X.
Proof.
  cbn [tok_ok stops]. intros Hok Hst.
  assert (Hd : forall s, next_tok 34 s = lex_str s) by reflexivity.
  destruct closed.
  - exists 34, (body ++ [34]). split; [reflexivity|]. split; [reflexivity|].
    rewrite Hd. unfold lex_str. rewrite <- app_assoc. cbn [app].
    rewrite (span_app _ body (34 :: X) Hok eq_refl). reflexivity.
  - exists 34, body. split; [reflexivity|]. split; [reflexivity|].
    rewrite Hd. unfold lex_str. simpl in Hst.
    assert (Hn : negb (hd_is is_strch X) = true).
    { destruct X as [|x X]; [reflexivity|]. simpl in *. apply Z.eqb_eq in Hst. now subst x. }
    rewrite (span_app _ _ _ Hok Hn).
    destruct X as [|x X]; [reflexivity|]. simpl in Hst. apply Z.eqb_eq in Hst. now subst x.
Qed.

Lemma spec_data kw p X :
  tok_ok (TData kw p) = true -> stops (TData kw p) (hd_error X) = true ->
  spec_goal (TData kw p) X.
Proof.
  cbn [tok_ok stops]. intros Hok Hst.
  apply andb_true_iff in Hok as [Hok H6]. apply andb_true_iff in Hok as [Hok H5].
  apply andb_true_iff in Hok as [Hok H4]. apply andb_true_iff in Hok as [Hok H3].
  apply andb_true_iff in Hok as [Hw H2].
  destruct kw as [|c run0]; [discriminate|].
  pose proof Hw as Hw'. simpl in Hw'. apply andb_true_iff in Hw' as [Hc Hr].
  destruct (disp_alpha c Hc) as (D1 & D2 & D3 & D4 & D5 & D6 & D7 & D8).
  exists c, (run0 ++ p). split; [reflexivity|]. split; [exact D8|].
  unfold next_tok. rewrite D1, D2, D3, D4, D5, D6, D7, Hc. cbn [orb andb].
  unfold lex_word. rewrite <- app_assoc.
  assert (Hfol : forall q, (forall x, (x =? 10) = true -> q x = false) ->
                           (forall x, (x =? 58) = true -> q x = false) ->
                           hd_is q p = false -> hd_is q (p ++ X) = false).
  { intros q Q1 Q2 Hq. apply hd_is_app_or; [exact Hq|]. intros ->. simpl in Hst.
    destruct X as [|x X]; [reflexivity|]. simpl in *.
    apply orb_true_iff in Hst as [Hst|Hst]; [now apply Q1 | now apply Q2]. }
  assert (Hn : negb (hd_is is_alnum (p ++ X)) = true).
  { apply negb_true_iff. apply Hfol; [apply nl_not_alnum | apply colon_not_alnum |].
    now apply negb_true_iff in H6. }
  rewrite (span_app _ _ _ Hr Hn).
  assert (Hdl : hd_is is_dollar (p ++ X) = false).
  { apply Hfol; [intros x Hx; bz | intros x Hx; bz | now apply negb_true_iff in H5]. }
  rewrite Hdl. cbn [negb]. rewrite andb_true_r.
  apply negb_true_iff in H2. rewrite H2, H3. cbn [andb].
  rewrite scan_data_app; [reflexivity | exact H4 | exact Hst].
Qed.

Lemma spec_rem kw b X :
  tok_ok (TRem kw b) = true -> stops (TRem kw b) (hd_error X) = true ->
  spec_goal (TRem kw b) X.
Proof.
  cbn [tok_ok stops]. intros Hok Hst.
  apply andb_true_iff in Hok as [Hok H6]. apply andb_true_iff in Hok as [Hok H5].
  apply andb_true_iff in Hok as [Hok H4]. apply andb_true_iff in Hok as [Hw H3].
  destruct kw as [|c run0]; [discriminate|].
  pose proof Hw as Hw'. simpl in Hw'. apply andb_true_iff in Hw' as [Hc Hr].
  destruct (disp_alpha c Hc) as (D1 & D2 & D3 & D4 & D5 & D6 & D7 & D8).
  exists c, (run0 ++ b). split; [reflexivity|]. split; [exact D8|].
  unfold next_tok. rewrite D1, D2, D3, D4, D5, D6, D7, Hc. cbn [orb andb].
  unfold lex_word. rewrite <- app_assoc.
  assert (Hfol : forall q, (forall x, (x =? 10) = true -> q x = false) ->
                           hd_is q b = false -> hd_is q (b ++ X) = false).
  { intros q Q1 Hq. apply hd_is_app_or; [exact Hq|]. intros ->. now apply eol_not. }
  assert (Hn : negb (hd_is is_alnum (b ++ X)) = true).
  { apply negb_true_iff. apply Hfol; [apply nl_not_alnum | now apply negb_true_iff in H6]. }
  rewrite (span_app _ _ _ Hr Hn).
  assert (Hdl : hd_is is_dollar (b ++ X) = false).
  { apply Hfol; [intros x Hx; bz | now apply negb_true_iff in H5]. }
  rewrite Hdl. cbn [negb]. rewrite andb_true_r.
  rewrite H3. cbn [andb].
  rewrite span_app; [reflexivity | exact H4 | now apply eol_nhd_not_nl].
Qed.

Lemma spec_op o X :
  tok_ok (TOp o) = true -> stops (TOp o) (hd_error X) = true -> spec_goal (TOp o) X.
Proof.
  cbn [tok_ok stops]. intros Hok Hst.
  destruct o as [|c [|d [|e o]]]; try discriminate.
  - (* one character *)
    pose proof Hok as Hop. unfold op_start in Hok.
    repeat (apply andb_true_iff in Hok as [Hok ?]).
    repeat match goal with H : negb _ = true |- _ => apply negb_true_iff in H end.
    exists c, []. split; [reflexivity|]. split; [assumption|].
    unfold next_tok. cbn [app].
    repeat match goal with H : _ = false |- _ => rewrite H end.
    destruct (is_relch c) eqn:Hr.
    + destruct (disp_rel c Hr) as (_ & _ & _ & _ & _ & D6 & D7 & _ & _).
      rewrite D6, D7. cbn [orb andb]. unfold lex_rel.
      destruct X as [|d X]; [reflexivity|]. unfold onhd, ohd in Hst. cbn [hd_error] in Hst.
      apply negb_true_iff in Hst. now rewrite Hst.
    + assert (H46 : ((c =? 46) && hd_is is_digit X) = false).
      { destruct (c =? 46); [|reflexivity]. rewrite onhd_hd in Hst.
        apply negb_true_iff in Hst. now rewrite Hst. }
      assert (H38 : ((c =? 38) && hd_is is_ho X) = false).
      { destruct (c =? 46) eqn:E46.
        - apply Z.eqb_eq in E46. subst c. reflexivity.
        - destruct (c =? 38); [|reflexivity]. rewrite onhd_hd in Hst.
          apply negb_true_iff in Hst. now rewrite Hst. }
      rewrite H46, H38. reflexivity.
  - (* two-character comparison operator *)
    apply andb_true_iff in Hok as [Hok Hne]. apply andb_true_iff in Hok as [Hc Hd].
    destruct (disp_rel c Hc) as (D1 & D2 & D3 & D4 & D5 & D6 & D7 & D8 & D9).
    exists c, [d]. split; [reflexivity|]. split; [exact D9|].
    unfold next_tok. rewrite D1, D2, D3, D4, D5, D6, D7, D8, Hc. cbn [orb andb app].
    unfold lex_rel. now rewrite Hd, Hne.
Qed.

Theorem next_tok_spec t X :
  tok_ok t = true -> stops t (hd_error X) = true ->
  exists c u, text t = c :: u /\ is_blank c = false /\ next_tok c (u ++ X) = (t, X).
Proof.
  intros Hok Hst. fold (spec_goal t X). destruct t.
  - now apply spec_word.
  - now apply spec_num.
  - now apply spec_hex.
  - now apply spec_str.
  - now apply spec_op.
  - exists 58, []. repeat split; reflexivity.
  - now apply spec_data.
  - now apply spec_rem.
  - (* apostrophe comment *)
    cbn [tok_ok stops] in *. exists 39, body. split; [reflexivity|]. split; [reflexivity|].
    assert (Hd : forall s, next_tok 39 s = let (b, r) := span not_nl s in (TApos b, r))
      by reflexivity.
    rewrite Hd. rewrite span_app; [reflexivity | exact Hok | now apply eol_nhd_not_nl].
  - exists 10, []. repeat split; reflexivity.
Qed.

Lemma tok_ok_text t : tok_ok t = true -> exists c u, text t = c :: u /\ is_blank c = false.
Proof.
  intro H. destruct t; cbn [tok_ok text] in *.
  - destruct run as [|c r]; [discriminate|]. exists c, (r ++ suf). split; [reflexivity|].
    apply andb_true_iff in H as [H _]. simpl in H. apply andb_true_iff in H as [H _].
    now apply alpha_not_blank.
  - destruct run as [|c r]; [discriminate|]. exists c, (r ++ ext ++ suf). split; [reflexivity|].
    repeat (apply andb_true_iff in H as [H ?]).
    assert (Hc' : (is_digit c || (c =? 46)) = true).
    { destruct (is_digit c); [reflexivity|]. simpl in *. now apply andb_true_iff in H as [-> _]. }
    now destruct (disp_numstart c Hc') as (_ & _ & _ & _ & D5).
  - eexists _, _. split; reflexivity.
  - destruct closed; eexists _, _; split; reflexivity.
  - destruct o as [|c [|d [|e o]]]; try discriminate.
    + exists c, []. split; [reflexivity|]. unfold op_start in H.
      repeat (apply andb_true_iff in H as [H ?]). now apply negb_true_iff in H.
    + exists c, [d]. split; [reflexivity|]. apply andb_true_iff in H as [H _].
      apply andb_true_iff in H as [H _]. now destruct (disp_rel c H) as (_&_&_&_&_&_&_&_&D9).
  - eexists _, _. split; reflexivity.
  - destruct kw as [|c r]; [discriminate|]. exists c, (r ++ payload). split; [reflexivity|].
    repeat (apply andb_true_iff in H as [H ?]). now apply alpha_not_blank.
  - destruct kw as [|c r]; [discriminate|]. exists c, (r ++ body). split; [reflexivity|].
    repeat (apply andb_true_iff in H as [H ?]). now apply alpha_not_blank.
  - eexists _, _. split; reflexivity.
  - eexists _, _. split; reflexivity.
Qed.
