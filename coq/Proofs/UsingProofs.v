(* C19 - PRINT USING: lemmas relating the model of the code (Models/Using.v,
   the USING branch of Models/Print.v) to the specification
   (Models/UsingSpec.v). *)
From Coq Require Import ZArith List Bool Lia ZifyBool.
From QV Require Import Sx Strs Fl Dec Cell Using UsingSpec Print UsingDigits PrintProofs.
Import ListNotations.
Open Scope Z_scope.

(* ================================================================== *)
(* 1. the tail of format_number: sign, padding, trimming, '%'          *)
(* ================================================================== *)

Definition finish (w : Z) (o : numopts) (neg : bool) (body : str) : str :=
  let '(at_end, sign_type) := match o_sign o with Some p => p | None => (false, ch_minus) end in
  let sign := if sign_type =? ch_minus then (if neg then ch_minus else ch_space)
              else (if neg then ch_minus else ch_plus) in
  let r1 := if at_end then
              (if sign =? ch_minus then body ++ [sign] else ch_space :: body ++ [sign])
            else sign :: body in
  let r2 := if zlen r1 <? w then spaces (Z.to_nat (w - zlen r1)) ++ r1 else r1 in
  let r3 := if (sign =? ch_space) && (zlen r2 >? w) then
              (if at_end then removelast r2 else tl r2)
            else r2 in
  if zlen r3 >? w then ch_pct :: r3 else r3.

Definition code_prec (w : Z) (o : numopts) : option Z :=
  match o_decpt o with Some d => Some (w - d) | None => None end.

Lemma render_num_finish w o v :
  (forall s, v <> UStr s) ->
  render_num w o v =
  match py_format_num v (o_comma o) (code_prec w o) with
  | UOk body => UOk (finish w o (uval_neg v) body)
  | UCrash k => UCrash k
  end.
Proof.
  intro H. destruct v as [z|f|s]; [| | now destruct (H s)];
    unfold render_num, finish; fold (code_prec w o);
    (destruct (py_format_num _ (o_comma o) (code_prec w o)); [|reflexivity]);
    destruct (match o_sign o with Some p => p | None => (false, ch_minus) end); reflexivity.
Qed.

Lemma py_format_num_ok v comma prec :
  (forall s, v <> UStr s) -> exists body, py_format_num v comma prec = UOk body.
Proof.
  intro H. destruct v as [z|f|s]; [| | now destruct (H s)]; cbn [py_format_num];
    destruct prec; eauto.
Qed.

Lemma zlen_app a b : zlen (a ++ b) = zlen a + zlen b.
Proof. unfold zlen. rewrite app_length. lia. Qed.

Lemma zlen_cons (x : Z) l : zlen (x :: l) = 1 + zlen l.
Proof. unfold zlen. cbn [length]. lia. Qed.

Lemma zlen_spaces n : zlen (spaces n) = Z.of_nat n.
Proof. unfold zlen. now rewrite spaces_length. Qed.

Lemma zlen_nonneg s : 0 <= zlen s.
Proof. unfold zlen. lia. Qed.

Lemma spaces_shift n l : spaces n ++ ch_space :: l = spaces (S n) ++ l.
Proof.
  unfold spaces. induction n as [|n IH]; [reflexivity|].
  cbn [repeat app]. now rewrite IH.
Qed.

(* padding and marking of a text whose sign character is not a blank *)
Lemma pad_mark w r1 :
  let r2 := if zlen r1 <? w then spaces (Z.to_nat (w - zlen r1)) ++ r1 else r1 in
  (if zlen r2 >? w then ch_pct :: r2 else r2)
  = if zlen r1 <=? w then spaces (Z.to_nat (w - zlen r1)) ++ r1 else ch_pct :: r1.
Proof.
  cbv zeta. destruct (Z.ltb_spec (zlen r1) w) as [H|H].
  - rewrite zlen_app, zlen_spaces, Z2Nat.id by lia.
    destruct (Z.gtb_spec (w - zlen r1 + zlen r1) w); [lia|].
    destruct (Z.leb_spec (zlen r1) w); [reflexivity | lia].
  - destruct (Z.gtb_spec (zlen r1) w); destruct (Z.leb_spec (zlen r1) w); try lia; try reflexivity.
    replace (w - zlen r1) with 0 by lia. reflexivity.
Qed.

(* a leading blank sign: the blank is padding and is dropped when there is no room *)
Lemma pad_mark_blank w ds :
  let r1 := ch_space :: ds in
  let r2 := if zlen r1 <? w then spaces (Z.to_nat (w - zlen r1)) ++ r1 else r1 in
  let r3 := if zlen r2 >? w then tl r2 else r2 in
  (if zlen r3 >? w then ch_pct :: r3 else r3)
  = if zlen ds <=? w then spaces (Z.to_nat (w - zlen ds)) ++ ds else ch_pct :: ds.
Proof.
  cbv zeta. rewrite zlen_cons.
  destruct (Z.ltb_spec (1 + zlen ds) w) as [H|H].
  - rewrite zlen_app, zlen_spaces, zlen_cons, Z2Nat.id by lia.
    destruct (Z.gtb_spec (w - (1 + zlen ds) + (1 + zlen ds)) w); [lia|].
    rewrite zlen_app, zlen_spaces, zlen_cons, Z2Nat.id by lia.
    destruct (Z.gtb_spec (w - (1 + zlen ds) + (1 + zlen ds)) w); [lia|].
    destruct (Z.leb_spec (zlen ds) w); [|lia].
    rewrite spaces_shift. f_equal. f_equal. lia.
  - rewrite zlen_cons.
    destruct (Z.gtb_spec (1 + zlen ds) w) as [G|G].
    + cbn [tl]. destruct (Z.gtb_spec (zlen ds) w); destruct (Z.leb_spec (zlen ds) w); try lia;
        try reflexivity.
      replace (w - zlen ds) with 0 by lia. reflexivity.
    + rewrite zlen_cons. destruct (Z.gtb_spec (1 + zlen ds) w); [lia|].
      destruct (Z.leb_spec (zlen ds) w); [|lia].
      replace (w - zlen ds) with 1 by lia. reflexivity.
Qed.

(* trailing sign, value not negative, and room for the extra blank the code adds *)
Lemma pad_mark_trailing w ds sc (b : bool) :
  zlen ds + 2 <= w ->
  let r1 := ch_space :: ds ++ [sc] in
  let r2 := if zlen r1 <? w then spaces (Z.to_nat (w - zlen r1)) ++ r1 else r1 in
  let r3 := if b && (zlen r2 >? w) then removelast r2 else r2 in
  (if zlen r3 >? w then ch_pct :: r3 else r3)
  = spaces (Z.to_nat (w - zlen (ds ++ [sc]))) ++ ds ++ [sc].
Proof.
  intro Hw. cbv zeta. rewrite zlen_cons, zlen_app. change (zlen [sc]) with 1.
  destruct (Z.ltb_spec (1 + (zlen ds + 1)) w) as [H|H].
  - rewrite zlen_app, zlen_spaces, zlen_cons, zlen_app, Z2Nat.id by lia. change (zlen [sc]) with 1.
    destruct (Z.gtb_spec (w - (1 + (zlen ds + 1)) + (1 + (zlen ds + 1))) w); [lia|].
    rewrite andb_false_r.
    rewrite zlen_app, zlen_spaces, zlen_cons, zlen_app, Z2Nat.id by lia. change (zlen [sc]) with 1.
    destruct (Z.gtb_spec (w - (1 + (zlen ds + 1)) + (1 + (zlen ds + 1))) w); [lia|].
    rewrite spaces_shift. f_equal. f_equal. lia.
  - rewrite zlen_cons, zlen_app. change (zlen [sc]) with 1.
    destruct (Z.gtb_spec (1 + (zlen ds + 1)) w); [lia|]. rewrite andb_false_r.
    rewrite zlen_cons, zlen_app. change (zlen [sc]) with 1.
    destruct (Z.gtb_spec (1 + (zlen ds + 1)) w); [lia|].
    replace (w - (zlen ds + 1)) with 1 by lia. reflexivity.
Qed.

(* ================================================================== *)
(* 2. one numeric field inside the guard: the code prints what the      *)
(*    specification demands                                            *)
(* ================================================================== *)

Lemma app_nil_both {A} (a b : list A) : a ++ b = [] -> a = [] /\ b = [].
Proof. apply app_eq_nil. Qed.

Lemma is_negative_uval_neg v : is_negative v = uval_neg v.
Proof.
  destruct v as [z|[|n|n m e]|s]; try reflexivity. cbn.
  destruct n; [|reflexivity]. cbn. destruct (Z.leb_spec m 0); destruct (Z.ltb_spec 0 m); try lia; reflexivity.
Qed.

Record guard_facts (w : Z) (o : numopts) (v : uval) : Prop := {
  gf_wf : opts_wf o = true;
  gf_point : has_point o = true -> code_decimals w o = o_frac o /\ 1 <= o_frac o;
  gf_val : match v with
           | UInt z => Z.abs z < 2 ^ 53
           | UFlt (FFin _ _ _) => has_point o = true
           | _ => False
           end;
  gf_tight : fst (sign_req o) = true -> is_negative v = false ->
             forall n, scaled_round v (o_frac o) = Some n ->
             zlen (spec_digits (o_comma o) (has_point o) (o_frac o) n) + 2 <= w;
}.

Lemma field_guard_facts w o v : field_reasons w o v = [] -> guard_facts w o v.
Proof.
  intro H.
  assert (Hcommon :
    (if opts_wf o then [] else [r_malformed]) ++
    (match v with
     | UFlt _ => if has_point o then [] else [r_float_no_point]
     | UInt z => if Z.abs z <? 2 ^ 53 then [] else [r_int_too_big]
     | _ => []
     end)
    ++ (if has_point o && negb (code_decimals w o =? o_frac o)
        then (if fst (sign_req o) then [r_trailing_sign_decimal] else [r_comma_after_point])
        else [])
    ++ (if has_point o && (o_frac o =? 0) && (code_decimals w o =? 0)
        then [r_point_no_decimals] else [])
    ++ (if fst (sign_req o) && negb (is_negative v) then
          match scaled_round v (o_frac o) with
          | Some n =>
            if zlen (spec_digits (o_comma o) (has_point o) (o_frac o) n) + 2 <=? w
            then [] else [r_trailing_sign_tight]
          | None => []
          end
        else []) = [] /\
    match v with UInt _ | UFlt (FFin _ _ _) => True | _ => False end).
  { destruct v as [z|[|n|n m e]|s]; cbn [field_reasons] in H; try discriminate; split; auto. }
  destruct Hcommon as [Hc Hv].
  apply app_nil_both in Hc as [H1 Hc]. apply app_nil_both in Hc as [H2 Hc].
  apply app_nil_both in Hc as [H3 Hc]. apply app_nil_both in Hc as [H4 H5].
  assert (Hwf : opts_wf o = true) by (destruct (opts_wf o); [reflexivity | discriminate]).
  split.
  - exact Hwf.
  - intro Hp. rewrite Hp in H3, H4. cbn [andb] in H3, H4.
    destruct (Z.eqb_spec (code_decimals w o) (o_frac o)) as [E|E];
      [|cbn in H3; destruct (fst (sign_req o)); discriminate].
    split; [exact E|].
    unfold opts_wf in Hwf. apply andb_true_iff in Hwf as [Hwf _]. apply andb_true_iff in Hwf as [Hf _].
    apply Z.leb_le in Hf.
    destruct (Z.eqb_spec (o_frac o) 0) as [E0|E0]; [|lia].
    rewrite E, E0 in H4. cbn in H4. discriminate.
  - destruct v as [z|[|n|n m e]|s]; try contradiction.
    + destruct (Z.ltb_spec (Z.abs z) (2 ^ 53)); [assumption | discriminate].
    + destruct (has_point o); [reflexivity | discriminate].
  - intros Hend Hneg n Hn. rewrite Hend, Hneg, Hn in H5. cbn [andb negb] in H5.
    destruct (Z.leb_spec (zlen (spec_digits (o_comma o) (has_point o) (o_frac o) n) + 2) w);
      [assumption | discriminate].
Qed.

Lemma opts_wf_frac o : opts_wf o = true -> has_point o = false -> o_frac o = 0.
Proof.
  unfold opts_wf. intros H Hp. apply andb_true_iff in H as [H _]. apply andb_true_iff in H as [_ H].
  rewrite Hp in H. cbn in H. now apply Z.eqb_eq in H.
Qed.

Lemma opts_wf_sign o : opts_wf o = true ->
  snd (sign_req o) = ch_plus \/ snd (sign_req o) = ch_minus.
Proof.
  unfold opts_wf. intro H. apply andb_true_iff in H as [_ H]. apply orb_true_iff in H as [H|H];
    apply Z.eqb_eq in H; auto.
Qed.

Lemma has_point_prec w o : has_point o = true -> code_prec w o = Some (code_decimals w o).
Proof. unfold has_point, code_prec, code_decimals. destruct (o_decpt o); [reflexivity | discriminate]. Qed.

Lemma no_point_prec w o : has_point o = false -> code_prec w o = None.
Proof. unfold has_point, code_prec. destruct (o_decpt o); [discriminate | reflexivity]. Qed.

Lemma nat_digits_digits z : 0 <= z -> forallb is_digit (nat_digits z) = true.
Proof. apply nat_digits_all_digits. Qed.

Lemma py_fixed_digits_Z n m e k : 1 <= k ->
  py_fixed (FFin n m e) k =
  nat_digits (fixed_scaled m e k / 10 ^ k) ++ [ch_dot]
  ++ frac_digits (Z.to_nat k) (fixed_scaled m e k mod 10 ^ k).
Proof.
  intro Hk. pose proof (py_fixed_digits n m e (Z.to_nat k) ltac:(lia)) as P.
  rewrite Z2Nat.id in P by lia. exact P.
Qed.

(* the digits Python's format() produces are the digits of the specification *)
Lemma body_spec_digits w o v :
  guard_facts w o v ->
  exists n, scaled_round v (o_frac o) = Some n /\
            py_format_num v (o_comma o) (code_prec w o)
            = UOk (spec_digits (o_comma o) (has_point o) (o_frac o) n).
Proof.
  intros [Hwf Hpt Hval _].
  destruct (has_point o) eqn:Hp.
  - (* a decimal point: '{:[,].kf}' *)
    destruct (Hpt eq_refl) as [Ecd Hk].
    rewrite (has_point_prec w o Hp), Ecd.
    set (k := o_frac o) in *.
    assert (Ek : Z.of_nat (Z.to_nat k) = k) by lia.
    assert (Hk1 : (1 <= Z.to_nat k)%nat) by lia.
    assert (Hfix : forall n m e,
      (if o_comma o then group_int_part (py_fixed (FFin n m e) k) else py_fixed (FFin n m e) k)
      = spec_digits (o_comma o) true k (fixed_scaled m e k)).
    { intros n m e. rewrite py_fixed_digits_Z by exact Hk. unfold spec_digits.
      pose proof (fixed_scaled_nonneg m e k) as HD.
      assert (Hip : 0 <= fixed_scaled m e k / 10 ^ k).
      { apply Z.div_pos; [exact HD|]. apply Z.pow_pos_nonneg; lia. }
      destruct (o_comma o); [|reflexivity].
      rewrite group_int_part_point by (now apply nat_digits_digits).
      rewrite group3_spec by exact Hip. reflexivity. }
    destruct v as [z|[|n|n m e]|s]; try contradiction.
    + (* integer value: format() converts to float first, exactly *)
      exists (Z.abs z * 10 ^ k). split; [reflexivity|].
      cbn [py_format_num]. f_equal.
      destruct (Z.eq_dec (Z.abs z) 0) as [E0|E0].
      * rewrite E0. change (of_Z 0) with (FFin false 0 0). rewrite Hfix.
        rewrite fixed_scaled_zero by lia. reflexivity.
      * destruct (of_Z_exact (Z.abs z) ltac:(lia)) as (m & e & Eo & Hm & He & Hv).
        rewrite Eo, Hfix. rewrite (fixed_scaled_int m e (Z.abs z) k) by lia. reflexivity.
    + exists (fixed_scaled m e k). split; [apply fixed_scaled_spec|].
      cbn [py_format_num fabs]. f_equal. apply Hfix.
  - (* no decimal point: only integers are inside the guard *)
    rewrite (no_point_prec w o Hp).
    pose proof (opts_wf_frac o Hwf Hp) as Ef. rewrite Ef.
    destruct v as [z|[|n|n m e]|s]; try contradiction; [|discriminate].
    exists (Z.abs z * 10 ^ 0). split; [reflexivity|].
    cbn [py_format_num]. f_equal. unfold spec_digits.
    change (10 ^ 0) with 1. rewrite Z.mul_1_r, Z.div_1_r.
    destruct (o_comma o); [|reflexivity].
    apply group3_spec. lia.
Qed.

Lemma finish_spec w o neg ds :
  opts_wf o = true ->
  (fst (sign_req o) = true -> neg = false -> zlen ds + 2 <= w) ->
  let sg := if neg then [ch_minus]
            else if snd (sign_req o) =? ch_plus then [ch_plus]
            else if fst (sign_req o) then [ch_space] else [] in
  let t := if fst (sign_req o) then ds ++ sg else sg ++ ds in
  finish w o neg ds = if zlen t <=? w then spaces (Z.to_nat (w - zlen t)) ++ t else ch_pct :: t.
Proof.
  intros Hwf Htight. pose proof (opts_wf_sign o Hwf) as Hs.
  unfold finish. unfold sign_req in *.
  destruct (match o_sign o with Some p => p | None => (false, ch_minus) end) as [at_end st].
  cbn [fst snd] in *. cbv zeta.
  destruct Hs as [-> | ->].
  - (* '+' requested *)
    change (ch_plus =? ch_minus) with false. change (ch_plus =? ch_plus) with true. cbv iota.
    destruct neg.
    + change (ch_minus =? ch_minus) with true. change (ch_minus =? ch_space) with false.
      cbn [andb]. destruct at_end; cbv iota; apply pad_mark.
    + change (ch_plus =? ch_minus) with false. change (ch_plus =? ch_space) with false.
      cbn [andb]. destruct at_end; cbv iota.
      * specialize (Htight eq_refl eq_refl).
        pose proof (pad_mark_trailing w ds ch_plus false Htight) as P. cbv zeta in P.
        etransitivity; [exact P|].
        destruct (Z.leb_spec (zlen (ds ++ [ch_plus])) w) as [L|L]; [reflexivity|].
        rewrite zlen_app in L. change (zlen [ch_plus]) with 1 in L. lia.
      * apply pad_mark.
  - (* '-' requested (or no sign character in the field) *)
    change (ch_minus =? ch_minus) with true. change (ch_minus =? ch_plus) with false. cbv iota.
    destruct neg.
    + change (ch_minus =? ch_minus) with true. change (ch_minus =? ch_space) with false.
      cbn [andb]. destruct at_end; cbv iota; apply pad_mark.
    + change (ch_space =? ch_minus) with false. change (ch_space =? ch_space) with true.
      cbn [andb]. destruct at_end; cbv iota.
      * specialize (Htight eq_refl eq_refl).
        pose proof (pad_mark_trailing w ds ch_space true Htight) as P. cbv zeta in P.
        etransitivity; [exact P|].
        destruct (Z.leb_spec (zlen (ds ++ [ch_space])) w) as [L|L]; [reflexivity|].
        rewrite zlen_app in L. change (zlen [ch_space]) with 1 in L. lia.
      * cbn [app]. apply pad_mark_blank.
Qed.

(* C19 num_field, guarded: inside the guard the code prints exactly the text
   the specification demands *)
Lemma num_field_partial w o v :
  field_guard w o v = true ->
  exists t, render_num w o v = UOk t /\ spec_field w o v = Some t.
Proof.
  intro Hg. unfold field_guard in Hg.
  destruct (field_reasons w o v) eqn:Hr; [|discriminate].
  pose proof (field_guard_facts w o v Hr) as G.
  destruct (body_spec_digits w o v G) as (n & Hn & Hbody).
  assert (Hns : forall s, v <> UStr s).
  { intros s ->. destruct G as [_ _ Hv _]. exact Hv. }
  rewrite (render_num_finish w o v Hns), Hbody.
  unfold spec_field, spec_core. rewrite Hn.
  set (ds := spec_digits (o_comma o) (has_point o) (o_frac o) n).
  eexists; split; [reflexivity|]. f_equal.
  rewrite <- is_negative_uval_neg.
  rewrite (finish_spec w o (is_negative v) ds (gf_wf _ _ _ G)).
  - cbv zeta. unfold spec_sign.
    destruct (sign_req o) as [at_end st]. cbn [fst snd]. reflexivity.
  - intros He Hneg. exact (gf_tight _ _ _ G He Hneg n Hn).
Qed.

(* ================================================================== *)
(* 3. the scanner on formats without fields                            *)
(* ================================================================== *)

Lemma scan_literal : forall n s, (length s <= n)%nat -> forall fuel nf t,
  (2 * length s < fuel)%nat -> literal_text s = Some t ->
  scan fuel s nf [] false = Some (rev (flush (rev t ++ nf) [])).
Proof.
  induction n as [|n IH]; intros s Hn fuel nf t Hf Ht.
  - destruct s; [|cbn in Hn; lia]. cbn in Ht. inversion Ht; subst.
    destruct fuel; reflexivity.
  - destruct s as [|c r].
    + cbn in Ht. inversion Ht; subst. destruct fuel; reflexivity.
    + destruct fuel as [|f]; [cbn in Hf; lia|].
      cbn [literal_text] in Ht. cbn [scan]. cbv zeta.
      destruct (Z.eqb_spec c ch_us) as [->|Hus].
      * (* "_d": d is copied *)
        destruct r as [|d r']; [discriminate|].
        destruct (literal_text r') as [t'|] eqn:Et; [|discriminate].
        cbn in Ht. inversion Ht; subst t.
        change ((ch_us =? ch_hash) || is_pm ch_us) with false. cbn [andb].
        change ((ch_us =? ch_amp) || (ch_us =? ch_bang)) with false. cbv iota.
        change (ch_us =? ch_us) with true. cbv iota.
        rewrite (IH r' ltac:(cbn in Hn; lia) f (d :: nf) t' ltac:(cbn in Hf; lia) Et).
        cbn [rev]. rewrite <- app_assoc. reflexivity.
      * destruct (is_special c) eqn:Es; [discriminate|].
        destruct (literal_text r) as [t'|] eqn:Et; [|discriminate].
        cbn in Ht. inversion Ht; subst t.
        unfold is_special in Es.
        apply orb_false_iff in Es as [Es _]. apply orb_false_iff in Es as [Es E5].
        apply orb_false_iff in Es as [Es E4]. apply orb_false_iff in Es as [Es E3].
        apply orb_false_iff in Es as [E1 E2].
        unfold is_pm. rewrite E1, E2, E3, E4, E5. cbn [orb andb]. cbv iota.
        rewrite (IH r ltac:(cbn in Hn; lia) f (c :: nf) t' ltac:(cbn in Hf; lia) Et).
        cbn [rev]. rewrite <- app_assoc. reflexivity.
Qed.

(* literal characters are copied unchanged, "_c" stands for c: the format is
   one literal part (no part at all when it is empty) *)
Lemma scan_literal_copy s t :
  literal_text s = Some t ->
  parse_format s = Some (match t with [] => [] | _ => [PNon t] end).
Proof.
  intro H. unfold parse_format.
  rewrite (scan_literal (length s) s (le_n _) (S (2 * length s)) [] t ltac:(lia) H).
  rewrite app_nil_r. unfold flush.
  destruct t as [|x t']; [reflexivity|].
  destruct (rev (x :: t')) eqn:E.
  - apply (f_equal (@length Z)) in E. rewrite rev_length in E. discriminate.
  - rewrite <- E, rev_involutive. reflexivity.
Qed.

Lemma literal_text_plain s :
  forallb (fun c => negb (is_special c)) s = true -> literal_text s = Some s.
Proof.
  induction s as [|c r IH]; intro H; [reflexivity|].
  cbn [forallb] in H. apply andb_true_iff in H as [Hc Hr].
  cbn [literal_text]. apply negb_true_iff in Hc.
  destruct (Z.eqb_spec c ch_us) as [->|_]; [discriminate|].
  rewrite Hc, (IH Hr). reflexivity.
Qed.

(* ================================================================== *)
(* 4. the whole format: values left to right, totality, specification  *)
(* ================================================================== *)

Fixpoint nfields (parts : list upart) : Z :=
  match parts with
  | [] => 0
  | PNon _ :: r => nfields r
  | _ :: r => 1 + nfields r
  end.

Lemma nfields_nonneg parts : 0 <= nfields parts.
Proof. induction parts as [|[s|c|w o] r IH]; cbn [nfields]; lia. Qed.

Lemma nfields_le_length parts : nfields parts <= zlen (map (fun _ => 0) parts).
Proof.
  unfold zlen. induction parts as [|[s|c|w o] r IH]; cbn [nfields map length]; lia.
Qed.

(* one piece of text per part; the j-th field takes the j-th value *)
Fixpoint pieces (parts : list upart) (vals : list uval) : option (list str) :=
  match parts with
  | [] => match vals with [] => Some [] | _ => None end
  | PNon s :: r => option_map (cons s) (pieces r vals)
  | PStrF c :: r =>
    match vals with
    | UStr s :: vs =>
      if c =? ch_bang then
        match s with
        | d :: _ => option_map (cons [d]) (pieces r vs)
        | [] => None
        end
      else option_map (cons s) (pieces r vs)
    | _ => None
    end
  | PNumF w o :: r =>
    match vals with
    | v :: vs =>
      match render_num w o v with
      | UOk t => option_map (cons t) (pieces r vs)
      | UCrash _ => None
      end
    | [] => None
    end
  end.

Lemma values_left_to_right : forall parts n vals i out s,
  render parts n vals i out = UOk s ->
  exists ps, pieces parts vals = Some ps /\ s = out ++ concat ps.
Proof.
  induction parts as [|p r IH]; intros n vals i out s H.
  - destruct vals; [|discriminate]. cbn in H. inversion H; subst.
    exists []. split; [reflexivity|]. cbn. now rewrite app_nil_r.
  - destruct p as [t|c|w o]; cbn [render] in H.
    + destruct (IH _ _ _ _ _ H) as (ps & Hp & Hs). exists (t :: ps).
      cbn [pieces]. rewrite Hp. split; [reflexivity|]. cbn [concat]. now rewrite Hs, app_assoc.
    + destruct (i >=? n); [discriminate|].
      destruct vals as [|[z|f|sv] vs]; try discriminate.
      cbn [pieces]. destruct (c =? ch_bang).
      * destruct sv as [|d sv']; [discriminate|].
        destruct (IH _ _ _ _ _ H) as (ps & Hp & Hs). exists ([d] :: ps). rewrite Hp.
        split; [reflexivity|]. cbn [concat]. now rewrite Hs, app_assoc.
      * destruct (IH _ _ _ _ _ H) as (ps & Hp & Hs). exists (sv :: ps). rewrite Hp.
        split; [reflexivity|]. cbn [concat]. now rewrite Hs, app_assoc.
    + destruct (i >=? n); [discriminate|].
      destruct vals as [|v vs]; [discriminate|].
      cbn [pieces]. destruct (render_num w o v) as [t|k]; [|discriminate].
      destruct (IH _ _ _ _ _ H) as (ps & Hp & Hs). exists (t :: ps). rewrite Hp.
      split; [reflexivity|]. cbn [concat]. now rewrite Hs, app_assoc.
Qed.

(* rendering a format in two halves: the second half starts with the values
   the first half did not use *)
Lemma render_app : forall p1 p2 n vals1 vals2 i out s1,
  render p1 n vals1 i out = UOk s1 ->
  render (p1 ++ p2) n (vals1 ++ vals2) i out = render p2 n vals2 (i + nfields p1) s1.
Proof.
  induction p1 as [|p r IH]; intros p2 n vals1 vals2 i out s1 H.
  - destruct vals1; [|discriminate]. cbn in H. inversion H; subst.
    cbn [app nfields]. now rewrite Z.add_0_r.
  - destruct p as [t|c|w o]; cbn [render app nfields] in *.
    + now apply IH.
    + destruct (i >=? n); [discriminate|].
      destruct vals1 as [|[z|f|sv] vs]; try discriminate. cbn [app].
      destruct (c =? ch_bang).
      * destruct sv as [|d sv']; [discriminate|]. rewrite (IH _ _ _ _ _ _ _ H). f_equal. lia.
      * rewrite (IH _ _ _ _ _ _ _ H). f_equal. lia.
    + destruct (i >=? n); [discriminate|].
      destruct vals1 as [|v vs]; [discriminate|]. cbn [app].
      destruct (render_num w o v) as [t|k]; [|discriminate].
      rewrite (IH _ _ _ _ _ _ _ H). f_equal. lia.
Qed.

(* where the unchanged code does not crash: as many values as fields, a
   string for every "&"/"!", a non-empty one for "!", a number for every
   numeric field *)
Fixpoint types_match (parts : list upart) (vals : list uval) : bool :=
  match parts with
  | [] => match vals with [] => true | _ => false end
  | PNon _ :: r => types_match r vals
  | PStrF c :: r =>
    match vals with
    | UStr s :: vs => (negb (c =? ch_bang) || negb (zlen s =? 0)) && types_match r vs
    | _ => false
    end
  | PNumF _ _ :: r =>
    match vals with
    | UInt _ :: vs | UFlt _ :: vs => types_match r vs
    | _ => false
    end
  end.

Definition total_guard (fmt : str) (vals : list uval) : bool :=
  match parse_format fmt with
  | Some parts => types_match parts vals
  | None => false                      (* the format ends in "_" *)
  end.

Lemma render_total : forall parts n vals i out,
  types_match parts vals = true -> i + nfields parts <= n ->
  exists s, render parts n vals i out = UOk s.
Proof.
  induction parts as [|p r IH]; intros n vals i out Ht Hn.
  - destruct vals; [|discriminate]. eexists; reflexivity.
  - pose proof (nfields_nonneg r) as Hr.
    destruct p as [t|c|w o]; cbn [types_match render nfields] in *.
    + now apply IH.
    + destruct (Z.geb_spec i n); [lia|].
      destruct vals as [|[z|f|sv] vs]; try discriminate.
      apply andb_true_iff in Ht as [Hb Ht].
      destruct (Z.eqb_spec c ch_bang).
      * destruct sv as [|d sv']; [cbn in Hb; discriminate|]. apply IH; [exact Ht | lia].
      * apply IH; [exact Ht | lia].
    + destruct (Z.geb_spec i n); [lia|].
      destruct vals as [|v vs]; [discriminate|].
      assert (Hns : forall s, v <> UStr s) by (intros s ->; discriminate).
      assert (Ht' : types_match r vs = true) by (destruct v; [exact Ht | exact Ht | discriminate]).
      rewrite (render_num_finish w o v Hns).
      destruct (py_format_num_ok v (o_comma o) (code_prec w o) Hns) as (body & ->).
      apply IH; [exact Ht' | lia].
Qed.

Lemma render_total_on_guard fmt vals :
  total_guard fmt vals = true -> exists s, using_format fmt vals = UOk s.
Proof.
  unfold total_guard, using_format. destruct (parse_format fmt) as [parts|]; [|discriminate].
  intro H. apply render_total; [exact H|]. pose proof (nfields_le_length parts). lia.
Qed.

Lemma render_partial : forall parts n vals i out,
  parts_reasons parts vals = [] -> i + nfields parts <= n ->
  exists t, render parts n vals i out = UOk (out ++ t) /\ spec_parts parts vals = Some t.
Proof.
  induction parts as [|p r IH]; intros n vals i out Hr Hn.
  - destruct vals; [|discriminate]. exists []. rewrite app_nil_r. split; reflexivity.
  - pose proof (nfields_nonneg r) as Hnn.
    destruct p as [t|c|w o]; cbn [parts_reasons render spec_parts nfields] in *.
    + destruct (IH n vals i (out ++ t) Hr Hn) as (t' & H1 & H2).
      exists (t ++ t'). rewrite H1, H2, app_assoc. split; reflexivity.
    + destruct (Z.geb_spec i n); [lia|].
      destruct vals as [|[z|f|sv] vs]; try discriminate.
      apply app_nil_both in Hr as [Hb Hr].
      destruct (Z.eqb_spec c ch_bang).
      * destruct sv as [|d sv']; [cbn in Hb; discriminate|].
        destruct (IH n vs (i + 1) (out ++ [d]) Hr ltac:(lia)) as (t' & H1 & H2).
        exists (d :: t'). rewrite H1, H2, <- app_assoc. split; reflexivity.
      * destruct (IH n vs (i + 1) (out ++ sv) Hr ltac:(lia)) as (t' & H1 & H2).
        exists (sv ++ t'). rewrite H1, H2, app_assoc. split; reflexivity.
    + destruct (Z.geb_spec i n); [lia|].
      destruct vals as [|v vs]; [discriminate|].
      apply app_nil_both in Hr as [Hf Hr].
      assert (Hg : field_guard w o v = true) by (unfold field_guard; now rewrite Hf).
      destruct (num_field_partial w o v Hg) as (tf & Hrn & Hsf).
      rewrite Hrn, Hsf.
      destruct (IH n vs (i + 1) (out ++ tf) Hr ltac:(lia)) as (t' & H1 & H2).
      exists (tf ++ t'). rewrite H1, H2, app_assoc. split; reflexivity.
Qed.

(* C19, the whole format, guarded *)
Lemma using_partial fmt vals :
  using_guard fmt vals = true ->
  exists t, using_format fmt vals = UOk t /\ using_spec fmt vals = Some t.
Proof.
  unfold using_guard, using_reasons, using_format, using_spec.
  destruct (parse_format fmt) as [parts|]; [|discriminate].
  destruct (parts_reasons parts vals) eqn:E; [|discriminate]. intros _.
  pose proof (nfields_le_length parts).
  destruct (render_partial parts (zlen (map (fun _ => 0) parts)) vals 0 [] E ltac:(lia))
    as (t & H1 & H2).
  exists t. split; assumption.
Qed.

(* ================================================================== *)
(* 5. the statement: hand-over from PRINT and the line break           *)
(* ================================================================== *)

Definition args_vals (args : list parg) : list cell :=
  flat_map (fun a => match a with AVal c => [c] | _ => [] end) args.

Definition args_end_sep (args : list parg) : bool :=
  match rev args with
  | last :: _ => arg_is_sep last
  | [] => false
  end.

Lemma using_newline_rule fs args uv s :
  args <> [] ->
  map_opt uval_of_cell (args_vals args) = Some uv ->
  using_format fs uv = UOk s ->
  emit (Some (CStr fs)) args = OutText (if args_end_sep args then [s] else [s; crlf]).
Proof.
  intros Hne Huv Hs. unfold emit, using_format, args_end_sep in *.
  destruct (parse_format fs) as [parts|]; [|discriminate].
  destruct (rev args) as [|last rest] eqn:E.
  - exfalso. apply Hne. rewrite <- (rev_involutive args), E. reflexivity.
  - fold (args_vals args). rewrite Huv, Hs. destruct (arg_is_sep last); reflexivity.
Qed.

Lemma using_stmt_partial fs args uv :
  args <> [] ->
  map_opt uval_of_cell (args_vals args) = Some uv ->
  using_guard fs uv = true ->
  exists calls,
    exec_print (encoded_args (Some (CStr fs)) args) = OutText calls /\
    using_stmt_spec fs uv (args_end_sep args) = Some calls.
Proof.
  intros Hne Huv Hg. destruct (using_partial fs uv Hg) as (t & H1 & H2).
  unfold exec_print. rewrite print_protocol_roundtrip.
  rewrite (using_newline_rule fs args uv t Hne Huv H1).
  unfold using_stmt_spec. rewrite H2. eexists; split; reflexivity.
Qed.

(* ================================================================== *)
(* 6. width and overflow mark of every numeric field (no guard)        *)
(* ================================================================== *)

Definition np (s : str) : bool := forallb (fun c => negb (c =? ch_pct)) s.

Lemma np_app a b : np (a ++ b) = np a && np b.
Proof. apply forallb_app. Qed.

Lemma np_cons c s : np (c :: s) = negb (c =? ch_pct) && np s.
Proof. reflexivity. Qed.

Lemma np_rev a : np (rev a) = np a.
Proof.
  induction a as [|c a IH]; [reflexivity|]. cbn [rev]. rewrite np_app, IH, np_cons.
  cbn. rewrite andb_true_r. apply andb_comm.
Qed.

Lemma np_firstn n s : np s = true -> np (firstn n s) = true.
Proof.
  revert s; induction n as [|n IH]; intros [|c s] H; try reflexivity.
  cbn [firstn]. rewrite np_cons in *. apply andb_true_iff in H as [H1 H2].
  rewrite H1, (IH s H2). reflexivity.
Qed.

Lemma np_skipn n s : np s = true -> np (skipn n s) = true.
Proof.
  revert s; induction n as [|n IH]; intros [|c s] H; try reflexivity; try exact H.
  cbn [skipn]. rewrite np_cons in H. apply andb_true_iff in H as [_ H2]. now apply IH.
Qed.

Lemma np_repeat c n : (c =? ch_pct) = false -> np (repeat c n) = true.
Proof. intro H. induction n as [|n IH]; [reflexivity|]. cbn [repeat]. now rewrite np_cons, H, IH. Qed.

Lemma np_spaces n : np (spaces n) = true.
Proof. apply np_repeat. reflexivity. Qed.

Lemma np_digits s : forallb is_digit s = true -> np s = true.
Proof.
  induction s as [|c s IH]; intro H; [reflexivity|].
  cbn [forallb] in H. apply andb_true_iff in H as [Hc Hs].
  rewrite np_cons, (IH Hs), andb_true_r.
  unfold is_digit in Hc. unfold ch_pct. lia.
Qed.

Lemma np_nat_digits z : 0 <= z -> np (nat_digits z) = true.
Proof. intro H. apply np_digits. now apply nat_digits_all_digits. Qed.

Lemma np_tl s : np s = true -> np (tl s) = true.
Proof. destruct s as [|c s]; [reflexivity|]. rewrite np_cons. intro H. now apply andb_true_iff in H as [_ H]. Qed.

Lemma np_removelast s : np s = true -> np (removelast s) = true.
Proof.
  induction s as [|c s IH]; [reflexivity|]. intro H. rewrite np_cons in H.
  apply andb_true_iff in H as [H1 H2]. cbn [removelast]. destruct s as [|d s']; [reflexivity|].
  rewrite np_cons, H1. cbn [andb]. now apply IH.
Qed.

Lemma np_group3_rev : forall s cnt, np s = true -> np (group3_rev s cnt) = true.
Proof.
  induction s as [|c s IH]; intros cnt H; [reflexivity|].
  rewrite np_cons in H. apply andb_true_iff in H as [H1 H2].
  cbn [group3_rev].
  destruct cnt as [|[|[|[|cnt]]]]; rewrite ?np_cons, ?H1, ?IH by exact H2; reflexivity.
Qed.

Lemma np_group3 s : np s = true -> np (group3 s) = true.
Proof. intro H. unfold group3. rewrite np_rev. apply np_group3_rev. now rewrite np_rev. Qed.

Lemma span_digits_app s : let '(a, b) := span_digits s in a ++ b = s.
Proof.
  induction s as [|c s IH]; [reflexivity|]. cbn [span_digits].
  destruct (is_digit c); [|reflexivity]. destruct (span_digits s) as [a b]. cbn [app]. now rewrite IH.
Qed.

Lemma np_group_int_part s : np s = true -> np (group_int_part s) = true.
Proof.
  intro H. unfold group_int_part. pose proof (span_digits_app s) as E.
  destruct (span_digits s) as [a b]. subst s. rewrite np_app in *.
  apply andb_true_iff in H as [Ha Hb]. now rewrite (np_group3 a Ha), Hb.
Qed.

Lemma np_pad_zeros n s : np s = true -> np (pad_zeros n s) = true.
Proof. intro H. unfold pad_zeros. rewrite np_app, H, np_repeat by reflexivity. reflexivity. Qed.

Lemma np_py_fixed x prec : np (py_fixed x prec) = true.
Proof.
  destruct x as [|n|n m e]; [reflexivity | reflexivity |].
  rewrite py_fixed_unfold. cbv zeta.
  pose proof (fixed_scaled_nonneg m e prec) as HD.
  set (ds := pad_zeros (prec + 1) (nat_digits (fixed_scaled m e prec))).
  assert (Hds : np ds = true) by (apply np_pad_zeros, np_nat_digits, HD).
  destruct (prec <=? 0).
  - now apply np_firstn.
  - rewrite !np_app, np_firstn, np_skipn by exact Hds. reflexivity.
Qed.

Lemma div_nonneg a b : 0 <= a -> 0 <= b -> 0 <= a / b.
Proof.
  intros Ha Hb. destruct (Z.eq_dec b 0) as [->|Hn]; [rewrite Zdiv_0_r; lia|].
  apply Z.div_pos; lia.
Qed.

Lemma shortest_from_nonneg : forall fuel x neg top rest q n,
  0 <= top -> 0 <= fst (shortest_from x neg top rest q n fuel).
Proof.
  induction fuel as [|f IH]; intros x neg top rest q n Ht; [exact Ht|].
  cbn [shortest_from]. cbv zeta.
  assert (Hp : 0 <= 10 ^ (topd - n)) by (apply Z.pow_nonneg; lia).
  pose proof (div_nonneg top (10 ^ (topd - n)) Ht Hp) as Hd.
  repeat match goal with
         | |- context [if ?c then _ else _] => destruct c
         end; cbn [fst]; try lia; apply IH; exact Ht.
Qed.

Lemma strip10_nonneg : forall fuel c k, 0 <= c -> 0 <= fst (strip10 fuel c k).
Proof.
  induction fuel as [|f IH]; intros c k Hc; [exact Hc|].
  cbn [strip10]. destruct (_ && _); [|exact Hc]. apply IH. apply div_nonneg; lia.
Qed.

Lemma shortest_nonneg neg m e : 0 < m -> 0 <= fst (shortest neg m e).
Proof.
  intro Hm. unfold shortest.
  destruct (exact_dec m e) as [N q] eqn:E.
  destruct (exact_dec_nonneg m e N q ltac:(lia) E) as [HN _].
  unfold top17. destruct (ndigits N <=? topd).
  - apply shortest_from_nonneg. apply Z.mul_nonneg_nonneg; [lia|]. apply Z.pow_nonneg; lia.
  - apply shortest_from_nonneg. apply div_nonneg; [lia|]. apply Z.pow_nonneg; lia.
Qed.

Lemma np_format_repr ds decpt : np ds = true -> np (format_repr ds decpt) = true.
Proof.
  intro H. unfold format_repr, zeros.
  destruct (_ && _).
  - destruct (decpt <=? 0).
    + rewrite !np_app, H, np_repeat by reflexivity. reflexivity.
    + destruct (_ <=? decpt).
      * rewrite !np_app, H, np_repeat by reflexivity. reflexivity.
      * rewrite !np_app, np_firstn, np_skipn by exact H. reflexivity.
  - assert (Ht : np (two_digits (Z.abs (decpt - 1))) = true).
    { unfold two_digits. destruct (_ <? 10); [rewrite np_cons|]; rewrite np_nat_digits by lia; reflexivity. }
    destruct ds as [|d [|d2 r]]; rewrite !np_app, Ht.
    + destruct (decpt - 1 <? 0); reflexivity.
    + rewrite H. destruct (decpt - 1 <? 0); reflexivity.
    + change (np (d :: ch_dot :: d2 :: r)) with (np (d :: d2 :: r)). rewrite H.
      destruct (decpt - 1 <? 0); reflexivity.
Qed.

Lemma np_py_repr x : np (py_repr x) = true.
Proof.
  destruct x as [|n|n m e]; [reflexivity | destruct n; reflexivity |].
  unfold py_repr. destruct (Z.leb_spec m 0) as [Hm|Hm].
  - destruct n; reflexivity.
  - unfold repr_digits.
    pose proof (shortest_nonneg n m e Hm) as Hs.
    destruct (shortest n m e) as [c k]. cbn [fst] in Hs.
    pose proof (strip10_nonneg 20 c k Hs) as Hs'.
    destruct (strip10 20 c k) as [c' k']. cbn [fst] in Hs'.
    rewrite np_app, np_format_repr by (now apply np_nat_digits). destruct n; reflexivity.
Qed.

Lemma np_py_format_num v comma prec body :
  py_format_num v comma prec = UOk body -> np body = true.
Proof.
  destruct v as [z|f|s]; cbn [py_format_num]; [| |discriminate].
  - destruct prec as [p|]; intro H; inversion H; subst; clear H.
    + destruct comma; [apply np_group_int_part|]; apply np_py_fixed.
    + destruct comma; [apply np_group3|]; apply np_nat_digits; lia.
  - destruct prec as [p|]; intro H; inversion H; subst; clear H.
    + destruct comma; [apply np_group_int_part|]; apply np_py_fixed.
    + destruct comma; [apply np_group_int_part|]; apply np_py_repr.
Qed.

Lemma zlen_tl s : s <> [] -> zlen (tl s) = zlen s - 1.
Proof. destruct s; [congruence|]. intros _. rewrite zlen_cons. cbn [tl]. lia. Qed.

Lemma zlen_removelast s : s <> [] -> zlen (removelast s) = zlen s - 1.
Proof.
  intro H. destruct (exists_last H) as (l & a & ->). rewrite removelast_last, zlen_app.
  change (zlen [a]) with 1. lia.
Qed.

(* the text before marking: never contains '%', at least as long as the field *)
Lemma finish_shape w o neg body :
  np body = true ->
  exists r3, np r3 = true /\ w <= zlen r3 /\
             finish w o neg body = if zlen r3 >? w then ch_pct :: r3 else r3.
Proof.
  intro Hb. unfold finish.
  destruct (match o_sign o with Some p => p | None => (false, ch_minus) end) as [at_end st].
  cbv zeta.
  set (sign := if st =? ch_minus then if neg then ch_minus else ch_space
               else if neg then ch_minus else ch_plus).
  assert (Hsg : (sign =? ch_pct) = false).
  { unfold sign. destruct (st =? ch_minus), neg; reflexivity. }
  set (r1 := if at_end then if sign =? ch_minus then body ++ [sign] else ch_space :: body ++ [sign]
             else sign :: body).
  assert (H1 : np r1 = true /\ r1 <> []).
  { unfold r1. destruct at_end; [destruct (sign =? ch_minus)|];
      rewrite ?np_cons, ?np_app, ?np_cons, ?Hb, ?Hsg; split; try reflexivity; try discriminate.
    intro E. apply app_eq_nil in E as [_ E]. discriminate. }
  destruct H1 as [Hn1 Hne1].
  set (r2 := if zlen r1 <? w then spaces (Z.to_nat (w - zlen r1)) ++ r1 else r1).
  assert (H2 : np r2 = true /\ w <= zlen r2 /\ r2 <> []).
  { unfold r2. destruct (Z.ltb_spec (zlen r1) w).
    - rewrite np_app, np_spaces, Hn1, zlen_app, zlen_spaces, Z2Nat.id by lia.
      repeat split; try lia. intro E. apply app_eq_nil in E as [_ E]. contradiction.
    - repeat split; assumption. }
  destruct H2 as (Hn2 & Hl2 & Hne2).
  set (r3 := if (sign =? ch_space) && (zlen r2 >? w) then if at_end then removelast r2 else tl r2
             else r2).
  exists r3. split; [|split; [|reflexivity]].
  - unfold r3. destruct (_ && _); [destruct at_end; [apply np_removelast | apply np_tl]|]; exact Hn2.
  - unfold r3. destruct (sign =? ch_space); cbn [andb]; [|exact Hl2].
    destruct (Z.gtb_spec (zlen r2) w); [|exact Hl2].
    destruct at_end; [rewrite zlen_removelast | rewrite zlen_tl]; try exact Hne2; lia.
Qed.

Lemma render_num_shape w o v s :
  render_num w o v = UOk s ->
  exists r3, np r3 = true /\ w <= zlen r3 /\ s = if zlen r3 >? w then ch_pct :: r3 else r3.
Proof.
  intro H.
  assert (Hns : forall t, v <> UStr t) by (intros t ->; discriminate).
  rewrite (render_num_finish w o v Hns) in H.
  destruct (py_format_num v (o_comma o) (code_prec w o)) as [body|k] eqn:E; [|discriminate].
  inversion H; subst; clear H.
  apply finish_shape. exact (np_py_format_num _ _ _ _ E).
Qed.

(* every numeric field, every value: the text is never shorter than the
   field, and exactly as wide unless it carries the mark *)
Lemma num_field_width w o v s :
  render_num w o v = UOk s ->
  w <= zlen s /\ (hd_error s <> Some ch_pct -> zlen s = w).
Proof.
  intro H. destruct (render_num_shape w o v s H) as (r3 & Hn & Hl & ->).
  destruct (Z.gtb_spec (zlen r3) w).
  - rewrite zlen_cons. split; [lia|]. intro C. exfalso. apply C. reflexivity.
  - split; [exact Hl|]. intros _. lia.
Qed.

(* the mark: present exactly when the text exceeds the field, and then it is
   "%" followed by the widened text, which alone is already too long *)
Lemma overflow_mark w o v s :
  1 <= w -> render_num w o v = UOk s ->
  (hd_error s = Some ch_pct <-> w < zlen s) /\
  (w < zlen s -> exists r, s = ch_pct :: r /\ w < zlen r /\ np r = true).
Proof.
  intros Hw H. destruct (render_num_shape w o v s H) as (r3 & Hn & Hl & ->).
  destruct (Z.gtb_spec (zlen r3) w) as [G|G].
  - rewrite zlen_cons. split.
    + split; [lia | reflexivity].
    + intros _. exists r3. repeat split; [lia | exact Hn].
  - split.
    + split; [|lia]. intro Hh. exfalso.
      destruct r3 as [|c r]; [discriminate|]. cbn in Hh. inversion Hh; subst.
      rewrite np_cons in Hn. discriminate.
    + lia.
Qed.

(* ================================================================== *)
(* 7. the rounding of the specification is a nearest rounding          *)
(* ================================================================== *)

Lemma rne_div_nearest a p : 0 < p ->
  2 * Z.abs (rne_div a p * p - a) <= p /\
  (2 * (a mod p) = p -> Z.even (rne_div a p) = true).
Proof.
  intro Hp. unfold rne_div.
  pose proof (Z.div_mod a p ltac:(lia)) as Hd.
  pose proof (Z.mod_pos_bound a p Hp) as Hm.
  set (d := a / p) in *. set (r := a mod p) in *.
  destruct (Z.ltb_spec (2 * r) p); [split; [nia | lia]|].
  destruct (Z.ltb_spec p (2 * r)); [split; [nia | lia]|].
  destruct (Z.even d) eqn:E; (split; [nia|]); intros _; [exact E|].
  rewrite Z.even_add, E. reflexivity.
Qed.

(* [exact_dec m e] = (N, q) says m * 2^e = N * 10^q exactly *)
Lemma exact_dec_value m e N q : exact_dec m e = (N, q) ->
  (0 <= e -> q = 0 /\ N = m * 2 ^ e) /\
  (e < 0 -> q = e /\ N * 2 ^ (- e) = m * 10 ^ (- e)).
Proof.
  unfold exact_dec. destruct (Z.geb_spec e 0) as [He|He]; intro H; inversion H; subst; clear H.
  - split; [|lia]. intros _. split; [reflexivity|]. apply Z.shiftl_mul_pow2. lia.
  - split; [lia|]. intros _. split; [reflexivity|].
    replace 10 with (5 * 2) by reflexivity. rewrite Z.pow_mul_l. ring.
Qed.

Lemma str_field_amp s : using_format [ch_amp] [UStr s] = UOk s.
Proof. reflexivity. Qed.

Lemma str_field_bang c s : using_format [ch_bang] [UStr (c :: s)] = UOk [c].
Proof. reflexivity. Qed.
