(* Where the assembler reports its errors: declarative characterisation of each
   error class, both directions. *)
From Coq Require Import ZArith List Bool Lia.
From QV Require Import Blocks BlocksSpec BlocksProofs.
Import ListNotations.
Open Scope Z_scope.

(* the state reached after a prefix (proof device; mirrors [run]) *)
Fixpoint pre_run (stack : list frame) (cur : list tree) (l : list stmt) : sres :=
  match l with
  | [] => SOk stack cur
  | s :: r =>
    match step stack cur s with
    | SOk stack' cur' => pre_run stack' cur' r
    | x => x
    end
  end.

Definition finish (stack : list frame) (cur : list tree) : result := run stack cur [].

Lemma run_split p : forall stack cur q,
  run stack cur (p ++ q) =
  match pre_run stack cur p with
  | SOk st c => run st c q
  | SErr e ln => RErr e ln
  | SCrash c => RCrash c
  end.
Proof.
  induction p as [|s p IH]; intros stack cur q; simpl; [reflexivity|].
  destruct (step stack cur s); try reflexivity. apply IH.
Qed.

Lemma pre_run_app p : forall stack cur q,
  pre_run stack cur (p ++ q) =
  match pre_run stack cur p with
  | SOk st c => pre_run st c q
  | x => x
  end.
Proof.
  induction p as [|s p IH]; intros stack cur q; simpl; [reflexivity|].
  destruct (step stack cur s); try reflexivity. apply IH.
Qed.

Lemma pre_run_tree t : wfa t ->
  forall stack cur, pre_run stack cur (flatten t) = SOk stack (cur ++ [t]).
Proof.
  induction t as [s | k o b e IH] using tree_ind'; intros Hw stack cur.
  - inversion Hw; subst. simpl. rewrite step_plain by assumption. reflexivity.
  - inversion Hw as [| ? ? ? ? Ho He Hkids Hbody]; subst.
    assert (Hforest : forall cur',
      pre_run ((k, o, cur) :: stack) cur' (flatten_forest b)
      = SOk ((k, o, cur) :: stack) (cur' ++ b)).
    { clear Hw Hbody. induction b as [|t b IHb]; intros cur'.
      - simpl. rewrite app_nil_r. reflexivity.
      - inversion IH as [|? ? IHt IHr]; subst. inversion Hkids as [|? ? Ht Hr]; subst.
        rewrite flatten_forest_cons, pre_run_app. rewrite (IHt Ht).
        rewrite (IHb IHr Hr). rewrite <- app_assoc. reflexivity. }
    simpl. unfold step at 1. rewrite Ho.
    fold (flatten_forest b). rewrite pre_run_app, Hforest. simpl.
    unfold step. rewrite (ender_not_opener _ _ He), He, bkind_eqb_refl.
    rewrite (create_block_complete k o e b Ho He Hbody). reflexivity.
Qed.

Lemma pre_run_forest ts : Forall wfa ts ->
  forall stack cur, pre_run stack cur (flatten_forest ts) = SOk stack (cur ++ ts).
Proof.
  induction ts as [|t ts IH]; intros Hw stack cur.
  - simpl. rewrite app_nil_r. reflexivity.
  - inversion Hw; subst. rewrite flatten_forest_cons, pre_run_app.
    rewrite pre_run_tree by assumption. rewrite IH by assumption.
    rewrite <- app_assoc. reflexivity.
Qed.

Lemma pre_run_balanced p stack cur :
  balanced_asm p -> exists ts, Forall wfa ts /\ flatten_forest ts = p /\
                               pre_run stack cur p = SOk stack (cur ++ ts).
Proof.
  intros [ts [Hw Hf]]. exists ts. repeat split; try assumption.
  subst p. apply pre_run_forest; assumption.
Qed.

Lemma pre_run_sound l : forall stack cur st c,
  pre_run stack cur l = SOk st c -> inv stack cur ->
  inv st c /\ consumed st c = consumed stack cur ++ l.
Proof.
  induction l as [|s l IH]; intros stack cur st c H Hinv; simpl in H.
  - inversion H; subst. split; [assumption|]. rewrite app_nil_r. reflexivity.
  - destruct (step stack cur s) as [stack' cur'| |] eqn:Es; try discriminate.
    destruct (step_sound _ _ _ _ _ Es Hinv) as [Hinv' Hcons].
    destruct (IH _ _ _ _ H Hinv') as [Hi Hc]. split; [assumption|].
    rewrite Hc, Hcons, <- app_assoc. reflexivity.
Qed.

Lemma inv_nil : inv [] [].
Proof. split; constructor. Qed.

(* a prefix of an accepted stream is consumed without complaint *)
Lemma accepted_prefix_ok a b ts :
  assemble (a ++ b) = ROk ts -> exists st c, pre_run [] [] a = SOk st c.
Proof.
  unfold assemble. rewrite run_split.
  destruct (pre_run [] [] a) as [st c| |]; try discriminate. eauto.
Qed.

(* ---- every error of [run] is either a failing step or EOF with open blocks *)

Lemma run_err l : forall stack cur e ln,
  run stack cur l = RErr e ln ->
  (exists p x r st c, l = p ++ x :: r /\ pre_run stack cur p = SOk st c /\
                      step st c x = SErr e ln) \/
  (exists st c k o prev, pre_run stack cur l = SOk ((k, o, prev) :: st) c /\
                         e = ENotClosed k /\ ln = sl o).
Proof.
  induction l as [|s l IH]; intros stack cur e ln H; simpl in H.
  - right. destruct stack as [|[[k o] prev] st]; [discriminate|].
    inversion H; subst. exists st, cur, k, o, prev. repeat split.
  - destruct (step stack cur s) as [stack' cur'|e' ln'|] eqn:Es; try discriminate.
    + destruct (IH _ _ _ _ H) as [[p [x [r [st [c [El [Hp Hs]]]]]]] | [st [c [k [o [prev [Hp [He Hl]]]]]]]].
      * left. exists (s :: p), x, r, st, c. subst l. simpl. rewrite Es. repeat split; assumption.
      * right. exists st, c, k, o, prev. simpl. rewrite Es. repeat split; assumption.
    + inversion H; subst. left. exists [], s, l, stack, cur. repeat split. assumption.
Qed.

Lemma tline_in t : exists y, In y (flatten t) /\ sl y = tline t.
Proof. destruct t as [s|k o b e]; simpl; eauto. Qed.

Lemma in_forest t ts y : In t ts -> In y (flatten t) -> In y (flatten_forest ts).
Proof.
  intros Ht Hy. unfold flatten_forest. apply in_flat_map. exists t. split; assumption.
Qed.

Lemma type_scan_err_line b : forall names e ln,
  type_scan names b = CErr e ln -> exists t, In t b /\ tline t = ln.
Proof.
  induction b as [|t b IH]; intros names e ln H; simpl in H; [discriminate|].
  destruct t as [s|k o b' e']; simpl in H.
  - destruct (sk s) eqn:E; try (inversion H; subst; exists (TStmt s); split; [left|]; reflexivity).
    destruct (existsb (Z.eqb name) names).
    + inversion H; subst. exists (TStmt s). split; [left|]; reflexivity.
    + destruct (IH _ _ _ H) as [t [Ht Hl]]. exists t. split; [right|]; assumption.
  - inversion H; subst. exists (TBlock k o b' e'). split; [left|]; reflexivity.
Qed.

Lemma if_scan_no_err b : forall se e ln, if_scan se b <> CErr e ln.
Proof.
  induction b as [|t b IH]; intros se e ln; simpl; [discriminate|].
  destruct t as [s|k o b' e']; [|apply IH].
  destruct (sk s); try apply IH; destruct se; try discriminate; apply IH.
Qed.

(* create_block reports at the terminator or at a direct child of the block *)
Lemma create_block_err_line k o e b er ln :
  create_block k o e b = CErr er ln ->
  ln = sl e \/ exists t, In t b /\ tline t = ln.
Proof.
  intros H. destruct k; simpl in H; try discriminate.
  - exfalso. exact (if_scan_no_err _ _ _ _ H).
  - destruct (sk o); try discriminate. destruct (sk e) eqn:E; try discriminate.
    destruct v0; try discriminate. destruct (v =? z); [discriminate|].
    inversion H. left. reflexivity.
  - destruct (sk o); try discriminate. destruct c; try discriminate.
    destruct (sk e); try discriminate. destruct c; try discriminate.
    inversion H. left. reflexivity.
  - destruct b as [|t r]; [discriminate|]. right. exists t. split; [left; reflexivity|].
    destruct t as [s|k' o' b' e']; simpl.
    + destruct (sk s); inversion H; reflexivity.
    + inversion H. reflexivity.
  - right. apply (type_scan_err_line _ _ _ _ H).
Qed.

Lemma consumed_incl_cur stack cur y : In y (flatten_forest cur) -> In y (consumed stack cur).
Proof.
  destruct stack as [|[[k o] prev] st]; simpl; [tauto|].
  intros H. apply in_or_app. right. right. assumption.
Qed.

(* the diagnostic is always on the line of a statement of the program *)
Lemma assemble_error_in_stream l e ln :
  assemble l = RErr e ln -> exists y, In y l /\ sl y = ln.
Proof.
  intros H. unfold assemble in H.
  destruct (run_err _ _ _ _ _ H) as [[p [x [r [st [c [El [Hp Hs]]]]]]] | [st [c [k [o [prev [Hp [He Hl]]]]]]]].
  - destruct (pre_run_sound _ _ _ _ _ Hp inv_nil) as [_ Hc]. simpl in Hc.
    unfold step in Hs.
    destruct (opener (sk x)); [discriminate|].
    destruct (ender (sk x)) as [ke|]; [|discriminate].
    destruct st as [|[[ko o] prev] st'].
    + inversion Hs; subst. exists x. split; [apply in_or_app; right; left|]; reflexivity.
    + destruct (bkind_eqb ko ke).
      * destruct (create_block ko o x c) eqn:Ec; try discriminate.
        inversion Hs; subst e0 line.
        destruct (create_block_err_line _ _ _ _ _ _ Ec) as [E | [t [Ht Hl]]].
        -- exists x. subst. split; [apply in_or_app; right; left|]; reflexivity.
        -- destruct (tline_in t) as [y [Hy Hyl]]. exists y. split; [|congruence].
           subst l. apply in_or_app. left. rewrite <- Hc.
           apply consumed_incl_cur. apply (in_forest t); assumption.
      * inversion Hs; subst. exists x. split; [apply in_or_app; right; left|]; reflexivity.
  - destruct (pre_run_sound _ _ _ _ _ Hp inv_nil) as [_ Hc]. simpl in Hc.
    exists o. split; [|congruence]. rewrite <- Hc. apply in_or_app. right. left. reflexivity.
Qed.

(* ---- the bracket errors, declaratively, both directions ---------------- *)

(* "<END> without <START>": x is a terminator and everything before it is balanced *)
Lemma unopened_iff l ke ln :
  assemble l = RErr (EEndWithoutStart ke) ln <->
  exists p x r, l = p ++ x :: r /\ sl x = ln /\ ender (sk x) = Some ke /\ balanced_asm p.
Proof.
  split.
  - intros H. unfold assemble in H.
    destruct (run_err _ _ _ _ _ H) as [[p [x [r [st [c [El [Hp Hs]]]]]]] | [st [c [k [o [prev [Hp [He Hl]]]]]]]];
      [|discriminate].
    destruct (pre_run_sound _ _ _ _ _ Hp inv_nil) as [[_ Hwc] Hc]. simpl in Hc.
    unfold step in Hs.
    destruct (opener (sk x)); [discriminate|].
    destruct (ender (sk x)) as [ke'|] eqn:Ee; [|discriminate].
    destruct st as [|[[ko o] prev] st'].
    + injection Hs as E1 E2. subst ke' ln. exists p, x, r. repeat split; try assumption.
      exists c. split; [assumption | exact Hc].
    + destruct (bkind_eqb ko ke').
      * destruct (create_block ko o x c) eqn:Ec; try discriminate.
        inversion Hs; subst. exfalso.
        destruct ko; simpl in Ec; try discriminate.
        -- exact (if_scan_no_err _ _ _ _ Ec).
        -- destruct (sk o); try discriminate. destruct (sk x); try discriminate.
           destruct v0; try discriminate. destruct (v =? z); discriminate.
        -- destruct (sk o); try discriminate. destruct c0; try discriminate.
           destruct (sk x); try discriminate. destruct c0; discriminate.
        -- destruct c as [|t r']; [discriminate|]. destruct t; [destruct (sk s)|]; discriminate.
        -- clear - Ec. revert Ec. generalize (@nil Z). induction c as [|t c IH]; intros names Ec; simpl in Ec; [discriminate|].
           destruct t as [s|]; [|discriminate]. destruct (sk s); try discriminate.
           destruct (existsb (Z.eqb name) names); [discriminate|]. apply (IH _ Ec).
      * discriminate.
  - intros [p [x [r [El [Hl [He Hb]]]]]]. subst l ln.
    destruct (pre_run_balanced p [] [] Hb) as [ts [_ [_ Hp]]].
    unfold assemble. rewrite run_split, Hp. simpl. unfold step.
    rewrite (ender_not_opener _ _ He), He. reflexivity.
Qed.

(* which errors create_block can raise, and when *)
Lemma type_scan_err_class b : forall names e ln,
  type_scan names b = CErr e ln -> e = ETypeIllegal \/ e = ETypeDup.
Proof.
  induction b as [|t b IH]; intros names e ln H; simpl in H; [discriminate|].
  destruct t as [s|k o b' e']; [|inversion H; left; reflexivity].
  destruct (sk s); try (inversion H; left; reflexivity).
  destruct (existsb (Z.eqb name) names); [inversion H; right; reflexivity | apply (IH _ _ _ H)].
Qed.

Lemma create_block_err_class k o e b er ln :
  create_block k o e b = CErr er ln ->
  (er = ENextVar /\ ln = sl e /\ exists v w, sk o = SFor v /\ sk e = SNext (Some w) /\ v <> w) \/
  (er = EDoLoopCond /\ ln = sl e /\ sk o = SDo true /\ sk e = SLoop true) \/
  er = ESelectBeforeCase \/ er = ETypeIllegal \/ er = ETypeDup.
Proof.
  intros H. destruct k; simpl in H; try discriminate.
  - exfalso. exact (if_scan_no_err _ _ _ _ H).
  - destruct (sk o) eqn:Eo; try discriminate. destruct (sk e) eqn:Ee; try discriminate.
    destruct v0 as [w|]; try discriminate. destruct (v =? w) eqn:E; [discriminate|].
    inversion H; subst. left. repeat split. exists v, w. repeat split.
    apply Z.eqb_neq. assumption.
  - destruct (sk o) eqn:Eo; try discriminate. destruct c; try discriminate.
    destruct (sk e) eqn:Ee; try discriminate. destruct c; try discriminate.
    inversion H; subst. right. left. repeat split.
  - right. right. left.
    destruct b as [|t r]; [discriminate|].
    destruct t as [s|k' o' b' e']; [destruct (sk s)|]; inversion H; reflexivity.
  - right. right. right. apply (type_scan_err_class _ _ _ _ H).
Qed.

Lemma bkind_neq_eqb a b : a <> b -> bkind_eqb a b = false.
Proof. destruct a, b; simpl; congruence. Qed.

(* a failing step, analysed *)
Lemma step_err st c x e ln :
  step st c x = SErr e ln ->
  exists ke, ender (sk x) = Some ke /\ opener (sk x) = None /\
    ((st = [] /\ e = EEndWithoutStart ke /\ ln = sl x) \/
     (exists ko o prev st', st = (ko, o, prev) :: st' /\
        ((ko <> ke /\ e = EExpectedEnd ko /\ ln = sl x) \/
         (ko = ke /\ create_block ko o x c = CErr e ln)))).
Proof.
  unfold step. intros H.
  destruct (opener (sk x)) eqn:Eo; [discriminate|].
  destruct (ender (sk x)) as [ke|] eqn:Ee; [|discriminate].
  exists ke. repeat split.
  destruct st as [|[[ko o] prev] st'].
  - inversion H; subst. left. repeat split.
  - right. exists ko, o, prev, st'. split; [reflexivity|].
    destruct (bkind_eqb ko ke) eqn:Ek.
    + apply bkind_eqb_true in Ek. right. split; [assumption|].
      destruct (create_block ko o x c); try discriminate. inversion H; subst. reflexivity.
    + apply bkind_eqb_false in Ek. inversion H; subst. left. repeat split. assumption.
Qed.

(* "Expected <END of ko>": the innermost open block at x is o (everything
   between o and x is balanced) and x terminates another kind of block *)
Lemma wrong_terminator_located l ko ln :
  assemble l = RErr (EExpectedEnd ko) ln ->
  exists p1 o p2 x r ke,
    l = p1 ++ o :: p2 ++ x :: r /\ sl x = ln /\ opener (sk o) = Some ko /\
    balanced_asm p2 /\ ender (sk x) = Some ke /\ ke <> ko.
Proof.
  intros H. unfold assemble in H.
  destruct (run_err _ _ _ _ _ H) as [[p [x [r [st [c [El [Hp Hs]]]]]]] | [st [c [k [o [prev [Hp [He Hl]]]]]]]];
    [|discriminate].
  destruct (pre_run_sound _ _ _ _ _ Hp inv_nil) as [[Hfr Hwc] Hc]. simpl in Hc.
  destruct (step_err _ _ _ _ _ Hs) as [ke [Ee [Eo [[_ [E _]] | [ko' [o [prev [st' [Est [[Hne [E El']] | [Heq Hcb]]]]]]]]]]].
  - discriminate.
  - injection E as E'. subst ko'. subst st.
    assert (Hoo : opener (sk o) = Some ko)
      by (inversion Hfr as [|? ? Hf _]; simpl in Hf; tauto).
    simpl in Hc.
    exists (consumed st' prev), o, (flatten_forest c), x, r, ke.
    repeat split; try assumption.
    + rewrite El, <- Hc, <- app_assoc. reflexivity.
    + congruence.
    + exists c. split; [assumption | reflexivity].
    + congruence.
  - destruct (create_block_err_class _ _ _ _ _ _ Hcb) as [[E _] | [[E _] | [E | [E | E]]]]; discriminate.
Qed.

Lemma wrong_terminator_rejected p1 o p2 q x ko ke :
  balanced_asm (p1 ++ o :: p2 ++ q) -> opener (sk o) = Some ko -> balanced_asm p2 ->
  ender (sk x) = Some ke -> ke <> ko ->
  forall r, assemble (p1 ++ o :: p2 ++ x :: r) = RErr (EExpectedEnd ko) (sl x).
Proof.
  intros Hb Ho Hb2 He Hne r.
  destruct Hb as [ts [Hw Hf]]. pose proof (assemble_complete_asm ts Hw) as Ha. rewrite Hf in Ha.
  destruct (accepted_prefix_ok _ _ _ Ha) as [st [c Hp]].
  unfold assemble. rewrite run_split, Hp. simpl. unfold step at 1. rewrite Ho.
  destruct (pre_run_balanced p2 ((ko, o, c) :: st) [] Hb2) as [ts2 [_ [_ Hp2]]].
  rewrite run_split, Hp2. simpl. unfold step.
  rewrite (ender_not_opener _ _ He), He.
  rewrite (bkind_neq_eqb ko ke) by congruence. reflexivity.
Qed.

(* "<k> block not closed": o is the innermost opener left open at the end *)
Lemma unclosed_located l k ln :
  assemble l = RErr (ENotClosed k) ln ->
  exists p1 o p2, l = p1 ++ o :: p2 /\ sl o = ln /\ opener (sk o) = Some k /\ balanced_asm p2.
Proof.
  intros H. unfold assemble in H.
  destruct (run_err _ _ _ _ _ H) as [[p [x [r [st [c [El [Hp Hs]]]]]]] | [st [c [k' [o [prev [Hp [He Hl]]]]]]]].
  - exfalso.
    destruct (step_err _ _ _ _ _ Hs) as [ke [Ee [Eo [[_ [E _]] | [ko' [o [prev [st' [Est [[Hne [E El']] | [Heq Hcb]]]]]]]]]]];
      try discriminate.
    destruct (create_block_err_class _ _ _ _ _ _ Hcb) as [[E _] | [[E _] | [E | [E | E]]]]; discriminate.
  - injection He as He'. subst k'.
    destruct (pre_run_sound _ _ _ _ _ Hp inv_nil) as [[Hfr Hwc] Hc]. simpl in Hc.
    assert (Hoo : opener (sk o) = Some k)
      by (inversion Hfr as [|? ? Hf _]; simpl in Hf; tauto).
    exists (consumed st prev), o, (flatten_forest c). repeat split.
    + symmetry. assumption.
    + symmetry. assumption.
    + assumption.
    + exists c. split; [assumption | reflexivity].
Qed.

Lemma unclosed_rejected p1 o p2 q k :
  balanced_asm (p1 ++ q) -> opener (sk o) = Some k -> balanced_asm p2 ->
  assemble (p1 ++ o :: p2) = RErr (ENotClosed k) (sl o).
Proof.
  intros Hb Ho Hb2.
  destruct Hb as [ts [Hw Hf]]. pose proof (assemble_complete_asm ts Hw) as Ha. rewrite Hf in Ha.
  destruct (accepted_prefix_ok _ _ _ Ha) as [st [c Hp]].
  unfold assemble. rewrite run_split, Hp. simpl. unfold step at 1. rewrite Ho.
  destruct (pre_run_balanced p2 ((k, o, c) :: st) [] Hb2) as [ts2 [_ [_ Hp2]]].
  rewrite <- (app_nil_r p2). rewrite run_split, Hp2. reflexivity.
Qed.

(* NEXT naming another variable than its FOR *)
Lemma next_mismatch_located l ln :
  assemble l = RErr ENextVar ln ->
  exists p1 o p2 x r v w,
    l = p1 ++ o :: p2 ++ x :: r /\ sl x = ln /\ sk o = SFor v /\ sk x = SNext (Some w) /\
    v <> w /\ balanced_asm p2.
Proof.
  intros H. unfold assemble in H.
  destruct (run_err _ _ _ _ _ H) as [[p [x [r [st [c [El [Hp Hs]]]]]]] | [st [c [k [o [prev [Hp [He Hl]]]]]]]];
    [|discriminate].
  destruct (pre_run_sound _ _ _ _ _ Hp inv_nil) as [[Hfr Hwc] Hc]. simpl in Hc.
  destruct (step_err _ _ _ _ _ Hs) as [ke [Ee [Eo [[_ [E _]] | [ko' [o [prev [st' [Est [[Hne [E El']] | [Heq Hcb]]]]]]]]]]];
    try discriminate.
  destruct (create_block_err_class _ _ _ _ _ _ Hcb) as [[_ [Hl [v [w [Hv [Hw Hvw]]]]]] | [[E _] | [E | [E | E]]]];
    try discriminate.
  subst st. simpl in Hc.
  exists (consumed st' prev), o, (flatten_forest c), x, r, v, w.
  repeat split; try assumption.
  - rewrite El, <- Hc, <- app_assoc. reflexivity.
  - symmetry. assumption.
  - exists c. split; [assumption | reflexivity].
Qed.

Lemma next_mismatch_rejected p1 o p2 q x v w :
  balanced_asm (p1 ++ q) -> sk o = SFor v -> balanced_asm p2 -> sk x = SNext (Some w) -> v <> w ->
  forall r, assemble (p1 ++ o :: p2 ++ x :: r) = RErr ENextVar (sl x).
Proof.
  intros Hb Ho Hb2 Hx Hvw r.
  destruct Hb as [ts [Hw Hf]]. pose proof (assemble_complete_asm ts Hw) as Ha. rewrite Hf in Ha.
  destruct (accepted_prefix_ok _ _ _ Ha) as [st [c Hp]].
  unfold assemble. rewrite run_split, Hp. simpl. unfold step at 1. rewrite Ho. simpl.
  destruct (pre_run_balanced p2 ((BFor, o, c) :: st) [] Hb2) as [ts2 [_ [_ Hp2]]].
  rewrite run_split, Hp2. simpl. unfold step. rewrite Hx. simpl. rewrite Ho, Hx.
  apply Z.eqb_neq in Hvw. rewrite Hvw. reflexivity.
Qed.

(* the verdict is fixed by the prefix that ends at the offending terminator *)
Lemma error_prefix_determined l e ln :
  assemble l = RErr e ln -> (forall k, e <> ENotClosed k) ->
  exists p x r, l = p ++ x :: r /\ ender (sk x) <> None /\
                forall r', assemble (p ++ x :: r') = RErr e ln.
Proof.
  intros H Hnc. unfold assemble in H.
  destruct (run_err _ _ _ _ _ H) as [[p [x [r [st [c [El [Hp Hs]]]]]]] | [st [c [k [o [prev [Hp [He Hl]]]]]]]].
  - exists p, x, r. split; [assumption|]. split.
    + destruct (step_err _ _ _ _ _ Hs) as [ke [Ee _]]. congruence.
    + intros r'. unfold assemble. rewrite run_split, Hp. simpl. rewrite Hs. reflexivity.
  - exfalso. apply (Hnc k). assumption.
Qed.

(* an accepted stream has no rejected prefix-with-terminator: errors are final *)
Lemma rejected_never_completed p x r e ln :
  assemble (p ++ x :: r) = RErr e ln -> (forall r', assemble (p ++ x :: r') = RErr e ln) ->
  forall q, ~ balanced_asm (p ++ x :: q).
Proof.
  intros _ Hall q [ts [Hw Hf]]. pose proof (assemble_complete_asm ts Hw) as Ha.
  rewrite Hf, Hall in Ha. discriminate.
Qed.
