(* Correctness of expression code against the reference semantics, for the
   INTEGER/LONG fragment (ExprCodegen.in_fragment): literals, local scalar
   variables, unary - NOT +, parentheses, + - *, the six comparisons and the
   five logical operators, with the implicit INTEGER -> LONG conversions. *)
From Coq Require Import ZArith List Bool Lia.
From QV Require Import Sx Strs Fl Dec NumFmt Cell Using Print Machine Cpu SemBase ExprCodegen ExprStack.
Import ListNotations.
Open Scope Z_scope.

(* ---------- lists with Python indexing, non-negative indices ---------- *)

Lemma nthZ_nonneg {A} (l : list A) i :
  0 <= i -> nthZ l i = if i <? Z.of_nat (length l) then nth_error l (Z.to_nat i) else None.
Proof.
  intro H. unfold nthZ.
  destruct (Z.ltb_spec i 0); [lia|].
  destruct (Z.ltb_spec i (Z.of_nat (length l))).
  - replace ((i <? 0) || (i >=? Z.of_nat (length l))) with false; [reflexivity|].
    symmetry. apply orb_false_iff. split; [apply Z.ltb_ge; lia | rewrite Z.geb_leb; apply Z.leb_gt; lia].
  - replace ((i <? 0) || (i >=? Z.of_nat (length l))) with true; [reflexivity|].
    symmetry. apply orb_true_iff. right. rewrite Z.geb_leb. apply Z.leb_le. lia.
Qed.

Lemma nthZ_some_bound {A} (l : list A) i a : 0 <= i -> nthZ l i = Some a -> i < Z.of_nat (length l).
Proof.
  intros H. rewrite nthZ_nonneg by exact H.
  destruct (Z.ltb_spec i (Z.of_nat (length l))); [auto | discriminate].
Qed.

Lemma setZ_nonneg {A} (l : list A) i a :
  0 <= i -> i < Z.of_nat (length l) -> setZ l i a = Some (set_nth l (Z.to_nat i) a).
Proof.
  intros H1 H2. unfold setZ.
  destruct (Z.ltb_spec i 0); [lia|].
  replace ((i <? 0) || (i >=? Z.of_nat (length l))) with false; [reflexivity|].
  symmetry. apply orb_false_iff. split; [apply Z.ltb_ge; lia | rewrite Z.geb_leb; apply Z.leb_gt; lia].
Qed.

Lemma set_nth_length {A} (l : list A) n a : length (set_nth l n a) = length l.
Proof. revert n; induction l; intros [|n]; simpl; auto. Qed.

Lemma nth_error_set_nth_eq {A} (l : list A) n a :
  (n < length l)%nat -> nth_error (set_nth l n a) n = Some a.
Proof. revert n; induction l; intros [|n] H; simpl in *; try lia; auto. apply IHl. lia. Qed.

Lemma nth_error_set_nth_neq {A} (l : list A) n k a :
  n <> k -> nth_error (set_nth l n a) k = nth_error l k.
Proof. revert n k; induction l; intros [|n] [|k] H; simpl; auto; try congruence. Qed.

Lemma nthZ_set_eq {A} (l : list A) i a :
  0 <= i -> i < Z.of_nat (length l) -> nthZ (set_nth l (Z.to_nat i) a) i = Some a.
Proof.
  intros H1 H2. rewrite nthZ_nonneg by exact H1. rewrite set_nth_length.
  destruct (Z.ltb_spec i (Z.of_nat (length l))); [|lia].
  apply nth_error_set_nth_eq. lia.
Qed.

Lemma nthZ_set_neq {A} (l : list A) i k a :
  0 <= i -> 0 <= k -> i <> k -> nthZ (set_nth l (Z.to_nat i) a) k = nthZ l k.
Proof.
  intros H1 H2 H3. rewrite !nthZ_nonneg by assumption. rewrite set_nth_length.
  destruct (k <? Z.of_nat (length l)); [|reflexivity].
  apply nth_error_set_nth_neq. lia.
Qed.

(* ---------- frames and environments ---------- *)

Definition rho_of (cells : list (option cell)) (i : Z) : option cell :=
  match nthZ cells i with Some oc => oc | None => None end.

(* every variable of e has its declared type, lives in the frame, and holds a
   well-formed value of that type or nothing yet *)
Fixpoint vars_ok (tyenv : Z -> vty) (cells : list (option cell)) (e : pexpr) : Prop :=
  match e with
  | PLit _ | PStrLit _ _ => True
  | PVar i t =>
    t = tyenv i /\ 0 <= i < Z.of_nat (length cells) /\
    match rho_of cells i with
    | Some c => ty_of c = t /\ wf_cell c = true
    | None => True
    end
  | PUn _ a | PPar a => vars_ok tyenv cells a
  | PBin _ l r => vars_ok tyenv cells l /\ vars_ok tyenv cells r
  end.

(* cells' is cells with some unset cells materialised to the default of their type *)
Definition mat (tyenv : Z -> vty) (cells cells' : list (option cell)) : Prop :=
  length cells' = length cells /\
  forall i, 0 <= i ->
            rho_of cells' i = rho_of cells i \/
            (rho_of cells i = None /\ rho_of cells' i = Some (default_of (tyenv i))).

Lemma mat_refl tyenv c : mat tyenv c c.
Proof. split; auto. Qed.

Lemma mat_trans tyenv a b c : mat tyenv a b -> mat tyenv b c -> mat tyenv a c.
Proof.
  intros [L1 H1] [L2 H2]. split; [congruence|].
  intros i Hi. destruct (H1 i Hi) as [E1 | [E1 E1']]; destruct (H2 i Hi) as [E2 | [E2 E2']].
  - left; congruence.
  - right; split; congruence.
  - right; split; congruence.
  - congruence.
Qed.

Lemma wf_default t : wf_cell (default_of t) = true.
Proof. destruct t; reflexivity. Qed.
Lemma ty_default t : ty_of (default_of t) = t.
Proof. destruct t; reflexivity. Qed.

Lemma vars_ok_mat tyenv cells cells' e :
  mat tyenv cells cells' -> vars_ok tyenv cells e -> vars_ok tyenv cells' e.
Proof.
  intros [L H]. induction e; simpl; auto.
  - intros [Et [Hb Hv]]. split; [exact Et|]. split; [lia|].
    destruct (H i (proj1 Hb)) as [E | [E1 E2]].
    + rewrite E. exact Hv.
    + rewrite E2. subst t. split; [apply ty_default | apply wf_default].
  - intros [A B]; split; auto.
Qed.

Lemma peval_mat q tyenv cells cells' e :
  mat tyenv cells cells' -> vars_ok tyenv cells e ->
  peval q (rho_of cells') e = peval q (rho_of cells) e.
Proof.
  intros [L H]. induction e; simpl; auto.
  - intros [Et [Hb Hv]].
    destruct (H i (proj1 Hb)) as [E | [E1 E2]].
    + rewrite E. reflexivity.
    + rewrite E1, E2. subst t. reflexivity.
  - intro Hv. rewrite IHe by exact Hv. reflexivity.
  - intros [A B]. rewrite IHe1, IHe2 by assumption. reflexivity.
Qed.

(* ---------- machine states ---------- *)

Definition upd (x : Machine.st) (h : list seg) (s : list cell) : Machine.st := set_stack (set_heap x h) s.

Lemma upd_upd st h1 s1 h2 s2 : upd (upd st h1 s1) h2 s2 = upd st h2 s2.
Proof. destruct st; reflexivity. Qed.
Lemma upd_same st : upd st (heap st) (stack st) = st.
Proof. destruct st; reflexivity. Qed.
Lemma stack_upd st h s : stack (upd st h s) = s.
Proof. destruct st; reflexivity. Qed.
Lemma heap_upd st h s : heap (upd st h s) = h.
Proof. destruct st; reflexivity. Qed.
Lemma cur_upd st h s : cur (upd st h s) = cur st.
Proof. destruct st; reflexivity. Qed.

Lemma in_int_long z : in_int z = true -> in_long z = true.
Proof.
  unfold in_int, in_long. intro H. apply andb_true_iff in H as [A B].
  apply Z.leb_le in A. apply Z.leb_le in B.
  apply andb_true_iff. split; [apply Z.leb_le | apply Z.ltb_lt]; lia.
Qed.
Lemma in_int_small k : (-2 <=? k) && (k <=? 2) = true -> in_int k = true.
Proof.
  intro H. apply andb_true_iff in H as [A B]. apply Z.leb_le in A. apply Z.leb_le in B.
  unfold in_int. apply andb_true_iff. split; apply Z.leb_le; lia.
Qed.
Lemma in_long_small k : (-2 <=? k) && (k <=? 2) = true -> in_long k = true.
Proof. intro H. apply in_int_long, in_int_small, H. Qed.
Lemma in_int_0 : in_int 0 = true. Proof. reflexivity. Qed.
Lemma in_int_m1 : in_int (-1) = true. Proof. reflexivity. Qed.
Lemma in_int_1 : in_int 1 = true. Proof. reflexivity. Qed.

Lemma default_cell_rank t : default_cell (rank t) = default_of t.
Proof. destruct t; reflexivity. Qed.

Local Opaque in_int in_long Z.land Z.lor Z.lxor Z.lnot nthZ setZ.

(* ---------- reading a local variable ---------- *)

Lemma read_some m st g sg i t c :
  cur st = Some g -> nthZ (heap st) g = Some sg -> nthZ (s_cells sg) i = Some (Some c) ->
  integral t = true ->
  exec m (IRead true (rank t) i) st = R tt (upd st (heap st) (c :: stack st)).
Proof.
  intros Hc Hg Hi Ht. destruct st; simpl in *. subst.
  unfold exec, read_generic.
  replace (rank t =? 7) with false by (destruct t; reflexivity || discriminate).
  unfold read_var, scope_seg, cur_frame, get_seg, repush, push_cell, upd_stack; unfold bind, ret; simpl.
  rewrite Hg. simpl. rewrite Hi. reflexivity.
Qed.

Lemma read_none m st g sg i t :
  cur st = Some g -> 0 <= g -> nthZ (heap st) g = Some sg ->
  0 <= i < Z.of_nat (length (s_cells sg)) -> nthZ (s_cells sg) i = Some None ->
  integral t = true ->
  exists h' sg',
    exec m (IRead true (rank t) i) st = R tt (upd st h' (default_of t :: stack st)) /\
    nthZ h' g = Some sg' /\
    s_cells sg' = set_nth (s_cells sg) (Z.to_nat i) (Some (default_of t)).
Proof.
  intros Hc Hg0 Hg Hi Hn Ht. destruct st; simpl in *. subst.
  pose proof (nthZ_some_bound _ _ _ Hg0 Hg) as Hgb.
  eexists. eexists.
  unfold exec, read_generic.
  replace (rank t =? 7) with false by (destruct t; reflexivity || discriminate).
  unfold read_var, write_var; unfold seg_set, scope_seg, cur_frame; unfold get_seg, repush, push_cell,
    upd_stack; unfold bind, ret; simpl.
  rewrite Hg. simpl. rewrite Hn. simpl. rewrite Hg. simpl.
  rewrite (setZ_nonneg _ _ _ (proj1 Hi) (proj2 Hi)). simpl. rewrite Hg. simpl.
  rewrite (setZ_nonneg _ _ _ (proj1 Hi) (proj2 Hi)). simpl.
  rewrite (setZ_nonneg _ _ _ Hg0 Hgb). simpl.
  rewrite default_cell_rank.
  split; [reflexivity|]. split.
  - apply nthZ_set_eq; assumption.
  - reflexivity.
Qed.

(* ---------- literals, conversions, operators on the stack ---------- *)

Ltac run_instr :=
  unfold exec_list, exec;
  unfold bitwise, arith_prelude, pop_int, pop_ty, push_opt;
  unfold push; unfold mk_cell, push_cell, upd_stack, type_mismatch;
  unfold bind, pop, ret, trap; simpl.

Lemma push_lit_ok m st c :
  integral (ty_of c) = true -> wf_cell c = true ->
  exec_list m (push_lit c) st = R tt (upd st (heap st) (c :: stack st)).
Proof.
  intros Ht Hw. destruct st. unfold push_lit.
  destruct c; try discriminate; simpl in Hw; simpl small_const.
  - destruct ((-2 <=? z) && (z <=? 2)) eqn:E.
    + run_instr. rewrite (in_int_small _ E). reflexivity.
    + run_instr. rewrite Hw. reflexivity.
  - destruct ((-2 <=? z) && (z <=? 2)) eqn:E.
    + run_instr. rewrite (in_long_small _ E). reflexivity.
    + run_instr. rewrite Hw. reflexivity.
Qed.

Lemma conv_code_ok m st a t t' s :
  integral t = true -> integral t' = true -> rank t <= rank t' ->
  ty_of a = t -> wf_cell a = true -> stack st = a :: s ->
  exists a', conv no_quirks t' a = POk a' /\ ty_of a' = t' /\ wf_cell a' = true /\
             exec_list m (conv_code t t') st = R tt (upd st (heap st) (a' :: s)).
Proof.
  intros Ht Ht' Hr Ha Hw Hs. destruct st; simpl in Hs; subst.
  destruct a; try discriminate; destruct t'; try discriminate; simpl in *; try lia.
  - exists (CI z). repeat split; auto; reflexivity.
  - exists (CL z). split; [reflexivity|]. split; [reflexivity|].
    split; [apply in_int_long; exact Hw|].
    run_instr. rewrite (in_int_long _ Hw). reflexivity.
  - exists (CL z). repeat split; auto; reflexivity.
Qed.

Definition int_cell (t : vty) (z : Z) : cell := match t with TI => CI z | _ => CL z end.

Lemma unop_ok m st o a s :
  integral (ty_of a) = true -> wf_cell a = true -> stack st = a :: s ->
  let code := match o with
              | UNeg => [INeg] | UPlus => []
              | UNot => conv_code (ty_of a) (match ty_of a with TI => TI | _ => TL end) ++ [INot]
              end in
  match unop_sem no_quirks o a with
  | POk v => exec_list m code st = R tt (upd st (heap st) (v :: s)) /\
             ty_of v = ty_of a /\ wf_cell v = true
  | PErr er => exists st', exec_list m code st = T (trap_of_err er) true st'
  | PStuck _ => False
  end.
Proof.
  intros Ht Hw Hs. destruct st; simpl in Hs; subst.
  destruct a; try discriminate; simpl in Hw; destruct o; simpl;
    unfold chk_int, chk_long, conv_code; simpl;
    try (split; [reflexivity | split; [reflexivity | ]]);
    run_instr;
    repeat match goal with
           | |- context [in_int ?x] => destruct (in_int x) eqn:?
           | |- context [in_long ?x] => destruct (in_long x) eqn:?
           end; simpl; auto; try (eexists; reflexivity).
Qed.

Lemma binop_ok m st o a b s :
  integral (ty_of a) = true -> ty_of b = ty_of a ->
  match o with ODiv | OIDiv | OMod | OPow => False | _ => True end ->
  stack st = b :: a :: s ->
  match binop_sem no_quirks o a b with
  | POk v => exec_list m (op_instrs o) st = R tt (upd st (heap st) (v :: s)) /\
             binop_ty o (ty_of a) (ty_of b) = Some (ty_of v) /\ wf_cell v = true
  | PErr er => exists st', exec_list m (op_instrs o) st = T (trap_of_err er) true st'
  | PStuck _ => False
  end.
Proof.
  intros Ht Hb Ho Hs. destruct st; simpl in Hs; subst.
  destruct a; try discriminate; destruct b; try discriminate;
    destruct o; try contradiction; clear Ho;
    unfold binop_sem; cbn; unfold chk_int, chk_long; cbn;
    run_instr;
    try (match goal with
         | |- context [?x ?= ?y] => destruct (x ?= y) eqn:?
         end; cbn);
    rewrite ?in_int_0, ?in_int_m1, ?in_int_1; cbn;
    rewrite ?in_int_0, ?in_int_m1, ?in_int_1; cbn;
    repeat match goal with
           | |- context [in_int ?x] => destruct (in_int x) eqn:?
           | |- context [in_long ?x] => destruct (in_long x) eqn:?
           end; cbn; auto; try (eexists; reflexivity).
Qed.

(* ---------- sequencing ---------- *)

Lemma exec_app_R m a b st st1 :
  exec_list m a st = R tt st1 -> exec_list m (a ++ b) st = exec_list m b st1.
Proof. intro H. rewrite ExprStack.exec_list_app. unfold bind. rewrite H. reflexivity. Qed.

Lemma exec_app_T m a b st c k st1 :
  exec_list m a st = T c k st1 -> exec_list m (a ++ b) st = T c k st1.
Proof. intro H. rewrite ExprStack.exec_list_app. unfold bind. rewrite H. reflexivity. Qed.

Lemma nthZ_in_range {A} (l : list A) i :
  0 <= i < Z.of_nat (length l) -> exists x, nthZ l i = Some x.
Proof.
  intros [H1 H2]. rewrite nthZ_nonneg by exact H1.
  destruct (Z.ltb_spec i (Z.of_nat (length l))); [|lia].
  destruct (nth_error l (Z.to_nat i)) eqn:E; [eauto|].
  apply nth_error_None in E. lia.
Qed.

Lemma mat_set tyenv cells i :
  0 <= i < Z.of_nat (length cells) -> rho_of cells i = None ->
  mat tyenv cells (set_nth cells (Z.to_nat i) (Some (default_of (tyenv i)))).
Proof.
  intros Hi Hn. split; [apply set_nth_length|].
  intros k Hk. destruct (Z.eq_dec k i) as [->|Hne].
  - right. split; [exact Hn|]. unfold rho_of. rewrite nthZ_set_eq by lia. reflexivity.
  - left. unfold rho_of. rewrite nthZ_set_neq by lia. reflexivity.
Qed.

(* ---------- typing of the fragment ---------- *)

Lemma frag_binop_ty o lt rt :
  agree_op o lt rt = true ->
  q_binop_ty o lt rt = binop_ty o lt rt /\
  exists nt, q_binop_ty o lt rt = Some nt /\ operand_ty o lt rt nt = join lt rt /\
             integral nt = true /\ integral (join lt rt) = true /\
             match o with ODiv | OIDiv | OMod | OPow => False | _ => True end.
Proof.
  unfold agree_op. intro H.
  destruct lt; try discriminate; destruct rt; try discriminate; destruct o; try discriminate;
    (split; [reflexivity|]); eexists; (split; [reflexivity|]); repeat split; reflexivity || exact I.
Qed.

Lemma binop_preconv o a b a' b' :
  integral (ty_of a) = true -> integral (ty_of b) = true ->
  match o with ODiv | OIDiv | OMod | OPow => False | _ => True end ->
  conv no_quirks (join (ty_of a) (ty_of b)) a = POk a' ->
  conv no_quirks (join (ty_of a) (ty_of b)) b = POk b' ->
  binop_sem no_quirks o a b = binop_sem no_quirks o a' b'.
Proof.
  intros Ha Hb Ho Ca Cb.
  destruct a; try discriminate; destruct b; try discriminate; simpl in Ca, Cb;
    inversion Ca; inversion Cb; subst;
    destruct o; try contradiction; reflexivity.
Qed.

Definition frame_at (st : Machine.st) (g : Z) (sg : seg) : Prop :=
  cur st = Some g /\ 0 <= g /\ nthZ (heap st) g = Some sg.

Lemma frame_at_upd st g h sg' s :
  cur st = Some g -> 0 <= g -> nthZ h g = Some sg' -> frame_at (upd st h s) g sg'.
Proof. intros. unfold frame_at. rewrite cur_upd, heap_upd. auto. Qed.

(* ---------- the theorem ---------- *)

Theorem expr_correct m tyenv e :
  in_fragment e = true ->
  forall st g sg,
    frame_at st g sg -> vars_ok tyenv (s_cells sg) e ->
    match peval no_quirks (rho_of (s_cells sg)) e with
    | POk v =>
      exists h' sg',
        exec_list m (cg e) st = R tt (upd st h' (v :: stack st)) /\
        nthZ h' g = Some sg' /\ mat tyenv (s_cells sg) (s_cells sg') /\
        q_ty e = Some (ty_of v) /\ integral (ty_of v) = true /\ wf_cell v = true
    | PErr er => exists kw st', exec_list m (cg e) st = T (trap_of_err er) kw st'
    | PStuck _ => False
    end.
Proof.
  induction e as [c | idx s0 | i t | o a IH | o l IHl r IHr | a IH]; intros Hf st g sg Hfr Hv.
  - (* literal *)
    simpl in Hf. apply andb_true_iff in Hf as [Ht Hw]. cbn [peval cg q_ty].
    exists (heap st), sg. destruct Hfr as [Hc [Hg0 Hg]].
    split; [apply push_lit_ok; assumption|]. split; [exact Hg|]. split; [apply mat_refl|].
    split; [destruct c; try discriminate; reflexivity|]. split; assumption.
  - discriminate.
  - (* variable *)
    simpl in Hf. apply andb_true_iff in Hf as [Ht Hi0].
    destruct Hv as [Et [Hb Hval]]. destruct Hfr as [Hc [Hg0 Hg]].
    cbn [peval cg q_ty]. rewrite ExprStack.exec_list_one.
    destruct (nthZ_in_range (s_cells sg) i Hb) as [oc Hoc].
    unfold rho_of in *. rewrite Hoc in *.
    destruct oc as [c|].
    + destruct Hval as [Hty Hw].
      exists (heap st), sg.
      split; [eapply read_some; eassumption|]. split; [exact Hg|]. split; [apply mat_refl|].
      rewrite Hty. split; [reflexivity|]. split; assumption.
    + destruct (read_none m st g sg i t Hc Hg0 Hg Hb Hoc Ht) as [h' [sg' [He [Hg' Hcells]]]].
      exists h', sg'.
      split; [exact He|]. split; [exact Hg'|].
      split.
      { rewrite Hcells. subst t. apply mat_set; [exact Hb|]. unfold rho_of. rewrite Hoc. reflexivity. }
      rewrite ty_default. split; [reflexivity|]. split; [exact Ht | apply wf_default].
  - (* unary *)
    simpl in Hf. simpl in Hv.
    specialize (IH Hf st g sg Hfr Hv).
    cbn [peval cg q_ty].
    destruct (peval no_quirks (rho_of (s_cells sg)) a) as [va | er | w]; cbn [pbind].
    + destruct IH as [h1 [sg1 [He [Hg1 [Hm [Hq [Hti Hw]]]]]]].
      pose proof (unop_ok m (upd st h1 (va :: stack st)) o va (stack st) Hti Hw (stack_upd _ _ _)) as U.
      cbv zeta in U.
      assert (Ecode : (match o with
                       | UNeg => [INeg]
                       | UNot => match q_ty a with
                                 | Some t => conv_code t (match t with TI => TI | _ => TL end) ++ [INot]
                                 | None => [INot]
                                 end
                       | UPlus => []
                       end) =
                      (match o with
                       | UNeg => [INeg] | UPlus => []
                       | UNot => conv_code (ty_of va) (match ty_of va with TI => TI | _ => TL end) ++ [INot]
                       end)).
      { rewrite Hq. destruct o; reflexivity. }
      rewrite Ecode. clear Ecode.
      destruct (unop_sem no_quirks o va) as [v | er | w].
      * destruct U as [Ue [Ut Uw]].
        exists h1, sg1.
        split.
        { rewrite (exec_app_R _ _ _ _ _ He). rewrite Ue. rewrite heap_upd, upd_upd. reflexivity. }
        split; [exact Hg1|]. split; [exact Hm|].
        rewrite Hq, Ut. split.
        { destruct (ty_of va); try discriminate; destruct o; reflexivity. }
        split; [exact Hti | exact Uw].
      * destruct U as [st' Ue]. exists true, st'.
        rewrite (exec_app_R _ _ _ _ _ He). exact Ue.
      * exact U.
    + destruct IH as [kw [st' He]]. exists kw, st'. apply exec_app_T. exact He.
    + exact IH.
  - (* binary *)
    simpl in Hf. apply andb_true_iff in Hf as [Hf Hag]. apply andb_true_iff in Hf as [Hfl Hfr'].
    destruct Hv as [Hvl Hvr].
    specialize (IHl Hfl st g sg Hfr Hvl).
    cbn [peval].
    destruct (peval no_quirks (rho_of (s_cells sg)) l) as [va | er | w]; cbn [pbind].
    2:{ destruct IHl as [kw [st' He]]. exists kw, st'.
        cbn [cg]. destruct (q_ty l); [destruct (q_ty r); [destruct (q_ty (PBin o l r))|]|];
          apply exec_app_T; exact He. }
    2:{ exact IHl. }
    destruct IHl as [h1 [sg1 [He1 [Hg1 [Hm1 [Hq1 [Hti1 Hw1]]]]]]].
    destruct Hfr as [Hc [Hg0 Hg]].
    set (st1 := upd st h1 (va :: stack st)) in *.
    (* right operand, in the state after the left one and its conversion *)
    rewrite Hq1 in Hag.
    destruct (q_ty r) as [rt|] eqn:Hqr; [|discriminate].
    destruct (frag_binop_ty o _ _ Hag) as [Hsame [nt [Hnt [Hop [Hint [Hij Hoo]]]]]].
    cbn [cg]. rewrite Hq1, Hqr. cbn [q_ty]. rewrite Hq1, Hqr, Hnt. rewrite Hop.
    set (t := join (ty_of va) rt) in *.
    assert (Hr1 : rank (ty_of va) <= rank t).
    { unfold t, join. destruct (Z.ltb_spec (rank (ty_of va)) (rank rt)); lia. }
    destruct (conv_code_ok m st1 va (ty_of va) t (stack st) Hti1 Hij Hr1 eq_refl Hw1 (stack_upd _ _ _))
      as [va' [Cva [Tva [Wva Eva]]]].
    set (st2 := upd st1 (heap st1) (va' :: stack st)) in *.
    assert (Hfr2 : frame_at st2 g sg1).
    { unfold st2, st1. rewrite heap_upd. apply frame_at_upd; assumption. }
    pose proof (vars_ok_mat _ _ _ _ Hm1 Hvr) as Hvr1.
    specialize (IHr Hfr' st2 g sg1 Hfr2 Hvr1).
    rewrite (peval_mat _ _ _ _ _ Hm1 Hvr) in IHr.
    assert (Hpre : forall rest, exec_list m (cg l ++ conv_code (ty_of va) t ++ rest) st
                                = exec_list m rest st2).
    { intro rest. rewrite (exec_app_R _ _ _ _ _ He1). fold st1.
      rewrite (exec_app_R _ _ _ _ _ Eva). reflexivity. }
    rewrite Hpre.
    destruct (peval no_quirks (rho_of (s_cells sg)) r) as [vb | er | w]; cbn [pbind].
    2:{ destruct IHr as [kw [st' He]]. exists kw, st'. apply exec_app_T. exact He. }
    2:{ exact IHr. }
    destruct IHr as [h2 [sg2 [He2 [Hg2 [Hm2 [Hq2 [Hti2 Hw2]]]]]]].
    try rewrite Hqr in Hq2. inversion Hq2; subst rt. clear Hq2.
    assert (Hs2 : stack st2 = va' :: stack st) by (unfold st2; apply stack_upd).
    rewrite Hs2 in He2.
    set (st3 := upd st2 h2 (vb :: va' :: stack st)) in *.
    assert (Hr2 : rank (ty_of vb) <= rank t).
    { unfold t, join. destruct (Z.ltb_spec (rank (ty_of va)) (rank (ty_of vb))); lia. }
    destruct (conv_code_ok m st3 vb (ty_of vb) t (va' :: stack st) Hti2 Hij Hr2 eq_refl Hw2 (stack_upd _ _ _))
      as [vb' [Cvb [Tvb [Wvb Evb]]]].
    set (st4 := upd st3 (heap st3) (vb' :: va' :: stack st)) in *.
    rewrite (exec_app_R _ _ _ _ _ He2). fold st3.
    rewrite (exec_app_R _ _ _ _ _ Evb). fold st4.
    rewrite (binop_preconv o va vb va' vb' Hti1 Hti2 Hoo Cva Cvb).
    assert (Hia : integral (ty_of va') = true) by (rewrite Tva; exact Hij).
    assert (Htb : ty_of vb' = ty_of va') by congruence.
    pose proof (binop_ok m st4 o va' vb' (stack st) Hia Htb Hoo (stack_upd _ _ _)) as B.
    destruct (binop_sem no_quirks o va' vb') as [v | er | w].
    + destruct B as [Be [Bt Bw]].
      exists h2, sg2.
      split.
      { rewrite Be. unfold st4, st3, st2, st1. rewrite !heap_upd, !upd_upd. reflexivity. }
      split; [exact Hg2|]. split; [eapply mat_trans; eassumption|].
      assert (Hnt' : Some nt = Some (ty_of v)).
      { rewrite <- Hnt, Hsame. rewrite Tva, Htb, Tva in Bt.
        (* binop_ty on the converted operands equals binop_ty on the original ones *)
        clear - Bt Hti1 Hti2 Hoo. unfold t in Bt.
        destruct (ty_of va); try discriminate; destruct (ty_of vb); try discriminate;
          destruct o; try contradiction; exact Bt. }
      split; [exact Hnt'|]. inversion Hnt'; subst nt. split; [exact Hint | exact Bw].
    + destruct B as [st' Be]. exists true, st'. exact Be.
    + exact B.
  - (* parentheses *)
    simpl in Hf, Hv. exact (IH Hf st g sg Hfr Hv).
Qed.
