(* attribution, positive part: the statement that was being generated when an
   instruction was emitted has a record containing that instruction, so the
   lookup answers with a record at least as tight (property C11). *)
From Coq Require Import ZArith List Bool Lia.
From QV Require Import DebugMap DebugMapProofs DebugMapFinalize DebugMapCover DebugMapWitness.
Import ListNotations.
Open Scope Z_scope.

Lemma open_at_app a : wf_markers a -> forall b off st addr,
  open_at (a ++ b) off st addr =
  match open_at a off st addr with
  | Some r => Some r
  | None => open_at b (off + size a) st addr
  end.
Proof.
  induction 1 as [|sz l Hsz Hl IH|l Hl IH|n body l Hb IHb Hl IHl]; intros b off st addr.
  - simpl. rewrite Z.add_0_r. reflexivity.
  - simpl. destruct (off =? addr); [reflexivity|]. rewrite IH. rewrite Z.add_assoc. reflexivity.
  - simpl. apply IH.
  - replace ((Start n :: body ++ End n :: l) ++ b) with (Start n :: body ++ (End n :: (l ++ b)))
      by (simpl; rewrite <- app_assoc; reflexivity).
    simpl. rewrite !IHb. simpl. rewrite IHl. rewrite size_app. simpl.
    destruct (open_at body off (n :: st) addr); [reflexivity|].
    rewrite Z.add_assoc. reflexivity.
Qed.

Lemma open_at_range l : wf_markers l -> forall off st addr r,
  open_at l off st addr = Some r -> off <= addr < off + size l.
Proof.
  induction 1 as [|sz l Hsz Hl IH|l Hl IH|n body l Hb IHb Hl IHl]; intros off st addr r H.
  - discriminate.
  - simpl in H. pose proof (wf_size_nonneg l Hl). destruct (off =? addr) eqn:E.
    + apply Z.eqb_eq in E. simpl. lia.
    + specialize (IH _ _ _ _ H). simpl. lia.
  - simpl in H. specialize (IH _ _ _ _ H). simpl. lia.
  - simpl in H. rewrite open_at_app in H by auto. simpl in H.
    pose proof (wf_size_nonneg body Hb). pose proof (wf_size_nonneg l Hl).
    simpl. rewrite size_app. simpl.
    destruct (open_at body off (n :: st) addr) eqn:E.
    + specialize (IHb _ _ _ _ E). lia.
    + specialize (IHl _ _ _ _ H). lia.
Qed.

(* the open nodes at an instruction: the context's, or a node collected from
   this very stream whose range contains the instruction *)
Lemma open_at_collected l : wf_markers l -> forall off st addr r,
  open_at l off st addr = Some r ->
  r = st \/
  exists n pre s e, r = n :: pre /\ In (n, s, e) (nodes_at off l) /\ s <= addr < e.
Proof.
  induction 1 as [|sz l Hsz Hl IH|l Hl IH|n body l Hb IHb Hl IHl]; intros off st addr r H.
  - discriminate.
  - simpl in H. rewrite nodes_at_ins. destruct (off =? addr).
    + inversion H. auto.
    + apply IH in H. exact H.
  - simpl in H. rewrite nodes_at_empty by auto. apply IH in H. exact H.
  - simpl in H. rewrite open_at_app in H by auto. simpl in H. rewrite nodes_at_node by auto.
    destruct (open_at body off (n :: st) addr) eqn:E.
    + inversion H; subst l0. clear H. pose proof (open_at_range body Hb _ _ _ _ E) as Rg.
      apply IHb in E. destruct E as [E|(m & pre & s & e & E1 & E2 & E3)].
      * right. exists n, st, off, (off + size body). split; [auto|]. split; [|lia].
        apply in_or_app. right. left. reflexivity.
      * right. exists m, pre, s, e. split; [auto|]. split; [|auto].
        apply in_or_app. auto.
    + apply IHl in H. destruct H as [H|(m & pre & s & e & E1 & E2 & E3)]; [auto|].
      right. exists m, pre, s, e. split; [auto|]. split; [|auto].
      apply in_or_app. right. right. auto.
Qed.

Lemma process_blocks_incl emp blocks : forall stmts r,
  In r stmts -> In r (process_blocks emp blocks stmts).
Proof.
  induction blocks as [|b blocks IH]; intros stmts r H; simpl; auto.
  apply IH. destruct (process_block_app emp stmts b) as (s1 & E). rewrite E.
  apply in_or_app. auto.
Qed.

Lemma attribution_stmt_lemma l : wf_markers l ->
  forall routines stmts others sz, debug_map l = DOk routines stmts others sz ->
  forall addr n rest, open_at l 0 [] addr = Some (n :: rest) -> nk n = KStmt ->
  exists s e, In (mkRec (nid n) s e) stmts /\ s <= addr < e /\
  exists r, find_stmt stmts addr = FFound r /\ r_start r <= addr < r_end r /\ rsize r <= e - s.
Proof.
  intros W routines stmts others sz HD addr n rest HO K.
  unfold debug_map in HD. rewrite (run_frame l W) in HD. simpl in HD.
  inversion HD; subst. clear HD.
  apply (open_at_collected l W) in HO. destruct HO as [HO|(m & pre & s & e & E1 & E2 & E3)];
    [discriminate|].
  inversion E1; subst m pre. clear E1.
  exists s, e.
  assert (Hin : In (mkRec (nid n) s e)
                   (finalize (empties_at 0 l) (d_blocks (add_nodes (nodes_at 0 l)))
                      (d_stmts (add_nodes (nodes_at 0 l))))).
  { unfold finalize. apply in_sort_by. apply process_blocks_incl.
    rewrite add_nodes_stmts. apply in_stmts_of. exists n, s, e. auto. }
  set (T := finalize (empties_at 0 l) (d_blocks (add_nodes (nodes_at 0 l)))
                     (d_stmts (add_nodes (nodes_at 0 l)))) in *.
  split; [exact Hin|]. split; [exact E3|].
  destruct (proj1 (find_stmt_complete_lemma T addr)) as (r & Hr).
  { exists (mkRec (nid n) s e). split; [exact Hin|]. simpl. lia. }
  exists r. split; [exact Hr|].
  apply find_stmt_innermost_lemma in Hr. destruct Hr as (_ & Hc & Hmin & _).
  split; [exact Hc|].
  specialize (Hmin _ Hin). simpl in Hmin. unfold rsize in *. simpl in Hmin. apply Hmin. lia.
Qed.
