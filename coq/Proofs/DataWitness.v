(* C15: concrete witnesses (the defects D11, D12, D44 on the faithful model),
   facts on the statement extent, and the finite sweep relating the model of the
   grammar rule data_stmt to the specification. *)
From Coq Require Import ZArith List Bool Lia.
From QV Require Import Sx Strs Fl NumFmt Cell DataText DataDev DataSpec DataProofs.
Import ListNotations.
Open Scope Z_scope.

Definition lbl_a : label := [108; 97].     (* la *)
Definition lbl_b : label := [108; 98].     (* lb *)
Definition it (z : Z) : ditem := DItem [48 + z].   (* one-digit numeric item *)

(* ---------- D11: RESTORE without label ---------- *)

(* DATA 1 / la: / DATA 2       READ a% : RESTORE : READ b% *)
Definition d11_evs : list ev := [EData [it 1]; ELabel lbl_a; EData [it 2]].
Definition d11_ops : list op := [ORead 1; ORestore None; ORead 1].

Lemma restore_bare_refuted :
  exists evs ops,
    prog_valid evs ops = true /\ data_nonempty evs = true /\ ops_typed ops = true /\
    targets_own_data evs ops = true /\
    run_prog evs ops = PRun [CI 1; CI 2] EDone /\
    spec_prog evs ops = SRun [CI 1; CI 1] SDone /\
    abstract_pres (run_prog evs ops) <> Some (spec_prog evs ops).
Proof.
  exists d11_evs, d11_ops. repeat split; try (vm_compute; reflexivity).
  vm_compute. discriminate.
Qed.

(* DATA 1       READ : RESTORE : READ : READ   -- the third READ must be out of data *)
Definition d11w_evs : list ev := [EData [it 1]].
Definition d11w_ops : list op := [ORead 1; ORestore None; ORead 1; ORead 1].

Lemma restore_bare_wraps_refuted :
  exists evs ops,
    prog_valid evs ops = true /\ data_nonempty evs = true /\ ops_typed ops = true /\
    targets_own_data evs ops = true /\ length (parts_of (group evs)) = 1%nat /\
    run_prog evs ops = PRun [CI 1; CI 1; CI 1] EDone /\
    spec_prog evs ops = SRun [CI 1; CI 1] SRuntimeError.
Proof. exists d11w_evs, d11w_ops. repeat split; vm_compute; reflexivity. Qed.

(* with the repair both witnesses meet the specification *)
Lemma restore_bare_fixed_witnesses :
  abstract_pres (run_prog_fixed d11_evs d11_ops) = Some (spec_prog d11_evs d11_ops) /\
  abstract_pres (run_prog_fixed d11w_evs d11w_ops) = Some (spec_prog d11w_evs d11w_ops).
Proof. split; vm_compute; reflexivity. Qed.

(* ---------- D12: RESTORE l, l without DATA directly after it ---------- *)

(* la: / lb: / DATA 5       RESTORE la : READ a% *)
Definition d12_evs : list ev := [ELabel lbl_a; ELabel lbl_b; EData [it 5]].
Definition d12_ops : list op := [ORestore (Some lbl_a); ORead 1].

Lemma restore_label_refuted :
  exists evs ops,
    prog_valid evs ops = true /\ data_nonempty evs = true /\ ops_typed ops = true /\
    no_bare_restore ops = true /\ targets_own_data evs ops = false /\
    run_prog evs ops = PCompile CValueError /\
    spec_prog evs ops = SRun [CI 5] SDone.
Proof. exists d12_evs, d12_ops. repeat split; vm_compute; reflexivity. Qed.

(* DATA 5 / la:       RESTORE la : READ a%    -- demanded: out of data at READ *)
Lemma restore_label_at_end_refuted :
  run_prog [EData [it 5]; ELabel lbl_a] d12_ops = PCompile CValueError /\
  spec_prog [EData [it 5]; ELabel lbl_a] d12_ops = SRun [] SRuntimeError.
Proof. split; vm_compute; reflexivity. Qed.

(* ---------- D44: the grammar rule re-joins tokens ---------- *)

Definition t_aqb : str := [97; 34; 98].          (* a Q b, Q the double quote *)

Lemma grammar_rejoin_refuted :
  exists t, ds_supported t = true /\
    data_stmt t = (Some [DItem [97; 32; 34; 98]], []) /\                  (* a blank Q b *)
    ss_items (stmt_of_line t) = Some [DItem [97; 34; 98]] /\
    ss_rest (stmt_of_line t) = [] /\ ss_inner_quote (stmt_of_line t) = true.
Proof. exists t_aqb. repeat split; vm_compute; reflexivity. Qed.

Lemma grammar_lone_quote_refuted :
  data_stmt [ch_quote] = (Some [DEmpty], [ch_quote]) /\
  ss_items (stmt_of_line [ch_quote]) = Some [DItem []] /\
  ss_rest (stmt_of_line [ch_quote]) = [] /\ ss_lone_quote (stmt_of_line [ch_quote]) = true.
Proof. repeat split; vm_compute; reflexivity. Qed.

(* the guard of the text theorems is needed: a vertical tab alone is an unquoted item
   that str.strip() empties; the result is the empty string, not Empty *)
Lemma exotic_whitespace_example :
  plain_text [11] = false /\ parse_data [11] = Some [DItem []].
Proof. split; vm_compute; reflexivity. Qed.

(* ---------- the statement extent ---------- *)

Lemma extent_split s : forall m,
  let '(t, r, _) := extent m s in
  t ++ r = s /\ (r = [] \/ exists r', r = ch_colon :: r').
Proof.
  induction s as [|c s IH]; intro m; [simpl; split; [reflexivity | now left]|].
  assert (G : forall m' fl,
            let '(t, r, _) := (let '(a, b, f) := extent m' s in (c :: a, b, fl || f)) in
            t ++ r = c :: s /\ (r = [] \/ exists r', r = ch_colon :: r')).
  { intros m' fl. specialize (IH m'). destruct (extent m' s) as [[a b] f].
    destruct IH as [H1 H2]. split; [simpl; now rewrite H1 | exact H2]. }
  cbn [extent].
  assert (C : (c =? ch_colon) = true ->
              ([] : str) ++ (c :: s) = c :: s /\ (c :: s = [] \/ exists r', c :: s = ch_colon :: r')).
  { intro E. apply Z.eqb_eq in E. subst c. split; [reflexivity | right; now exists s]. }
  destruct m.
  - destruct (c =? ch_colon) eqn:E1; [now apply C|].
    destruct (c =? ch_comma); [apply G|].
    destruct (is_blank c); [apply G|]. destruct (c =? ch_quote); apply G.
  - destruct (c =? ch_colon) eqn:E1; [now apply C|].
    destruct (c =? ch_comma); apply G.
  - destruct (c =? ch_quote); apply G.
  - destruct (c =? ch_colon) eqn:E1; [now apply C|].
    destruct (c =? ch_comma); apply G.
Qed.

(* ---------- finite sweep: model of data_stmt vs specification ---------- *)

Fixpoint strs_exact (alpha : list Z) (n : nat) : list str :=
  match n with
  | O => [[]]
  | S k => flat_map (fun c => map (cons c) (strs_exact alpha k)) alpha
  end.

Definition strs_upto (alpha : list Z) (n : nat) : list str :=
  flat_map (strs_exact alpha) (seq 0 (S n)).

Fixpoint items_eqb (a b : list ditem) : bool :=
  match a, b with
  | [], [] => true
  | x :: a', y :: b' => ditem_eqb x y && items_eqb a' b'
  | _, _ => false
  end.

(* what the rule means for the line: a rest starting with a quote admits no continuation *)
Definition eff_ds (t : str) : option (list ditem * str) :=
  let '(o, rest) := data_stmt t in
  match o with
  | None => None
  | Some its => match rest with
                | c :: _ => if c =? ch_quote then None else Some (its, rest)
                | [] => Some (its, [])
                end
  end.

Definition eff_spec (t : str) : option (list ditem * str) :=
  let sp := stmt_of_line t in
  match ss_items sp with None => None | Some its => Some (its, ss_rest sp) end.

Definition eff_eqb (a b : option (list ditem * str)) : bool :=
  match a, b with
  | None, None => true
  | Some (i1, r1), Some (i2, r2) => items_eqb i1 i2 && str_eqb r1 r2
  | _, _ => false
  end.

(* outside the two known failure classes the rule agrees with the specification *)
Definition ds_check (t : str) : bool :=
  let sp := stmt_of_line t in
  ss_inner_quote sp || ss_lone_quote sp || eff_eqb (eff_ds t) (eff_spec t).

Definition c15_alphabet : list Z := [97; 49; 32; 44; 34; 58].    (* a 1 blank , quote : *)

Lemma data_stmt_sweep5 : forallb ds_check (strs_upto c15_alphabet 5) = true.
Proof. vm_compute. reflexivity. Qed.

Lemma data_stmt_matches_spec_upto5 t :
  In t (strs_upto c15_alphabet 5) -> ds_check t = true.
Proof. intro H. pose proof data_stmt_sweep5 as S. rewrite forallb_forall in S. now apply S. Qed.
