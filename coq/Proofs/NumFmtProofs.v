(* Lemmas behind Props/C16.v: number -> text -> number. *)
From Coq Require Import ZArith List Bool Lia ZifyBool.
From QV Require Import Sx Strs Fl Dec NumFmt Cell Using Print PrintProofs Literal NumSpec NumText.
Import ListNotations.
Open Scope Z_scope.

(* ====================================================================== *)
(* characters                                                             *)

Lemma digit_not_space c : is_digit c = true -> is_py_space c = false.
Proof. unfold is_digit, is_py_space. lia. Qed.

Lemma digit_not_blank c : is_digit c = true -> is_blank c = false.
Proof. unfold is_digit, is_blank. lia. Qed.

Lemma digit_not_sign c : is_digit c = true -> is_sign c = false.
Proof. unfold is_digit, is_sign, ch_plus, ch_minus. lia. Qed.

Lemma digit_lower c : is_digit c = true -> lower c = c.
Proof. unfold is_digit, lower. intro H. destruct ((65 <=? c) && (c <=? 90)) eqn:E; lia. Qed.

(* ====================================================================== *)
(* decimal digits of a natural number                                     *)

Lemma nat_digits_nonempty z : 0 <= z -> nat_digits z <> [].
Proof.
  intros Hz E. pose proof (nat_digits_val z Hz) as H. rewrite E in H. discriminate.
Qed.

Lemma digits_fuel_head fuel : forall z acc,
  0 < z -> z < 2 ^ Z.of_nat (S fuel) ->
  exists d r, digits_fuel fuel z acc = (ch_0 + d) :: r /\ 1 <= d <= 9.
Proof.
  induction fuel as [|f IH]; intros z acc Hz Hlt.
  - simpl in *. exists z, acc. split; [reflexivity | lia].
  - cbn [digits_fuel]. destruct (Z.ltb_spec z 10) as [Hs|Hs].
    + exists z, acc. split; [reflexivity | lia].
    + apply IH.
      * apply Z.div_str_pos; lia.
      * rewrite Nat2Z.inj_succ in Hlt. rewrite Z.pow_succ_r in Hlt by lia.
        apply Z.div_lt_upper_bound; lia.
Qed.

(* no leading zero *)
Lemma nat_digits_head z : 0 < z ->
  exists d r, nat_digits z = (ch_0 + d) :: r /\ 1 <= d <= 9.
Proof.
  intro Hz. unfold nat_digits. apply digits_fuel_head; [exact Hz|].
  rewrite Nat2Z.inj_succ, Z2Nat.id by apply Z.log2_nonneg.
  apply Z.log2_spec; lia.
Qed.

Lemma nat_digits_zero : nat_digits 0 = [ch_0].
Proof. reflexivity. Qed.

Lemma forallb_rev {A} (p : A -> bool) l : forallb p (rev l) = forallb p l.
Proof.
  induction l as [|a l IH]; simpl; [reflexivity|].
  rewrite forallb_app, IH. simpl. rewrite andb_true_r. apply andb_comm.
Qed.

(* ====================================================================== *)
(* fmt_int: shape                                                         *)

Definition lead_of (z : Z) : Z := if z <? 0 then ch_minus else ch_space.

Lemma fmt_int_eq z : fmt_int z = lead_of z :: nat_digits (Z.abs z).
Proof.
  unfold fmt_int, Z_to_dec, lead_of.
  destruct (Z.geb_spec z 0) as [H|H]; destruct (Z.ltb_spec z 0) as [H'|H']; try lia.
  - now rewrite Z.abs_eq by lia.
  - now rewrite Z.abs_neq by lia.
Qed.

Lemma fmt_int_shape z :
  fmt_int z = lead_of z :: nat_digits (Z.abs z)
  /\ forallb is_digit (nat_digits (Z.abs z)) = true
  /\ digits_val (nat_digits (Z.abs z)) = Some (Z.abs z)
  /\ (z <> 0 -> exists d r, nat_digits (Z.abs z) = (ch_0 + d) :: r /\ 1 <= d <= 9)
  /\ (z = 0 -> nat_digits (Z.abs z) = [ch_0]).
Proof.
  split; [apply fmt_int_eq|].
  split; [apply nat_digits_all_digits; lia|].
  split; [apply nat_digits_val; lia|].
  split.
  - intro Hz. apply nat_digits_head. lia.
  - intros ->. reflexivity.
Qed.

(* the specification predicate of NumSpec holds of the text *)
Lemma digs_val_digits ds : forall acc,
  forallb is_digit ds = true -> digits_val_acc ds acc = Some (digs_val ds acc).
Proof.
  induction ds as [|c r IH]; intros acc H; simpl in *; [reflexivity|].
  apply andb_true_iff in H as [Hc Hr]. rewrite Hc. now apply IH.
Qed.

Lemma fmt_int_plain z : plain_int_text z (fmt_int z) = true.
Proof.
  destruct (fmt_int_shape z) as (E & Hall & Hval & Hnz & Hz).
  rewrite E. unfold plain_int_text.
  pose proof (nat_digits_nonempty (Z.abs z) ltac:(lia)) as Hne.
  set (ds := nat_digits (Z.abs z)) in *.
  assert (Hv : digs_val ds 0 = Z.abs z).
  { unfold digits_val in Hval. destruct ds as [|c r]; [congruence|].
    rewrite digs_val_digits in Hval by exact Hall. congruence. }
  repeat (apply andb_true_iff; split).
  - unfold lead_of. apply Z.eqb_refl.
  - destruct ds; [congruence | reflexivity].
  - exact Hall.
  - rewrite Hv. apply Z.eqb_refl.
  - destruct (Z.eq_dec z 0) as [->|Hn].
    + rewrite (Hz eq_refl). reflexivity.
    + destruct (Hnz Hn) as (d & r' & Hd & Hr). rewrite Hd.
      destruct r'; [reflexivity|]. unfold ch_0. lia.
Qed.

(* ====================================================================== *)
(* Python int() on the text: READ and INPUT                               *)

Lemma int_digits_all ds : forall acc,
  forallb is_digit ds = true -> int_digits ds acc true = digits_val_acc ds acc.
Proof.
  induction ds as [|c r IH]; intros acc H; simpl in *; [reflexivity|].
  apply andb_true_iff in H as [Hc Hr]. rewrite Hc. now apply IH.
Qed.

Lemma int_digits_start ds :
  forallb is_digit ds = true -> ds <> [] -> int_digits ds 0 false = digits_val ds.
Proof.
  intros H Hne. destruct ds as [|c r]; [congruence|].
  unfold digits_val. simpl in *. apply andb_true_iff in H as [Hc Hr]. rewrite Hc.
  now apply int_digits_all.
Qed.

Lemma drop_while_head p c r : p c = false -> drop_while p (c :: r) = c :: r.
Proof. intro H. simpl. now rewrite H. Qed.

Lemma py_strip_clean s a r b r' :
  s = a :: r -> is_py_space a = false ->
  rev s = b :: r' -> is_py_space b = false -> py_strip s = s.
Proof.
  intros -> Ha Hrev Hb. unfold py_strip. rewrite drop_while_head by exact Ha.
  unfold drop_while_end. rewrite Hrev, drop_while_head by exact Hb.
  rewrite <- Hrev. apply rev_involutive.
Qed.

(* a digit string is untouched by strip, with or without a minus sign in front *)
Lemma rev_digits_head ds pre :
  forallb is_digit ds = true -> ds <> [] ->
  exists b r', rev (pre ++ ds) = b :: r' /\ is_digit b = true.
Proof.
  intros H Hne. rewrite rev_app_distr.
  pose proof (forallb_rev is_digit ds) as Hr. rewrite H in Hr.
  destruct (rev ds) as [|b r'] eqn:E.
  - apply (f_equal (@rev Z)) in E. rewrite rev_involutive in E. simpl in E. congruence.
  - exists b, (r' ++ rev pre). split; [reflexivity|].
    simpl in Hr. now apply andb_true_iff in Hr as [Hb _].
Qed.

Lemma py_strip_digits ds :
  forallb is_digit ds = true -> ds <> [] -> py_strip ds = ds.
Proof.
  intros H Hne. destruct (rev_digits_head ds [] H Hne) as (b & r' & Hrev & Hb).
  destruct ds as [|a r] eqn:E; [congruence|].
  simpl in H. apply andb_true_iff in H as [Ha _].
  eapply py_strip_clean; [reflexivity | now apply digit_not_space | exact Hrev
                          | now apply digit_not_space].
Qed.

Lemma py_strip_minus_digits ds :
  forallb is_digit ds = true -> ds <> [] -> py_strip (ch_minus :: ds) = ch_minus :: ds.
Proof.
  intros H Hne. destruct (rev_digits_head ds [ch_minus] H Hne) as (b & r' & Hrev & Hb).
  eapply py_strip_clean; [reflexivity | reflexivity | exact Hrev | now apply digit_not_space].
Qed.

Lemma py_strip_space s : py_strip (ch_space :: s) = py_strip s.
Proof. reflexivity. Qed.

Lemma py_int_digits ds v :
  forallb is_digit ds = true -> digits_val ds = Some v -> py_int ds = Some v.
Proof.
  intros H Hv. assert (Hne : ds <> []) by (intros ->; discriminate).
  unfold py_int. rewrite py_strip_digits by assumption.
  destruct ds as [|c r] eqn:E; [congruence|]. rewrite <- E in *.
  assert (Hc : is_digit c = true) by (rewrite E in H; simpl in H; now apply andb_true_iff in H).
  replace (c =? ch_minus) with false by (unfold is_digit, ch_minus in *; lia).
  replace (c =? ch_plus) with false by (unfold is_digit, ch_plus in *; lia).
  rewrite int_digits_start by assumption. exact Hv.
Qed.

Lemma py_int_minus_digits ds v :
  forallb is_digit ds = true -> digits_val ds = Some v -> py_int (ch_minus :: ds) = Some (- v).
Proof.
  intros H Hv. assert (Hne : ds <> []) by (intros ->; discriminate).
  unfold py_int. rewrite py_strip_minus_digits by assumption.
  rewrite Z.eqb_refl. rewrite int_digits_start by assumption. rewrite Hv. reflexivity.
Qed.

Lemma py_int_space s : py_int (ch_space :: s) = py_int s.
Proof. unfold py_int. now rewrite py_strip_space. Qed.

(* Python int() of the printed text is the number, for every integer *)
Lemma py_int_fmt_int z : py_int (fmt_int z) = Some z.
Proof.
  destruct (fmt_int_shape z) as (E & Hall & Hval & _ & _).
  rewrite E. unfold lead_of. destruct (Z.ltb_spec z 0) as [Hn|Hp].
  - rewrite (py_int_minus_digits _ _ Hall Hval). f_equal. lia.
  - rewrite py_int_space, (py_int_digits _ _ Hall Hval). f_equal. lia.
Qed.

(* no comma in a number text *)
Lemma index_of_none c s : forall i,
  forallb (fun d => negb (d =? c)) s = true -> index_of c s i = None.
Proof.
  induction s as [|d r IH]; intros i H; simpl in *; [reflexivity|].
  apply andb_true_iff in H as [Hd Hr]. destruct (d =? c); [discriminate|]. now apply IH.
Qed.

Lemma mem_ch_none c s :
  forallb (fun d => negb (d =? c)) s = true -> mem_ch c s = false.
Proof. intro H. unfold mem_ch. now rewrite index_of_none. Qed.

Lemma forallb_impl {A} (p q : A -> bool) l :
  (forall a, p a = true -> q a = true) -> forallb p l = true -> forallb q l = true.
Proof.
  intros Hpq. induction l as [|a l IH]; simpl; [reflexivity|].
  intro H. apply andb_true_iff in H as [Ha Hl]. rewrite (Hpq a Ha). now apply IH.
Qed.

(* characters of a printed integer: digits, or the leading blank / minus *)
Definition int_char (d : Z) : bool := is_digit d || (d =? ch_minus) || (d =? ch_space).

Lemma fmt_int_chars z : forallb int_char (fmt_int z) = true.
Proof.
  destruct (fmt_int_shape z) as (E & Hall & _). rewrite E. simpl.
  apply andb_true_iff. split.
  - unfold int_char, lead_of, ch_minus, ch_space. destruct (z <? 0); reflexivity.
  - eapply forallb_impl; [|exact Hall]. intros a Ha. unfold int_char. now rewrite Ha.
Qed.

Lemma mem_ch_fmt_int c z : int_char c = false -> mem_ch c (fmt_int z) = false.
Proof.
  intro Hc. apply mem_ch_none. eapply forallb_impl; [|apply fmt_int_chars].
  intros a Ha. destruct (Z.eqb_spec a c) as [->|]; [congruence | reflexivity].
Qed.

Lemma read_fmt_int_integer z : in_int z = true -> read_num TInt (fmt_int z) = RdCell (CI z).
Proof. intro H. unfold read_num. now rewrite py_int_fmt_int, H. Qed.

Lemma read_fmt_int_long z : in_long z = true -> read_num TLong (fmt_int z) = RdCell (CL z).
Proof. intro H. unfold read_num. now rewrite py_int_fmt_int, H. Qed.

Lemma input_fmt_int_integer z : in_int z = true -> input_num TInt (fmt_int z) = RdCell (CI z).
Proof.
  intro H. unfold input_num. rewrite mem_ch_fmt_int by reflexivity.
  now rewrite py_int_fmt_int, H.
Qed.

Lemma input_fmt_int_long z : in_long z = true -> input_num TLong (fmt_int z) = RdCell (CL z).
Proof.
  intro H. unfold input_num. rewrite mem_ch_fmt_int by reflexivity.
  now rewrite py_int_fmt_int, H.
Qed.

(* ====================================================================== *)
(* VAL on the text of an integer                                          *)

Lemma span_all p ds : forallb p ds = true -> span p ds = (ds, []).
Proof.
  induction ds as [|c r IH]; simpl; intro H; [reflexivity|].
  apply andb_true_iff in H as [Hc Hr]. now rewrite Hc, IH.
Qed.

Lemma scan_dec_digits ds :
  forallb is_digit ds = true -> ds <> [] -> scan_dec ds = Some (ds, []).
Proof.
  intros H Hne. destruct ds as [|c r]; [congruence|].
  pose proof H as H'. simpl in H'. apply andb_true_iff in H' as [Hc _].
  unfold scan_dec. cbv beta iota. rewrite (digit_not_sign c Hc). cbv beta iota.
  rewrite (span_all _ _ H). cbv beta iota. unfold scan_exp. cbv beta iota.
  cbn [app]. now rewrite app_nil_r.
Qed.

Lemma scan_dec_minus_digits ds :
  forallb is_digit ds = true -> ds <> [] ->
  scan_dec (ch_minus :: ds) = Some (ch_minus :: ds, []).
Proof.
  intros H Hne. destruct ds as [|c r]; [congruence|].
  unfold scan_dec. cbv beta iota. replace (is_sign ch_minus) with true by reflexivity.
  cbv beta iota. rewrite (span_all _ _ H). cbv beta iota. unfold scan_exp. cbv beta iota.
  cbn [app]. now rewrite app_nil_r.
Qed.

Definition dm_char (d : Z) : bool := is_digit d || (d =? ch_minus).

Lemma dm_lower tok : forallb dm_char tok = true -> map lower tok = tok.
Proof.
  induction tok as [|c r IH]; simpl; intro H; [reflexivity|].
  apply andb_true_iff in H as [Hc Hr]. rewrite (IH Hr). f_equal.
  unfold dm_char, is_digit, ch_minus, lower in *.
  destruct ((65 <=? c) && (c <=? 90)) eqn:E; lia.
Qed.

Lemma dm_mem c tok : dm_char c = false -> forallb dm_char tok = true -> mem_ch c tok = false.
Proof.
  intros Hc H. apply mem_ch_none. eapply forallb_impl; [|exact H].
  intros a Ha. destruct (Z.eqb_spec a c) as [->|]; [congruence | reflexivity].
Qed.

Definition int_lty (z : Z) : lty :=
  if (-32768 <=? z) && (z <? 32768) then LtInteger else LtLong.

Lemma parse_dec_int tok z :
  forallb dm_char tok = true -> py_int tok = Some z ->
  parse_dec tok None = range_check (int_lty z) (PInt z).
Proof.
  intros H Hz. unfold parse_dec.
  rewrite (dm_mem 100 tok), (dm_mem 101 tok), (dm_mem ch_dot tok) by (reflexivity || exact H).
  cbn [andb negb is_int_ty]. rewrite Hz. reflexivity.
Qed.

Lemma literal_parse_int tok z :
  forallb dm_char tok = true -> tok <> [] -> py_int tok = Some z ->
  literal_parse tok None = range_check (int_lty z) (PInt z).
Proof.
  intros H Hne Hz. unfold literal_parse. rewrite (dm_lower _ H).
  replace (starts_amp tok) with false.
  - now apply parse_dec_int.
  - destruct tok as [|c r]; [congruence|]. simpl in *.
    apply andb_true_iff in H as [Hc _]. unfold dm_char, is_digit, ch_minus, ch_amp in *. lia.
Qed.

Definition val_of_int (z : Z) : val_result :=
  if (z <? -2147483648) || (z >? 2147483647) then VSyntaxError 7 else VOk (of_Z z).

Lemma range_check_int z :
  match range_check (int_lty z) (PInt z) with
  | LitErr c => VSyntaxError c
  | LitOk _ (PInt v) => VOk (of_Z v)
  | LitOk _ (PFloat f) => VOk f
  end = val_of_int z.
Proof.
  unfold int_lty, val_of_int, range_check.
  destruct ((-32768 <=? z) && (z <? 32768)) eqn:E.
  - replace ((z <? -32768) || (z >? 32767)) with false by lia.
    replace ((z <? -2147483648) || (z >? 2147483647)) with false by lia. reflexivity.
  - destruct ((z <? -2147483648) || (z >? 2147483647)); reflexivity.
Qed.

Lemma digits_dm ds : forallb is_digit ds = true -> forallb dm_char ds = true.
Proof. apply forallb_impl. intros a Ha. unfold dm_char. now rewrite Ha. Qed.

(* VAL(text of z): the number when it fits a LONG, otherwise the host
   SyntaxError "does not fit in LONG" escapes the instruction *)
Lemma val_fmt_int z : val_text (fmt_int z) = val_of_int z.
Proof.
  destruct (fmt_int_shape z) as (E & Hall & Hval & _ & _).
  pose proof (nat_digits_nonempty (Z.abs z) ltac:(lia)) as Hne.
  pose proof (py_int_fmt_int z) as Hpy. rewrite E in *. clear E.
  set (ds := nat_digits (Z.abs z)) in *.
  assert (Hhd : exists c r, ds = c :: r /\ is_digit c = true).
  { destruct ds as [|c r]; [congruence|]. exists c, r. split; [reflexivity|].
    simpl in Hall. now apply andb_true_iff in Hall. }
  destruct Hhd as (c & r & Eds & Hc).
  unfold val_text, tokenize, lead_of in *. destruct (z <? 0).
  - (* "-ddd" *)
    cbn [drop_while]. replace (is_blank ch_minus) with false by reflexivity.
    rewrite scan_dec_minus_digits by assumption. cbn [drop_while].
    rewrite (literal_parse_int (ch_minus :: ds) z).
    + apply range_check_int.
    + simpl. now rewrite digits_dm.
    + discriminate.
    + exact Hpy.
  - (* " ddd" *)
    cbn [drop_while]. replace (is_blank ch_space) with true by reflexivity.
    rewrite Eds at 1. rewrite drop_while_head by now apply digit_not_blank. rewrite <- Eds.
    rewrite scan_dec_digits by assumption. cbn [drop_while].
    rewrite py_int_space in Hpy.
    rewrite (literal_parse_int ds z).
    + apply range_check_int.
    + now apply digits_dm.
    + exact Hne.
    + exact Hpy.
Qed.

(* the double pushed for an integer below 2^53 is that integer *)
Lemma strip_pos_spec p : forall e, 0 <= e ->
  let '(p', e') := strip_pos p e in Z.pos p' * 2 ^ e' = Z.pos p * 2 ^ e /\ 0 <= e'.
Proof.
  induction p as [p IH|p IH|]; intros e He.
  - cbn [strip_pos]. split; [reflexivity | exact He].
  - cbn [strip_pos]. specialize (IH (e + 1) ltac:(lia)).
    destruct (strip_pos p (e + 1)) as [p' e']. destruct IH as [IH1 IH2].
    split; [|exact IH2]. rewrite IH1, Z.pow_add_r by lia.
    rewrite (Pos2Z.inj_xO p). change (2 ^ 1) with 2. ring.
  - cbn [strip_pos]. split; [reflexivity | exact He].
Qed.

Lemma of_Z_exact z : Z.abs z < 2 ^ 53 -> of_Z z = norm (z <? 0) (Z.abs z) 0.
Proof.
  intro Hb. unfold of_Z. destruct (Z.eqb_spec z 0) as [->|Hn]; [reflexivity|].
  unfold round64, round_gen. set (m := Z.abs z) in *.
  assert (Hm : 0 < m) by (unfold m; lia).
  replace (m <=? 0) with false by lia.
  assert (Hl : Z.log2 m < 53) by (apply Z.log2_lt_pow2; lia).
  pose proof (Z.log2_nonneg m).
  unfold bits. replace (m <=? 0) with false by lia.
  replace (Z.max (0 + (Z.log2 m + 1) - 53) (-1074) <=? 0) with true by lia.
  replace (Z.log2 m + 1 + 0 >? 1024) with false by lia. reflexivity.
Qed.

Lemma val_fmt_int_value z :
  -2147483648 <= z <= 2147483647 ->
  exists m e, val_text (fmt_int z) = VOk (FFin (z <? 0) m e)
              /\ 0 <= e /\ m * 2 ^ e = Z.abs z.
Proof.
  intro Hr. rewrite val_fmt_int. unfold val_of_int.
  replace ((z <? -2147483648) || (z >? 2147483647)) with false by lia.
  rewrite of_Z_exact by lia. unfold norm.
  destruct (Z.abs z) as [|p|p] eqn:E.
  - exists 0, 0. repeat split; lia.
  - pose proof (strip_pos_spec p 0 ltac:(lia)) as H. destruct (strip_pos p 0) as [p' e'].
    exists (Z.pos p'), e'. destruct H as [H1 H2]. repeat split; [exact H2 | lia].
  - lia.
Qed.

(* ====================================================================== *)
(* floats: the shortest-digit search only answers with verified candidates *)

Lemma pair_inj {A B} (a c : A) (b d : B) : (a, b) = (c, d) -> a = c /\ b = d.
Proof. intro H. now inversion H. Qed.

Definition fl_same_mag (y x : fl) : bool :=
  match y, x with
  | FFin _ a b, FFin _ a' b' => (a =? a') && (b =? b')
  | _, _ => false
  end.

(* Whatever the search returns is (1) a candidate the search itself has
   converted back with dec_to_fl and found equal to x, or (2) the exact
   decimal expansion cut where only zeros follow, or (3) the 20-digit
   fall-back after 17 unsuccessful rounds. *)
Lemma shortest_from_sound x neg top rest q : forall fuel n c k,
  shortest_from x neg top rest q n fuel = (c, k) ->
  fl_same_mag (dec_to_fl neg c k) x = true
  \/ (rest = false /\ exists n', c * 10 ^ (topd - n') = top /\ k = q + (topd - n'))
  \/ (c, k) = (top, q).
Proof.
  induction fuel as [|f IH]; intros n c k H.
  - right; right. simpl in H. congruence.
  - cbn [shortest_from] in H. cbv zeta in H.
    destruct (negb (negb (top - top / 10 ^ (topd - n) * 10 ^ (topd - n) =? 0) || rest)) eqn:Est.
    + right; left. apply pair_inj in H as [<- <-].
      apply negb_true_iff, orb_false_iff in Est as [Er ->]. split; [reflexivity|].
      exists n. split; [|reflexivity]. apply negb_false_iff, Z.eqb_eq in Er.
      remember (top / 10 ^ (topd - n) * 10 ^ (topd - n)) as X. lia.
    + match type of H with
      | context[if ?a && ?b then _ else _] => destruct a eqn:Elo; destruct b eqn:Ehi
      end; cbn [andb] in H.
      * match type of H with context[if ?u then _ else _] => destruct u end;
          apply pair_inj in H as [<- <-]; left; [exact Ehi | exact Elo].
      * apply pair_inj in H as [<- <-]. left. exact Elo.
      * apply pair_inj in H as [<- <-]. left. exact Ehi.
      * eapply IH. exact H.
Qed.

(* ... and never more than 17 digits (10^17 itself can come from rounding 99..9 up) *)
Lemma shortest_from_digits x neg top rest q : forall fuel n c k,
  0 <= top < 10 ^ topd -> 1 <= n -> n + Z.of_nat fuel <= 18 ->
  shortest_from x neg top rest q n fuel = (c, k) ->
  (c, k) = (top, q) \/ 0 <= c <= 10 ^ 17.
Proof.
  induction fuel as [|f IH]; intros n c k Ht Hn Hf H.
  - left. simpl in H. congruence.
  - cbn [shortest_from] in H. cbv zeta in H.
    assert (Hn17 : n <= 17) by lia.
    assert (Hp : 0 < 10 ^ (topd - n)) by (apply Z.pow_pos_nonneg; unfold topd; lia).
    assert (Hd : 0 <= top / 10 ^ (topd - n) < 10 ^ 17).
    { split; [apply Z.div_pos; lia|].
      apply Z.lt_le_trans with (10 ^ n).
      - apply Z.div_lt_upper_bound; [exact Hp|].
        rewrite <- Z.pow_add_r by (unfold topd; lia).
        replace (topd - n + n) with topd by lia. lia.
      - apply Z.pow_le_mono_r; lia. }
    destruct (negb (negb (top - top / 10 ^ (topd - n) * 10 ^ (topd - n) =? 0) || rest)).
    + right. apply pair_inj in H as [<- <-]. lia.
    + match type of H with
      | context[if ?a && ?b then _ else _] => destruct a; destruct b
      end; cbn [andb] in H.
      * match type of H with context[if ?u then _ else _] => destruct u end;
          apply pair_inj in H as [<- <-]; right; lia.
      * apply pair_inj in H as [<- <-]. right. lia.
      * apply pair_inj in H as [<- <-]. right. lia.
      * eapply (IH (n + 1)); try eassumption; lia.
Qed.

(* ====================================================================== *)
(* a number and its negation: DOUBLE                                      *)

Lemma norm_negb n m e : norm (negb n) m e = fneg (norm n m e).
Proof.
  unfold norm. destruct m as [|p|p]; try reflexivity.
  destruct (strip_pos p e). reflexivity.
Qed.

Lemma round_gen_negb pr emin emax n m e s :
  round_gen pr emin emax (negb n) m e s = fneg (round_gen pr emin emax n m e s).
Proof.
  unfold round_gen. cbv zeta.
  repeat match goal with
         | |- context[if ?b then _ else _] => destruct b
         end; try reflexivity; apply norm_negb.
Qed.

Lemma dec_to_fl_negb n c k : dec_to_fl (negb n) c k = fneg (dec_to_fl n c k).
Proof.
  unfold dec_to_fl, dec_to_fl_gen. cbv zeta.
  destruct (c <=? 0); [reflexivity|].
  destruct (k >=? 0); apply round_gen_negb.
Qed.

Lemma same_mag_fneg y x : fl_same_mag (fneg y) (fneg x) = fl_same_mag y x.
Proof. destruct y, x; reflexivity. Qed.

Lemma shortest_from_negb x neg top rest q : forall fuel n,
  shortest_from (fneg x) (negb neg) top rest q n fuel = shortest_from x neg top rest q n fuel.
Proof.
  induction fuel as [|f IH]; intro n; [reflexivity|].
  cbn [shortest_from]. cbv zeta. rewrite !dec_to_fl_negb, IH.
  change (match fneg (dec_to_fl neg (top / 10 ^ (topd - n)) (q + (topd - n))), fneg x with
          | FFin _ a b, FFin _ a' b' => (a =? a') && (b =? b')
          | _, _ => false end)
    with (fl_same_mag (fneg (dec_to_fl neg (top / 10 ^ (topd - n)) (q + (topd - n)))) (fneg x)).
  change (match fneg (dec_to_fl neg (top / 10 ^ (topd - n) + 1) (q + (topd - n))), fneg x with
          | FFin _ a b, FFin _ a' b' => (a =? a') && (b =? b')
          | _, _ => false end)
    with (fl_same_mag (fneg (dec_to_fl neg (top / 10 ^ (topd - n) + 1) (q + (topd - n)))) (fneg x)).
  rewrite !same_mag_fneg. reflexivity.
Qed.

Lemma shortest_negb neg m e : shortest (negb neg) m e = shortest neg m e.
Proof.
  unfold shortest. destruct (exact_dec m e) as [N q]. destruct (top17 N q) as [[top rest] q'].
  rewrite norm_negb. apply shortest_from_negb.
Qed.

Lemma repr_digits_sign m e : repr_digits true m e = repr_digits false m e.
Proof. unfold repr_digits. pose proof (shortest_negb false m e) as H. cbn [negb] in H. now rewrite H. Qed.

Lemma py_repr_neg m e : 0 < m ->
  py_repr (FFin true m e) = ch_minus :: py_repr (FFin false m e).
Proof.
  intro Hm. unfold py_repr. replace (m <=? 0) with false by lia.
  rewrite repr_digits_sign. destruct (repr_digits false m e). reflexivity.
Qed.

Lemma strip_dot0_minus s : strip_dot0 (ch_minus :: s) = ch_minus :: strip_dot0 s.
Proof.
  unfold strip_dot0. cbn [rev].
  destruct (rev s) as [|a [|b r]] eqn:E.
  - apply (f_equal (@rev Z)) in E. rewrite rev_involutive in E. subst. reflexivity.
  - apply (f_equal (@rev Z)) in E. rewrite rev_involutive in E. subst. cbn.
    repeat match goal with
           | |- context[match ?p with _ => _ end] => destruct p; try reflexivity
           end.
  - cbn [app].
    assert (Hs : s = rev r ++ [b; a]).
    { apply (f_equal (@rev Z)) in E. rewrite rev_involutive in E. rewrite E. cbn [rev].
      now rewrite <- app_assoc. }
    assert (Hgen : forall (X : Type) (f : str -> X) (dflt : X),
               match a :: b :: r ++ [ch_minus] with 48 :: 46 :: r0 => f r0 | _ => dflt end =
               match a :: b :: r with 48 :: 46 :: r0 => f (r0 ++ [ch_minus]) | _ => dflt end).
    { intros X f dflt.
      repeat match goal with
             | |- context[match ?p with _ => _ end] => is_var p; destruct p; try reflexivity
             end. }
    etransitivity; [apply (Hgen str (@rev Z) (ch_minus :: s))|].
    repeat match goal with
           | |- context[match ?p with _ => _ end] => is_var p; destruct p; try reflexivity
           end.
    rewrite rev_app_distr. reflexivity.
Qed.

(* DOUBLE: the text of -x is the text of x with '-' in place of the blank *)
Lemma negation_same_digits_double m e : 0 < m ->
  exists digits,
    fmt_float false (FFin false m e) = ch_space :: digits /\
    fmt_float false (FFin true m e) = ch_minus :: digits.
Proof.
  intro Hm. unfold fmt_float. cbv zeta. cbn [fl_ge0 negb].
  replace (m <=? 0) with false by lia. cbn [orb].
  rewrite (py_repr_neg m e Hm), strip_dot0_minus. cbn [map].
  replace (ch_minus =? ch_e) with false by reflexivity.
  eexists. split; reflexivity.
Qed.

(* ====================================================================== *)
(* PRINT and STR$ call the same function                                  *)

Lemma print_str_same_digits c t :
  exec_ntos c = NtosOk t ->
  Print.num_text c = Some t /\
  exec_print (encoded_args None [AVal c]) = OutText [t ++ [ch_space] ++ crlf].
Proof.
  intro H.
  assert (Hn : Print.num_text c = Some t)
    by (destruct c; simpl in H; try discriminate; injection H as <-; reflexivity).
  split; [exact Hn|].
  rewrite (exec_print_plain [AVal c] [PNum t]); [cbn; now rewrite <- app_assoc|].
  cbn [map_opt item_of_arg].
  destruct c; simpl in H; try discriminate; cbn [num_text option_map] in *;
    injection Hn as <-; reflexivity.
Qed.

(* ====================================================================== *)
(* witnesses on the unchanged tree (faithful model)                       *)

(* the SINGLE value 123456792 *)
Definition w_single_neg : fl := FFin false 15432099 3.
(* the SINGLE nearest to 1.5e-5 *)
Definition w_single_exp : fl := FFin false 8246337 (-39).
(* the DOUBLE 1e300 *)
Definition w_double_big : fl := FFin false 1681218273811815 946.
(* the DOUBLE 3000000000 *)
Definition w_double_3e9 : fl := FFin false 5859375 9.
(* the DOUBLE 2^-44 *)
Definition w_double_pow2 : fl := FFin false 1 (-44).

(* D22 (negative): the digit count includes the '-' sign *)
Lemma negation_same_digits_single_refuted :
  exists m e, 0 < m /\ to_single (FFin false m e) = Some (FFin false m e) /\
    fmt_float true (FFin false m e) = [32; 49; 50; 51; 52; 53; 54; 56; 48; 48] /\
    fmt_float true (FFin true m e) = [45; 49; 50; 51; 52; 53; 55; 48; 48; 48] /\
    same_digits (fmt_float true (FFin false m e)) (fmt_float true (FFin true m e)) = false.
Proof.
  exists 15432099, 3. split; [lia|]. vm_compute. repeat split; reflexivity.
Qed.

(* D22 (exponent form): a SINGLE shown with 17 significant digits *)
Lemma single_seven_digits_refuted :
  exists x, to_single x = Some x /\
    fmt_float true x =
      [32; 49; 46; 52; 57; 57; 57; 57; 57; 57; 54; 50; 49; 48; 54; 56; 49; 50; 55; 69; 45; 48; 53] /\
    tv_digits (judge_text x (fmt_float true x)) = 17 /\
    float_text_ok true x (fmt_float true x) = false.
Proof. exists w_single_exp. vm_compute. repeat split; reflexivity. Qed.

(* D23: the DOUBLE exponent marker D is not accepted by Python float():
   READ traps, INPUT rejects the line *)
Lemma double_D_marker_refuted :
  exists x, fmt_float false x = [32; 49; 68; 43; 51; 48; 48] /\
    py_float (fmt_float false x) = None /\
    read_num TDouble (fmt_float false x) = RdBadType /\
    input_num TDouble (fmt_float false x) = InReject /\
    val_text (fmt_float false x) = VOk x.
Proof. exists w_double_big. vm_compute. repeat split; reflexivity. Qed.

(* VAL of a plain integer text beyond LONG: host SyntaxError, for a DOUBLE value *)
Lemma val_big_integer_text_refuted :
  exists x, fmt_float false x = [32; 51; 48; 48; 48; 48; 48; 48; 48; 48; 48] /\
    val_text (fmt_float false x) = VSyntaxError 7 /\
    read_num TDouble (fmt_float false x) = RdCell (CD x).
Proof. exists w_double_3e9. vm_compute. repeat split; reflexivity. Qed.

(* shortest digits at a power of two: farther than half a unit of the last digit *)
Lemma half_unit_pow2_refuted :
  exists x, tv_numeral (judge_text x (fmt_float false x)) = true /\
    tv_digits (judge_text x (fmt_float false x)) = 16 /\
    tv_half (judge_text x (fmt_float false x)) = false /\
    py_float (map (fun c => if c =? ch_D then ch_e else c) (fmt_float false x)) = Some x.
Proof. exists w_double_pow2. vm_compute. repeat split; reflexivity. Qed.

(* non-vacuity: values for which everything the property asks holds *)
Lemma double_example_ok :
  let x := FFin false 3602879701896397 (-55) in   (* 0.1 *)
  fmt_float false x = [32; 48; 46; 49] /\
  float_text_ok false x (fmt_float false x) = true /\
  read_num TDouble (fmt_float false x) = RdCell (CD x) /\
  input_num TDouble (fmt_float false x) = RdCell (CD x) /\
  val_text (fmt_float false x) = VOk x /\
  fmt_float false (fneg x) = [45; 48; 46; 49].
Proof. vm_compute. repeat split; reflexivity. Qed.

Lemma single_example_ok :
  let x := FFin false 10113579 (-13) in   (* the SINGLE nearest to 1234.5678 *)
  fmt_float true x = [32; 49; 50; 51; 52; 46; 53; 54; 56] /\
  float_text_ok true x (fmt_float true x) = true /\
  (match read_num TSingle (fmt_float true x) with
   | RdCell (CS y) => reads_back_close x y false 1234568 (-3)
   | _ => false end) = true.
Proof. vm_compute. repeat split; reflexivity. Qed.

Lemma int_example_ok :
  fmt_int (-32768) = [45; 51; 50; 55; 54; 56] /\ fmt_int 7 = [32; 55] /\
  val_text (fmt_int (-32768)) = VOk (FFin true 1 15) /\
  val_text (fmt_int 2147483648) = VSyntaxError 7.
Proof. vm_compute. repeat split; reflexivity. Qed.

(* ====================================================================== *)
(* the model after fixes/C16-D22neg.diff                                  *)

(* format_number with  before_decimal = sn.lstrip('-').index('.')  : the
   digit count is taken on the text of |x| *)
Definition single_rounded_fixed (x : fl) : fl :=
  match index_of ch_dot (py_repr (fabs x)) 0 with
  | Some bd => if mem_ch ch_e (py_repr x) then x else py_round_nd x (7 - bd)
  | None => x
  end.

Definition fmt_float_D22fix (single : bool) (x0 : fl) : str :=
  let x := if single then c_float x0 else x0 in
  let x1 := if single then single_rounded_fixed x else x in
  let s := strip_dot0 (py_repr x1) in
  let s := map (fun c => if c =? ch_e then (if single then ch_E else ch_D) else c) s in
  if fl_ge0 x1 then ch_space :: s else s.

Lemma index_of_is_some c s : forall i j,
  match index_of c s i with Some _ => true | None => false end =
  match index_of c s j with Some _ => true | None => false end.
Proof.
  induction s as [|d r IH]; intros i j; simpl; [reflexivity|].
  destruct (d =? c); [reflexivity | apply IH].
Qed.

Lemma mem_ch_cons c d s : (d =? c) = false -> mem_ch c (d :: s) = mem_ch c s.
Proof.
  intro H. unfold mem_ch. simpl. rewrite H. apply index_of_is_some.
Qed.

Lemma py_round_nd_fneg n m e nd :
  py_round_nd (FFin (negb n) m e) nd = fneg (py_round_nd (FFin n m e) nd).
Proof.
  unfold py_round_nd. destruct (m <=? 0); [reflexivity|].
  destruct (exact_dec m e) as [N q]. cbv zeta.
  destruct (q + nd >=? 0); [reflexivity|]. apply dec_to_fl_negb.
Qed.

(* with the fix, SINGLE values and their negations show the same digits
   (whenever the 7-digit rounding does not collapse the value to zero) *)
Lemma negation_same_digits_single_fixed m e :
  0 < m -> round32 false m e false = FFin false m e ->
  (exists m1 e1, single_rounded_fixed (FFin false m e) = FFin false m1 e1 /\ 0 < m1) ->
  exists digits,
    fmt_float_D22fix true (FFin false m e) = ch_space :: digits /\
    fmt_float_D22fix true (FFin true m e) = ch_minus :: digits.
Proof.
  intros Hm Hs (m1 & e1 & Hr & Hm1).
  assert (Hsn : round32 true m e false = FFin true m e).
  { unfold round32 in *. change true with (negb false). rewrite round_gen_negb, Hs. reflexivity. }
  assert (Hneg : single_rounded_fixed (FFin true m e) = FFin true m1 e1).
  { unfold single_rounded_fixed in *. cbn [fabs] in *.
    rewrite (py_repr_neg m e Hm).
    rewrite mem_ch_cons by reflexivity.
    destruct (index_of ch_dot (py_repr (FFin false m e)) 0) as [bd|].
    - destruct (mem_ch ch_e (py_repr (FFin false m e))).
      + injection Hr as <- <-. reflexivity.
      + change true with (negb false). rewrite py_round_nd_fneg, Hr. reflexivity.
    - injection Hr as <- <-. reflexivity. }
  unfold fmt_float_D22fix. cbv zeta. unfold c_float.
  replace (m <=? 0) with false by lia. rewrite Hs, Hsn, Hr, Hneg.
  cbn [fl_ge0 negb]. replace (m1 <=? 0) with false by lia. cbn [orb].
  rewrite (py_repr_neg m1 e1 Hm1), strip_dot0_minus. cbn [map].
  replace (ch_minus =? ch_e) with false by reflexivity.
  eexists. split; reflexivity.
Qed.

(* the D22 witness under the fixed model *)
Lemma negation_fixed_example :
  fmt_float_D22fix true (FFin false 15432099 3) = [32; 49; 50; 51; 52; 53; 54; 56; 48; 48] /\
  fmt_float_D22fix true (FFin true 15432099 3) = [45; 49; 50; 51; 52; 53; 54; 56; 48; 48].
Proof. vm_compute. split; reflexivity. Qed.
