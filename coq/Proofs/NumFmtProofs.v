From Coq Require Import ZArith List Bool Lia.
From QV Require Import Sx Strs Fl Dec NumFmt.
Import ListNotations.
Open Scope Z_scope.

Lemma fmt_int_zero : fmt_int 0 = [ch_space; ch_0].
Proof. reflexivity. Qed.
