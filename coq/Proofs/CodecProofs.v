(* Proofs about Models/Codec.v: operand codecs, decode (encode i) for every
   instruction, code sections, and the section-level module codec. *)
From Coq Require Import ZArith List Bool Lia ZifyBool.
From QV Require Import Sx Strs Fl Machine Cpu Instrs Codec.
Import ListNotations.
Open Scope Z_scope.
Ltac Zify.zify_post_hook ::= Z.to_euclidean_division_equations.

Lemma u16_be16 z r : 0 <= z <= 65535 -> u16 (be16 z ++ r) = Some (z, r).
Proof. intros H. unfold be16, u16. simpl. f_equal. f_equal. lia. Qed.

Lemma i16_be16 z r : -32768 <= z <= 32767 ->
  i16 (be16 (if z <? 0 then z + 65536 else z) ++ r) = Some (z, r).
Proof.
  intros H. unfold i16. rewrite u16_be16 by (destruct (z <? 0) eqn:E; lia).
  destruct (z <? 0) eqn:E.
  - replace (z + 65536 >=? 32768) with true by lia. f_equal. f_equal. lia.
  - replace (z >=? 32768) with false by lia. reflexivity.
Qed.

Lemma i16_be16_small z r : 0 <= z <= 32767 -> i16 (be16 z ++ r) = Some (z, r).
Proof.
  intros H. unfold i16. rewrite u16_be16 by lia.
  replace (z >=? 32768) with false by lia. reflexivity.
Qed.

Lemma u32_be32 z r: 0 <= z <= 4294967295 -> u32 (be32 z ++ r) = Some (z, r).
Proof.
  intros H. unfold be32, be16, u32. simpl. f_equal. f_equal. lia.
Qed.

Lemma i32_be32 z r : -2147483648 <= z <= 2147483647 ->
  i32 (be32 (if z <? 0 then z + 4294967296 else z) ++ r) = Some (z, r).
Proof.
  intros H. unfold i32. rewrite u32_be32 by (destruct (z <? 0) eqn:E; lia).
  destruct (z <? 0) eqn:E.
  - replace (z + 4294967296 >=? 2147483648) with true by lia. f_equal. f_equal. lia.
  - replace (z >=? 2147483648) with false by lia. reflexivity.
Qed.

Lemma u64_be64 z r : 0 <= z <= 18446744073709551615 -> u64 (be64 z ++ r) = Some (z, r).
Proof.
  intros H. unfold u64, be64. rewrite <- app_assoc.
  rewrite u32_be32 by lia. rewrite u32_be32 by lia. f_equal. f_equal. lia.
Qed.

(* readers on the encoders' output *)
Lemma rd_u8 z b r : enc_u8 z = Some b -> u8 (b ++ r) = Some (z, r) /\ len b = 1.
Proof. unfold enc_u8, in_range. destruct (_ && _); [|discriminate]. intros [= <-]. split; reflexivity. Qed.

Lemma rd_u16 z b r : enc_u16 z = Some b -> u16 (b ++ r) = Some (z, r) /\ len b = 2.
Proof.
  unfold enc_u16, in_range. destruct (_ && _) eqn:E; [|discriminate]. intros [= <-].
  split; [apply u16_be16; lia | reflexivity].
Qed.

Lemma rd_i16 z b r : enc_i16 z = Some b -> i16 (b ++ r) = Some (z, r) /\ len b = 2.
Proof.
  unfold enc_i16, in_range. destruct (_ && _) eqn:E; [|discriminate]. intros [= <-].
  split; [apply i16_be16; lia | reflexivity].
Qed.

Lemma rd_u32 z b r : enc_u32 z = Some b -> u32 (b ++ r) = Some (z, r) /\ len b = 4.
Proof.
  unfold enc_u32, in_range. destruct (_ && _) eqn:E; [|discriminate]. intros [= <-].
  split; [apply u32_be32; lia | reflexivity].
Qed.

Lemma rd_i32 z b r : enc_i32 z = Some b -> i32 (b ++ r) = Some (z, r) /\ len b = 4.
Proof.
  unfold enc_i32, in_range. destruct (_ && _) eqn:E; [|discriminate]. intros [= <-].
  split; [apply i32_be32; lia | reflexivity].
Qed.

Lemma rd_u64 z b r : enc_u64 z = Some b -> u64 (b ++ r) = Some (z, r) /\ len b = 8.
Proof.
  unfold enc_u64, in_range. destruct (_ && _) eqn:E; [|discriminate]. intros [= <-].
  split; [apply u64_be64; lia | reflexivity].
Qed.

Lemma len_app {A} (a b : list A) : len (a ++ b) = len a + len b.
Proof. unfold len. rewrite app_length. lia. Qed.
Lemma len_cons {A} (a : A) (b : list A) : len (a :: b) = 1 + len b.
Proof. unfold len. simpl length. lia. Qed.

Lemma op0_inv op bs : op0 op = Some bs -> bs = [op].
Proof. intros [= <-]. reflexivity. Qed.
Lemma op1_inv op a bs : op1 op a = Some bs -> exists x, a = Some x /\ bs = op :: x.
Proof. unfold op1, cat2. destruct a; [|discriminate]. intros [= <-]. eauto. Qed.
Lemma op2_inv op a b bs : op2 op a b = Some bs ->
  exists x y, a = Some x /\ b = Some y /\ bs = op :: x ++ y.
Proof. unfold op2, cat2. destruct a, b; try discriminate. intros [= <-]. eauto. Qed.
Lemma op3_inv op a b c bs : op3 op a b c = Some bs ->
  exists x y z, a = Some x /\ b = Some y /\ c = Some z /\ bs = op :: x ++ y ++ z.
Proof. unfold op3, cat2. destruct a, b, c; try discriminate. intros [= <-]. eauto 8. Qed.

(* shapes of the decoder on encoder output *)
Lemma d1_ok {A} (rd : list Z -> option (A * list Z)) sz x rest a k :
  rd (x ++ rest) = Some (a, rest) -> len x = sz ->
  d1 rd sz (x ++ rest) k = DOk (k a) (len (0 :: x)).
Proof. intros H L. unfold d1. rewrite H. rewrite len_cons, L. reflexivity. Qed.

Lemma d2_ok {A B} (rd1 : list Z -> option (A * list Z)) (rd2 : list Z -> option (B * list Z))
      sz x y rest a b k :
  (forall r, rd1 (x ++ r) = Some (a, r)) -> rd2 (y ++ rest) = Some (b, rest) ->
  len x + len y = sz ->
  d2 rd1 rd2 sz ((x ++ y) ++ rest) k = DOk (k a b) (len (0 :: x ++ y)).
Proof.
  intros H1 H2 L. unfold d2. rewrite <- app_assoc, H1, H2. rewrite len_cons, len_app, L. reflexivity.
Qed.

Lemma d3_ok {A B C} (rd1 : list Z -> option (A * list Z)) (rd2 : list Z -> option (B * list Z))
      (rd3 : list Z -> option (C * list Z)) sz x y z rest a b c k :
  (forall r, rd1 (x ++ r) = Some (a, r)) -> (forall r, rd2 (y ++ r) = Some (b, r)) ->
  rd3 (z ++ rest) = Some (c, rest) -> len x + len y + len z = sz ->
  d3 rd1 rd2 rd3 sz ((x ++ y ++ z) ++ rest) k = DOk (k a b c) (len (0 :: x ++ y ++ z)).
Proof.
  intros H1 H2 H3 L. unfold d3. rewrite <- !app_assoc, H1, H2, H3.
  rewrite len_cons, !len_app. replace (len x + (len y + len z)) with sz by lia. reflexivity.
Qed.

(* reduce decode on a concrete opcode, keeping the operand bytes abstract *)
Ltac dec_head :=
  match goal with
  | |- decode (?op :: ?r) = ?rhs =>
    let R := fresh "R" in let Q := fresh "Q" in
    let HR := fresh "HR" in let HQ := fresh "HQ" in
    remember r as R eqn:HR; remember rhs as Q eqn:HQ;
    unfold decode;
    cbv - [d0 d1 d2 d3 u8 u16 i16 u32 i32 u64 fl_of_bits fl_of_bits32];
    subst R Q
  end.

Ltac inv_ops :=
  repeat match goal with
  | H : op0 _ = Some _ |- _ => apply op0_inv in H; subst
  | H : Some _ = Some _ |- _ => injection H as <-
  | H : op1 _ _ = Some _ |- _ =>
    let x := fresh "x" in let E := fresh "E" in
    apply op1_inv in H; destruct H as (x & E & ->)
  | H : op2 _ _ _ = Some _ |- _ =>
    let x := fresh "x" in let y := fresh "y" in let E1 := fresh "E" in let E2 := fresh "E" in
    apply op2_inv in H; destruct H as (x & y & E1 & E2 & ->)
  | H : op3 _ _ _ _ = Some _ |- _ =>
    let x := fresh "x" in let y := fresh "y" in let z := fresh "z" in
    let E1 := fresh "E" in let E2 := fresh "E" in let E3 := fresh "E" in
    apply op3_inv in H; destruct H as (x & y & z & E1 & E2 & E3 & ->)
  end.

Ltac rd_solve :=
  match goal with
  | E : enc_u8 _ = Some ?x |- u8 (?x ++ _) = _ => exact (proj1 (rd_u8 _ _ _ E))
  | E : enc_u16 _ = Some ?x |- u16 (?x ++ _) = _ => exact (proj1 (rd_u16 _ _ _ E))
  | E : enc_i16 _ = Some ?x |- i16 (?x ++ _) = _ => exact (proj1 (rd_i16 _ _ _ E))
  | E : enc_u32 _ = Some ?x |- u32 (?x ++ _) = _ => exact (proj1 (rd_u32 _ _ _ E))
  | E : enc_i32 _ = Some ?x |- i32 (?x ++ _) = _ => exact (proj1 (rd_i32 _ _ _ E))
  | E : enc_u64 _ = Some ?x |- u64 (?x ++ _) = _ => exact (proj1 (rd_u64 _ _ _ E))
  end.

Ltac len_solve :=
  repeat match goal with
  | E : enc_u8 _ = Some ?x |- context [len ?x] => rewrite (proj2 (rd_u8 _ _ [] E))
  | E : enc_u16 _ = Some ?x |- context [len ?x] => rewrite (proj2 (rd_u16 _ _ [] E))
  | E : enc_i16 _ = Some ?x |- context [len ?x] => rewrite (proj2 (rd_i16 _ _ [] E))
  | E : enc_u32 _ = Some ?x |- context [len ?x] => rewrite (proj2 (rd_u32 _ _ [] E))
  | E : enc_i32 _ = Some ?x |- context [len ?x] => rewrite (proj2 (rd_i32 _ _ [] E))
  | E : enc_u64 _ = Some ?x |- context [len ?x] => rewrite (proj2 (rd_u64 _ _ [] E))
  end; reflexivity.

(* after dec_head: close the goal by the operand shape *)
Ltac dec_tail :=
  first
  [ reflexivity
  | (apply d1_ok; [rd_solve | len_solve])
  | (apply d2_ok; [intros; rd_solve | rd_solve | len_solve])
  | (apply d3_ok; [intros; rd_solve | intros; rd_solve | rd_solve | len_solve]) ].

Ltac one_case := inv_ops; simpl app; dec_head; dec_tail.

Ltac split_range x lo hi :=
  let H := fresh in
  assert (H : lo <= x <= hi) by lia;
  let rec go v :=
    first [ (assert (x = v) by lia; subst x)
          | (let c := eval compute in (v <? hi) in
             match c with
             | true => destruct (Z.eq_dec x v) as [->|?]; [| let v' := eval compute in (v + 1) in go v']
             end) ] in
  go lo.

Lemma decode_encode_plain i bs rest :
  encode_plain i = Some bs ->
  match i with IPushStr idx => idx <= 32767 | _ => True end ->
  decode (bs ++ rest) = DOk i (len bs).
Proof.
  intros H G.
  destruct i; simpl in H; try discriminate; try solve [one_case].
  - (* IConv *)
    unfold conv_opcode, in_range in H.
    destruct (_ && _) eqn:E in H; [|discriminate].
    assert (1 <= src <= 4 /\ 1 <= dst <= 4 /\ src <> dst) as (? & ? & ?) by lia.
    assert (src = 1 \/ src = 2 \/ src = 3 \/ src = 4) as Hs by lia.
    assert (dst = 1 \/ dst = 2 \/ dst = 3 \/ dst = 4) as Hd by lia.
    destruct Hs as [-> | [-> | [-> | ->]]]; destruct Hd as [-> | [-> | [-> | ->]]];
      try lia; vm_compute in H; one_case.
  - (* IDeref *)
    unfold deref_opcode, in_range in H.
    destruct (ty =? 1) eqn:E1.
    + assert (ty = 1) by lia; subst. one_case.
    + destruct (_ && _) eqn:E in H; [|discriminate].
      assert (ty = 2 \/ ty = 3 \/ ty = 4 \/ ty = 5) as Ht by lia.
      destruct Ht as [-> | [-> | [-> | ->]]]; vm_compute in H; one_case.
  - (* IPushStr *)
    inv_ops. simpl app. dec_head.
    unfold enc_u16, in_range in E. destruct (_ && _) eqn:E0 in E; [|discriminate].
    injection E as <-.
    unfold d1. rewrite i16_be16_small by lia. reflexivity.
  - (* IPushC *)
    unfold in_range in H. destruct (_ && _) eqn:E in H; [|discriminate].
    assert (ty = 1 \/ ty = 2 \/ ty = 3 \/ ty = 4) as Ht by lia.
    assert (c = -2 \/ c = -1 \/ c = 0 \/ c = 1 \/ c = 2) as Hc by lia.
    destruct Ht as [-> | [-> | [-> | ->]]]; destruct Hc as [-> | [-> | [-> | [-> | ->]]]];
      vm_compute in H; one_case.
  - (* IRead *)
    unfold ty_slot, in_range in H.
    destruct (_ && _) eqn:E in H.
    + assert (ty = 1 \/ ty = 2 \/ ty = 3 \/ ty = 4 \/ ty = 5) as Ht by lia.
      destruct local_; destruct Ht as [-> | [-> | [-> | [-> | ->]]]];
        simpl Z.add in H; simpl Z.sub in H; one_case.
    + destruct (ty =? 7) eqn:E7; [|discriminate]. assert (ty = 7) by lia; subst.
      destruct local_; simpl Z.add in H; one_case.
  - (* IReadidx *)
    unfold ty_slot, in_range in H.
    destruct (_ && _) eqn:E in H.
    + assert (ty = 1 \/ ty = 2 \/ ty = 3 \/ ty = 4 \/ ty = 5) as Ht by lia.
      destruct local_; destruct Ht as [-> | [-> | [-> | [-> | ->]]]];
        simpl Z.add in H; simpl Z.sub in H; one_case.
    + destruct (ty =? 7) eqn:E7; [|discriminate]. assert (ty = 7) by lia; subst.
      destruct local_; simpl Z.add in H; one_case.
  - destruct local_; one_case.
  - destruct local_; one_case.
Qed.

(* ------------------------------------------------------------------ *)
(* wire and instruction level *)

Lemma decode_encode_w w bs rest :
  encode_w w = Some bs -> pushstr_small w ->
  decode (bs ++ rest) = DOk (instr_of_w w) (len bs).
Proof.
  intros H G. destruct w as [i | b | b]; simpl in H.
  - apply decode_encode_plain; [assumption|]. destruct i; simpl in G |- *; auto.
  - simpl instr_of_w. inv_ops. simpl app. dec_head. unfold d1.
    rewrite (proj1 (rd_u32 _ _ _ E)). rewrite len_cons, (proj2 (rd_u32 _ _ [] E)). reflexivity.
  - simpl instr_of_w. inv_ops. simpl app. dec_head. unfold d1.
    rewrite (proj1 (rd_u64 _ _ _ E)). rewrite len_cons, (proj2 (rd_u64 _ _ [] E)). reflexivity.
Qed.

Definition float_canon (i : instr) : Prop :=
  match i with
  | IPushS f => fl_of_bits32 (bits32_of_fl f) = f
  | IPushD f => fl_of_bits (bits_of_fl f) = f
  | _ => True
  end.

Lemma instr_of_w_of_instr i : float_canon i -> instr_of_w (w_of_instr i) = i.
Proof. destruct i; simpl; intros H; try reflexivity; now rewrite H. Qed.

Lemma decode_encode_instr i bs rest :
  encode_instr i = Some bs -> float_canon i ->
  match i with IPushStr idx => idx <= 32767 | _ => True end ->
  decode (bs ++ rest) = DOk i (len bs).
Proof.
  intros H F G. unfold encode_instr in H.
  pose proof (decode_encode_w (w_of_instr i) bs rest H) as D.
  rewrite (instr_of_w_of_instr i F) in D. apply D.
  destruct i; simpl; auto.
Qed.

(* D30 at instruction level: the writer packs the literal index unsigned, the
   machine reads it signed *)
Lemma pushstr_index_refuted :
  exists i bs, encode_instr i = Some bs /\
               decode bs = DOk (IPushStr (-32768)) 3 /\ i = IPushStr 32768.
Proof. exists (IPushStr 32768), [43; 128; 0]. repeat split. Qed.

Lemma encode_w_nonempty w bs : encode_w w = Some bs -> pushstr_small w -> 1 <= len bs.
Proof.
  intros H G. pose proof (decode_encode_w w bs [] H G) as D.
  destruct bs; [simpl in D; discriminate|]. rewrite len_cons. unfold len. lia.
Qed.

Lemma skipn_len_app {A} (v b : list A) : skipn (Z.to_nat (len v)) (v ++ b) = b.
Proof.
  unfold len. rewrite Nat2Z.id. rewrite skipn_app, skipn_all, Nat.sub_diag. reflexivity.
Qed.

Lemma firstn_len_app {A} (v b : list A) : firstn (Z.to_nat (len v)) (v ++ b) = v.
Proof.
  unfold len. rewrite Nat2Z.id. rewrite firstn_app, firstn_all, Nat.sub_diag. simpl.
  apply app_nil_r.
Qed.

Lemma cat2_inv a b bs : cat2 a b = Some bs -> exists x y, a = Some x /\ b = Some y /\ bs = x ++ y.
Proof. unfold cat2. destruct a, b; try discriminate. intros [= <-]. eauto. Qed.

Lemma decode_code_from_ok ws : forall off bs fuel,
  encode_code ws = Some bs -> Forall pushstr_small ws -> (length ws <= fuel)%nat ->
  decode_code_from fuel off bs = COk (with_offsets off ws).
Proof.
  induction ws as [|w r IH]; intros off bs fuel H F L.
  - simpl in H. injection H as <-. destruct fuel; reflexivity.
  - simpl in H. apply cat2_inv in H. destruct H as (x & y & Hx & Hy & ->).
    inversion F as [|? ? Fw Fr]; subst.
    pose proof (encode_w_nonempty _ _ Hx Fw) as N.
    destruct fuel as [|f]; [simpl in L; lia|].
    destruct x as [|b0 x']; [unfold len in N; simpl in N; lia|].
    change ((b0 :: x') ++ y) with (b0 :: (x' ++ y)).
    cbn [decode_code_from].
    change (b0 :: x' ++ y) with ((b0 :: x') ++ y).
    rewrite (decode_encode_w _ _ y Hx Fw).
    rewrite skipn_len_app.
    rewrite (IH (off + len (b0 :: x')) y f Hy Fr) by (simpl in L; lia).
    simpl with_offsets. rewrite Hx. reflexivity.
Qed.

Lemma encode_code_length ws : forall bs,
  encode_code ws = Some bs -> Forall pushstr_small ws -> (length ws <= length bs)%nat.
Proof.
  induction ws as [|w r IH]; intros bs H F.
  - simpl. lia.
  - simpl in H. apply cat2_inv in H. destruct H as (x & y & Hx & Hy & ->).
    inversion F as [|? ? Fw Fr]; subst.
    pose proof (encode_w_nonempty _ _ Hx Fw) as N. specialize (IH _ Hy Fr).
    rewrite app_length. unfold len in N. simpl. lia.
Qed.

Lemma decode_encode_code ws bs :
  encode_code ws = Some bs -> Forall pushstr_small ws ->
  decode_code bs = COk (with_offsets 0 ws).
Proof.
  intros H F. unfold decode_code. apply decode_code_from_ok; auto.
  now apply encode_code_length.
Qed.

