(* Soundness of the extracted checker Targets.targets_ok. *)
From Coq Require Import ZArith List Bool Lia.
From QV Require Import Sx Strs Fl Machine Cpu Instrs Codec Targets.
Import ListNotations.
Open Scope Z_scope.

Lemma frame_of_app pre x : frame_of (pre ++ [x]) = frame_step (frame_of pre) (snd x).
Proof. unfold frame_of. rewrite fold_left_app. reflexivity. Qed.

Lemma frame_dec i : (exists p l, i = IFrame p l) \/ (forall p l, i <> IFrame p l).
Proof. destruct i; try (right; intros; discriminate). left; eauto. Qed.

Lemma frame_step_other cur i : (forall p l, i <> IFrame p l) -> frame_step cur i = cur.
Proof. intros H. destruct i; try reflexivity. exfalso. eapply H. reflexivity. Qed.

Lemma frame_of_nearest pre : forall size, frame_of pre = Some size -> nearest_frame pre size.
Proof.
  induction pre as [|x pre IH] using rev_ind; intros size H.
  - discriminate.
  - rewrite frame_of_app in H. destruct x as [off i]. simpl in H.
    destruct (frame_dec i) as [(p & l & ->) | N].
    + simpl in H. injection H as <-.
      exists pre, off, p, l, []. repeat split. constructor.
    + rewrite (frame_step_other _ _ N) in H. apply IH in H.
      destruct H as (pre1 & foff & p & l & mid & -> & -> & F).
      exists pre1, foff, p, l, (mid ++ [(off, i)]). repeat split.
      * rewrite <- app_assoc. reflexivity.
      * apply Forall_app. split; [assumption|]. constructor; [|constructor].
        simpl. intros (p' & l' & E). eapply N. exact E.
Qed.

Lemma if_nil_true {A} (b : bool) (x : A) r : (if b then [] else [x]) ++ r = [] -> b = true /\ r = [].
Proof. destruct b; simpl; intros H; [auto | discriminate]. Qed.

Lemma walk_sound starts ng : forall l pre,
  targets_walk starts ng (frame_of pre) l = [] ->
  forall l1 off i l2, l = l1 ++ (off, i) :: l2 ->
    target_okb starts i = true /\ local_okb (frame_of (pre ++ l1)) i = true /\
    global_okb ng i = true.
Proof.
  induction l as [|[o j] r IH]; intros pre H l1 off i l2 E.
  - destruct l1; discriminate.
  - cbn [targets_walk] in H.
    apply if_nil_true in H. destruct H as (H1 & H).
    apply if_nil_true in H. destruct H as (H2 & H).
    apply if_nil_true in H. destruct H as (H3 & H).
    destruct l1 as [|y l1].
    + simpl in E. injection E as -> -> ->. rewrite app_nil_r. auto.
    + simpl in E. injection E as <- ->.
      replace (pre ++ (o, j) :: l1) with ((pre ++ [(o, j)]) ++ l1) by (rewrite <- app_assoc; reflexivity).
      eapply IH; [|reflexivity]. rewrite frame_of_app. exact H.
Qed.

Lemma zin_In z l : zin z l = true -> In z l.
Proof.
  unfold zin. rewrite existsb_exists. intros (x & I & E). apply Z.eqb_eq in E. now subst.
Qed.

Theorem targets_ok_sound prog ng : targets_ok prog ng = true -> targets_spec prog ng.
Proof.
  unfold targets_ok, targets_fails. intros H.
  destruct (targets_walk (map fst prog) ng None prog) eqn:W; [|discriminate].
  intros pre off i post E.
  destruct (walk_sound _ _ prog [] W pre off i post E) as (T & L & G).
  simpl in L. split; [|split].
  - intros t J. unfold target_okb in T. rewrite J in T. now apply zin_In.
  - intros a b X. unfold local_okb in L. rewrite X in L.
    destruct (frame_of pre) as [size|] eqn:F; [|discriminate].
    exists size. split; [now apply frame_of_nearest | lia].
  - intros a b X. unfold global_okb in G. rewrite X in G. lia.
Qed.
