(* What the stack instructions (the domain of Verifier.eff) do to the control
   registers: pc moves only through jmp / jz, halted and irq are untouched. *)
From Coq Require Import ZArith List Bool Lia.
From QV Require Import Sx Strs Fl Cell Machine Cpu Verifier VerifierProofs ErrProofs VerifierCfg.
Import ListNotations.
Open Scope Z_scope.

(* what a stack instruction does to the control registers *)
Definition ctl_post (i : instr) (s : st) (o : out unit) : Prop :=
  match o with
  | R _ s' =>
    match i with
    | IJmp t => pc s' = t
    | IJz t => pc s' = t \/ pc s' = pc s
    | _ => pc s' = pc s
    end /\ halted s' = halted s /\ irq s' = irq s
  | _ => True
  end.

Ltac solve_ctl H s :=
  cbn [eff] in H; shape H; inversion H; subst; clear H; inv_stacks;
  destr_cells;
  unfold ctl_post, exec, bitwise, arith_prelude, pop_int, pop_long, pop_str, pop_ty, bind, pop, get;
  repeat match goal with Hs : stack _ = _ |- _ => rewrite Hs; clear Hs end;
  crunch.

Lemma eff_ctl m i s t' : eff i (tys (stack s)) = Some t' -> ctl_post i s (exec m i s).
Proof.
  intro H. destruct i; try (cbn [eff] in H; discriminate).
  all: try (solve [solve_ctl H s]).
  - (* IConv *)
    cbn [eff] in H; shape H; inversion H; subst; clear H; inv_stacks.
    repeat match goal with C : _ && _ = true |- _ => apply andb_true_iff in C; destruct C end.
    match goal with C : (_ =? _) = true |- _ => apply Z.eqb_eq in C; subst end.
    repeat match goal with C : numeric _ = true |- _ => apply numeric_cases in C end.
    repeat match goal with C : _ = _ \/ _ |- _ => destruct C as [?|[?|[?|?]]]; subst end.
    all: destr_cells.
    all: unfold ctl_post, exec, pop_ty, bind, pop.
    all: repeat match goal with Hs : stack _ = _ |- _ => rewrite Hs; clear Hs end.
    all: crunch.
  - (* IPushC *)
    cbn [eff] in H; shape H; inversion H; subst; clear H.
    repeat match goal with C : numeric _ = true |- _ => apply numeric_cases in C end.
    repeat match goal with C : _ = _ \/ _ |- _ => destruct C as [?|[?|[?|?]]]; subst end.
    all: unfold ctl_post, exec; crunch.
Qed.


