(* Control-flow level of the C03 verifier: a locally checked certificate of
   stack types is an invariant of every execution that stays inside the
   certified region, for any number of instructions, through jumps and loops.
   Model: Models/VerifierCfg.v. *)
From Coq Require Import ZArith List Bool Lia.
From QV Require Import Sx Strs Fl Cell Machine Cpu Verifier VerifierProofs ErrProofs VerifierCfg VerifierCtl.
Import ListNotations.
Open Scope Z_scope.

(* ---------- certificates ---------- *)

Lemma tys_eqb_eq x : forall y, tys_eqb x y = true -> x = y.
Proof.
  induction x as [|a x IH]; intros [|b y] H; cbn in H; try discriminate; [reflexivity|].
  apply andb_true_iff in H as [H1 H2]. apply Z.eqb_eq in H1. subst. f_equal. apply IH, H2.
Qed.

Lemma cert_at_in c a t : cert_at c a = Some t -> In (a, t) c.
Proof.
  induction c as [|[b t0] c IH]; cbn; [discriminate|].
  destruct (Z.eqb_spec a b) as [->|_]; intro H; [inversion H; subst; now left | right; auto].
Qed.

Lemma check_cert_at m c a t :
  check_cert m c = true -> cert_at c a = Some t -> check_at m c a t = true.
Proof.
  intros H Hc. unfold check_cert in H. rewrite forallb_forall in H.
  apply (H (a, t)). apply cert_at_in, Hc.
Qed.

Lemma succ_ok_spec c a t t0 : succ_ok c a t = true -> cert_at c a = Some t0 -> t0 = t.
Proof. unfold succ_ok. intros H E. rewrite E in H. apply tys_eqb_eq, H. Qed.

Lemma heap_pre_exec s size : heap (pre_exec s size) = heap s.   Proof. destruct s; reflexivity. Qed.
Lemma cur_pre_exec s size : cur (pre_exec s size) = cur s.      Proof. destruct s; reflexivity. Qed.
Lemma events_pre_exec s size : events (pre_exec s size) = events s. Proof. destruct s; reflexivity. Qed.
Lemma irq_pre_exec s size : irq (pre_exec s size) = irq s.      Proof. destruct s; reflexivity. Qed.
Lemma pc_pre_exec s size : pc (pre_exec s size) = pc s + size.  Proof. destruct s; reflexivity. Qed.

(* the invariant: interrupts aside, whenever the program counter is at a
   certified address the operand stack has the certified types *)
Definition Inv (c : cert) (s : st) : Prop :=
  irq s = false /\ forall t, cert_at c (pc s) = Some t -> tys (stack s) = t.

(* one instruction executed at a certified address *)
Theorem cfg_step m c s t :
  check_cert m c = true -> Inv c s -> cert_at c (pc s) = Some t ->
  exists i size t',
    decode (skipn (Z.to_nat (pc s)) (m_code m)) = DOk i size /\ eff i (tys (stack s)) = Some t' /\
    match exec m i (pre_exec s size) with
    | R _ s3 =>
      tick m s = end_check m (Next s3) /\
      tys (stack s3) = t' /\ heap s3 = heap s /\ cur s3 = cur s /\ events s3 = events s /\
      Inv c s3 /\ (cert_at c (pc s3) <> None -> tick m s = Next s3)
    | T cd kw _ => ok_trap cd = true /\ kw = true
    | ZD _ => True
    | X _ _ => False
    | NI _ => False
    end.
Proof.
  intros Hck [Hirq Hty] Hc.
  pose proof (check_cert_at m c (pc s) t Hck Hc) as Hat.
  specialize (Hty t Hc). subst t.
  unfold check_at in Hat.
  apply andb_true_iff in Hat as [Hrange Hat]. apply andb_true_iff in Hrange as [Hlo Hhi].
  apply Z.leb_le in Hlo. apply Z.ltb_lt in Hhi.
  destruct (decode (skipn (Z.to_nat (pc s)) (m_code m))) as [| |i size] eqn:Hd; try discriminate.
  destruct (eff i (tys (stack s))) as [t'|] eqn:He; [|discriminate].
  exists i, size, t'. split; [reflexivity|]. split; [exact He|].
  assert (Hn : forall idx, i <> IPushStr idx).
  { intros idx ->. cbn in He. discriminate. }
  assert (Hin : in_code m s) by (split; [exact Hirq | lia]).
  pose proof He as He'. rewrite <- (stack_pre_exec s size) in He'.
  pose proof (eff_sound m i (pre_exec s size) t' He') as Hs.
  pose proof (eff_ctl m i (pre_exec s size) t' He') as Hp.
  destruct (exec m i (pre_exec s size)) as [u s3|cd kw s3|s3|k s3|s3] eqn:E; cbn in Hs, Hp.
  - destruct Hs as (Ht & Hh & Hcu & Hev). destruct Hp as (Hpc & Hha & Hir).
    rewrite ?heap_pre_exec in Hh. rewrite ?cur_pre_exec in Hcu. rewrite ?events_pre_exec in Hev.
    rewrite ?irq_pre_exec in Hir. rewrite ?pc_pre_exec in Hpc.
    pose proof (tick_ok_shape m s i size u s3 Hin Hd Hn E) as Htick.
    assert (Hsucc : forall t3, cert_at c (pc s3) = Some t3 -> t3 = t').
    { intros t3 H3.
      destruct i; try (rewrite Hpc in H3; eapply succ_ok_spec; eassumption).
      (* IJz *) apply andb_true_iff in Hat as [Ha Hb].
      destruct Hpc as [Hpc|Hpc]; rewrite Hpc in H3.
      all: first [exact (succ_ok_spec _ _ _ _ Ha H3) | exact (succ_ok_spec _ _ _ _ Hb H3)]. }
    split; [exact Htick|]. split; [exact Ht|]. split; [exact Hh|]. split; [exact Hcu|].
    split; [exact Hev|]. split.
    + split; [congruence|]. intros t3 H3. rewrite (Hsucc t3 H3). exact Ht.
    + intro Hne. rewrite Htick. cbn.
      destruct (cert_at c (pc s3)) as [t3|] eqn:H3; [|contradiction].
      pose proof (check_cert_at m c (pc s3) t3 Hck H3) as Hat3. unfold check_at in Hat3.
      apply andb_true_iff in Hat3 as [Hr3 _]. apply andb_true_iff in Hr3 as [_ Hhi3].
      apply Z.ltb_lt in Hhi3.
      assert (Hge : (pc s3 >=? code_len m) = false) by (rewrite Z.geb_leb; apply Z.leb_gt; lia).
      rewrite Hge.
      rewrite andb_false_r. reflexivity.
  - exact Hs.
  - exact I.
  - unfold crash_guard in Hs. discriminate Hs.
  - contradiction.
Qed.

(* n instructions, each starting at a certified address and completing
   without a (value) trap *)
Inductive qsteps (m : module) (c : cert) : nat -> st -> st -> Prop :=
| qs_O s : qsteps m c O s s
| qs_S n s i size u s1 s2 :
    cert_at c (pc s) <> None ->
    decode (skipn (Z.to_nat (pc s)) (m_code m)) = DOk i size ->
    exec m i (pre_exec s size) = R u s1 ->
    qsteps m c n s1 s2 -> qsteps m c (S n) s s2.

Theorem cfg_run m c :
  check_cert m c = true ->
  forall n s s', Inv c s -> qsteps m c n s s' ->
  Inv c s' /\ heap s' = heap s /\ cur s' = cur s /\ events s' = events s.
Proof.
  intros Hck n s s' HI Hq. induction Hq as [s|n s i size u s1 s2 Hne Hd He Hq IH].
  - repeat split; auto; apply HI.
  - destruct (cert_at c (pc s)) as [t|] eqn:Hc; [|contradiction].
    destruct (cfg_step m c s t Hck HI Hc) as (i' & size' & t' & Hd' & Heff & Hm).
    rewrite Hd in Hd'. inversion Hd'; subst i' size'. rewrite He in Hm.
    destruct Hm as (_ & _ & Hh & Hcu & Hev & HI1 & _).
    destruct (IH HI1) as (HI2 & Hh2 & Hcu2 & Hev2).
    repeat split; try apply HI2; congruence.
Qed.

(* hence: after any number of such steps the next certified instruction again
   runs on a well-typed stack - never TYPE_MISMATCH / STACK_EMPTY / a host
   exception, memory untouched *)
Corollary cfg_no_type_confusion m c :
  check_cert m c = true ->
  forall n s s' t, Inv c s -> qsteps m c n s s' -> cert_at c (pc s') = Some t ->
  exists i size t',
    decode (skipn (Z.to_nat (pc s')) (m_code m)) = DOk i size /\
    eff i (tys (stack s')) = Some t' /\ tys (stack s') = t /\
    safe_out i (pre_exec s' size) t' (exec m i (pre_exec s' size)).
Proof.
  intros Hck n s s' t HI Hq Hc.
  destruct (cfg_run m c Hck n s s' HI Hq) as (HI' & _).
  destruct (cfg_step m c s' t Hck HI' Hc) as (i & size & t' & Hd & He & _).
  exists i, size, t'. split; [exact Hd|]. split; [exact He|]. split; [apply HI', Hc|].
  apply eff_sound. rewrite stack_pre_exec. exact He.
Qed.

(* ---------- frame rule: certificates relative to a base ---------- *)
From QV Require Import Monitor CertObs.

(* the abstract effect of a stack instruction does not depend on what lies
   below the cells it uses *)
Lemma eff_frame i t t' r : eff i t = Some t' -> eff i (t ++ r) = Some (t' ++ r).
Proof.
  intro H. destruct i; try (cbn [eff] in H; discriminate).
  all: cbn [eff] in H |- *; shape H; inversion H; subst; clear H; cbn [app];
       repeat match goal with C : ?b = true |- context[if ?b then _ else _] => rewrite C end;
       try reflexivity.
Qed.

Lemma eff_list_frame l : forall t t' r, eff_list l t = Some t' -> eff_list l (t ++ r) = Some (t' ++ r).
Proof.
  induction l as [|i l IH]; intros t t' r H; cbn in *.
  - inversion H. reflexivity.
  - destruct (eff i t) as [t1|] eqn:E; [|discriminate].
    rewrite (eff_frame i t t1 r E). apply IH, H.
Qed.

Lemma tys_eqb_refl x : tys_eqb x x = true.
Proof. induction x as [|a x IH]; cbn; [reflexivity|]. rewrite Z.eqb_refl. exact IH. Qed.

Lemma cert_at_shift r c a :
  cert_at (cert_shift r c) a = option_map (fun t => t ++ r) (cert_at c a).
Proof.
  induction c as [|[b t] c IH]; cbn; [reflexivity|].
  destruct (a =? b); [reflexivity | exact IH].
Qed.

Lemma succ_ok_shift r c a t : succ_ok c a t = true -> succ_ok (cert_shift r c) a (t ++ r) = true.
Proof.
  unfold succ_ok. rewrite cert_at_shift. destruct (cert_at c a) as [t0|]; cbn; [|reflexivity].
  intro H. apply tys_eqb_eq in H. subst. apply tys_eqb_refl.
Qed.

Lemma check_at_shift m r c a t :
  check_at m c a t = true -> check_at m (cert_shift r c) a (t ++ r) = true.
Proof.
  unfold check_at. intro H. apply andb_true_iff in H as [Hr H]. rewrite Hr. cbn [andb].
  destruct (decode (skipn (Z.to_nat a) (m_code m))) as [| |i size]; try discriminate.
  destruct (eff i t) as [t'|] eqn:E; [|discriminate].
  rewrite (eff_frame i t t' r E).
  destruct i; try (apply succ_ok_shift; exact H).
  (* IJz *)
  apply andb_true_iff in H as [H1 H2]. rewrite (succ_ok_shift r c _ _ H1), (succ_ok_shift r c _ _ H2).
  reflexivity.
Qed.

(* a certificate checked relative to a base is a certificate under every tail *)
Theorem check_cert_frame m c r : check_cert m c = true -> check_cert m (cert_shift r c) = true.
Proof.
  unfold check_cert, cert_shift. rewrite !forallb_forall. intros H p Hp.
  apply in_map_iff in Hp as [[a t] [<- Hin]]. cbn [fst snd].
  apply check_at_shift. exact (H (a, t) Hin).
Qed.
