(* Facts about the reference semantics (Src/SemBase.v): results carry the
   static type of the typing rules. *)
From Coq Require Import ZArith List Bool Lia.
From QV Require Import Sx Strs Fl Cell SemBase.
Import ListNotations.
Open Scope Z_scope.

Lemma chk_int_ty z c : chk_int z = POk c -> ty_of c = TI.
Proof. unfold chk_int. destruct (in_int z); intro H; inversion H; reflexivity. Qed.

Lemma chk_long_ty z c : chk_long z = POk c -> ty_of c = TL.
Proof. unfold chk_long. destruct (in_long z); intro H; inversion H; reflexivity. Qed.

Lemma mk_single_ty f c : mk_single f = POk c -> ty_of c = TS.
Proof.
  unfold mk_single. destruct f; try discriminate.
  destruct (to_single _) as [[| |]|]; intro H; inversion H; reflexivity.
Qed.

Lemma mk_double_ty q f c : mk_double q f = POk c -> ty_of c = TD.
Proof.
  unfold mk_double. destruct f; try (destruct (q Q_DBL_INF)); intro H; inversion H; reflexivity.
Qed.

Lemma mk_num_ty q t z c : mk_num q t z = POk c -> ty_of c = t.
Proof.
  destruct t; simpl; intro H.
  - eapply chk_int_ty; eauto.
  - eapply chk_long_ty; eauto.
  - eapply mk_single_ty; eauto.
  - inversion H; reflexivity.
  - discriminate.
Qed.

Lemma mk_flt_ty q t f c : mk_flt q t f = POk c -> ty_of c = t.
Proof.
  destruct t; simpl; intro H; try discriminate.
  - eapply mk_single_ty; eauto.
  - eapply mk_double_ty; eauto.
Qed.

Lemma conv_ty q t c c' : conv q t c = POk c' -> ty_of c' = t.
Proof.
  destruct t, c; simpl; intro H; try discriminate;
    try (inversion H; reflexivity);
    try (eapply chk_int_ty; eassumption);
    try (eapply chk_long_ty; eassumption);
    try (eapply mk_single_ty; eassumption);
    try (destruct (fround f); [|discriminate];
         first [eapply chk_int_ty; eassumption | eapply chk_long_ty; eassumption]).
Qed.

Ltac pb :=
  repeat match goal with
         | H : pbind ?m _ = POk _ |- _ =>
           let E := fresh "E" in destruct m eqn:E; simpl in H; try discriminate
         | H : (if ?c then _ else _) = POk _ |- _ =>
           let E := fresh "E" in destruct c eqn:E; try discriminate
         end.

Lemma rel_result o a b v :
  (pdo c <- cmp_same a b; POk (bool_cell (rel_holds o c))) = POk v -> ty_of v = TI.
Proof.
  intro H. pb. inversion H. unfold bool_cell. reflexivity.
Qed.

(* numeric operands: the body of binop_sem for two numeric types *)
Lemma binop_num_type q o a b v (Hq : q Q_POW_INT = false) :
  is_num_ty (ty_of a) = true -> is_num_ty (ty_of b) = true ->
  binop_sem q o a b = POk v ->
  binop_ty o (ty_of a) (ty_of b) = Some (ty_of v).
Proof.
  intros Ha Hb.
  unfold binop_sem, binop_ty.
  destruct (ty_of a) eqn:Ea; try discriminate; destruct (ty_of b) eqn:Eb; try discriminate;
    clear Ha Hb;
    destruct o; cbn [is_rel is_logic orb]; rewrite ?Hq; cbn [andb];
    intro H; pb;
    repeat match goal with
           | H : match ?x with _ => _ end = POk _ |- _ => destruct x; try discriminate
           end;
    pb;
    first [ apply mk_num_ty in H; rewrite H; reflexivity
          | apply mk_flt_ty in H; rewrite H; reflexivity
          | apply chk_int_ty in H; rewrite H; reflexivity
          | apply chk_long_ty in H; rewrite H; reflexivity
          | apply mk_single_ty in H; rewrite H; reflexivity
          | apply mk_double_ty in H; rewrite H; reflexivity
          | inversion H; reflexivity
          | idtac ].
Qed.

Lemma ty_of_str c : ty_of c = TStr -> (exists s, c = CStr s) \/ (exists g i, c = CRef g i).
Proof. destruct c; try discriminate; eauto. Qed.

Theorem binop_result_type o a b v :
  binop_sem no_quirks o a b = POk v ->
  binop_ty o (ty_of a) (ty_of b) = Some (ty_of v).
Proof.
  intro H.
  destruct (is_num_ty (ty_of a)) eqn:Ha; destruct (is_num_ty (ty_of b)) eqn:Hb.
  - apply binop_num_type with (q := no_quirks); auto.
  - exfalso. unfold binop_sem in H.
    destruct (ty_of a); try discriminate; destruct (ty_of b); discriminate.
  - exfalso. unfold binop_sem in H.
    destruct (ty_of a); try discriminate; destruct (ty_of b); discriminate.
  - assert (Ea : ty_of a = TStr) by (destruct (ty_of a); try discriminate; reflexivity).
    assert (Eb : ty_of b = TStr) by (destruct (ty_of b); try discriminate; reflexivity).
    unfold binop_sem, binop_ty in *. rewrite Ea, Eb in *.
    destruct (ty_of_str _ Ea) as [[x ->] | [g [i ->]]];
      destruct (ty_of_str _ Eb) as [[y ->] | [g' [i' ->]]];
      destruct o; simpl in *; try discriminate;
        try (inversion H; reflexivity).
Qed.
