(* C14 - the layout-preserving lexer: lossless, and its image is exactly the
   layouts accepted by [lay_ok] (so a text and its layout determine each other). *)
From Coq Require Import ZArith List Bool Lia.
From QV Require Import Sx Strs Lex LexChars LexSpan LexTok LexTokSpec.
Import ListNotations.
Open Scope Z_scope.

Arguments next_tok : simpl never.

Definition hd_tok_ok (l : list ltok) : Prop :=
  match l with (_, t) :: _ => tok_ok t = true | [] => True end.

Lemma hd_unlex l tail : hd_tok_ok l -> hd_error (unlex l tail) = hd_lay l (hd_error tail).
Proof.
  destruct l as [|[ws t] l']; simpl; [reflexivity|]. intro H.
  destruct (tok_ok_text t H) as (c & u & Ht & _). rewrite Ht. destruct ws; reflexivity.
Qed.

Lemma lay_ok_hd l nxt : lay_ok l nxt = true -> hd_tok_ok l.
Proof.
  destruct l as [|[ws t] l']; simpl; [auto|]. intro H.
  apply andb_true_iff in H as [H _]. apply andb_true_iff in H as [H _].
  now apply andb_true_iff in H as [_ H].
Qed.

Lemma lexl_relex l : forall tail fuel,
  lay_ok l (hd_error tail) = true -> forallb is_blank tail = true ->
  (length (unlex l tail) < fuel)%nat -> lexl fuel (unlex l tail) = (l, tail).
Proof.
  induction l as [|[ws t] l IH]; intros tail fuel Hok Ht Hf.
  - simpl in *. destruct fuel; [lia|]. cbn [lexl]. rewrite (span_all _ _ Ht). reflexivity.
  - cbn [lay_ok] in Hok. apply andb_true_iff in Hok as [Hok H4].
    apply andb_true_iff in Hok as [Hok H3]. apply andb_true_iff in Hok as [H1 H2].
    destruct fuel; [simpl in Hf; lia|].
    rewrite <- (hd_unlex l tail (lay_ok_hd _ _ H4)) in H3.
    destruct (next_tok_spec t (unlex l tail) H2 H3) as (c & u & Htx & Hb & Hn).
    cbn [unlex] in *. rewrite Htx in *.
    change ((c :: u) ++ unlex l tail) with (c :: (u ++ unlex l tail)) in *.
    cbn [lexl].
    rewrite (span_app is_blank ws (c :: u ++ unlex l tail) H1);
      [|simpl; now rewrite Hb].
    rewrite Hn. rewrite IH; [reflexivity | exact H4 | exact Ht |].
    rewrite app_length in Hf. simpl in Hf. rewrite app_length in Hf. lia.
Qed.

Lemma lexl_inv fuel : forall s l tail,
  (length s < fuel)%nat -> lexl fuel s = (l, tail) ->
  unlex l tail = s /\ lay_ok l (hd_error tail) = true /\ forallb is_blank tail = true.
Proof.
  induction fuel as [|fuel IH]; intros s l tail Hf H; [lia|].
  cbn [lexl] in H. destruct (span is_blank s) as [ws r] eqn:E.
  apply span_inv in E as (E1 & E2 & E3).
  destruct r as [|c r'].
  - inversion H; subst. rewrite app_nil_r. simpl. auto.
  - destruct (next_tok c r') as [t rest] eqn:En.
    destruct (lexl fuel rest) as [l' tail'] eqn:El. inversion H; subst.
    simpl in E3. apply negb_true_iff in E3.
    destruct (next_tok_inv c r' t rest E3 En) as (u & Htx & Hr & Hok & Hst).
    assert (Hlen : (length rest < fuel)%nat).
    { subst r'. rewrite app_length in Hf. simpl in Hf. rewrite app_length in Hf. lia. }
    destruct (IH rest l' tail Hlen El) as (I1 & I2 & I3).
    split.
    { cbn [unlex]. rewrite Htx, I1. subst r'. reflexivity. }
    split; [|exact I3].
    cbn [lay_ok]. rewrite E2, Hok, I2.
    rewrite <- (hd_unlex l' tail (lay_ok_hd _ _ I2)), I1, Hst. reflexivity.
Qed.

(* the lexer is lossless *)
Theorem unlex_lex s : unlex (fst (lex_layout s)) (snd (lex_layout s)) = s.
Proof.
  unfold lex_layout. destruct (lexl (S (length s)) s) as [l tail] eqn:E.
  apply lexl_inv in E; [|lia]. simpl. tauto.
Qed.

(* what the lexer returns satisfies [lay_ok] *)
Theorem lex_lay_ok s l tail :
  lex_layout s = (l, tail) ->
  unlex l tail = s /\ lay_ok l (hd_error tail) = true /\ forallb is_blank tail = true.
Proof. unfold lex_layout. intro E. apply lexl_inv in E; [exact E | lia]. Qed.

(* and every layout satisfying [lay_ok] is what the lexer returns on its text *)
Theorem relex l tail :
  lay_ok l (hd_error tail) = true -> forallb is_blank tail = true ->
  lex_layout (unlex l tail) = (l, tail).
Proof. intros H1 H2. unfold lex_layout. apply lexl_relex; auto. Qed.

(* ---------------------------------------------------------------- *)
(* cutting and changing layouts *)

Lemma hd_lay_app l1 l2 nxt : hd_lay (l1 ++ l2) nxt = hd_lay l1 (hd_lay l2 nxt).
Proof. destruct l1 as [|[ws t] l1]; reflexivity. Qed.

Lemma lay_ok_app l1 l2 nxt :
  lay_ok (l1 ++ l2) nxt = lay_ok l1 (hd_lay l2 nxt) && lay_ok l2 nxt.
Proof.
  induction l1 as [|[ws t] l1 IH]; [reflexivity|].
  cbn [app lay_ok]. rewrite IH, hd_lay_app. now rewrite !andb_assoc.
Qed.

Lemma last_tok_snoc l ws t : last_tok (l ++ [(ws, t)]) = Some t.
Proof. unfold last_tok. now rewrite rev_unit. Qed.

Lemma last_tok_inv l t : last_tok l = Some t -> exists l0 ws, l = l0 ++ [(ws, t)].
Proof.
  unfold last_tok. destruct (rev l) as [|[ws t'] r] eqn:E; [discriminate|].
  intro H. inversion H; subst. exists (rev r), ws.
  rewrite <- (rev_involutive l), E. reflexivity.
Qed.

Lemma last_tok_nil_inv l : last_tok l = None -> l = [].
Proof.
  unfold last_tok. destruct (rev l) as [|[ws t'] r] eqn:E; [|discriminate].
  intros _. rewrite <- (rev_involutive l), E. reflexivity.
Qed.

(* only the last token of a layout looks at what follows it *)
Lemma lay_ok_last l oc oc' :
  lay_ok l oc = true ->
  match last_tok l with Some p => stops p oc' = true | None => True end ->
  lay_ok l oc' = true.
Proof.
  destruct (last_tok l) as [p|] eqn:E.
  - apply last_tok_inv in E as (l0 & ws & ->). rewrite !lay_ok_app. cbn [lay_ok hd_lay].
    intros H Hs. rewrite Hs. apply andb_true_iff in H as [H1 H2]. rewrite H1.
    apply andb_true_iff in H2 as [H2 _]. apply andb_true_iff in H2 as [H2 _]. now rewrite H2.
  - apply last_tok_nil_inv in E. subst l. auto.
Qed.

Lemma lay_ok_mono l oc oc' :
  (forall p, stops p oc = true -> stops p oc' = true) ->
  lay_ok l oc = true -> lay_ok l oc' = true.
Proof.
  intros Hm H. apply (lay_ok_last l oc oc' H).
  destruct (last_tok l) as [p|] eqn:E; [|exact I].
  apply last_tok_inv in E as (l0 & ws & ->). rewrite lay_ok_app in H. cbn [lay_ok] in H.
  apply andb_true_iff in H as [_ H]. apply andb_true_iff in H as [H _].
  apply andb_true_iff in H as [_ H]. now apply Hm.
Qed.

Lemma sep_ok_lay l1 ws t oc :
  lay_ok l1 oc = true -> sep_ok l1 ws t = true -> lay_ok l1 (hd_error (ws ++ text t)) = true.
Proof.
  intros H Hs. apply (lay_ok_last l1 oc _ H). unfold sep_ok in Hs.
  destruct (last_tok l1); [exact Hs | exact I].
Qed.

(* replacing one token (and the blanks in front of it) *)
Lemma replace_mid l1 ws t l2 nxt ws' t' :
  lay_ok (l1 ++ (ws, t) :: l2) nxt = true ->
  forallb is_blank ws' = true -> tok_ok t' = true ->
  stops t' (hd_lay l2 nxt) = true ->
  lay_ok l1 (hd_error (ws' ++ text t')) = true ->
  lay_ok (l1 ++ (ws', t') :: l2) nxt = true.
Proof.
  rewrite !lay_ok_app. cbn [lay_ok hd_lay]. intros H Hw Ht Hs Hl.
  apply andb_true_iff in H as [_ H]. apply andb_true_iff in H as [_ H].
  now rewrite Hl, Hw, Ht, Hs, H.
Qed.

Lemma mid_parts l1 ws t l2 nxt :
  lay_ok (l1 ++ (ws, t) :: l2) nxt = true ->
  lay_ok l1 (hd_error (ws ++ text t)) = true /\ forallb is_blank ws = true /\
  tok_ok t = true /\ stops t (hd_lay l2 nxt) = true /\ lay_ok l2 nxt = true.
Proof.
  rewrite lay_ok_app. cbn [lay_ok hd_lay]. intro H.
  apply andb_true_iff in H as [H1 H]. apply andb_true_iff in H as [H H5].
  apply andb_true_iff in H as [H H4]. apply andb_true_iff in H as [H2 H3]. auto.
Qed.

Lemma hd_error_app_cons (ws : str) c x y :
  hd_error (ws ++ c :: x) = hd_error (ws ++ c :: y).
Proof. destruct ws; reflexivity. Qed.
