(* ON ERROR / RESUME: lemmas about do_trap, errhand, errres, errresn, errget
   and the statement lookup (C10). *)
From Coq Require Import ZArith List Bool Lia.
From QV Require Import Sx Strs Fl Cell Machine Cpu.
Import ListNotations.
Open Scope Z_scope.

(* ---- trap dispatch ---- *)

Lemma trap_enters_handler m c kw s a :
  ttarget_ s = TAddr a -> handler_active s = false ->
  do_trap m c kw s = Next (set_handler_active (set_pc (set_last_trap s (Some c) kw) a) true).
Proof. intros Ht Ha. unfold do_trap. destruct s; cbn in *. subst. reflexivity. Qed.

Lemma handler_state s c kw a :
  let s' := set_handler_active (set_pc (set_last_trap s (Some c) kw) a) true in
  pc s' = a /\ handler_active s' = true /\ last_trap s' = Some c /\
  stack s' = stack s /\ heap s' = heap s /\ cur s' = cur s /\ events s' = events s /\
  trapped_addr s' = trapped_addr s /\ ttarget_ s' = ttarget_ s.
Proof. destruct s; cbn; repeat split; reflexivity. Qed.

(* an error while the handler is running is not caught again: it halts *)
Lemma trap_in_handler_halts m c s :
  handler_active s = true ->
  do_trap m c true s = Next (set_halt (set_last_trap s (Some c) true) true H_TRAP).
Proof. intro Ha. unfold do_trap. destruct s; cbn in *. subst. reflexivity. Qed.

(* ERR identifies the error *)
Lemma errget_pushes_code m s c :
  last_trap s = Some c -> in_int c = true ->
  exec m IErrget s = R tt (set_stack s (CI c :: stack s)).
Proof.
  intros Hl Hc. unfold exec, bind, get. rewrite Hl.
  unfold push, bind, mk_cell. rewrite Hc. unfold ret, push_cell, upd_stack.
  destruct s; reflexivity.
Qed.

(* ---- the failing address is recorded for every kind of error ---- *)

Definition in_code (m : module) (s : st) : Prop :=
  irq s = false /\ 0 <= pc s < code_len m.

(* the state in which tick runs the instruction: prev_pc recorded, pc advanced *)
Definition pre_exec (s : st) (size : Z) : st :=
  set_pc (set_prev_pc s (pc s)) (pc (set_prev_pc s (pc s)) + size).

Lemma tick_trapped_shape m s i size c kw s3 :
  in_code m s ->
  decode (skipn (Z.to_nat (pc s)) (m_code m)) = DOk i size ->
  (forall idx, i <> IPushStr idx) ->
  exec m i (pre_exec s size) = T c kw s3 ->
  tick m s = end_check m (do_trap m c kw (set_trapped_addr s3 (prev_pc s3))).
Proof.
  intros [Hi [Hlo Hhi]] Hd Hn He. unfold tick. rewrite Hi.
  replace ((pc s <? 0) || (pc s >=? code_len m)) with false.
  2:{ symmetry. apply orb_false_iff. split; [apply Z.ltb_ge; lia|].
      rewrite Z.geb_leb. apply Z.leb_gt. lia. }
  rewrite Hd. unfold pre_exec in He.
  destruct i; try (cbn iota; rewrite He; reflexivity).
  exfalso. eapply Hn. reflexivity.
Qed.

Lemma tick_zerodiv_shape m s i size s3 :
  in_code m s ->
  decode (skipn (Z.to_nat (pc s)) (m_code m)) = DOk i size ->
  (forall idx, i <> IPushStr idx) ->
  exec m i (pre_exec s size) = ZD s3 ->
  tick m s = end_check m (do_trap m T_DIVISION_BY_ZERO true (set_trapped_addr s3 (prev_pc s3))).
Proof.
  intros [Hi [Hlo Hhi]] Hd Hn He. unfold tick. rewrite Hi.
  replace ((pc s <? 0) || (pc s >=? code_len m)) with false.
  2:{ symmetry. apply orb_false_iff. split; [apply Z.ltb_ge; lia|].
      rewrite Z.geb_leb. apply Z.leb_gt. lia. }
  rewrite Hd. unfold pre_exec in He.
  destruct i; try (cbn iota; rewrite He; reflexivity).
  exfalso. eapply Hn. reflexivity.
Qed.

(* ---- the statement lookup ---- *)

Definition contains (r : Z * Z) (addr : Z) : Prop := fst r <= addr < snd r.
Definition size_of (r : Z * Z) : Z := snd r - fst r.

Lemma find_stmt_fold stmts addr : forall best,
  (match best with Some b => contains b addr | None => True end) ->
  match fold_left (fun best '(a, b) =>
               if (a <=? addr) && (addr <? b) then
                 match best with
                 | Some (a', b') => if b - a <? b' - a' then Some (a, b) else best
                 | None => Some (a, b)
                 end
               else best) stmts best with
  | Some r => contains r addr /\
              (forall r', In r' stmts -> contains r' addr -> size_of r <= size_of r') /\
              (match best with Some b => size_of r <= size_of b | None => True end)
  | None => best = None /\ forall r', In r' stmts -> ~ contains r' addr
  end.
Proof.
  induction stmts as [|[a b] stmts IH]; intros best Hb; cbn [fold_left].
  - destruct best as [[a' b']|]; cbn.
    + split; [exact Hb|]. split; [intros r' []|]. lia.
    + split; [reflexivity|]. intros r' [].
  - destruct ((a <=? addr) && (addr <? b)) eqn:Hc.
    + apply andb_true_iff in Hc as [H1 H2]. apply Z.leb_le in H1. apply Z.ltb_lt in H2.
      destruct best as [[a' b']|].
      * destruct (b - a <? b' - a') eqn:Hlt.
        -- apply Z.ltb_lt in Hlt.
           specialize (IH (Some (a, b))). cbn in IH.
           assert (Hcb : contains (a, b) addr) by (unfold contains; cbn; lia).
           specialize (IH Hcb).
           destruct (fold_left _ stmts (Some (a, b))) as [r|].
           ++ destruct IH as (C1 & C2 & C3). split; [exact C1|]. split.
              ** intros r' [<-|Hin] Hr'; [unfold size_of in *; cbn in *; lia | apply C2; assumption].
              ** unfold size_of in *; cbn in *; lia.
           ++ destruct IH as [IH _]. discriminate IH.
        -- apply Z.ltb_ge in Hlt.
           specialize (IH (Some (a', b')) Hb).
           destruct (fold_left _ stmts (Some (a', b'))) as [r|].
           ++ destruct IH as (C1 & C2 & C3). split; [exact C1|]. split.
              ** intros r' [<-|Hin] Hr'; [unfold size_of in *; cbn in *; lia | apply C2; assumption].
              ** exact C3.
           ++ destruct IH as [IH _]. discriminate IH.
      * specialize (IH (Some (a, b))). cbn in IH.
        assert (Hcb : contains (a, b) addr) by (unfold contains; cbn; lia).
        specialize (IH Hcb).
        destruct (fold_left _ stmts (Some (a, b))) as [r|].
        -- destruct IH as (C1 & C2 & C3). split; [exact C1|]. split; [|exact I].
           intros r' [<-|Hin] Hr'; [unfold size_of in *; cbn in *; lia | apply C2; assumption].
        -- destruct IH as [IH _]. discriminate IH.
    + specialize (IH best Hb).
      destruct (fold_left _ stmts best) as [r|].
      * destruct IH as (C1 & C2 & C3). split; [exact C1|]. split; [|exact C3].
        intros r' [<-|Hin] Hr'; [|apply C2; assumption].
        exfalso. unfold contains in Hr'; cbn in Hr'.
        apply andb_false_iff in Hc as [Hc|Hc]; [apply Z.leb_gt in Hc | apply Z.ltb_ge in Hc]; lia.
      * destruct IH as [IH1 IH2]. split; [exact IH1|].
        intros r' [<-|Hin] Hr'; [|eapply IH2; eassumption].
        unfold contains in Hr'; cbn in Hr'.
        apply andb_false_iff in Hc as [Hc|Hc]; [apply Z.leb_gt in Hc | apply Z.ltb_ge in Hc]; lia.
Qed.

(* find_stmt returns an innermost record containing the address, and finds one iff one exists *)
Lemma find_stmt_innermost stmts addr :
  match find_stmt stmts addr with
  | Some r => contains r addr /\ forall r', In r' stmts -> contains r' addr -> size_of r <= size_of r'
  | None => forall r', In r' stmts -> ~ contains r' addr
  end.
Proof.
  unfold find_stmt. pose proof (find_stmt_fold stmts addr None I) as H.
  destruct (fold_left _ stmts None) as [r|].
  - destruct H as (A & B & _). split; assumption.
  - destruct H as [_ H]. exact H.
Qed.

(* ---- RESUME / RESUME NEXT ---- *)

Lemma resume_sets_pc m stmts s a b next :
  m_stmts m = Some stmts -> trapped_addr s <> 0 ->
  find_stmt stmts (trapped_addr s) = Some (a, b) ->
  exec_errres m next s =
  R tt (set_handler_active (set_pc s (if next then b else a)) false).
Proof.
  intros Hm Hta Hf. unfold exec_errres. rewrite Hm. unfold bind, get, find_stmt_at.
  replace (trapped_addr s =? 0) with false by (symmetry; apply Z.eqb_neq; exact Hta).
  unfold ret. rewrite Hf. reflexivity.
Qed.

Lemma resumed_state s p :
  let s' := set_handler_active (set_pc s p) false in
  pc s' = p /\ handler_active s' = false /\ stack s' = stack s /\ heap s' = heap s /\
  cur s' = cur s /\ events s' = events s /\ ttarget_ s' = ttarget_ s.
Proof. destruct s; cbn; repeat split; reflexivity. Qed.

(* ON ERROR RESUME NEXT: the failing statement is skipped without entering a handler *)
Lemma resume_next_mode m stmts c kw s a b :
  ttarget_ s = TNext -> handler_active s = false ->
  m_stmts m = Some stmts -> trapped_addr s <> 0 ->
  find_stmt stmts (trapped_addr s) = Some (a, b) ->
  do_trap m c kw s = Next (set_handler_active (set_pc (set_last_trap s (Some c) kw) b) false).
Proof.
  intros Ht Ha Hm Hta Hf. unfold do_trap.
  assert (E : exec_errres m true (set_last_trap s (Some c) kw) =
              R tt (set_handler_active (set_pc (set_last_trap s (Some c) kw) b) false)).
  { apply (resume_sets_pc m stmts (set_last_trap s (Some c) kw) a b true); destruct s; cbn in *; assumption. }
  destruct s; cbn in *. subst. cbn in E. rewrite E. reflexivity.
Qed.

(* ON ERROR GOTO 0 restores default reporting *)
Lemma errhand0_disarms m s :
  handler_active s = false ->
  exec m (IErrhand 0) s = R tt (set_ttarget s TNone).
Proof. intro Ha. unfold exec, bind, get. rewrite Ha. cbn. reflexivity. Qed.

Lemma errhand_arms m s t :
  handler_active s = false -> t <> 0 -> t <> 1 ->
  exec m (IErrhand t) s = R tt (set_ttarget s (TAddr t)).
Proof.
  intros Ha H0 H1. unfold exec, bind, get. rewrite Ha.
  replace (t =? 0) with false by (symmetry; apply Z.eqb_neq; exact H0).
  replace (t =? 1) with false by (symmetry; apply Z.eqb_neq; exact H1).
  reflexivity.
Qed.

(* ---- totality of tick on well-typed stack instructions (used by C07) ---- *)

Lemma tick_ok_shape m s i size u s3 :
  in_code m s ->
  decode (skipn (Z.to_nat (pc s)) (m_code m)) = DOk i size ->
  (forall idx, i <> IPushStr idx) ->
  exec m i (pre_exec s size) = R u s3 ->
  tick m s = end_check m (Next s3).
Proof.
  intros [Hi [Hlo Hhi]] Hd Hn He. unfold tick. rewrite Hi.
  replace ((pc s <? 0) || (pc s >=? code_len m)) with false.
  2:{ symmetry. apply orb_false_iff. split; [apply Z.ltb_ge; lia|].
      rewrite Z.geb_leb. apply Z.leb_gt. lia. }
  rewrite Hd. unfold pre_exec in He.
  destruct i; try (cbn iota; rewrite He; reflexivity).
  exfalso. eapply Hn. reflexivity.
Qed.

Lemma do_trap_total m c s :
  ttarget_ s <> TNext -> exists s', do_trap m c true s = Next s'.
Proof.
  intro Ht. unfold do_trap. destruct s; cbn in *.
  destruct handler_active, ttarget_; cbn; try (eexists; reflexivity). contradiction.
Qed.

Lemma end_check_next m t : (exists s', t = Next s') -> exists s', end_check m t = Next s'.
Proof. intros [s' ->]. cbn. destruct (negb (halted s') && (pc s' >=? code_len m)); eexists; reflexivity. Qed.
