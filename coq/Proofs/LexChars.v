(* C14 - facts about the character classes of Models/Lex.v (boolean arithmetic
   on code points). *)
From Coq Require Import ZArith List Bool Lia.
From QV Require Import Sx Strs Lex.
Import ListNotations.
Open Scope Z_scope.

(* ---------------------------------------------------------------- *)
(* boolean arithmetic on code points *)

Ltac b2p_in H :=
  repeat (progress rewrite ?orb_true_iff, ?andb_true_iff, ?negb_true_iff, ?orb_false_iff,
          ?andb_false_iff, ?negb_false_iff, ?Z.eqb_eq, ?Z.eqb_neq, ?Z.leb_le, ?Z.leb_gt in H).

Ltac b2p_goal :=
  repeat (progress rewrite ?orb_true_iff, ?andb_true_iff, ?negb_true_iff, ?orb_false_iff,
          ?andb_false_iff, ?negb_false_iff, ?Z.eqb_eq, ?Z.eqb_neq, ?Z.leb_le, ?Z.leb_gt).

Ltac b2p_all :=
  repeat match goal with
  | H : _ = true |- _ => progress b2p_in H
  | H : _ = false |- _ => progress b2p_in H
  end.

Ltac unf := unfold op_start, is_numch, is_alnum, is_alpha, is_upper, is_lower, is_digit,
  is_suffix, is_numsuffix, is_dollar, is_sign, is_expch, is_ho, is_relch, is_nl, not_nl,
  is_strch, is_colon, is_blank in *.

(* goal: a boolean class fact about code points, from boolean hypotheses *)
Ltac bz :=
  unf; b2p_all;
  try (apply eq_true_iff_eq; split; intro; b2p_all);
  b2p_goal; lia.

Lemma b_true_false (b : bool) : b = true -> b = false -> False.
Proof. congruence. Qed.

Lemma digit_numch c : is_digit c = true -> is_numch c = true.
Proof. unfold is_numch, is_alnum. intros ->. now rewrite orb_true_r. Qed.

Lemma alnum_numch c : is_alnum c = true -> is_numch c = true.
Proof. unfold is_numch. now intros ->. Qed.

Lemma alpha_alnum c : is_alpha c = true -> is_alnum c = true.
Proof. unfold is_alnum. now intros ->. Qed.

Lemma sign_not_numch c : is_sign c = true -> is_numch c = false.
Proof. intro H. bz. Qed.

Lemma numsuffix_not_numch c : is_numsuffix c = true -> is_numch c = false.
Proof. intro H. bz. Qed.

Lemma numsuffix_not_alnum c : is_numsuffix c = true -> is_alnum c = false.
Proof. intro H. bz. Qed.

Lemma numsuffix_not_sign c : is_numsuffix c = true -> is_sign c = false.
Proof. intro H. bz. Qed.

Lemma suffix_not_alnum c : is_suffix c = true -> is_alnum c = false.
Proof. intro H. bz. Qed.

Lemma numsuffix_suffix c : is_numsuffix c = true -> is_suffix c = true.
Proof. unfold is_suffix. now intros ->. Qed.

Lemma nl_not_alnum c : (c =? 10) = true -> is_alnum c = false.
Proof. intro H. bz. Qed.

Lemma colon_not_alnum c : (c =? 58) = true -> is_alnum c = false.
Proof. intro H. bz. Qed.

Lemma alpha_not_blank c : is_alpha c = true -> is_blank c = false.
Proof. intro H. bz. Qed.

Lemma digit_not_blank c : is_digit c = true -> is_blank c = false.
Proof. intro H. bz. Qed.

(* the letter case of a character does not change any class the lexer tests *)
Lemma lower_ch_classes a b :
  lower_ch a = lower_ch b ->
  is_alpha a = is_alpha b /\ is_digit a = is_digit b.
Proof.
  unfold lower_ch. destruct (is_upper a) eqn:Ea, (is_upper b) eqn:Eb; intro H; split; bz.
Qed.

Lemma lower_ch_alpha a b : lower_ch a = lower_ch b -> is_alpha a = is_alpha b.
Proof. intro H. now apply lower_ch_classes. Qed.

Lemma lower_ch_alnum a b : lower_ch a = lower_ch b -> is_alnum a = is_alnum b.
Proof. intro H. unfold is_alnum. destruct (lower_ch_classes a b H) as [-> ->]. reflexivity. Qed.

(* two letters that agree after lower-casing agree on every predicate the
   [stops] function applies to the next character *)
Lemma alpha_case_pred a b :
  is_alpha a = true -> lower_ch a = lower_ch b ->
  is_numsuffix a = is_numsuffix b /\ is_suffix a = is_suffix b /\ is_numch a = is_numch b /\
  is_sign a = is_sign b /\ is_digit a = is_digit b /\ is_ho a = is_ho b /\
  is_colon a = is_colon b /\ (a =? 10) = (b =? 10) /\
  (forall c, (is_relch a && negb (a =? c)) = (is_relch b && negb (b =? c))).
Proof.
  intros Ha H.
  assert (Hho : is_ho a = is_ho b) by (unfold is_ho; now rewrite H).
  unfold lower_ch in H. destruct (is_upper a) eqn:Ea, (is_upper b) eqn:Eb;
    (repeat split; [bz|bz|bz|bz|bz|exact Hho|bz|bz|intro c; bz]).
Qed.

