(* The whole front (assembler + Pass1 block checks + stray markers) against the
   strict block grammar [balanced]. *)
From Coq Require Import ZArith List Bool Lia.
From QV Require Import Blocks BlocksSpec BlocksProofs BlocksErrors.
Import ListNotations.
Open Scope Z_scope.

Lemma first_some_none {A B} (f : A -> option B) l :
  first_some f l = None -> Forall (fun x => f x = None) l.
Proof.
  induction l as [|x l IH]; intros H; [constructor|]. simpl in H.
  destruct (f x) eqn:E; [discriminate|]. constructor; [assumption | apply IH; assumption].
Qed.

Lemma first_some_none_intro {A B} (f : A -> option B) l :
  Forall (fun x => f x = None) l -> first_some f l = None.
Proof.
  induction 1 as [|x l Hx _ IH]; [reflexivity|]. simpl. rewrite Hx. assumption.
Qed.

Lemma existsb_false_forall {A} (f : A -> bool) l :
  existsb f l = false -> Forall (fun x => f x = false) l.
Proof.
  induction l as [|x l IH]; intros H; [constructor|]. simpl in H.
  apply orb_false_iff in H. destruct H. constructor; [assumption | apply IH; assumption].
Qed.

Lemma existsb_false_intro {A} (f : A -> bool) l :
  Forall (fun x => f x = false) l -> existsb f l = false.
Proof.
  induction 1 as [|x l Hx _ IH]; [reflexivity|]. simpl. rewrite Hx. assumption.
Qed.

Lemma no_case_else_app a b : no_case_else (a ++ b) <-> no_case_else a /\ no_case_else b.
Proof. unfold no_case_else. apply Forall_app. Qed.

Lemma no_case_else_forest t ts :
  no_case_else (flatten_forest ts) -> In t ts -> no_case_else (flatten t).
Proof.
  unfold no_case_else. intros H Hin. rewrite Forall_forall in *. intros y Hy.
  apply H. apply (in_forest t); assumption.
Qed.

Lemma select_body_mono b : select_body false b -> select_body true b.
Proof.
  intros [E | [s [r [E [Hs | [Hf _]]]]]]; [left; assumption | | discriminate].
  right. exists s, r. split; [assumption | left; assumption].
Qed.

Lemma body_ok_mono k o b e : body_ok false k o b e -> body_ok true k o b e.
Proof. destruct k; simpl; try tauto. apply select_body_mono. Qed.

Lemma body_ok_strict_to_asm k o b e :
  no_case_else (flatten_forest b) -> body_ok true k o b e -> body_ok false k o b e.
Proof.
  intros Hn. destruct k; simpl; try tauto.
  intros [E | [s [r [E [Hs | [_ Hs]]]]]]; [left; assumption | |].
  - right. exists s, r. split; [assumption | left; assumption].
  - exfalso. subst b. unfold no_case_else in Hn. simpl in Hn.
    inversion Hn as [|? ? H1 _]. contradiction.
Qed.

(* what a direct child of a block of kind [par] may be *)
Definition kid_ok (par : option bkind) (r : bool) (t : tree) : Prop :=
  (exists s k, t = TStmt s /\ par = Some k /\ marker_of k (sk s) = true) \/ wfs r t.

Lemma kids_of_kid_ok r k b : Forall (kid_ok (Some k) r) b -> kids r k b.
Proof.
  induction 1 as [|t b Ht _ IH]; [constructor|].
  destruct Ht as [[s [k' [Et [Ek Hm]]]] | Hw].
  - subst t. inversion Ek; subst k'. apply kids_marker; assumption.
  - apply kids_tree; assumption.
Qed.

Lemma strict_sound_tree t : forall par in_if r,
  wfa t -> pass1 par in_if r t = None -> stray par t = false ->
  no_case_else (flatten t) -> kid_ok par r t.
Proof.
  induction t as [s | k o b e IH] using tree_ind'; intros par in_if r Hw Hp Hs Hn.
  - inversion Hw as [? Ho He|]; subst. unfold kid_ok.
    unfold no_case_else in Hn. simpl in Hn. inversion Hn as [|? ? Hce _]; subst.
    simpl in Hp, Hs.
    destruct (sk s) eqn:E; simpl in Ho, He; try discriminate.
    + right. apply wfs_stmt. assumption.
    + (* ELSEIF *) destruct par as [[]|]; try discriminate.
      left. exists s, BIf. rewrite E. repeat split.
    + (* ELSE *) destruct par as [[]|]; try discriminate.
      left. exists s, BIf. rewrite E. repeat split.
    + (* CASE *) destruct par as [[]|]; try discriminate.
      left. exists s, BSelect. rewrite E. repeat split.
    + contradiction.
    + (* field *) destruct par as [[]|]; try discriminate.
      left. exists s, BType. rewrite E. repeat split.
  - inversion Hw as [| ? ? ? ? Ho He Hkids Hbody]; subst.
    right. simpl in Hp, Hs, Hn.
    assert (Hpre : position_ok r k b /\
                   first_some (pass1 (Some k) (in_if || is_if k) (r || is_routine k)) b = None).
    { destruct k; simpl in *; try (split; [exact I | assumption]).
      - destruct r; [discriminate|]. split; [reflexivity | assumption].
      - destruct r; [discriminate|]. split; [reflexivity | assumption].
      - destruct r; [discriminate|]. destruct b; [discriminate|].
        split; [split; [reflexivity | discriminate] | assumption]. }
    destruct Hpre as [Hpos Hfs].
    apply first_some_none in Hfs. apply existsb_false_forall in Hs.
    apply wfs_block; try assumption.
    + apply body_ok_mono. assumption.
    + apply kids_of_kid_ok.
      assert (Hn' : no_case_else (flatten_forest b)).
      { unfold no_case_else in *. inversion Hn as [|? ? _ Hn2]; subst.
        apply Forall_app in Hn2. tauto. }
      clear Hw Hbody Hp Hn Hpos.
      induction b as [|t b IHb]; [constructor|].
      inversion IH as [|? ? IHt IHr]; subst. inversion Hkids as [|? ? Hwt Hwr]; subst.
      inversion Hfs as [|? ? Hft Hfr]; subst. inversion Hs as [|? ? Hst Hsr]; subst.
      rewrite flatten_forest_cons in Hn'. apply no_case_else_app in Hn'. destruct Hn' as [Hn1 Hn2].
      constructor.
      * apply (IHt (Some k) (in_if || is_if k) (r || is_routine k)); assumption.
      * apply IHb; assumption.
Qed.

Lemma front_ok_inv l ts :
  front l = ROk ts ->
  assemble l = ROk ts /\ first_some (pass1 None false false) ts = None /\
  existsb (stray None) ts = false.
Proof.
  unfold front. intros H. destruct (assemble l) as [ts'| |]; try discriminate.
  destruct (first_some (pass1 None false false) ts') as [[e ln]|] eqn:Ep; [discriminate|].
  destruct (existsb (stray None) ts') eqn:Es; [discriminate|].
  inversion H; subst. repeat split; assumption.
Qed.

Lemma front_sound_partial l ts :
  no_case_else l -> front l = ROk ts -> Forall (wfs false) ts /\ flatten_forest ts = l.
Proof.
  intros Hn H. destruct (front_ok_inv _ _ H) as [Ha [Hp Hs]].
  destruct (assemble_sound_asm _ _ Ha) as [Hw Hf]. split; [|assumption].
  apply first_some_none in Hp. apply existsb_false_forall in Hs.
  rewrite Forall_forall in *. intros t Ht.
  assert (Hk : kid_ok None false t).
  { apply (strict_sound_tree t None false false); auto.
    apply (no_case_else_forest t ts); [rewrite Hf; assumption | assumption]. }
  destruct Hk as [[s [k [_ [E _]]]] | Hk]; [discriminate | assumption].
Qed.

(* ---- completeness ------------------------------------------------------- *)

Lemma marker_plain k s : marker_of k s = true -> opener s = None /\ ender s = None.
Proof. destruct k, s; simpl; try discriminate; split; reflexivity. Qed.

Lemma marker_pass1 k s in_if r :
  marker_of k (sk s) = true -> pass1 (Some k) in_if r (TStmt s) = None.
Proof. simpl. destruct k, (sk s); simpl; try discriminate; reflexivity. Qed.

Lemma marker_stray k s : marker_of k (sk s) = true -> stray (Some k) (TStmt s) = false.
Proof. simpl. destruct k, (sk s); simpl; try discriminate; reflexivity. Qed.

Definition good (r : bool) (t : tree) : Prop :=
  wfa t /\ (forall par in_if, pass1 par in_if r t = None) /\ (forall par, stray par t = false).

Lemma strict_complete_tree t : forall r,
  wfs r t -> no_case_else (flatten t) -> good r t.
Proof.
  induction t as [s | k o b e IH] using tree_ind'; intros r Hw Hn.
  - inversion Hw as [? ? Hs|]; subst. unfold good. simpl. rewrite Hs. repeat split.
    apply wfa_stmt; rewrite Hs; reflexivity.
  - inversion Hw as [| ? ? ? ? ? Ho He Hbody Hpos Hkids]; subst.
    assert (Hn' : no_case_else (flatten_forest b)).
    { unfold no_case_else in *. simpl in Hn. inversion Hn as [|? ? _ Hn2]; subst.
      apply Forall_app in Hn2. tauto. }
    (* every child is fine as a child of this block *)
    assert (Hch : Forall (fun t => wfa t /\
                     (forall in_if, pass1 (Some k) in_if (r || is_routine k) t = None) /\
                     stray (Some k) t = false) b).
    { clear Hw Hbody Hpos Hn. induction b as [|t b IHb]; [constructor|].
      inversion IH as [|? ? IHt IHr]; subst.
      rewrite flatten_forest_cons in Hn'. apply no_case_else_app in Hn'. destruct Hn' as [Hn1 Hn2].
      inversion Hkids as [| ? ? s ts Hm Hk | ? ? t' ts Hwt Hk]; subst.
      - constructor; [|apply IHb; assumption].
        destruct (marker_plain _ _ Hm). repeat split.
        + apply wfa_stmt; assumption.
        + intros. apply marker_pass1. assumption.
        + apply marker_stray. assumption.
      - constructor; [|apply IHb; assumption].
        destruct (IHt _ Hwt Hn1) as [Ha [Hp Hs]]. repeat split; auto. }
    unfold good. repeat split.
    + apply wfa_block; try assumption.
      * rewrite Forall_forall in *. intros t Ht. apply (Hch t Ht).
      * apply body_ok_strict_to_asm; assumption.
    + intros par in_if. simpl.
      assert (Hpre : match k with
                     | BSub | BFunction => if r then Some (EIllegalInSub, sl o) else None
                     | BType => if r then Some (EIllegalInSub, sl o)
                                else match b with [] => Some (ETypeEmpty, sl o) | _ => None end
                     | _ => None
                     end = None).
      { destruct k; simpl in Hpos; try reflexivity.
        - subst r. reflexivity.
        - subst r. reflexivity.
        - destruct Hpos as [Hr Hb]. subst r. destruct b; [contradiction | reflexivity]. }
      rewrite Hpre. apply first_some_none_intro.
      rewrite Forall_forall in *. intros t Ht. apply (Hch t Ht).
    + intros par. simpl. apply existsb_false_intro.
      rewrite Forall_forall in *. intros t Ht. apply (Hch t Ht).
Qed.

Lemma front_complete_partial ts :
  Forall (wfs false) ts -> no_case_else (flatten_forest ts) ->
  front (flatten_forest ts) = ROk ts.
Proof.
  intros Hw Hn.
  assert (Hg : Forall (good false) ts).
  { rewrite Forall_forall in *. intros t Ht. apply strict_complete_tree; [auto|].
    apply (no_case_else_forest t ts); assumption. }
  unfold front. rewrite assemble_complete_asm.
  - rewrite first_some_none_intro.
    + rewrite existsb_false_intro; [reflexivity|].
      rewrite Forall_forall in *. intros t Ht. apply (Hg t Ht).
    + rewrite Forall_forall in *. intros t Ht. apply (Hg t Ht).
  - rewrite Forall_forall in *. intros t Ht. apply (Hg t Ht).
Qed.

(* ---- errors of the later stages are located in the program too ---------- *)

Lemma pass1_err_in t : forall par in_if r e ln,
  pass1 par in_if r t = Some (e, ln) -> exists y, In y (flatten t) /\ sl y = ln.
Proof.
  induction t as [s | k o b e' IH] using tree_ind'; intros par in_if r e ln H.
  - simpl in H. exists s. split; [left; reflexivity|].
    destruct (sk s); try discriminate; destruct par as [[]|]; try discriminate;
      destruct in_if; try discriminate; inversion H; reflexivity.
  - simpl in H.
    assert (Hc : (exists y, In y (flatten (TBlock k o b e')) /\ sl y = ln) \/
                 first_some (pass1 (Some k) (in_if || is_if k) (r || is_routine k)) b = Some (e, ln)).
    { destruct k; simpl in H; try (right; assumption).
      - destruct r; [inversion H; left; exists o; split; [left|]; reflexivity | right; assumption].
      - destruct r; [inversion H; left; exists o; split; [left|]; reflexivity | right; assumption].
      - destruct r; [inversion H; left; exists o; split; [left|]; reflexivity |].
        destruct b; [inversion H; left; exists o; split; [left|]; reflexivity | right; assumption]. }
    destruct Hc as [Hc | Hc]; [assumption|].
    clear H. induction b as [|t b IHb]; [discriminate|].
    inversion IH as [|? ? IHt IHr]; subst. simpl in Hc.
    destruct (pass1 (Some k) (in_if || is_if k) (r || is_routine k) t) as [[e1 l1]|] eqn:Et.
    + inversion Hc; subst. destruct (IHt _ _ _ _ _ Et) as [y [Hy Hl]].
      exists y. split; [|assumption]. simpl. right. apply in_or_app. left.
      apply in_or_app. left. assumption.
    + destruct (IHb IHr Hc) as [y [Hy Hl]]. exists y. split; [|assumption].
      simpl in Hy. destruct Hy as [Hy | Hy]; [left; assumption|]. right.
      apply in_app_or in Hy. destruct Hy as [Hy | Hy].
      * apply in_or_app. left. simpl. apply in_or_app. right. assumption.
      * apply in_or_app. right. assumption.
Qed.

Lemma first_some_pass1_err ts : forall e ln,
  first_some (pass1 None false false) ts = Some (e, ln) ->
  exists y, In y (flatten_forest ts) /\ sl y = ln.
Proof.
  induction ts as [|t ts IH]; intros e ln Ep; [discriminate|]. simpl in Ep.
  rewrite flatten_forest_cons.
  destruct (pass1 None false false t) as [[e2 l2]|] eqn:Et.
  - inversion Ep; subst. destruct (pass1_err_in _ _ _ _ _ _ Et) as [y [Hy Hl]].
    exists y. split; [apply in_or_app; left; assumption | assumption].
  - destruct (IH _ _ Ep) as [y [Hy Hl]].
    exists y. split; [apply in_or_app; right; assumption | assumption].
Qed.

Lemma front_error_in_stream l e ln :
  front l = RErr e ln -> exists y, In y l /\ sl y = ln.
Proof.
  unfold front. intros H. destruct (assemble l) as [ts| e' ln'|] eqn:Ea.
  - destruct (assemble_sound_asm _ _ Ea) as [_ Hf].
    destruct (first_some (pass1 None false false) ts) as [[e1 l1]|] eqn:Ep.
    + injection H as E1 E2. subst e1 l1. rewrite <- Hf.
      apply (first_some_pass1_err _ _ _ Ep).
    + destruct (existsb (stray None) ts); discriminate.
  - injection H as E1 E2. subst e' ln'. apply (assemble_error_in_stream _ _ _ Ea).
  - discriminate.
Qed.

(* ---- the block part of C05, under its guard ----------------------------- *)

Definition no_crash (l : list stmt) : Prop := forall c, front l <> RCrash c.

Lemma blocks_verdict_partial l :
  no_case_else l -> no_crash l ->
  (balanced l /\ exists ts, front l = ROk ts) \/
  (~ balanced l /\ exists e ln, front l = RErr e ln /\ exists y, In y l /\ sl y = ln).
Proof.
  intros Hn Hc. destruct (front l) as [ts|e ln|c] eqn:Ef.
  - left. split; [|eauto]. exists ts. apply front_sound_partial; assumption.
  - right. split.
    + intros [ts [Hw Hf]]. subst l. rewrite front_complete_partial in Ef by assumption. discriminate.
    + exists e, ln. split; [reflexivity|]. apply (front_error_in_stream _ _ _ Ef).
  - exfalso. apply (Hc c). exact Ef.
Qed.

(* ---- where the unchanged code leaves the grammar: witnesses -------------- *)

Lemma flatten_nonempty t : flatten t <> [].
Proof. destruct t; simpl; discriminate. Qed.

Lemma flatten_single t s : flatten t = [s] -> t = TStmt s.
Proof.
  destruct t as [s'|k o b e]; simpl; intros H.
  - inversion H. reflexivity.
  - inversion H as [[E1 E2]]. destruct (flat_map flatten b); simpl in E2; discriminate.
Qed.

(* a CASE ELSE outside any SELECT is accepted *)
Lemma case_else_accepted_refuted :
  exists l ts, front l = ROk ts /\ ~ balanced l.
Proof.
  exists [mkS SCaseElse 1], [TStmt (mkS SCaseElse 1)]. split; [reflexivity|].
  intros [ts [Hw Hf]]. destruct ts as [|t ts]; [discriminate|].
  rewrite flatten_forest_cons in Hf.
  destruct (flatten t) as [|s r] eqn:Et; [exact (flatten_nonempty t Et)|].
  simpl in Hf. inversion Hf as [[Es Er]]. subst s.
  destruct r; [|discriminate].
  apply flatten_single in Et. subst t.
  inversion Hw as [|? ? Ht _]; subst. inversion Ht as [? ? Hs|]; subst. discriminate.
Qed.

(* SELECT CASE x / CASE ELSE / END SELECT is in the grammar but rejected *)
Lemma case_else_first_rejected_refuted :
  exists l e ln, balanced l /\ front l = RErr e ln.
Proof.
  exists [mkS SSelect 1; mkS SCaseElse 2; mkS SEndSelect 3], ESelectBeforeCase, 2.
  split; [|reflexivity].
  exists [TBlock BSelect (mkS SSelect 1) [TStmt (mkS SCaseElse 2)] (mkS SEndSelect 3)].
  split; [|reflexivity].
  constructor; [|constructor].
  apply wfs_block; try reflexivity.
  - simpl. right. exists (mkS SCaseElse 2), []. split; [reflexivity|]. right. split; reflexivity.
  - apply kids_marker; [reflexivity | apply kids_nil].
Qed.

(* static block faults that end in an internal exception instead of a diagnostic *)
Lemma second_else_crash_refuted :
  front [mkS SIfOpen 1; mkS SElse 2; mkS SElse 3; mkS SEndIf 4] = RCrash CAssertIf.
Proof. reflexivity. Qed.

Lemma elseif_after_else_crash_refuted :
  front [mkS SIfOpen 1; mkS SElse 2; mkS SElseIf 3; mkS SEndIf 4] = RCrash CAssertIf.
Proof. reflexivity. Qed.

Lemma stray_case_crash_refuted : front [mkS SCase 1] = RCrash CCodegen.
Proof. reflexivity. Qed.

Lemma else_in_nested_block_crash_refuted :
  front [mkS SIfOpen 1; mkS SWhile 2; mkS SElse 3; mkS SWend 4; mkS SEndIf 5] = RCrash CCodegen.
Proof. reflexivity. Qed.

Lemma stray_field_crash_refuted : front [mkS (SField 0) 1] = RCrash CCodegen.
Proof. reflexivity. Qed.
