(* add_node / finalize: where the offsets of the final table come from
   (property C11).  Continues Proofs/DebugMapProofs.v. *)
From Coq Require Import ZArith List Bool Lia.
From QV Require Import DebugMap DebugMapProofs.
Import ListNotations.
Open Scope Z_scope.

(* ====================================================================== *)
(* add_node                                                               *)

Definition is_block_node (n : node) : bool :=
  match nk n with KBlock _ _ | KRoutine _ _ => true | _ => false end.

Definition stmts_of (ns : list cnode) : list rec :=
  flat_map (fun x : cnode => let '(n, s, e) := x in
              match nk n with KStmt => [mkRec (nid n) s e] | _ => [] end) ns.
Definition others_of (ns : list cnode) : list rec :=
  flat_map (fun x : cnode => let '(n, s, e) := x in
              match nk n with KOther => [mkRec (nid n) s e] | _ => [] end) ns.
Definition blocks_of (ns : list cnode) : list cnode :=
  filter (fun x : cnode => is_block_node (fst (fst x))) ns.

Lemma add_nodes_gen ns : forall d,
  d_stmts (fold_left add_node ns d) = d_stmts d ++ stmts_of ns /\
  d_blocks (fold_left add_node ns d) = d_blocks d ++ blocks_of ns /\
  d_others (fold_left add_node ns d) = d_others d ++ others_of ns.
Proof.
  induction ns as [|[[n s] e] ns IH]; intros d.
  - simpl. rewrite !app_nil_r. auto.
  - destruct (IH (add_node d (n, s, e))) as (A & B & C).
    change (fold_left add_node ((n, s, e) :: ns) d)
      with (fold_left add_node ns (add_node d (n, s, e))).
    rewrite A, B, C.
    unfold add_node, is_block_node, stmts_of, blocks_of, others_of. simpl.
    unfold is_block_node. simpl. destruct (nk n); simpl;
      rewrite <- ?app_assoc; simpl; auto.
Qed.

Lemma add_nodes_stmts ns : d_stmts (add_nodes ns) = stmts_of ns.
Proof. apply (add_nodes_gen ns dempty). Qed.
Lemma add_nodes_blocks ns : d_blocks (add_nodes ns) = blocks_of ns.
Proof. apply (add_nodes_gen ns dempty). Qed.
Lemma add_nodes_others ns : d_others (add_nodes ns) = others_of ns.
Proof. apply (add_nodes_gen ns dempty). Qed.

Lemma in_stmts_of ns r :
  In r (stmts_of ns) <-> exists n s e, In (n, s, e) ns /\ nk n = KStmt /\ r = mkRec (nid n) s e.
Proof.
  unfold stmts_of. rewrite in_flat_map. split.
  - intros ([[n s] e] & Hin & Hr). destruct (nk n) eqn:K; try contradiction.
    destruct Hr as [Hr|[]]. subst. eauto 6.
  - intros (n & s & e & Hin & K & Hr). exists (n, s, e). split; auto. rewrite K. left. auto.
Qed.

Lemma in_others_of ns r :
  In r (others_of ns) -> exists n s e, In (n, s, e) ns /\ r = mkRec (nid n) s e.
Proof.
  unfold others_of. rewrite in_flat_map.
  intros ([[n s] e] & Hin & Hr). destruct (nk n) eqn:K; try contradiction.
  destruct Hr as [Hr|[]]. subst. eauto 6.
Qed.

Lemma stmts_of_app a b : stmts_of (a ++ b) = stmts_of a ++ stmts_of b.
Proof. apply flat_map_app. Qed.
Lemma blocks_of_app a b : blocks_of (a ++ b) = blocks_of a ++ blocks_of b.
Proof. apply filter_app. Qed.

Lemma in_blocks_of ns x : In x (blocks_of ns) -> In x ns.
Proof. unfold blocks_of. intros H. apply filter_In in H. tauto. Qed.

Lemma in_dict_set k v d k' v' :
  In (k', v') (dict_set k v d) -> (k' = k /\ v' = v) \/ In (k', v') d.
Proof.
  induction d as [|[k0 v0] d IH]; simpl.
  - intros [H|[]]. inversion H. auto.
  - destruct (k0 =? k) eqn:E; simpl.
    + apply Z.eqb_eq in E. intros [H|H]; [inversion H; subst; auto | auto].
    + intros [H|H]; [auto|]. destruct (IH H); auto.
Qed.

Lemma routines_from_nodes ns : forall d k s e,
  In (k, (s, e)) (d_routines (fold_left add_node ns d)) ->
  In (k, (s, e)) (d_routines d) \/
  exists n, In (n, s, e) ns /\ nid n = k /\ is_block_node n = true.
Proof.
  induction ns as [|[[n s0] e0] ns IH]; intros d k s e H; simpl in *; [auto|].
  apply IH in H. destruct H as [H|(m & Hin & Hk & Hb)]; [|right; eauto].
  unfold add_node in H. destruct (nk n) eqn:K; simpl in H; auto.
  apply in_dict_set in H. destruct H as [[Hk Hv]|H]; auto.
  inversion Hv; subst. right. exists n. split; auto. split; auto.
  unfold is_block_node. rewrite K. reflexivity.
Qed.

Lemma dict_set_lookup k v d : In (k, v) (dict_set k v d).
Proof.
  induction d as [|[k0 v0] d IH]; simpl; [auto|].
  destruct (k0 =? k) eqn:E; simpl; auto. apply Z.eqb_eq in E. subst. auto.
Qed.

Lemma dict_set_other k v d k' v' : k' <> k -> In (k', v') d -> In (k', v') (dict_set k v d).
Proof.
  intros Hk. induction d as [|[k0 v0] d IH]; simpl; [auto|].
  intros [H|H].
  - inversion H; subst. destruct (k' =? k) eqn:E; [apply Z.eqb_eq in E; congruence|]. left. auto.
  - destruct (k0 =? k); simpl; auto.
Qed.

(* a routine node whose identity is recorded with one range only: its routine
   record is exactly its marker range *)
Lemma routine_kept ns : forall d n s e,
  In (nid n, (s, e)) (d_routines d) ->
  (forall m s' e', In (m, s', e') ns -> nid m = nid n -> s' = s /\ e' = e) ->
  In (nid n, (s, e)) (d_routines (fold_left add_node ns d)).
Proof.
  induction ns as [|[[m s1] e1] ns IH]; intros d n s e Hd U; simpl; auto.
  apply IH; [|intros; eapply U; eauto; right; eauto].
  unfold add_node. destruct (nk m) eqn:Km; simpl; auto.
  destruct (Z.eq_dec (nid m) (nid n)) as [E|E].
  - destruct (U m s1 e1 (or_introl eq_refl) E). subst. rewrite E. apply dict_set_lookup.
  - apply dict_set_other; auto.
Qed.

Lemma routine_recorded ns : forall d n s e a b,
  In (n, s, e) ns -> nk n = KRoutine a b ->
  (forall m s' e', In (m, s', e') ns -> nid m = nid n -> s' = s /\ e' = e) ->
  In (nid n, (s, e)) (d_routines (fold_left add_node ns d)).
Proof.
  induction ns as [|[[m s0] e0] ns IH]; intros d n s e a b Hin K U; [contradiction|].
  simpl. destruct Hin as [Hin|Hin].
  - inversion Hin; subst. clear Hin. apply routine_kept.
    + unfold add_node. rewrite K. simpl. apply dict_set_lookup.
    + intros. eapply U; eauto. right. eauto.
  - eapply IH; eauto. intros. eapply U; eauto. right. eauto.
Qed.

(* ====================================================================== *)
(* finalize: only appends; offsets come from existing offsets             *)

Lemma hd_in (c : rec) l : l <> [] -> In (hd c l) l.
Proof. destruct l; [congruence | left; reflexivity]. Qed.

Lemma process_block_app empties stmts b :
  exists synth, process_block empties stmts b = stmts ++ synth.
Proof.
  destruct b as [[n bs] be]. unfold process_block.
  destruct (block_stmts (nk n)) as [[ss es]|]; [|exists []; rewrite app_nil_r; auto].
  destruct (filter _ stmts); eauto.
Qed.

Lemma process_blocks_split empties b1 b2 stmts :
  process_blocks empties (b1 ++ b2) stmts =
  process_blocks empties b2 (process_blocks empties b1 stmts).
Proof. unfold process_blocks. apply fold_left_app. Qed.

Lemma in_marker_records ss es bs be empties r :
  In r (marker_records ss es bs be empties) <->
  exists a, In a empties /\ bs <= a < be /\ (r = mkRec ss bs a \/ r = mkRec es a be).
Proof.
  unfold marker_records. rewrite in_flat_map. split.
  - intros (a & Ha & Hr).
    destruct ((bs <=? a) && (a <? be)) eqn:C; [|contradiction].
    apply andb_true_iff in C. destruct C as [C1 C2].
    apply Z.leb_le in C1. apply Z.ltb_lt in C2.
    exists a. split; auto. split; [lia|]. destruct Hr as [Hr|[Hr|[]]]; auto.
  - intros (a & Ha & Hc & Hr). exists a. split; auto.
    replace ((bs <=? a) && (a <? be)) with true.
    + destruct Hr; subst; simpl; auto.
    + symmetry. apply andb_true_iff. split; [apply Z.leb_le | apply Z.ltb_lt]; lia.
Qed.

Section OffsetPred.
  Variable P : Z -> Prop.
  Definition rec_P (r : rec) := P (r_start r) /\ P (r_end r).

  Lemma process_block_P empties stmts n bs be :
    P bs -> P be -> (forall a, In a empties -> P a) ->
    (forall r, In r stmts -> rec_P r) ->
    forall r, In r (process_block empties stmts (n, bs, be)) -> rec_P r.
  Proof.
    intros Hbs Hbe He Hs r. unfold process_block.
    destruct (block_stmts (nk n)) as [[ss es]|]; [|auto].
    destruct (filter (is_child bs be) stmts) as [|c cs] eqn:F.
    - intros Hin. apply in_app_or in Hin. destruct Hin as [Hin|Hin]; [auto|].
      apply in_marker_records in Hin. destruct Hin as (a & Ha & _ & [Hr|Hr]); subst r;
        split; simpl; auto.
    - intros Hin. apply in_app_or in Hin. destruct Hin as [Hin|Hin]; [auto|].
      assert (Hc : forall x, In x (sort_by r_start (c :: cs)) -> rec_P x).
      { intros x Hx. apply in_sort_by in Hx. rewrite <- F in Hx. apply filter_In in Hx.
        apply Hs. tauto. }
      assert (NE : sort_by r_start (c :: cs) <> []).
      { intros E. apply sort_by_nil_iff in E. discriminate. }
      destruct Hin as [Hr|[Hr|[]]]; subst r; split; simpl; auto.
      + apply (Hc _ (hd_in c _ NE)).
      + apply (Hc _ (last_in _ c NE)).
  Qed.

  Lemma process_blocks_P empties blocks :
    (forall a, In a empties -> P a) ->
    (forall n bs be, In (n, bs, be) blocks -> P bs /\ P be) ->
    forall stmts, (forall r, In r stmts -> rec_P r) ->
    forall r, In r (process_blocks empties blocks stmts) -> rec_P r.
  Proof.
    intros He. induction blocks as [|[[n bs] be] blocks IH]; intros Hb stmts Hs; simpl; auto.
    apply IH.
    - intros. eapply Hb. right. eauto.
    - destruct (Hb n bs be (or_introl eq_refl)).
      apply process_block_P; auto.
  Qed.
End OffsetPred.

Lemma records_on_boundaries_lemma l : wf_markers l ->
  forall routines stmts others sz, debug_map l = DOk routines stmts others sz ->
  sz = size l /\
  (forall r, In r stmts -> on_boundary 0 l (r_start r) /\ on_boundary 0 l (r_end r)) /\
  (forall k s e, In (k, (s, e)) routines -> on_boundary 0 l s /\ on_boundary 0 l e) /\
  (forall r, In r others -> on_boundary 0 l (r_start r) /\ on_boundary 0 l (r_end r)).
Proof.
  intros H routines stmts others sz. unfold debug_map. rewrite (run_frame l H). simpl.
  intros E. inversion E; subst. clear E.
  destruct (collected_on_boundaries l H 0) as [A B].
  split; [reflexivity|]. split; [|split].
  - intros r Hr. unfold finalize in Hr. apply in_sort_by in Hr.
    rewrite add_nodes_blocks, add_nodes_stmts in Hr.
    apply (process_blocks_P (on_boundary 0 l) (empties_at 0 l)
             (blocks_of (nodes_at 0 l))) with (stmts := stmts_of (nodes_at 0 l)); auto.
    + intros n bs be Hin. apply in_blocks_of in Hin. eapply A; eauto.
    + intros r0 Hr0. apply in_stmts_of in Hr0. destruct Hr0 as (n & s & e & Hin & _ & Er).
      subst r0. unfold rec_P. simpl. eapply A; eauto.
  - intros k s e Hin. unfold add_nodes in Hin. apply routines_from_nodes in Hin.
    destruct Hin as [[]|(n & Hin & _)]. eapply A; eauto.
  - intros r Hr. rewrite add_nodes_others in Hr. apply in_others_of in Hr.
    destruct Hr as (n & s & e & Hin & Er). subst r. simpl. eapply A; eauto.
Qed.

Lemma collected_laminar_lemma l : wf_markers l -> forall s, run (cinit 0) l = COk s ->
  forall n1 s1 e1 n2 s2 e2, In (n1, s1, e1) (c_nodes s) -> In (n2, s2, e2) (c_nodes s) ->
  laminar s1 e1 s2 e2.
Proof.
  intros H s. rewrite (run_frame l H). simpl. intros E. inversion E; subst. simpl.
  apply (collected_laminar_aux l H 0).
Qed.

(* each routine record is exactly the marker range of its SUB/FUNCTION node:
   for  pre ++ Start n :: body ++ End n :: post  it is
   [size pre, size pre + size body) *)
Lemma routine_records_exact_lemma pre n body post a b :
  wf_markers pre -> wf_markers body -> wf_markers post ->
  nk n = KRoutine a b ->
  (forall m s e, In (m, s, e) (nodes_at 0 (pre ++ Start n :: body ++ End n :: post)) ->
                 nid m = nid n -> s = size pre /\ e = size pre + size body) ->
  forall routines stmts others sz,
  debug_map (pre ++ Start n :: body ++ End n :: post) = DOk routines stmts others sz ->
  In (nid n, (size pre, size pre + size body)) routines.
Proof.
  intros Hp Hb Hq K U routines stmts others sz.
  assert (W : wf_markers (pre ++ Start n :: body ++ End n :: post)).
  { apply wf_app; auto. constructor; auto. }
  unfold debug_map. rewrite (run_frame _ W). simpl. intros E. inversion E; subst. clear E.
  unfold add_nodes. eapply routine_recorded; eauto.
  rewrite nodes_at_app by (auto; constructor; auto).
  apply in_or_app. right. rewrite nodes_at_node by auto.
  apply in_or_app. right. left. f_equal.
Qed.
