From Coq Require Import ZArith List Bool Lia.
From QV Require Import Sx Strs Fl Dec NumFmt Cell Input.
Import ListNotations.
Open Scope Z_scope.

(* ---------- one field: the code's conversion = the (lenient) specification ---------- *)

Definition conv_of (o : option cell) : conv :=
  match o with Some c => CvOk c | None => CvBad end.

Lemma convert_spec t f : convert (ty_id t) f = conv_of (spec_value false t f).
Proof.
  destruct t; unfold convert, spec_value; cbn [ty_id negb orb Z.eqb Pos.eqb].
  - destruct (py_int f) as [z|]; [|reflexivity]. unfold in_int.
    rewrite Z.gtb_ltb.
    destruct (Z.ltb_spec z (-32768)), (Z.ltb_spec 32767 z),
             (Z.leb_spec (-32768) z), (Z.leb_spec z 32767); cbn; try reflexivity; lia.
  - destruct (py_int f) as [z|]; [|reflexivity]. unfold in_long.
    rewrite Z.geb_leb.
    destruct (Z.ltb_spec z (-2147483648)), (Z.leb_spec 2147483648 z),
             (Z.leb_spec (-2147483648) z), (Z.ltb_spec z 2147483648); cbn; try reflexivity; lia.
  - destruct (py_float f) as [x|]; [|reflexivity]. destruct (to_single x); reflexivity.
  - destruct (py_float f) as [x|]; reflexivity.
  - reflexivity.
Qed.

Lemma spec_value_strict_lenient t f c :
  spec_value true t f = Some c -> spec_value false t f = Some c.
Proof.
  destruct t; unfold spec_value; cbn [negb orb].
  - destruct (int_syntax f); [auto | discriminate].
  - destruct (int_syntax f); [auto | discriminate].
  - destruct (float_syntax f); [|discriminate]. destruct (py_float f) as [x|]; [|auto].
    destruct (is_finite x); [auto | discriminate].
  - destruct (float_syntax f); [|discriminate]. destruct (py_float f) as [x|]; [|auto].
    destruct (is_finite x); [auto | discriminate].
  - auto.
Qed.

Lemma spec_values_strict_lenient ts : forall fs vals,
  spec_values true ts fs = Some vals -> spec_values false ts fs = Some vals.
Proof.
  induction ts as [|t ts IH]; intros [|f fs] vals H; cbn in *; try discriminate; auto.
  destruct (spec_value true t f) as [c|] eqn:E; [|discriminate].
  destruct (spec_values true ts fs) as [cs|] eqn:E2; [|discriminate].
  rewrite (spec_value_strict_lenient _ _ _ E), (IH _ _ E2). exact H.
Qed.

Lemma spec_accept_strict_lenient ts l vals :
  spec_accept true ts l = Some vals -> spec_accept false ts l = Some vals.
Proof. apply spec_values_strict_lenient. Qed.

Lemma spec_values_length strict ts : forall fs vals,
  spec_values strict ts fs = Some vals ->
  length fs = length ts /\ length vals = length ts.
Proof.
  induction ts as [|t ts IH]; intros [|f fs] vals H; cbn in *; try discriminate.
  - inversion H. split; reflexivity.
  - destruct (spec_value strict t f); [|discriminate].
    destruct (spec_values strict ts fs) as [cs|] eqn:E; [|discriminate].
    inversion H; subst. destruct (IH _ _ E) as [A B]. cbn. split; congruence.
Qed.

Lemma spec_values_length_none strict ts : forall fs,
  length fs <> length ts -> spec_values strict ts fs = None.
Proof.
  intros fs H. destruct (spec_values strict ts fs) eqn:E; [|reflexivity].
  apply spec_values_length in E. tauto.
Qed.

(* ---------- the right-to-left loop ---------- *)

Inductive kind := KOk | KRej | KTrap.

(* outcome of the loop and the cells it pushed, computed from the left *)
Fixpoint scan (ps : list (str * Z)) : kind * list cell :=
  match ps with
  | [] => (KOk, [])
  | (v, ty) :: r =>
    match scan r with
    | (KOk, cells) =>
      match convert ty v with
      | CvOk c => (KOk, c :: cells)
      | CvBad => (KRej, cells)
      | CvUnknown => (KTrap, cells)
      end
    | other => other
    end
  end.

Definition mk (r : kind * list cell) (st : list cell) : pvres :=
  match r with
  | (KOk, c) => PVOk (c ++ st)
  | (KRej, c) => PVReject (c ++ st)
  | (KTrap, c) => PVTrap (c ++ st)
  end.

Lemma push_rev_app l1 l2 st :
  push_rev (l1 ++ l2) st =
  match push_rev l1 st with PVOk st' => push_rev l2 st' | r => r end.
Proof.
  revert st; induction l1 as [|[v ty] l1 IH]; intro st; cbn; [reflexivity|].
  destruct (convert ty v); auto.
Qed.

Lemma push_rev_scan ps st : push_rev (rev ps) st = mk (scan ps) st.
Proof.
  induction ps as [|[v ty] ps IH]; cbn [rev scan]; [reflexivity|].
  rewrite push_rev_app, IH.
  destruct (scan ps) as [[| |] cells]; cbn; try reflexivity.
  destruct (convert ty v); reflexivity.
Qed.

Lemma scan_spec ts : forall vs, length vs = length ts ->
  match spec_values false ts vs with
  | Some vals => scan (combine vs (map ty_id ts)) = (KOk, vals)
  | None => exists junk, scan (combine vs (map ty_id ts)) = (KRej, junk)
  end.
Proof.
  induction ts as [|t ts IH]; intros [|f fs] H; cbn in H; try discriminate.
  - reflexivity.
  - cbn [spec_values map combine scan].
    specialize (IH fs ltac:(lia)).
    destruct (spec_values false ts fs) as [cs|].
    + rewrite IH, convert_spec. destruct (spec_value false t f); cbn; eauto.
    + destruct IH as [junk IH]. rewrite IH.
      destruct (spec_value false t f); eauto.
Qed.

(* push_vars does not look at the stack it pushes on *)
Definition pv_app (r : pvres) (st : list cell) : pvres :=
  match r with
  | PVOk s => PVOk (s ++ st)
  | PVReject s => PVReject (s ++ st)
  | PVTrap s => PVTrap (s ++ st)
  end.

Lemma push_vars_frame l tys st : push_vars l tys st = pv_app (push_vars l tys []) st.
Proof.
  unfold push_vars. destruct (Nat.eqb _ _); [|reflexivity].
  rewrite !push_rev_scan. destruct (scan _) as [[| |] c]; cbn; now rewrite app_nil_r.
Qed.

Lemma push_vars_accept ts l st vals :
  spec_accept false ts l = Some vals ->
  push_vars l (map ty_id ts) st = PVOk (vals ++ st).
Proof.
  unfold spec_accept, push_vars. change (fields l) with (spec_fields l). intro H.
  destruct (spec_values_length _ _ _ _ H) as [HL _].
  rewrite (map_length ty_id), HL, Nat.eqb_refl, push_rev_scan.
  pose proof (scan_spec ts _ HL) as S. rewrite H in S. now rewrite S.
Qed.

Lemma push_vars_reject ts l st :
  spec_accept false ts l = None ->
  push_vars l (map ty_id ts) st = PVReject (stale (map ty_id ts) l ++ st).
Proof.
  intro H. rewrite push_vars_frame. unfold stale.
  assert (E : exists junk, push_vars l (map ty_id ts) [] = PVReject junk).
  { unfold spec_accept in H. unfold push_vars. change (fields l) with (spec_fields l).
    rewrite (map_length ty_id).
    destruct (Nat.eqb_spec (length (spec_fields l)) (length ts)) as [HL|HL].
    - rewrite push_rev_scan. pose proof (scan_spec ts _ HL) as S. rewrite H in S.
      destruct S as [junk S]. rewrite S. cbn. eauto.
    - eauto. }
  destruct E as [junk E]. rewrite E. reflexivity.
Qed.

Lemma push_vars_known ts l st :
  push_vars l (map ty_id ts) st =
  match spec_accept false ts l with
  | Some vals => PVOk (vals ++ st)
  | None => PVReject (stale (map ty_id ts) l ++ st)
  end.
Proof.
  destruct (spec_accept false ts l) eqn:E;
    [now apply push_vars_accept | now apply push_vars_reject].
Qed.

(* accept_iff *)
Lemma accept_iff ts l st :
  (exists st', push_vars l (map ty_id ts) st = PVOk st') <->
  (exists vals, spec_accept false ts l = Some vals).
Proof.
  rewrite push_vars_known. destruct (spec_accept false ts l); split; intros [x H];
    eauto; discriminate.
Qed.

Lemma accept_strict_sound ts l st vals :
  spec_accept true ts l = Some vals ->
  push_vars l (map ty_id ts) st = PVOk (vals ++ st).
Proof. intro H. apply push_vars_accept, spec_accept_strict_lenient, H. Qed.

(* ---------- rejection without effect ---------- *)

Lemma combine_snoc {A B} (l1 : list A) (l2 : list B) a b :
  length l1 = length l2 -> combine (l1 ++ [a]) (l2 ++ [b]) = combine l1 l2 ++ [(a, b)].
Proof.
  revert l2; induction l1 as [|x l1 IH]; intros [|y l2] H; cbn in *; try discriminate.
  - reflexivity.
  - f_equal. apply IH. lia.
Qed.

(* the rightmost field is bad: nothing was pushed *)
Lemma reject_last_clean ts t fs f l st :
  spec_fields l = fs ++ [f] ->
  spec_value false t f = None ->
  push_vars l (map ty_id (ts ++ [t])) st = PVReject st.
Proof.
  intros Hf Hv. unfold push_vars. change (fields l) with (spec_fields l). rewrite Hf.
  destruct (Nat.eqb_spec (length (fs ++ [f])) (length (map ty_id (ts ++ [t])))) as [HL|HL];
    [|reflexivity].
  rewrite map_app. cbn [map].
  rewrite map_length, !app_length in HL. cbn in HL.
  rewrite combine_snoc by (rewrite map_length; lia).
  rewrite rev_unit. cbn [push_rev]. rewrite convert_spec, Hv. reflexivity.
Qed.

(* wrong number of fields: nothing was pushed *)
Lemma reject_count_clean tys l st :
  length (spec_fields l) <> length tys -> push_vars l tys st = PVReject st.
Proof.
  intro H. unfold push_vars. change (fields l) with (spec_fields l).
  destruct (Nat.eqb_spec (length (spec_fields l)) (length tys)); [contradiction | reflexivity].
Qed.

Lemma reject_no_effect_fixed_pv l tys st st' :
  push_vars_fixed l tys st = PVReject st' -> st' = st.
Proof.
  unfold push_vars_fixed. destruct (Nat.eqb _ _).
  - destruct (convert_rev _ _) as [[c|]|]; intro H; inversion H; reflexivity.
  - intro H; inversion H; reflexivity.
Qed.

(* the repaired code, against the specification *)
Fixpoint cells_of (ps : list (str * Z)) : option (option (list cell)) :=
  match ps with
  | [] => Some (Some [])
  | (v, ty) :: r =>
    match cells_of r with
    | Some (Some cells) =>
      match convert ty v with
      | CvOk c => Some (Some (c :: cells))
      | CvBad => Some None
      | CvUnknown => None
      end
    | other => other
    end
  end.

Lemma convert_rev_app l1 l2 pend :
  convert_rev (l1 ++ l2) pend =
  match convert_rev l1 pend with Some (Some p) => convert_rev l2 p | r => r end.
Proof.
  revert pend; induction l1 as [|[v ty] l1 IH]; intro pend; cbn; [reflexivity|].
  destruct (convert ty v); auto.
Qed.

Lemma convert_rev_cells ps :
  convert_rev (rev ps) [] = cells_of ps.
Proof.
  induction ps as [|[v ty] ps IH]; cbn [rev cells_of]; [reflexivity|].
  rewrite convert_rev_app, IH.
  destruct (cells_of ps) as [[cells|]|]; cbn; try reflexivity;
    destruct (convert ty v); reflexivity.
Qed.

Lemma cells_of_spec ts : forall vs, length vs = length ts ->
  cells_of (combine vs (map ty_id ts)) = Some (spec_values false ts vs).
Proof.
  induction ts as [|t ts IH]; intros [|f fs] H; cbn in H; try discriminate.
  - reflexivity.
  - cbn [spec_values map combine cells_of]. rewrite (IH fs) by lia.
    destruct (spec_values false ts fs) as [cs|].
    + rewrite convert_spec. destruct (spec_value false t f); reflexivity.
    + destruct (spec_value false t f); reflexivity.
Qed.

Lemma push_vars_fixed_known ts l st :
  push_vars_fixed l (map ty_id ts) st =
  match spec_accept false ts l with
  | Some vals => PVOk (vals ++ st)
  | None => PVReject st
  end.
Proof.
  unfold push_vars_fixed, spec_accept. change (fields l) with (spec_fields l).
  rewrite (map_length ty_id).
  destruct (Nat.eqb_spec (length (spec_fields l)) (length ts)) as [HL|HL].
  - rewrite convert_rev_cells, cells_of_spec by exact HL.
    destruct (spec_values false ts (spec_fields l)); reflexivity.
  - now rewrite spec_values_length_none.
Qed.

(* ---------- the argument protocol ---------- *)

Lemma pop_types_enc l : forall rest acc,
  pop_types (Z.of_nat (length l)) (map CI l ++ rest) acc = PopOk (rev l ++ acc) rest.
Proof.
  induction l as [|a l IH]; intros rest acc.
  - cbn. destruct rest; reflexivity.
  - cbn [length map app pop_types].
    replace (Z.of_nat (S (length l)) <=? 0) with false by (symmetry; apply Z.leb_gt; lia).
    replace (Z.of_nat (S (length l)) - 1) with (Z.of_nat (length l)) by lia.
    rewrite IH. cbn [rev]. now rewrite <- app_assoc.
Qed.

Lemma flag_nonzero b : negb (flag b =? 0) = b.
Proof. destruct b; reflexivity. Qed.

Lemma exec_decode pv s lines st :
  i_tys s <> [] ->
  exec_input_gen pv lines (stack_at_io s st) =
  input_loop pv (i_question s) (i_prompt s) (flag (i_same_line s))
             (map ty_id (i_tys s)) lines st.
Proof.
  intro Hne. unfold stack_at_io, encode_input.
  rewrite !rev_app_distr. cbn [rev app].
  rewrite <- map_rev.
  replace (map (fun t => CI (ty_id t)) (rev (i_tys s)))
    with (map CI (rev (map ty_id (i_tys s)))) by (rewrite <- map_rev, map_map; reflexivity).
  unfold exec_input_gen.
  replace (Z.of_nat (length (i_tys s)) <=? 0) with false
    by (symmetry; apply Z.leb_gt; destruct (i_tys s); [contradiction | cbn; lia]).
  replace (Z.of_nat (length (i_tys s)))
    with (Z.of_nat (length (rev (map ty_id (i_tys s)))))
    by (now rewrite rev_length, map_length).
  rewrite <- !app_assoc. rewrite pop_types_enc.
  rewrite rev_involutive, app_nil_r. cbn [app].
  now rewrite flag_nonzero.
Qed.

(* ---------- prompt ---------- *)

Definition prompt_of (q : bool) (p : str) : str := p ++ (if q then s_question else []).

Lemma norm_ask q p sl l rest acc :
  norm_acc (ask q p sl l ++ rest) acc =
  EPrint (acc ++ prompt_of q p) :: EInput sl l :: norm_acc rest [].
Proof.
  unfold ask, prompt_of. destruct q; cbn; rewrite <- ?app_assoc, ?app_nil_r; reflexivity.
Qed.

Lemma norm_ask_only q p acc :
  norm_acc (ask_only q p) acc = [EPrint (acc ++ prompt_of q p)].
Proof.
  unfold ask_only, prompt_of. destruct q; cbn; rewrite <- ?app_assoc, ?app_nil_r; reflexivity.
Qed.

Lemma norm_spec_ask f sl l rest acc :
  norm_acc (spec_ask f sl l ++ rest) acc =
  EPrint (acc ++ spec_prompt_text f) :: EInput sl l :: norm_acc rest [].
Proof. reflexivity. Qed.

Lemma prompt_of_form sl f ts :
  prompt_of (i_question (stmt_of_form sl f ts)) (i_prompt (stmt_of_form sl f ts))
  = spec_prompt_text f.
Proof. destruct f; cbn; unfold prompt_of; cbn; now rewrite ?app_nil_r. Qed.

Lemma loop_first pv q p sl tys l rest st :
  exists tail, ires_evs (input_loop pv q p sl tys (l :: rest) st) = ask q p sl l ++ tail.
Proof.
  cbn [input_loop]. destruct (pv l tys st).
  - exists []. cbn. now rewrite app_nil_r.
  - destruct (input_loop pv q p sl tys rest st0) as [e s|k e s|e s]; cbn;
      rewrite <- app_assoc; eauto.
  - exists []. cbn. now rewrite app_nil_r.
Qed.

Lemma prompt_shape sl f ts l rest st :
  ts <> [] ->
  exists pre tail,
    ires_evs (exec_input (l :: rest) (stack_at_io (stmt_of_form sl f ts) st))
    = pre ++ EInput (flag sl) l :: tail /\
    norm pre = [EPrint (spec_prompt_text f)].
Proof.
  intro Hne. unfold exec_input. rewrite exec_decode by (destruct f; exact Hne).
  destruct (loop_first push_vars (i_question (stmt_of_form sl f ts))
              (i_prompt (stmt_of_form sl f ts)) (flag (i_same_line (stmt_of_form sl f ts)))
              (map ty_id (i_tys (stmt_of_form sl f ts))) l rest st) as [tail H].
  rewrite H.
  exists (ask_only (i_question (stmt_of_form sl f ts)) (i_prompt (stmt_of_form sl f ts))), tail.
  split.
  - unfold ask, ask_only. replace (i_same_line (stmt_of_form sl f ts)) with sl by (destruct f; reflexivity).
    cbn [app]. rewrite <- !app_assoc. reflexivity.
  - unfold norm. rewrite norm_ask_only. cbn [app]. now rewrite prompt_of_form.
Qed.

(* ---------- histories ---------- *)

Lemma loop_retry pv q p sl tys (junk_of : str -> list cell) vals good more bad :
  forall st,
  (forall b st, In b bad -> pv b tys st = PVReject (junk_of b ++ st)) ->
  (forall st, pv good tys st = PVOk (vals ++ st)) ->
  input_loop pv q p sl tys (bad ++ good :: more) st =
  IDone (flat_map (redo_block q p sl) bad ++ ask q p sl good)
        (vals ++ flat_map junk_of (rev bad) ++ st).
Proof.
  induction bad as [|b bad IH]; intros st Hbad Hgood.
  - cbn [app input_loop flat_map rev]. now rewrite Hgood.
  - cbn [app input_loop]. rewrite (Hbad b st (or_introl eq_refl)).
    rewrite IH by (intros; auto; apply Hbad; now right).
    cbn [i_pre flat_map rev]. unfold redo_block at 2.
    rewrite flat_map_app. cbn [flat_map]. rewrite app_nil_r.
    f_equal; rewrite <- !app_assoc; reflexivity.
Qed.

Lemma retry_unbounded n bad good more vals s st :
  length bad = n ->
  i_tys s <> [] ->
  (forall b, In b bad -> spec_accept false (i_tys s) b = None) ->
  spec_accept false (i_tys s) good = Some vals ->
  exec_input (bad ++ good :: more) (stack_at_io s st) =
  IDone (flat_map (redo_block (i_question s) (i_prompt s) (flag (i_same_line s))) bad
         ++ ask (i_question s) (i_prompt s) (flag (i_same_line s)) good)
        (vals ++ flat_map (stale (map ty_id (i_tys s))) (rev bad) ++ st).
Proof.
  intros _ Hne Hbad Hgood. unfold exec_input. rewrite exec_decode by exact Hne.
  apply loop_retry.
  - intros b st' Hin. now apply push_vars_reject, Hbad.
  - intro st'. now apply push_vars_accept.
Qed.

Lemma retry_unbounded_fixed n bad good more vals s st :
  length bad = n ->
  i_tys s <> [] ->
  (forall b, In b bad -> spec_accept false (i_tys s) b = None) ->
  spec_accept false (i_tys s) good = Some vals ->
  exec_input_fixed (bad ++ good :: more) (stack_at_io s st) =
  IDone (flat_map (redo_block (i_question s) (i_prompt s) (flag (i_same_line s))) bad
         ++ ask (i_question s) (i_prompt s) (flag (i_same_line s)) good)
        (vals ++ st).
Proof.
  intros _ Hne Hbad Hgood. unfold exec_input_fixed. rewrite exec_decode by exact Hne.
  rewrite (loop_retry push_vars_fixed _ _ _ _ (fun _ => []) vals).
  - f_equal. f_equal. induction (rev bad); [reflexivity | exact IHl].
  - intros b st' Hin. rewrite push_vars_fixed_known, (Hbad b Hin). reflexivity.
  - intro st'. now rewrite push_vars_fixed_known, Hgood.
Qed.

Lemma flat_map_nil {A B} (f : A -> list B) l :
  (forall x, In x l -> f x = []) -> flat_map f l = [].
Proof.
  induction l as [|a l IH]; intro H; cbn; [reflexivity|].
  rewrite (H a (or_introl eq_refl)), IH; [reflexivity | intros; apply H; now right].
Qed.

(* a rejected line in the repaired code: Redo, and the statement starts over
   on the unchanged stack *)
Lemma reject_restart_fixed s l rest st :
  i_tys s <> [] ->
  spec_accept false (i_tys s) l = None ->
  exec_input_fixed (l :: rest) (stack_at_io s st) =
  i_pre (redo_block (i_question s) (i_prompt s) (flag (i_same_line s)) l)
        (exec_input_fixed rest (stack_at_io s st)).
Proof.
  intros Hne H. unfold exec_input_fixed. rewrite !exec_decode by exact Hne.
  cbn [input_loop]. rewrite push_vars_fixed_known, H. reflexivity.
Qed.

(* the same for the code as it is, when the rejection is clean *)
Lemma reject_restart_partial s l rest st :
  i_tys s <> [] ->
  spec_accept false (i_tys s) l = None ->
  stale (map ty_id (i_tys s)) l = [] ->
  exec_input (l :: rest) (stack_at_io s st) =
  i_pre (redo_block (i_question s) (i_prompt s) (flag (i_same_line s)) l)
        (exec_input rest (stack_at_io s st)).
Proof.
  intros Hne H Hs. unfold exec_input. rewrite !exec_decode by exact Hne.
  cbn [input_loop]. rewrite push_vars_known, H, Hs. reflexivity.
Qed.

(* ---------- the whole run against spec_run ---------- *)

Lemma meets_pre r s st pre pre' :
  (forall rest rest' acc, (forall acc', norm_acc rest acc' = norm_acc rest' acc') ->
     norm_acc (pre ++ rest) acc = norm_acc (pre' ++ rest') acc) ->
  meets r s st -> meets (i_pre pre r) (s_pre pre' s) st.
Proof.
  intros Hp. destruct s as [e v|e]; cbn; intros [e' [-> He]]; cbn; eexists; split;
    try reflexivity; intro acc; apply Hp, He.
Qed.

Lemma loop_meets_spec pv f sl ts st lines :
  (forall l, In l lines ->
     pv l (map ty_id ts) st =
     match spec_accept false ts l with
     | Some vals => PVOk (vals ++ st)
     | None => PVReject st
     end) ->
  meets (input_loop pv (i_question (stmt_of_form sl f ts)) (i_prompt (stmt_of_form sl f ts))
                    (flag sl) (map ty_id ts) lines st)
        (spec_run false f (flag sl) ts lines) st.
Proof.
  set (q := i_question (stmt_of_form sl f ts)). set (p := i_prompt (stmt_of_form sl f ts)).
  assert (Hp : prompt_of q p = spec_prompt_text f) by apply prompt_of_form.
  induction lines as [|l rest IH]; intro Hpv.
  - cbn. eexists; split; [reflexivity|]. intro acc. rewrite norm_ask_only, Hp. reflexivity.
  - cbn [input_loop spec_run]. rewrite (Hpv l (or_introl eq_refl)).
    destruct (spec_accept false ts l) as [vals|].
    + cbn. eexists; split; [reflexivity|]. intro acc.
      rewrite <- (app_nil_r (ask q p (flag sl) l)), norm_ask, Hp. reflexivity.
    + apply meets_pre; [|apply IH; intros; apply Hpv; now right].
      intros r r' acc Hr. rewrite <- !app_assoc, norm_ask, norm_spec_ask, Hp.
      cbn [app norm_acc]. now rewrite Hr.
Qed.

Lemma run_meets_spec_fixed sl f ts lines st :
  ts <> [] ->
  meets (exec_input_fixed lines (stack_at_io (stmt_of_form sl f ts) st))
        (spec_run false f (flag sl) ts lines) st.
Proof.
  intro Hne. unfold exec_input_fixed. rewrite exec_decode by (destruct f; exact Hne).
  replace (i_same_line (stmt_of_form sl f ts)) with sl by (destruct f; reflexivity).
  replace (i_tys (stmt_of_form sl f ts)) with ts by (destruct f; reflexivity).
  apply loop_meets_spec. intros l _. apply push_vars_fixed_known.
Qed.

Lemma run_meets_spec_partial sl f ts lines st :
  ts <> [] ->
  (forall l, In l lines -> stale (map ty_id ts) l = []) ->
  meets (exec_input lines (stack_at_io (stmt_of_form sl f ts) st))
        (spec_run false f (flag sl) ts lines) st.
Proof.
  intros Hne Hclean. unfold exec_input. rewrite exec_decode by (destruct f; exact Hne).
  replace (i_same_line (stmt_of_form sl f ts)) with sl by (destruct f; reflexivity).
  replace (i_tys (stmt_of_form sl f ts)) with ts by (destruct f; reflexivity).
  apply loop_meets_spec. intros l Hin. rewrite push_vars_known.
  destruct (spec_accept false ts l); [reflexivity|]. now rewrite (Hclean l Hin).
Qed.

Lemma strict_run_agrees f sl ts lines :
  (forall l, In l lines -> spec_accept true ts l = spec_accept false ts l) ->
  spec_run true f sl ts lines = spec_run false f sl ts lines.
Proof.
  induction lines as [|l rest IH]; intro H; [reflexivity|].
  cbn [spec_run]. rewrite (H l (or_introl eq_refl)).
  destruct (spec_accept false ts l); [reflexivity|].
  rewrite IH; [reflexivity | intros; apply H; now right].
Qed.

(* ---------- the stores after the io ---------- *)

Lemma do_stores_spec targets : forall vals st written,
  length vals = length targets ->
  do_stores targets (vals ++ st) written = Some (st, written ++ combine targets vals).
Proof.
  induction targets as [|t ts IH]; intros [|v vals] st written H; cbn in H; try discriminate.
  - cbn. now rewrite app_nil_r.
  - cbn [app do_stores combine]. rewrite IH by lia. now rewrite <- app_assoc.
Qed.

Lemma assign_in_order ts l st vals targets :
  spec_accept false ts l = Some vals ->
  length targets = length ts ->
  push_vars l (map ty_id ts) st = PVOk (vals ++ st) /\
  spec_values false ts (spec_fields l) = Some vals /\
  do_stores targets (vals ++ st) [] = Some (st, combine targets vals).
Proof.
  intros H HL. split; [now apply push_vars_accept|]. split; [exact H|].
  apply (do_stores_spec targets vals st []).
  destruct (spec_values_length _ _ _ _ H). lia.
Qed.

(* ---------- witnesses of the two defects (computed) ---------- *)

(* D29: "1_0,nan" for an INTEGER and a SINGLE variable *)
Lemma accept_only_wellformed_refuted :
  exists ts l st st', spec_accept true ts l = None /\ push_vars l (map ty_id ts) st = PVOk st'.
Proof.
  exists [VInt; VSingle], [49; 95; 48; 44; 110; 97; 110], [], [CI 10; CS FNaN].
  split; vm_compute; reflexivity.
Qed.

(* D29b: "1e400" for a DOUBLE variable *)
Lemma accept_overflow_refuted :
  exists l st', spec_accept true [VDouble] l = None /\
                push_vars l [ty_id VDouble] [] = PVOk st'.
Proof.
  exists [49; 101; 52; 48; 48], [CD (FInf false)]. split; vm_compute; reflexivity.
Qed.

(* D13: "x,5" for two INTEGER variables *)
Lemma reject_no_effect_refuted :
  exists tys l st st', push_vars l tys st = PVReject st' /\ st' <> st.
Proof.
  exists [1; 1], [120; 44; 53], [], [CI 5]. split; [vm_compute; reflexivity | discriminate].
Qed.

(* and its consequence for a whole statement: after "x,5" then "1,2" the
   stack is not the one the accepted line alone leaves *)
Lemma retry_state_refuted :
  exists s bad good st,
    i_tys s <> [] /\
    spec_accept false (i_tys s) bad = None /\
    ires_stack (exec_input [bad; good] (stack_at_io s st)) <>
    ires_stack (exec_input [good] (stack_at_io s st)).
Proof.
  exists (stmt_of_form false FNone [VInt; VInt]), [120; 44; 53], [49; 44; 50], [].
  split; [discriminate|]. split; [vm_compute; reflexivity|]. vm_compute. discriminate.
Qed.

(* the two clean cases at the level of the statement *)
Lemma reject_no_effect_partial ts t fs f l rest s st :
  i_tys s = ts ++ [t] ->
  length (spec_fields l) <> length (i_tys s) \/
  (spec_fields l = fs ++ [f] /\ spec_value false t f = None) ->
  exec_input (l :: rest) (stack_at_io s st) =
  i_pre (redo_block (i_question s) (i_prompt s) (flag (i_same_line s)) l)
        (exec_input rest (stack_at_io s st)).
Proof.
  intros Hty H.
  assert (Hne : i_tys s <> []) by (rewrite Hty; destruct ts; discriminate).
  unfold exec_input. rewrite !exec_decode by exact Hne. cbn [input_loop].
  assert (E : push_vars l (map ty_id (i_tys s)) st = PVReject st).
  { destruct H as [H | [H1 H2]].
    - apply reject_count_clean. now rewrite map_length.
    - rewrite Hty. now apply (reject_last_clean ts t fs f). }
  rewrite E. reflexivity.
Qed.
