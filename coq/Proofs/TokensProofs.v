(* Lemmas about Models/Tokens.v (C06). *)
From Coq Require Import ZArith List Bool Lia.
From QV Require Import Sx Tokens.
Import ListNotations.
Open Scope Z_scope.

(* ---- parity of an encoded list ---- *)

Lemma length_pairs {A} (f : A -> list tok) (l : list A) :
  (forall p, length (f p) = 2%nat) -> length (flat_map f l) = (2 * length l)%nat.
Proof.
  intro H. induction l as [|p l IH]; simpl; [reflexivity|].
  rewrite app_length, H, IH. lia.
Qed.

Lemma even_double_S n : Nat.even (S (2 * n)) = false.
Proof.
  replace (S (2 * n)) with (1 + 2 * n)%nat by lia.
  rewrite Nat.even_add_mul_2. reflexivity.
Qed.

Lemma even_double n : Nat.even (2 * n) = true.
Proof.
  replace (2 * n)%nat with (0 + 2 * n)%nat by lia.
  rewrite Nat.even_add_mul_2. reflexivity.
Qed.

Lemma encode_length a pairs : length (encode a pairs) = S (2 * length pairs).
Proof.
  unfold encode. simpl. f_equal. apply length_pairs. reflexivity.
Qed.

(* ---- left-associative action ---- *)

Lemma left_loop_encode : forall pairs a,
  forallb (fun p => is_binop_str (fst p)) pairs = true ->
  left_loop (TNode a) (flat_map (fun p => [TStr (fst p); TNode (snd p)]) pairs)
  = RTree (left_nest a pairs).
Proof.
  induction pairs as [|[k x] pairs IH]; intros a H; simpl in *.
  - reflexivity.
  - apply andb_true_iff in H as [Hk H]. unfold is_binop_str in Hk.
    unfold left_nest. simpl. unfold opid.
    destruct (binop_of_str k) as [op|] eqn:E; [|discriminate].
    apply IH. exact H.
Qed.

Lemma left_assoc_total : forall a pairs,
  forallb (fun p => is_binop_str (fst p)) pairs = true ->
  parse_left (encode a pairs) = RTree (left_nest a pairs).
Proof.
  intros a pairs H. unfold parse_left. rewrite encode_length, even_double_S.
  unfold encode. apply left_loop_encode. exact H.
Qed.

(* every well-shaped list is an encoded one *)
Lemma shape_ok_decode : forall isop rest,
  shape_ok isop rest = true ->
  exists pairs, rest = flat_map (fun p => [TStr (fst p); TNode (snd p)]) pairs /\
                forallb (fun p => isop (fst p)) pairs = true.
Proof.
  intros isop. fix IH 1. intros rest H.
  destruct rest as [|o rest]; [exists []; split; reflexivity|].
  destruct o as [t|k]; [discriminate|].
  destruct rest as [|x rest]; [discriminate|].
  destruct x as [t|k']; [|discriminate].
  simpl in H. apply andb_true_iff in H as [Hk H].
  destruct (IH rest H) as [pairs [E F]].
  exists ((k, t) :: pairs). split.
  - simpl. rewrite E. reflexivity.
  - simpl. rewrite Hk. exact F.
Qed.

Lemma well_shaped_decode : forall isop toks,
  well_shaped isop toks = true ->
  exists a pairs, toks = encode a pairs /\ forallb (fun p => isop (fst p)) pairs = true.
Proof.
  intros isop toks H. destruct toks as [|[a|k] rest]; try discriminate.
  simpl in H. destruct (shape_ok_decode isop rest H) as [pairs [E F]].
  exists a, pairs. split; [unfold encode; rewrite E; reflexivity | exact F].
Qed.

Lemma left_assoc_total_shape : forall toks,
  well_shaped is_binop_str toks = true ->
  exists a pairs, toks = encode a pairs /\ parse_left toks = RTree (left_nest a pairs).
Proof.
  intros toks H. destruct (well_shaped_decode _ _ H) as [a [pairs [E F]]].
  exists a, pairs. split; [exact E|]. rewrite E. apply left_assoc_total. exact F.
Qed.

(* converse: the action returns a tree ONLY on well-shaped lists, so the
   well-shaped lists are exactly its domain *)
Lemma left_loop_tree_shape : forall rest node t,
  left_loop node rest = RTree t ->
  (exists a, node = TNode a) /\ shape_ok is_binop_str rest = true.
Proof.
  fix IH 1. intros rest node t H.
  destruct rest as [|o rest].
  - simpl in H. destruct node as [a|k]; [|discriminate]. split; [now exists a | reflexivity].
  - destruct rest as [|x rest]; [discriminate|].
    simpl in H. destruct o as [ot|k]; [discriminate|].
    destruct (binop_of_str k) as [op|] eqn:Ek; [|discriminate].
    destruct node as [a|kn]; [|discriminate].
    destruct x as [b|kx]; [|discriminate].
    simpl in H. destruct (IH rest _ _ H) as [_ Hs].
    split; [now exists a|]. simpl. unfold is_binop_str. rewrite Ek. exact Hs.
Qed.

Lemma left_assoc_tree_iff_shape : forall toks,
  (exists t, parse_left toks = RTree t) <-> well_shaped is_binop_str toks = true.
Proof.
  intro toks. split.
  - intros [t H]. unfold parse_left in H.
    destruct (Nat.even (length toks)); [discriminate|].
    destruct toks as [|n rest]; [discriminate|].
    destruct (left_loop_tree_shape rest n t H) as [[a ->] Hs]. exact Hs.
  - intro H. destruct (left_assoc_total_shape toks H) as [a [pairs [_ E]]].
    eexists. exact E.
Qed.

(* in-order traversal of the result is the input sequence (leaf operands) *)
Lemma inorder_left_nest : forall pairs t,
  inorder (left_nest t (leaves pairs)) =
  inorder t ++ flat_map (fun p => [IOp (opid (fst p)); IAtom (snd p)]) pairs.
Proof.
  induction pairs as [|[k n] pairs IH]; intro t; simpl.
  - rewrite app_nil_r. reflexivity.
  - unfold left_nest in *. simpl. rewrite IH. simpl. rewrite <- app_assoc. reflexivity.
Qed.

Lemma left_assoc_inorder : forall a pairs,
  forallb (fun p => is_binop_str (fst p)) pairs = true ->
  exists t, parse_left (encode (Leaf a) (leaves pairs)) = RTree t /\
            inorder t = items a pairs.
Proof.
  intros a pairs H. exists (left_nest (Leaf a) (leaves pairs)). split.
  - apply left_assoc_total. unfold leaves. rewrite forallb_forall in *.
    intros p Hp. apply in_map_iff in Hp as [q [<- Hq]]. simpl. apply (H q Hq).
  - rewrite inorder_left_nest. reflexivity.
Qed.

(* ---- right-associative action ---- *)

Lemma encode_snoc a pairs k x :
  encode a (pairs ++ [(k, x)]) = encode a pairs ++ [TStr k; TNode x].
Proof. unfold encode. rewrite flat_map_app. simpl. reflexivity. Qed.

Lemma right_nest_snoc2 : forall pairs a k k1 k2 x acc,
  right_nest a (pairs ++ [(k, Bin 0 x acc)]) = right_nest a ((pairs ++ [(k1, x)]) ++ [(k2, acc)]).
Proof.
  induction pairs as [|[k0 y] pairs IH]; intros a k k1 k2 x acc; simpl.
  - reflexivity.
  - f_equal. apply IH.
Qed.

(* main invariant: folding from the right.  [encode a pairs] (in source order)
   is a (^ x)* and [acc] the tree built from everything to its right *)
Lemma right_loop_front : forall pairs a acc,
  forallb (fun p => is_caret_str (fst p)) pairs = true ->
  right_loop (TNode acc) (TStr 0 :: rev (encode a pairs))
  = RTree (right_nest a (pairs ++ [(0, acc)])).
Proof.
  intros pairs. induction pairs as [|[k x] pairs IH] using rev_ind; intros a acc H.
  - reflexivity.
  - rewrite forallb_app in H. apply andb_true_iff in H as [H Hk].
    simpl in Hk. rewrite andb_true_r in Hk. unfold is_caret_str in Hk.
    apply Z.eqb_eq in Hk. subst k.
    rewrite encode_snoc, rev_app_distr.
    change (rev [TStr 0; TNode x]) with [TNode x; TStr 0].
    change ([TNode x; TStr 0] ++ rev (encode a pairs))
      with (TNode x :: TStr 0 :: rev (encode a pairs)).
    change (right_loop (TNode acc) (TStr 0 :: TNode x :: TStr 0 :: rev (encode a pairs)))
      with (right_loop (TNode (Bin 0 x acc)) (TStr 0 :: rev (encode a pairs))).
    rewrite (IH a (Bin 0 x acc) H). f_equal. apply right_nest_snoc2.
Qed.

Lemma right_assoc_total : forall a pairs,
  forallb (fun p => is_caret_str (fst p)) pairs = true ->
  parse_right (encode a pairs) = RTree (right_nest a pairs).
Proof.
  intros a pairs H. unfold parse_right. rewrite encode_length, even_double_S.
  destruct pairs as [|[k x] pairs _] using rev_ind.
  - reflexivity.
  - rewrite forallb_app in H. apply andb_true_iff in H as [H Hk].
    simpl in Hk. rewrite andb_true_r in Hk. unfold is_caret_str in Hk.
    apply Z.eqb_eq in Hk. subst k.
    rewrite encode_snoc, rev_app_distr.
    change (rev [TStr 0; TNode x]) with [TNode x; TStr 0].
    change ([TNode x; TStr 0] ++ rev (encode a pairs))
      with (TNode x :: TStr 0 :: rev (encode a pairs)).
    apply right_loop_front. exact H.
Qed.

Lemma right_assoc_total_shape : forall toks,
  well_shaped is_caret_str toks = true ->
  exists a pairs, toks = encode a pairs /\ parse_right toks = RTree (right_nest a pairs).
Proof.
  intros toks H. destruct (well_shaped_decode _ _ H) as [a [pairs [E F]]].
  exists a, pairs. split; [exact E|]. rewrite E. apply right_assoc_total. exact F.
Qed.

Lemma inorder_right_nest : forall pairs a,
  inorder (right_nest (Leaf a) (leaves pairs)) =
  IAtom a :: flat_map (fun p => [IOp 0; IAtom (snd p)]) pairs.
Proof.
  induction pairs as [|[k n] pairs IH]; intro a; simpl; [reflexivity|].
  rewrite IH. reflexivity.
Qed.

(* ---- the shapes exponent_expr really produces ---- *)

Definition signs (l : list tok) : Prop := l <> [] /\ forallb is_sign l = true.

Lemma is_sign_not_caret t : is_sign t = true -> is_caret t = false.
Proof. destruct t as [t|k]; simpl; [discriminate|]. destruct k as [|[p|p|]|p]; try discriminate;
  try (destruct p; discriminate); reflexivity. Qed.

Lemma is_sign_str t : is_sign t = true -> exists k, t = TStr k.
Proof. destruct t as [t|k]; simpl; [discriminate|]. intros _. now exists k. Qed.

(* one operand after k >= 1 signs: even length for odd k fails the parity
   assert, odd length finds a sign where "^" is asserted *)
Lemma right_loop_sign_first : forall node s x rest,
  is_sign s = true -> right_loop node (s :: x :: rest) = RCrash CAssert.
Proof. intros. simpl. rewrite (is_sign_not_caret s H). reflexivity. Qed.

Lemma last_sign_rev : forall (l : list tok), l <> [] -> forallb is_sign l = true ->
  exists s front, rev l = s :: front /\ is_sign s = true /\ forallb is_sign front = true.
Proof.
  intros l Hn H. destruct l as [|t l] using rev_ind; [congruence|]. clear IHl.
  rewrite forallb_app in H. apply andb_true_iff in H as [H1 H2]. simpl in H2.
  rewrite andb_true_r in H2. exists t, (rev l). rewrite rev_app_distr. simpl.
  repeat split; try assumption.
  rewrite forallb_forall in *. intros y Hy. apply H1. now apply in_rev.
Qed.

(* sign^k operand, k >= 1 *)
Lemma right_signed_atom_crash : forall sg a,
  signs sg -> parse_right (sg ++ [TNode a]) = RCrash CAssert.
Proof.
  intros sg a [Hn H]. unfold parse_right.
  destruct (Nat.even (length (sg ++ [TNode a]))) eqn:E; [reflexivity|].
  rewrite rev_app_distr. simpl.
  destruct (last_sign_rev sg Hn H) as [s [front [R [Hs Hf]]]]. rewrite R.
  destruct front as [|x front].
  - (* exactly one sign: length 2 is even *)
    exfalso. assert (L : length sg = 1%nat).
    { rewrite <- rev_length, R. reflexivity. }
    rewrite app_length, L in E. simpl in E. discriminate.
  - apply right_loop_sign_first. exact Hs.
Qed.

(* sign^k operand "^" node, k >= 1 *)
Lemma right_signed_pow_crash : forall sg a b,
  signs sg -> parse_right (sg ++ [TNode a; TStr 0; TNode b]) = RCrash CAssert.
Proof.
  intros sg a b [Hn H]. unfold parse_right.
  destruct (Nat.even (length (sg ++ [TNode a; TStr 0; TNode b]))) eqn:E; [reflexivity|].
  rewrite rev_app_distr. simpl.
  destruct (last_sign_rev sg Hn H) as [s [front [R [Hs Hf]]]]. rewrite R.
  destruct front as [|x front].
  - exfalso. assert (L : length sg = 1%nat).
    { rewrite <- rev_length, R. reflexivity. }
    rewrite app_length, L in E. simpl in E. discriminate.
  - apply right_loop_sign_first. exact Hs.
Qed.

Lemma strip_signs_spec : forall toks k r,
  strip_signs toks = (k, r) ->
  exists sg, toks = sg ++ r /\ length sg = k /\ forallb is_sign sg = true.
Proof.
  induction toks as [|t toks IH]; intros k r H; simpl in H.
  - inversion H; subst. exists []. repeat split.
  - destruct (is_sign t) eqn:Es.
    + destruct (strip_signs toks) as [n r'] eqn:E. inversion H; subst.
      destruct (IH n r eq_refl) as [sg [E1 [E2 E3]]].
      exists (t :: sg). simpl. rewrite Es, E3, E2, E1. repeat split.
    + inversion H; subst. exists []. repeat split.
Qed.

(* complete characterisation on the real shapes: a tree iff there is no sign *)
Lemma exponent_shape_outcome : forall toks k,
  exponent_shape toks = Some k ->
  (k = O -> exists t, parse_right toks = RTree t) /\
  (k <> O -> parse_right toks = RCrash CAssert).
Proof.
  intros toks k H. unfold exponent_shape in H.
  destruct (strip_signs toks) as [n r] eqn:E.
  destruct (strip_signs_spec toks n r E) as [sg [E1 [E2 E3]]].
  assert (Hr : (exists a, r = [TNode a]) \/ (exists a b, r = [TNode a; TStr 0; TNode b])).
  { destruct r as [|[a|?] [|[?|[|?|?]] [|[b|?] [|? ?]]]]; try discriminate;
      [left; now exists a | right; now exists a, b]. }
  assert (Hk : n = k).
  { destruct Hr as [[a ->]|[a [b ->]]]; now inversion H. }
  rewrite Hk in E2. clear Hk E. split.
  - intros ->. destruct sg; [|discriminate]. simpl in E1. subst toks.
    destruct Hr as [[a ->]|[a [b ->]]]; eexists; reflexivity.
  - intros Hk0. assert (Hs : signs sg).
    { split; [|exact E3]. intros ->. simpl in E2. congruence. }
    subst toks. destruct Hr as [[a ->]|[a [b ->]]].
    + now apply right_signed_atom_crash.
    + now apply right_signed_pow_crash.
Qed.

(* ---- positions ---- *)

Lemma line_col_go_some : forall s idx line col off,
  idx <= off < idx + Z.of_nat (length s) -> 0 <= col ->
  exists l c, line_col_go s idx line col off = Some (l, c) /\
              line <= l <= line + count_nl s /\ 0 <= c.
Proof.
  induction s as [|ch s IH]; intros idx line col off H Hc; simpl in *.
  - lia.
  - destruct (idx =? off) eqn:E.
    + exists line, col. split; [reflexivity|]. unfold count_nl. split; lia.
    + apply Z.eqb_neq in E.
      destruct (ch =? ch_nl) eqn:En.
      * destruct (IH (idx + 1) (line + 1) 1 off) as [l [c [E1 [E2 E3]]]]; [lia|lia|].
        exists l, c. split; [exact E1|]. unfold count_nl in *. simpl. rewrite En. simpl length.
        split; lia.
      * destruct (IH (idx + 1) line (col + 1) off) as [l [c [E1 [E2 E3]]]]; [lia|lia|].
        exists l, c. split; [exact E1|]. unfold count_nl in *. simpl. rewrite En. split; lia.
Qed.

Lemma line_col_go_none : forall s idx line col off,
  off < idx \/ idx + Z.of_nat (length s) <= off ->
  line_col_go s idx line col off = None.
Proof.
  induction s as [|ch s IH]; intros idx line col off H; simpl in *; [reflexivity|].
  destruct (idx =? off) eqn:E; [apply Z.eqb_eq in E; lia|].
  destruct (ch =? ch_nl); apply IH; lia.
Qed.

Lemma line_col_domain : forall s off,
  (0 <= off < Z.of_nat (length s) ->
     exists l c, line_col s off = Some (l, c) /\ 1 <= l <= 1 + count_nl s /\ 0 <= c) /\
  (off < 0 \/ Z.of_nat (length s) <= off -> line_col s off = None).
Proof.
  intros s off. split; intro H.
  - destruct (line_col_go_some s 0 1 0 off) as [l [c [E1 [E2 E3]]]]; [lia|lia|].
    exists l, c. split; [exact E1|]. split; lia.
  - apply line_col_go_none. lia.
Qed.

Lemma target_go_some : forall s i pos line loc,
  i <= pos -> i <= loc < pos + Z.of_nat (length s) ->
  exists l c, target_go s i pos line loc = Some (l, c) /\
              line <= l <= line + count_nl s /\ 1 <= c <= loc + 1 - i.
Proof.
  induction s as [|ch s IH]; intros i pos line loc Hi H; simpl in *.
  - assert (E1 : (i <? pos) = true) by (apply Z.ltb_lt; lia).
    assert (E2 : (i <=? loc) && (loc <=? pos) = true).
    { apply andb_true_iff; split; apply Z.leb_le; lia. }
    rewrite E1, E2. exists line, (loc - i + 1). split; [reflexivity|].
    unfold count_nl. simpl. split; lia.
  - destruct (ch =? ch_nl) eqn:En.
    + destruct ((i <=? loc) && (loc <=? pos)) eqn:Et.
      * exists line, (loc - i + 1). split; [reflexivity|]. unfold count_nl. split; lia.
      * assert (pos < loc).
        { apply andb_false_iff in Et as [Et|Et]; apply Z.leb_gt in Et; lia. }
        destruct (IH (pos + 1) (pos + 1) (line + 1) loc) as [l [c [E1 [E2 E3]]]]; [lia|lia|].
        exists l, c. split; [exact E1|]. unfold count_nl in *. simpl. rewrite En. simpl length.
        split; lia.
    + destruct (IH i (pos + 1) line loc) as [l [c [E1 [E2 E3]]]]; [lia|lia|].
      exists l, c. split; [exact E1|]. unfold count_nl in *. simpl. rewrite En. split; lia.
Qed.

Lemma target_go_none_low : forall s i pos line loc,
  loc < i -> i <= pos -> target_go s i pos line loc = None.
Proof.
  induction s as [|ch s IH]; intros i pos line loc H Hi; simpl.
  - assert (E : (i <=? loc) = false) by (apply Z.leb_gt; lia). rewrite E. simpl.
    destruct (i <? pos); reflexivity.
  - assert (E : (i <=? loc) = false) by (apply Z.leb_gt; lia). rewrite E. simpl.
    destruct (ch =? ch_nl); apply IH; lia.
Qed.

Lemma target_go_none_high : forall s i pos line loc,
  i <= pos -> pos + Z.of_nat (length s) < loc -> target_go s i pos line loc = None.
Proof.
  induction s as [|ch s IH]; intros i pos line loc Hi H; simpl in *.
  - assert (E : (loc <=? pos) = false) by (apply Z.leb_gt; lia). rewrite E, andb_false_r.
    destruct (i <? pos); reflexivity.
  - assert (E : (loc <=? pos) = false) by (apply Z.leb_gt; lia). rewrite E, andb_false_r.
    destruct (ch =? ch_nl); apply IH; lia.
Qed.

Lemma display_position_total : forall s loc,
  (0 <= loc < Z.of_nat (length s) ->
     exists l c, display_target s loc = Some (l, c) /\
                 1 <= l <= 1 + count_nl s /\ 1 <= c <= loc + 1) /\
  (loc < 0 \/ Z.of_nat (length s) < loc -> display_target s loc = None).
Proof.
  intros s loc. split; intro H.
  - destruct (target_go_some s 0 0 1 loc) as [l [c [E1 [E2 E3]]]]; [lia|lia|].
    exists l, c. split; [exact E1|]. split; lia.
  - destruct H; [apply target_go_none_low | apply target_go_none_high]; lia.
Qed.

(* the end-of-text offset: a diagnostic there is displayable iff the text is
   not empty and does not end in a newline *)
Lemma target_go_end : forall s i pos line,
  i <= pos ->
  target_go s i pos line (pos + Z.of_nat (length s)) =
  match rev s with
  | [] => if i <? pos then Some (line, pos - i + 1) else None
  | c :: _ => if c =? ch_nl then None
              else target_go s i pos line (pos + Z.of_nat (length s))
  end.
Proof.
  induction s as [|ch s IH]; intros i pos line Hi.
  - simpl. rewrite Z.add_0_r.
    destruct (i <? pos) eqn:E; [|reflexivity].
    assert (E2 : (i <=? pos) && (pos <=? pos) = true).
    { apply andb_true_iff; split; apply Z.leb_le; lia. }
    rewrite E2. reflexivity.
  - destruct (rev (ch :: s)) as [|c r] eqn:R.
    + apply (f_equal (@length _)) in R. rewrite rev_length in R. discriminate.
    + destruct (c =? ch_nl) eqn:Ec; [|reflexivity].
      (* the last character is a newline: the offset is past every line *)
      simpl rev in R.
      replace (pos + Z.of_nat (length (ch :: s))) with (pos + 1 + Z.of_nat (length s))
        by (simpl length; lia).
      simpl target_go.
      destruct s as [|ch2 s'].
      * simpl in R. inversion R; subst c r. rewrite Ec. simpl length. rewrite Z.add_0_r.
        assert (E2 : (pos + 1 <=? pos) = false) by (apply Z.leb_gt; lia).
        rewrite E2, andb_false_r. simpl.
        rewrite Z.ltb_irrefl. reflexivity.
      * assert (Rs : exists r', rev (ch2 :: s') = c :: r').
        { destruct (rev (ch2 :: s')) as [|c' r'] eqn:R2.
          - apply (f_equal (@length _)) in R2. rewrite rev_length in R2. discriminate.
          - simpl in R. inversion R. now exists r'. }
        destruct Rs as [r' Rs].
        assert (E2 : (pos + 1 + Z.of_nat (length (ch2 :: s')) <=? pos) = false)
          by (apply Z.leb_gt; lia).
        destruct (ch =? ch_nl).
        -- rewrite E2, andb_false_r.
           rewrite (IH (pos + 1) (pos + 1) (line + 1)) by lia. rewrite Rs, Ec. reflexivity.
        -- rewrite (IH i (pos + 1) line) by lia. rewrite Rs, Ec. reflexivity.
Qed.

Lemma display_target_at_end_newline : forall s,
  display_target (s ++ [ch_nl]) (Z.of_nat (length (s ++ [ch_nl]))) = None.
Proof.
  intro s. unfold display_target.
  pose proof (target_go_end (s ++ [ch_nl]) 0 0 1 (Z.le_refl 0)) as H.
  simpl in H. rewrite H. rewrite rev_app_distr. simpl. reflexivity.
Qed.

Lemma display_target_empty : forall loc, display_target [] loc = None.
Proof. intro loc. reflexivity. Qed.

(* D05: `2 ^ -1` - the nested exponent_expr receives ["-"; 1] *)
Lemma right_assoc_unary_minus_refuted :
  exists toks, exponent_shape toks = Some 1%nat /\ parse_right toks = RCrash CAssert.
Proof. exists [TStr 2; TNode (Leaf 1)]. split; reflexivity. Qed.
