(* body_covered: every address inside a Block's range is attributed to a
   statement record (property C11).  Continues Proofs/DebugMapFinalize.v. *)
From Coq Require Import ZArith List Bool Lia.
From QV Require Import DebugMap DebugMapProofs DebugMapFinalize.
Import ListNotations.
Open Scope Z_scope.

(* ====================================================================== *)
(* Generator-shaped streams.

   [flat]: instructions and empty-block markers only (condition code, jumps,
   frame/ret ...).

   [good allow_ins l]: a statement sequence as gen_code_for_block and the
   block generators emit it.
   - a non-block statement is  Start n; (instructions | statements)*; End n
   - a Block is  Start n; pre; mid; post; End n  where pre and post are flat
     and mid is a statement sequence WITHOUT bare instructions between the
     child statements (gen_loop, gen_for_block, gen_while_block, gen_if_block,
     gen_select_block, gen_sub_block, gen_func_block all have this shape:
     the ELSEIF/ELSE/CASE code between two bodies is itself inside markers)
   - the guard of a Block: some code inside mid, or an _empty_block marker at
     an offset strictly before the end of the block
   - bare instructions are allowed only where [allow_ins] is true: the
     program level (call/halt/frame/ret of the main routine) and inside
     non-block statements. *)
Inductive flat : list item -> Prop :=
| flat_nil : flat []
| flat_ins sz l : 0 < sz -> flat l -> flat (Ins sz :: l)
| flat_empty l : flat l -> flat (EmptyBlock :: l).

Definition block_guard (pre mid post : list item) : Prop :=
  0 < size mid \/
  exists a, In a (empties_at 0 (pre ++ mid ++ post)) /\ a < size (pre ++ mid ++ post).

Inductive good : bool -> list item -> Prop :=
| good_nil b : good b []
| good_ins sz l : 0 < sz -> good true l -> good true (Ins sz :: l)
| good_empty b l : good b l -> good b (EmptyBlock :: l)
| good_stmt b n body l :
    nk n = KStmt -> good true body -> good b l ->
    good b (Start n :: body ++ End n :: l)
| good_block b n pre mid post l :
    is_block_node n = true -> flat pre -> good false mid -> flat post ->
    block_guard pre mid post -> good b l ->
    good b (Start n :: (pre ++ mid ++ post) ++ End n :: l).

Definition within (r : rec) (lo hi : Z) : Prop := lo <= r_start r /\ r_end r <= hi.
Definition covers (r : rec) (addr : Z) : Prop := r_start r <= addr < r_end r.
(* outside of, or covering, the range lo..hi *)
Definition ooc (r : rec) (lo hi : Z) : Prop :=
  r_end r <= lo \/ hi <= r_start r \/ (r_start r <= lo /\ hi <= r_end r).

(* ====================================================================== *)

Lemma flat_wf l : flat l -> wf_markers l.
Proof. induction 1; constructor; auto. Qed.

Lemma good_wf b l : good b l -> wf_markers l.
Proof.
  induction 1; try (constructor; auto; fail).
  constructor; auto. apply wf_app; [apply flat_wf; auto|]. apply wf_app; auto. apply flat_wf; auto.
Qed.

Lemma nodes_at_flat l : flat l -> forall off, nodes_at off l = [].
Proof.
  induction 1; intros off.
  - reflexivity.
  - rewrite nodes_at_ins. auto.
  - rewrite nodes_at_empty by (apply flat_wf; auto). auto.
Qed.

Lemma empties_range l : wf_markers l -> forall off a,
  In a (empties_at off l) -> off <= a <= off + size l.
Proof.
  induction 1 as [|sz l Hsz Hl IH|l Hl IH|n body l Hb IHb Hl IHl]; intros off a Hin.
  - contradiction.
  - rewrite empties_at_ins in Hin. specialize (IH _ _ Hin). simpl. lia.
  - rewrite empties_at_empty in Hin by auto. pose proof (wf_size_nonneg l Hl).
    destruct Hin as [Hin|Hin]; [subst; simpl; lia | specialize (IH _ _ Hin); simpl; lia].
  - rewrite empties_at_node in Hin by auto. simpl. rewrite size_app. simpl.
    pose proof (wf_size_nonneg body Hb). pose proof (wf_size_nonneg l Hl).
    apply in_app_or in Hin. destruct Hin as [Hin|Hin].
    + specialize (IHb _ _ Hin). lia.
    + specialize (IHl _ _ Hin). lia.
Qed.

Lemma empties_shift l : wf_markers l -> forall off,
  empties_at off l = map (fun a => off + a) (empties_at 0 l).
Proof.
  induction 1 as [|sz l Hsz Hl IH|l Hl IH|n body l Hb IHb Hl IHl]; intros off.
  - reflexivity.
  - rewrite !empties_at_ins. rewrite (IH (off + sz)), (IH (0 + sz)), map_map.
    apply map_ext. intros. lia.
  - rewrite !empties_at_empty by auto. simpl. rewrite (IH off). f_equal. lia.
  - rewrite !empties_at_node by auto. rewrite map_app.
    rewrite (IHb off), (IHl (off + size body)), (IHl (0 + size body)), map_map.
    f_equal. apply map_ext. intros. lia.
Qed.

Lemma stmts_range l : wf_markers l -> forall off r,
  In r (stmts_of (nodes_at off l)) -> within r off (off + size l) /\ r_start r <= r_end r.
Proof.
  intros H off r Hin. apply in_stmts_of in Hin. destruct Hin as (n & s & e & Hin & _ & E).
  subst r. destruct (collected_laminar_aux l H off) as [A _]. specialize (A _ _ _ Hin).
  unfold within. simpl. lia.
Qed.

Lemma is_child_iff bs be r :
  is_child bs be r = true <-> bs <= r_start r /\ r_end r <= be /\ r_start r < r_end r.
Proof.
  unfold is_child, rsize. rewrite !andb_true_iff, Z.leb_le, Z.geb_le, Z.gtb_lt. lia.
Qed.

Lemma chunk_nodes off n body : wf_markers body ->
  nodes_at off (Start n :: body ++ [End n]) = nodes_at off body ++ [(n, off, off + size body)].
Proof. intros H. rewrite nodes_at_node by (auto; constructor). reflexivity. Qed.

Lemma chunk_empties off n body : wf_markers body ->
  empties_at off (Start n :: body ++ [End n]) = empties_at off body.
Proof.
  intros H. rewrite empties_at_node by (auto; constructor). rewrite empties_at_nil, app_nil_r.
  reflexivity.
Qed.

Lemma chunk_size n body : size (Start n :: body ++ [End n]) = size body.
Proof. simpl. rewrite size_app. simpl. lia. Qed.

(* ====================================================================== *)
(* the invariant                                                          *)

Definition hyps (off : Z) (l : list item) (T : list rec) (emp : list Z) : Prop :=
  (forall r, In r T -> r_start r < r_end r ->
             In r (stmts_of (nodes_at off l)) \/ ooc r off (off + size l)) /\
  incl (stmts_of (nodes_at off l)) T /\
  incl (empties_at off l) emp.

Definition result (b : bool) (off : Z) (l : list item) (T : list rec) (emp : list Z) : Prop :=
  exists synth,
    process_blocks emp (blocks_of (nodes_at off l)) T = T ++ synth /\
    (forall r, In r synth -> within r off (off + size l)) /\
    (forall n bs be, In (n, bs, be) (blocks_of (nodes_at off l)) ->
       forall addr, bs <= addr < be ->
       exists r, In r (T ++ synth) /\ covers r addr /\ within r bs be) /\
    (b = false -> forall addr, off <= addr < off + size l ->
       exists r, In r (T ++ synth) /\ covers r addr /\ within r off (off + size l)).

Lemma combine b h l : wf_markers h -> wf_markers l -> forall off T emp,
  hyps off (h ++ l) T emp ->
  (hyps off h T emp -> result b off h T emp) ->
  (forall T2, hyps (off + size h) l T2 emp -> result b (off + size h) l T2 emp) ->
  result b off (h ++ l) T emp.
Proof.
  intros Wh Wl off T emp (C & I & E) Rh Rl.
  pose proof (wf_size_nonneg h Wh) as Sh. pose proof (wf_size_nonneg l Wl) as Sl.
  rewrite nodes_at_app, stmts_of_app in C, I by auto.
  rewrite empties_at_app in E by auto. rewrite size_app in C.
  assert (Hh : hyps off h T emp).
  { split; [|split].
    - intros r Hr Hne. destruct (C r Hr Hne) as [Hin|Ho].
      + apply in_app_or in Hin. destruct Hin as [Hin|Hin]; [left; auto|].
        right. destruct (stmts_range l Wl _ _ Hin) as [[W1 W2] _]. unfold ooc. lia.
      + right. unfold ooc in *. lia.
    - intros r Hr. apply I. apply in_or_app. auto.
    - intros a Ha. apply E. apply in_or_app. auto. }
  destruct (Rh Hh) as (s1 & E1 & W1 & B1 & A1).
  assert (Hl : hyps (off + size h) l (T ++ s1) emp).
  { split; [|split].
    - intros r Hr Hne. apply in_app_or in Hr. destruct Hr as [Hr|Hr].
      + destruct (C r Hr Hne) as [Hin|Ho].
        * apply in_app_or in Hin. destruct Hin as [Hin|Hin]; [|left; auto].
          right. destruct (stmts_range h Wh _ _ Hin) as [[X1 X2] _]. unfold ooc. lia.
        * right. unfold ooc in *. lia.
      + right. destruct (W1 r Hr). unfold ooc. lia.
    - intros r Hr. apply in_or_app. left. apply I. apply in_or_app. auto.
    - intros a Ha. apply E. apply in_or_app. auto. }
  destruct (Rl _ Hl) as (s2 & E2 & W2 & B2 & A2).
  exists (s1 ++ s2).
  rewrite nodes_at_app, blocks_of_app, size_app by auto.
  split; [|split; [|split]].
  - rewrite process_blocks_split, E1, E2, app_assoc. reflexivity.
  - intros r Hr. apply in_app_or in Hr. destruct Hr as [Hr|Hr].
    + destruct (W1 r Hr). unfold within. lia.
    + destruct (W2 r Hr). unfold within. lia.
  - intros n bs be Hin addr Ha. apply in_app_or in Hin. destruct Hin as [Hin|Hin].
    + destruct (B1 n bs be Hin addr Ha) as (r & Hr & Hc & Hw). exists r. split; auto.
      rewrite app_assoc. apply in_or_app. auto.
    + destruct (B2 n bs be Hin addr Ha) as (r & Hr & Hc & Hw). exists r. split; auto.
      rewrite app_assoc. auto.
  - intros Eb addr Ha. destruct (Z_lt_ge_dec addr (off + size h)) as [Lt|Ge].
    + destruct (A1 Eb addr) as (r & Hr & Hc & Hw); [lia|]. exists r.
      split; [rewrite app_assoc; apply in_or_app; auto|]. split; auto.
      unfold within in *. lia.
    + destruct (A2 Eb addr) as (r & Hr & Hc & Hw); [lia|]. exists r.
      split; [rewrite app_assoc; auto|]. split; auto. unfold within in *. lia.
Qed.

Lemma stmts_of_single_stmt n s e : nk n = KStmt -> stmts_of [(n, s, e)] = [mkRec (nid n) s e].
Proof. intros K. unfold stmts_of. simpl. rewrite K. reflexivity. Qed.
Lemma stmts_of_single_block n s e : is_block_node n = true -> stmts_of [(n, s, e)] = [].
Proof.
  intros K. unfold stmts_of, is_block_node in *. simpl. destruct (nk n); auto; discriminate.
Qed.
Lemma blocks_of_single_stmt n s e : nk n = KStmt -> blocks_of [(n, s, e)] = [].
Proof. intros K. unfold blocks_of, is_block_node. simpl. rewrite K. reflexivity. Qed.
Lemma blocks_of_single_block n s e : is_block_node n = true -> blocks_of [(n, s, e)] = [(n, s, e)].
Proof. intros K. unfold blocks_of. simpl. rewrite K. reflexivity. Qed.

Lemma block_stmts_some n : is_block_node n = true -> exists ss es, block_stmts (nk n) = Some (ss, es).
Proof. unfold is_block_node, block_stmts. destruct (nk n); try discriminate; eauto. Qed.

(* ---- one statement chunk ---- *)
Lemma stmt_chunk b n body : nk n = KStmt -> wf_markers body ->
  (forall off T emp, hyps off body T emp -> result true off body T emp) ->
  forall off T emp, hyps off (Start n :: body ++ [End n]) T emp ->
  result b off (Start n :: body ++ [End n]) T emp.
Proof.
  intros K Wb IH off T emp (C & I & E).
  rewrite chunk_nodes, stmts_of_app, stmts_of_single_stmt in C, I by auto.
  rewrite chunk_empties in E by auto. rewrite chunk_size in C.
  assert (Hb : hyps off body T emp).
  { split; [|split]; auto.
    - intros r Hr Hne. destruct (C r Hr Hne) as [Hin|Ho]; [|right; auto].
      apply in_app_or in Hin. destruct Hin as [Hin|[Hin|[]]]; [left; auto|].
      right. subst r. unfold ooc. simpl. lia.
    - intros r Hr. apply I. apply in_or_app. auto. }
  destruct (IH off T emp Hb) as (s1 & E1 & W1 & B1 & _).
  exists s1. rewrite chunk_nodes, blocks_of_app, blocks_of_single_stmt, app_nil_r, chunk_size by auto.
  split; [auto|]. split; [auto|]. split; [auto|].
  intros _ addr Ha. exists (mkRec (nid n) off (off + size body)). split.
  - apply in_or_app. left. apply I. apply in_or_app. right. left. reflexivity.
  - unfold covers, within. simpl. lia.
Qed.

(* ---- one block chunk ---- *)
Lemma block_chunk b n pre mid post :
  is_block_node n = true -> flat pre -> wf_markers mid -> flat post ->
  block_guard pre mid post ->
  (forall off T emp, hyps off mid T emp -> result false off mid T emp) ->
  forall off T emp, hyps off (Start n :: (pre ++ mid ++ post) ++ [End n]) T emp ->
  result b off (Start n :: (pre ++ mid ++ post) ++ [End n]) T emp.
Proof.
  intros K Fpre Wm Fpost G IH off T emp (C & I & E).
  pose proof (flat_wf pre Fpre) as Wpre. pose proof (flat_wf post Fpost) as Wpost.
  assert (Wbody : wf_markers (pre ++ mid ++ post)) by (apply wf_app; auto; apply wf_app; auto).
  pose proof (wf_size_nonneg pre Wpre) as Spre. pose proof (wf_size_nonneg mid Wm) as Sm.
  pose proof (wf_size_nonneg post Wpost) as Spost.
  set (body := pre ++ mid ++ post) in *.
  assert (Sbody : size body = size pre + size mid + size post).
  { unfold body. rewrite !size_app. lia. }
  assert (Nbody : nodes_at off body = nodes_at (off + size pre) mid).
  { unfold body. rewrite nodes_at_app by (auto; apply wf_app; auto).
    rewrite nodes_at_flat by auto. simpl. rewrite nodes_at_app by auto.
    rewrite (nodes_at_flat post) by auto. apply app_nil_r. }
  assert (Ebody : incl (empties_at (off + size pre) mid) (empties_at off body)).
  { unfold body. rewrite empties_at_app by (auto; apply wf_app; auto).
    rewrite empties_at_app by auto. intros a Ha. apply in_or_app. right. apply in_or_app. auto. }
  rewrite chunk_nodes, stmts_of_app, stmts_of_single_block, app_nil_r, Nbody in C, I by auto.
  rewrite chunk_empties in E by auto. rewrite chunk_size in C.
  set (ms := off + size pre) in *. set (me := ms + size mid).
  set (be := off + size body).
  assert (Hm : hyps ms mid T emp).
  { split; [|split]; auto.
    - intros r Hr Hne. destruct (C r Hr Hne) as [Hin|Ho]; [left; auto|].
      right. unfold ooc in *. lia.
    - intros a Ha. apply E. apply Ebody. auto. }
  destruct (IH ms T emp Hm) as (sm & Em & Wsm & Bm & Am).
  specialize (Am eq_refl).
  (* every child of the block is inside mid, or spans the whole block *)
  assert (CH : forall r, In r (T ++ sm) -> is_child off be r = true ->
                         within r ms me \/ (r_start r <= off /\ be <= r_end r)).
  { intros r Hr Hc. apply is_child_iff in Hc. apply in_app_or in Hr. destruct Hr as [Hr|Hr].
    - destruct (C r Hr) as [Hin|Ho]; [lia| |].
      + left. destruct (stmts_range mid Wm _ _ Hin) as [X _]. exact X.
      + unfold ooc in Ho. fold be in Ho. right. lia.
    - left. apply Wsm. auto. }
  destruct (block_stmts_some n K) as (ss & es & BS).
  unfold result.
  rewrite chunk_nodes, blocks_of_app, blocks_of_single_block, Nbody, chunk_size by auto.
  fold ms. fold be.
  assert (PB : process_blocks emp (blocks_of (nodes_at ms mid) ++ [(n, off, be)]) T =
               process_block emp (T ++ sm) (n, off, be)).
  { rewrite process_blocks_split, Em. reflexivity. }
  rewrite PB. unfold process_block. rewrite BS.
  destruct (filter (is_child off be) (T ++ sm)) as [|c cs] eqn:F.
  - (* no non-empty child: the empty-block marker case *)
    assert (Gm : exists a, In a emp /\ off <= a < be).
    { destruct G as [G|(a0 & Ha0 & La0)].
      - exfalso. destruct (Am ms) as (r & Hr & Hc & Hw); [unfold me; lia|].
        assert (Hf : In r (filter (is_child off be) (T ++ sm))).
        { apply filter_In. split; auto. apply is_child_iff.
          unfold covers, within, me, be in *. lia. }
        rewrite F in Hf. contradiction.
      - exists (off + a0). fold body in Ha0, La0. split.
        + apply E. rewrite (empties_shift body Wbody off). apply in_map_iff. eauto.
        + pose proof (empties_range body Wbody 0 a0 Ha0). unfold be. lia. }
    destruct Gm as (a & Ha & La).
    assert (CovB : forall addr, off <= addr < be ->
              exists r, In r (T ++ sm ++ marker_records ss es off be emp) /\
                        covers r addr /\ within r off be).
    { intros addr Haddr. destruct (Z_lt_ge_dec addr a) as [Lt|Ge].
      - exists (mkRec ss off a). split.
        + apply in_or_app. right. apply in_or_app. right. apply in_marker_records.
          exists a. split; auto.
        + unfold covers, within. simpl. lia.
      - exists (mkRec es a be). split.
        + apply in_or_app. right. apply in_or_app. right. apply in_marker_records.
          exists a. split; auto.
        + unfold covers, within. simpl. lia. }
    exists (sm ++ marker_records ss es off be emp).
    split; [rewrite app_assoc; reflexivity|]. split; [|split].
    + intros r Hr. apply in_app_or in Hr. destruct Hr as [Hr|Hr].
      * destruct (Wsm r Hr). unfold within, me, be in *. lia.
      * apply in_marker_records in Hr. destruct Hr as (a' & _ & La' & [Er|Er]); subst r;
          unfold within, be in *; simpl; lia.
    + intros m bs' be' Hin addr Haddr. apply in_app_or in Hin. destruct Hin as [Hin|[Hin|[]]].
      * destruct (Bm m bs' be' Hin addr Haddr) as (r & Hr & Hc & Hw). exists r. split; auto.
        rewrite app_assoc. apply in_or_app. auto.
      * inversion Hin; subst. apply CovB. auto.
    + intros _ addr Haddr. apply CovB. exact Haddr.
  - (* at least one non-empty child *)
    set (children := sort_by r_start (c :: cs)).
    assert (NE : children <> []).
    { intros X. apply sort_by_nil_iff in X. discriminate. }
    assert (InCh : forall x, In x children -> In x (T ++ sm) /\ is_child off be x = true).
    { intros x Hx. apply in_sort_by in Hx. rewrite <- F in Hx. apply filter_In in Hx. exact Hx. }
    destruct (InCh _ (hd_in c _ NE)) as [H0in H0c].
    destruct (InCh _ (last_in _ c NE)) as [Hkin Hkc].
    set (c0 := hd c children) in *. set (ck := last children c) in *.
    pose proof (proj1 (is_child_iff _ _ _) H0c) as H0r.
    pose proof (proj1 (is_child_iff _ _ _) Hkc) as Hkr.
    assert (CovB : forall addr, off <= addr < be ->
              exists r, In r (T ++ sm ++ [mkRec ss off (r_start c0); mkRec es (r_end ck) be]) /\
                        covers r addr /\ within r off be).
    { intros addr Haddr.
      destruct (Z_lt_ge_dec addr (r_start c0)) as [L0|G0].
      { exists (mkRec ss off (r_start c0)). split.
        - apply in_or_app. right. apply in_or_app. right. left. reflexivity.
        - unfold covers, within. simpl. lia. }
      destruct (Z_lt_ge_dec addr (r_end ck)) as [Lk|Gk].
      2:{ exists (mkRec es (r_end ck) be). split.
          - apply in_or_app. right. apply in_or_app. right. right. left. reflexivity.
          - unfold covers, within. simpl. lia. }
      destruct (Z_lt_ge_dec addr ms) as [Lpre|Gpre].
      { (* in pre: the first child must span the whole block *)
        destruct (CH c0 H0in H0c) as [[X _]|[X1 X2]]; [lia|].
        exists c0. split; [rewrite app_assoc; apply in_or_app; auto|].
        unfold covers, within. lia. }
      destruct (Z_lt_ge_dec addr me) as [Lmid|Gpost].
      { destruct (Am addr) as (r & Hr & Hc & Hw); [lia|]. exists r.
        split; [rewrite app_assoc; apply in_or_app; auto|]. split; auto.
        unfold within, me, be in *. lia. }
      (* in post: the last child must span the whole block *)
      destruct (CH ck Hkin Hkc) as [[_ X]|[X1 X2]]; [lia|].
      exists ck. split; [rewrite app_assoc; apply in_or_app; auto|].
      unfold covers, within. lia. }
    exists (sm ++ [mkRec ss off (r_start c0); mkRec es (r_end ck) be]).
    split; [rewrite app_assoc; reflexivity|]. split; [|split].
    + intros r Hr. apply in_app_or in Hr. destruct Hr as [Hr|[Hr|[Hr|[]]]].
      * destruct (Wsm r Hr). unfold within, me, be in *. lia.
      * subst r. unfold within, be in *. simpl. lia.
      * subst r. unfold within, be in *. simpl. lia.
    + intros m bs' be' Hin addr Haddr. apply in_app_or in Hin. destruct Hin as [Hin|[Hin|[]]].
      * destruct (Bm m bs' be' Hin addr Haddr) as (r & Hr & Hc & Hw). exists r. split; auto.
        rewrite app_assoc. apply in_or_app. auto.
      * inversion Hin; subst. apply CovB. auto.
    + intros _ addr Haddr. apply CovB. exact Haddr.
Qed.

Lemma cover_main b l : good b l -> forall off T emp, hyps off l T emp -> result b off l T emp.
Proof.
  induction 1 as [b|sz l Hsz Hl IH|b l Hl IH|b n body l K Hb IHb Hl IHl
                  |b n pre mid post l K Fpre Hm IHm Fpost G Hl IHl]; intros off T emp H.
  - exists []. rewrite app_nil_r. split; [reflexivity|]. split; [intros; contradiction|].
    split; [intros; contradiction|]. intros _ addr Ha. simpl in Ha. lia.
  - destruct H as (C & I & E). rewrite nodes_at_ins in C, I. rewrite empties_at_ins in E.
    simpl size in C.
    destruct (IH (off + sz) T emp) as (s1 & E1 & W1 & B1 & _).
    { split; [|split]; auto. intros r Hr Hne. destruct (C r Hr Hne) as [X|X]; [left; auto|].
      right. unfold ooc in *. lia. }
    exists s1. rewrite nodes_at_ins. simpl size. split; [auto|]. split; [|split; [auto|discriminate]].
    intros r Hr. destruct (W1 r Hr). unfold within. lia.
  - pose proof (good_wf _ _ Hl) as Wl.
    destruct H as (C & I & E). rewrite nodes_at_empty in C, I by auto.
    rewrite empties_at_empty in E by auto. simpl size in C.
    destruct (IH off T emp) as (s1 & E1 & W1 & B1 & A1).
    { split; [|split]; auto. intros a Ha. apply E. right. auto. }
    exists s1. rewrite nodes_at_empty by auto. simpl size. auto.
  - pose proof (good_wf _ _ Hb) as Wb. pose proof (good_wf _ _ Hl) as Wl.
    replace (Start n :: body ++ End n :: l) with ((Start n :: body ++ [End n]) ++ l) in *
      by (simpl; rewrite <- app_assoc; reflexivity).
    apply combine; auto.
    + apply wf_single; auto.
    + apply stmt_chunk; auto.
  - pose proof (good_wf _ _ Hm) as Wm. pose proof (good_wf _ _ Hl) as Wl.
    replace (Start n :: (pre ++ mid ++ post) ++ End n :: l)
      with ((Start n :: (pre ++ mid ++ post) ++ [End n]) ++ l) in *
      by (simpl; rewrite <- app_assoc; reflexivity).
    apply combine; auto.
    + apply wf_single. apply wf_app; [apply flat_wf; auto|]. apply wf_app; auto. apply flat_wf; auto.
    + apply block_chunk; auto.
Qed.

(* ====================================================================== *)
(* the statement about the final table                                    *)

Lemma body_covered_lemma l : good true l ->
  forall routines stmts others sz, debug_map l = DOk routines stmts others sz ->
  forall s, run (cinit 0) l = COk s ->
  forall n bs be, In (n, bs, be) (c_nodes s) -> is_block_node n = true ->
  forall addr, bs <= addr < be ->
  exists r, In r stmts /\ r_start r <= addr < r_end r /\ bs <= r_start r /\ r_end r <= be.
Proof.
  intros G routines stmts others sz HD s HR n bs be Hin K addr Haddr.
  pose proof (good_wf _ _ G) as W.
  unfold debug_map in HD. rewrite (run_frame l W) in HD, HR. simpl in HD, HR.
  inversion HD; subst. inversion HR; subst. simpl in Hin. clear HD HR.
  destruct (cover_main true l G 0 (stmts_of (nodes_at 0 l)) (empties_at 0 l))
    as (synth & E & _ & B & _).
  { split; [|split]; try apply incl_refl. intros r Hr _. left. auto. }
  destruct (B n bs be) with (addr := addr) as (r & Hr & Hc & Hw); auto.
  { unfold blocks_of. apply filter_In. split; auto. }
  exists r. split.
  - unfold finalize. apply in_sort_by. rewrite add_nodes_blocks, add_nodes_stmts, E. auto.
  - unfold covers, within in *. lia.
Qed.
