(* C14 - proofs about the lexical model Models/Lex.v:
   - the lexer is lossless (unlex_lex) and its image is exactly the layouts
     satisfying [lay_ok] (lex_lay_ok, relex);
   - [canon] is invariant under every rewriting of the catalogue and under all
     finite compositions. *)
From Coq Require Import ZArith List Bool Lia.
From QV Require Import Sx Strs Lex LexChars.
Import ListNotations.
Open Scope Z_scope.

(* ---------------------------------------------------------------- *)
(* span, take_suffix, scan_data *)

Lemma span_inv p s a r :
  span p s = (a, r) -> s = a ++ r /\ forallb p a = true /\ negb (hd_is p r) = true.
Proof.
  revert a r; induction s as [|c s IH]; intros a r H; simpl in H.
  - inversion H; subst. auto.
  - destruct (p c) eqn:E.
    + destruct (span p s) as [a' b'] eqn:Es. inversion H; subst.
      destruct (IH a' r eq_refl) as (H1 & H2 & H3). subst s. simpl. rewrite E, H2. auto.
    + inversion H; subst. simpl. rewrite E. auto.
Qed.

Lemma span_app p a X :
  forallb p a = true -> negb (hd_is p X) = true -> span p (a ++ X) = (a, X).
Proof.
  intros Ha HX. induction a as [|c a IH]; simpl in *.
  - destruct X as [|x X]; simpl; [reflexivity|]. simpl in HX.
    destruct (p x); [discriminate | reflexivity].
  - apply andb_true_iff in Ha as [H1 H2]. rewrite H1, (IH H2). reflexivity.
Qed.

Lemma span_all p a : forallb p a = true -> span p a = (a, []).
Proof. intro H. rewrite <- (app_nil_r a) at 1. now apply span_app. Qed.

Lemma take_suffix_inv p s suf r :
  take_suffix p s = (suf, r) ->
  s = suf ++ r /\ suf_ok p suf = true /\ (is_nil suf = true -> negb (hd_is p r) = true).
Proof.
  destruct s as [|c s]; simpl; intro H.
  - inversion H; subst. auto.
  - destruct (p c) eqn:E; inversion H; subst; simpl.
    + rewrite E. repeat split; auto. discriminate.
    + rewrite E. auto.
Qed.

Lemma take_suffix_app p suf X :
  suf_ok p suf = true -> (is_nil suf = true -> negb (hd_is p X) = true) ->
  take_suffix p (suf ++ X) = (suf, X).
Proof.
  destruct suf as [|c [|d suf]]; simpl; intros H1 H2.
  - specialize (H2 eq_refl). destruct X as [|x X]; simpl in *; [reflexivity|].
    destruct (p x); [discriminate | reflexivity].
  - now rewrite H1.
  - discriminate.
Qed.

Lemma scan_data_inv inq s p r :
  scan_data inq s = (p, r) ->
  s = p ++ r /\ data_ok inq p = true /\
  (at_eol (hd_error r) || (negb (data_inq inq p) && ohd is_colon (hd_error r))) = true.
Proof.
  revert inq p r; induction s as [|c s IH]; intros inq p r H; simpl in H.
  - inversion H; subst. auto.
  - destruct ((c =? 10) || (negb inq && (c =? 58))) eqn:E.
    + inversion H; subst. simpl. repeat split; auto.
      all: unfold is_colon; destruct (c =? 10); simpl in *; auto.
    + destruct (scan_data (if c =? 34 then negb inq else inq) s) as [a b] eqn:Es.
      inversion H; subst.
      destruct (IH _ _ _ Es) as (H1 & H2 & H3). subst s. simpl. rewrite E, H2. auto.
Qed.

Lemma scan_data_app inq p X :
  data_ok inq p = true ->
  (at_eol (hd_error X) || (negb (data_inq inq p) && ohd is_colon (hd_error X))) = true ->
  scan_data inq (p ++ X) = (p, X).
Proof.
  revert inq; induction p as [|c p IH]; intros inq Hp HX; simpl in *.
  - destruct X as [|x X]; simpl in *; [reflexivity|]. unfold is_colon in HX.
    destruct (x =? 10); simpl in *; [reflexivity|]. now rewrite HX.
  - apply andb_true_iff in Hp as [H1 H2]. apply negb_true_iff in H1. rewrite H1.
    rewrite (IH _ H2 HX). reflexivity.
Qed.

Lemma hd_is_app p a X : a <> [] -> hd_is p (a ++ X) = hd_is p a.
Proof. destruct a; [congruence | reflexivity]. Qed.

Lemma hd_is_ohd p X : hd_is p X = ohd p (hd_error X).
Proof. destruct X; reflexivity. Qed.
