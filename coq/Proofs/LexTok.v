(* C14 - one lexer step, both directions:
   next_tok_inv : what [next_tok] returns satisfies [tok_ok]/[stops] and
                  text t ++ rest = input;
   next_tok_spec: a token satisfying [tok_ok] whose follower satisfies [stops]
                  is exactly what [next_tok] returns on its text. *)
From Coq Require Import ZArith List Bool Lia.
From QV Require Import Sx Strs Lex LexChars LexSpan.
Import ListNotations.
Open Scope Z_scope.

Arguments lex_str : simpl never.
Arguments lex_num : simpl never.
Arguments lex_hex : simpl never.
Arguments lex_word : simpl never.
Arguments lex_rel : simpl never.

Lemma onhd_hd p X : onhd p (hd_error X) = negb (hd_is p X).
Proof. destruct X; reflexivity. Qed.

Lemma nhd_not_nl_eol X : negb (hd_is not_nl X) = true -> at_eol (hd_error X) = true.
Proof. destruct X; simpl; [reflexivity|]. unfold not_nl. now rewrite negb_involutive. Qed.

Lemma eol_nhd_not_nl X : at_eol (hd_error X) = true -> negb (hd_is not_nl X) = true.
Proof. destruct X; simpl; [reflexivity|]. unfold not_nl. now rewrite negb_involutive. Qed.

Lemma ho_alnum c : is_ho c = true -> is_alnum c = true.
Proof.
  unfold is_ho, lower_ch. destruct (is_upper c) eqn:E; intro H; bz.
Qed.

Lemma dat_not_rem run : is_dat run = true -> is_rem run = false.
Proof.
  unfold is_dat, is_rem. intro H. apply str_eqb_eq in H. rewrite H. reflexivity.
Qed.

Lemma hd_is_app_or p a X :
  hd_is p a = false -> (a = [] -> hd_is p X = false) -> hd_is p (a ++ X) = false.
Proof. destruct a; simpl; auto. Qed.

Lemma eol_not p X :
  (forall c, (c =? 10) = true -> p c = false) ->
  at_eol (hd_error X) = true -> hd_is p X = false.
Proof. destruct X; simpl; auto. Qed.

(* ---------------------------------------------------------------- *)
(* inversion, branch by branch *)

Definition inv_goal (c : Z) (s : str) (t : token) (r : str) : Prop :=
  exists u, text t = c :: u /\ s = u ++ r /\ tok_ok t = true /\ stops t (hd_error r) = true.

Lemma lex_str_inv s t r : lex_str s = (t, r) -> inv_goal 34 s t r.
Proof.
  unfold lex_str, inv_goal. destruct (span is_strch s) as [body r0] eqn:E.
  apply span_inv in E as (E1 & E2 & E3). intro H.
  destruct r0 as [|q r'].
  - inversion H; subst. exists body. simpl. rewrite app_nil_r. auto.
  - destruct (q =? 34) eqn:Q; inversion H; subst.
    + apply Z.eqb_eq in Q. subst q. exists (body ++ [34]). simpl. rewrite <- app_assoc. auto.
    + exists body. simpl. repeat split; auto.
      simpl in E3. unfold is_strch in E3. rewrite negb_involutive, Q in E3. exact E3.
Qed.

Lemma lex_num_inv c s t r :
  (is_digit c || ((c =? 46) && hd_is is_digit s)) = true ->
  lex_num c s = (t, r) -> inv_goal c s t r.
Proof.
  intros Hc. unfold lex_num, inv_goal.
  destruct (span is_numch s) as [run0 r0] eqn:E. apply span_inv in E as (E1 & E2 & E3).
  assert (Hhd : (is_digit c || ((c =? 46) && hd_is is_digit run0)) = true).
  { destruct (is_digit c); [reflexivity|]. simpl in *.
    apply andb_true_iff in Hc as [Hc1 Hc2]. rewrite Hc1. simpl.
    subst s. destruct run0 as [|d run0]; simpl in *; [|exact Hc2].
    destruct r0 as [|x r0]; [discriminate|]. simpl in *.
    rewrite (digit_numch _ Hc2) in E3. discriminate. }
  destruct r0 as [|sg r'].
  - simpl. intro H. inversion H; subst. exists run0.
    split; [simpl; now rewrite ?app_nil_r|]. split; [reflexivity|]. split.
    { cbn [tok_ok]. rewrite Hhd, E2. reflexivity. }
    cbn [stops is_nil hd_error onhd ohd negb orb andb]. now rewrite andb_false_r.
  - destruct (is_sign sg && ends_exp (c :: run0)) eqn:Esg.
    + destruct (span is_alnum r') as [run2 r2] eqn:E'. apply span_inv in E' as (F1 & F2 & F3).
      destruct (take_suffix is_numsuffix r2) as [suf r3] eqn:Ts.
      apply take_suffix_inv in Ts as (G1 & G2 & G3).
      intro H. inversion H; subst. exists (run0 ++ (sg :: run2) ++ suf).
      split; [reflexivity|]. split.
      { rewrite <- !app_assoc. reflexivity. }
      split.
      { cbn [tok_ok]. apply andb_true_iff in Esg as [S1 S2].
        rewrite Hhd, E2, S1, S2, F2, G2. reflexivity. }
      cbn [stops is_nil]. destruct suf as [|x suf]; [|reflexivity].
      cbn [is_nil negb orb]. specialize (G3 eq_refl). simpl in F3.
      rewrite !onhd_hd, G3, F3. reflexivity.
    + destruct (take_suffix is_numsuffix (sg :: r')) as [suf r3] eqn:Ts.
      apply take_suffix_inv in Ts as (G1 & G2 & G3).
      intro H. inversion H; subst. exists (run0 ++ suf).
      split; [reflexivity|]. split.
      { rewrite <- app_assoc. now rewrite G1. }
      split.
      { cbn [tok_ok]. rewrite Hhd, E2, G2. reflexivity. }
      cbn [stops is_nil]. destruct suf as [|x suf]; [|reflexivity].
      cbn [is_nil negb orb]. specialize (G3 eq_refl). simpl in G1. subst r.
      rewrite !onhd_hd, G3, E3. cbn [hd_error ohd]. rewrite andb_comm in Esg. rewrite Esg.
      reflexivity.
Qed.

Lemma lex_hex_inv s t r :
  hd_is is_ho s = true -> lex_hex s = (t, r) -> inv_goal 38 s t r.
Proof.
  intros Hh. unfold lex_hex, inv_goal.
  destruct (span is_alnum s) as [run r0] eqn:E. apply span_inv in E as (E1 & E2 & E3).
  destruct (take_suffix is_numsuffix r0) as [suf r3] eqn:Ts.
  apply take_suffix_inv in Ts as (G1 & G2 & G3).
  intro H. inversion H; subst. exists (run ++ suf).
  split; [reflexivity|]. split; [now rewrite app_assoc|]. split.
  { cbn [tok_ok]. rewrite E2, G2.
    assert (hd_is is_ho run = true) as ->; [|reflexivity].
    destruct run as [|h run]; [|exact Hh]. simpl in *.
    destruct (suf ++ r) as [|x y]; [discriminate|]. simpl in *.
    rewrite (ho_alnum _ Hh) in E3. discriminate. }
  cbn [stops]. destruct suf as [|x suf]; [|reflexivity].
  cbn [is_nil negb orb]. specialize (G3 eq_refl). simpl in E3.
  rewrite !onhd_hd, G3, E3. reflexivity.
Qed.

Lemma lex_word_inv c s t r :
  is_alpha c = true -> lex_word c s = (t, r) -> inv_goal c s t r.
Proof.
  intros Hc. unfold lex_word, inv_goal.
  destruct (span is_alnum s) as [run0 r0] eqn:E. apply span_inv in E as (E1 & E2 & E3).
  assert (Hw : is_word (c :: run0) = true) by (simpl; now rewrite Hc, E2).
  destruct (is_rem (c :: run0) && negb (hd_is is_dollar r0)) eqn:K1.
  { destruct (span not_nl r0) as [b r1] eqn:Eb. apply span_inv in Eb as (B1 & B2 & B3).
    intro H. inversion H; subst. exists (run0 ++ b).
    apply andb_true_iff in K1 as [K1 K1'].
    split; [reflexivity|]. split; [now rewrite app_assoc|]. split.
    { cbn [tok_ok]. rewrite Hw, K1, B2. simpl.
      destruct b as [|x b]; [reflexivity|]. simpl in *. now rewrite K1', E3. }
    cbn [stops]. now apply nhd_not_nl_eol. }
  destruct (is_dat (c :: run0) && negb (hd_is is_dollar r0)) eqn:K2.
  { destruct (scan_data false r0) as [p r1] eqn:Ed. apply scan_data_inv in Ed as (B1 & B2 & B3).
    intro H. inversion H; subst. exists (run0 ++ p).
    apply andb_true_iff in K2 as [K2 K2'].
    split; [reflexivity|]. split; [now rewrite app_assoc|]. split.
    { cbn [tok_ok]. rewrite Hw, K2, B2, (dat_not_rem _ K2). simpl.
      destruct p as [|x p]; [reflexivity|]. simpl in *. now rewrite K2', E3. }
    cbn [stops]. exact B3. }
  destruct (take_suffix is_suffix r0) as [suf r1] eqn:Ts.
  intro H. inversion H; subst.
  exists (run0 ++ suf).
  split; [reflexivity|].
  destruct (is_rem (c :: run0) || is_dat (c :: run0)) eqn:K.
  - assert (Hd : hd_is is_dollar r0 = true).
    { destruct (is_rem (c :: run0)), (is_dat (c :: run0)), (hd_is is_dollar r0);
        simpl in *; congruence. }
    destruct r0 as [|d r0']; [discriminate|]. simpl in Hd. unfold is_dollar in Hd.
    apply Z.eqb_eq in Hd. subst d. unfold take_suffix in Ts.
    replace (is_suffix 36) with true in Ts by reflexivity. inversion Ts; subst.
    split; [now rewrite <- app_assoc|]. split.
    { cbn [tok_ok]. rewrite Hw, K. reflexivity. }
    reflexivity.
  - apply take_suffix_inv in Ts as (G1 & G2 & G3).
    split; [rewrite <- app_assoc; now rewrite G1|]. split.
    { cbn [tok_ok]. rewrite Hw, K, G2. reflexivity. }
    cbn [stops]. destruct suf as [|x suf]; [|reflexivity].
    cbn [is_nil negb orb]. specialize (G3 eq_refl). simpl in G1. subst r.
    rewrite !onhd_hd, G3, E3. reflexivity.
Qed.

Lemma lex_rel_inv c s t r :
  is_relch c = true -> op_start c = true -> lex_rel c s = (t, r) -> inv_goal c s t r.
Proof.
  intros Hr Ho. unfold lex_rel, inv_goal. destruct s as [|d s'].
  - intro H. inversion H; subst. exists []. cbn [text tok_ok stops]. rewrite Hr, Ho. auto.
  - destruct (is_relch d && negb (d =? c)) eqn:K; intro H; inversion H; subst.
    + exists [d]. cbn [text tok_ok stops]. apply andb_true_iff in K as [K1 K2].
      rewrite Hr, K1, K2. auto.
    + exists []. cbn [text tok_ok stops]. rewrite Hr, Ho. unfold onhd, ohd. cbn [hd_error].
      rewrite K. auto.
Qed.

Theorem next_tok_inv c s t r :
  is_blank c = false -> next_tok c s = (t, r) ->
  exists u, text t = c :: u /\ s = u ++ r /\ tok_ok t = true /\ stops t (hd_error r) = true.
Proof.
  intros Hb. unfold next_tok. fold (inv_goal c s t r).
  destruct (c =? 10) eqn:C1.
  { intro H; inversion H; subst. apply Z.eqb_eq in C1; subst c. exists []. auto. }
  destruct (c =? 34) eqn:C2.
  { intro H. apply Z.eqb_eq in C2; subst c. now apply lex_str_inv. }
  destruct (c =? 39) eqn:C3.
  { destruct (span not_nl s) as [b r0] eqn:E. apply span_inv in E as (E1 & E2 & E3).
    intro H; inversion H; subst. apply Z.eqb_eq in C3; subst c. exists b.
    cbn [text tok_ok stops]. repeat split; auto. now apply nhd_not_nl_eol. }
  destruct (c =? 58) eqn:C4.
  { intro H; inversion H; subst. apply Z.eqb_eq in C4; subst c. exists []. auto. }
  destruct (is_digit c || ((c =? 46) && hd_is is_digit s)) eqn:C5.
  { now apply lex_num_inv. }
  destruct ((c =? 38) && hd_is is_ho s) eqn:C6.
  { apply andb_true_iff in C6 as [C6 C6']. apply Z.eqb_eq in C6; subst c. now apply lex_hex_inv. }
  destruct (is_alpha c) eqn:C7.
  { now apply lex_word_inv. }
  assert (Hop : op_start c = true).
  { unfold op_start. rewrite Hb, C1, C2, C3, C4, C7.
    apply orb_false_iff in C5 as [C5 _]. rewrite C5. reflexivity. }
  destruct (is_relch c) eqn:C8.
  { now apply lex_rel_inv. }
  intro H; inversion H; subst. exists []. cbn [text tok_ok stops].
  repeat split; auto. rewrite C8. destruct (c =? 46) eqn:D1.
  - apply orb_false_iff in C5 as [_ C5]. simpl in C5.
    now rewrite onhd_hd, C5.
  - destruct (c =? 38) eqn:D2; [|reflexivity]. simpl in C6. now rewrite onhd_hd, C6.
Qed.

