(* The pure evaluator of Models/ExprCodegen.v (peval) IS the reference
   interpreter (Src/Sem.v eval) on pure expressions: for every interpreter
   state whose frame binds the variables of e to scalar locations holding the
   values of the environment, eval returns exactly peval's result and leaves
   the state unchanged. *)
From Coq Require Import ZArith List Bool Lia.
From QV Require Import Sx Strs Fl Cell SemBase Sem Machine Cpu ExprCodegen.
Import ListNotations.
Open Scope Z_scope.

Fixpoint to_expr (e : pexpr) : expr :=
  match e with
  | PLit c => ELit c
  | PStrLit _ s => ELit (CStr s)
  | PVar i _ => EVar i
  | PUn o a => EUn o (to_expr a)
  | PBin o l r => EBin o (to_expr l) (to_expr r)
  | PPar a => EPar (to_expr a)
  end.

(* the interpreter state holds the environment rho for the variables of e *)
Fixpoint sem_rel (rho : Z -> option cell) (s : state) (e : pexpr) : Prop :=
  match e with
  | PLit _ | PStrLit _ _ => True
  | PVar i t =>
    exists a, lookup_env i (f_env (s_frame s)) = Some (BVar a (EScalar t)) /\ 0 <= a /\
              nth_error (s_mem s) (Z.to_nat a) =
              Some (match rho i with Some c => c | None => default_of t end)
  | PUn _ a | PPar a => sem_rel rho s a
  | PBin _ l r => sem_rel rho s l /\ sem_rel rho s r
  end.

Definition res_of (r : pres cell) (s : state) : res cell :=
  match r with POk v => Ok v s | PErr e => Err e 0 s | PStuck w => Stuck w end.

Lemma lift_res (r : pres cell) s : lift r s = res_of r s.
Proof. destruct r; reflexivity. Qed.

Theorem peval_is_eval P q callf rho e :
  forall s, sem_rel rho s e ->
            eval P q callf (to_expr e) s = res_of (peval q rho e) s.
Proof.
  induction e as [c | idx s0 | i t | o a IH | o l IHl r IHr | a IH]; intros s H; simpl in H.
  - reflexivity.
  - reflexivity.
  - destruct H as [a [Hl [Ha Hn]]].
    simpl. unfold Sem.bind, resolve. rewrite Hl. simpl.
    unfold read_mem. destruct (Z.ltb_spec a 0); [lia|]. rewrite Hn.
    destruct (rho i); reflexivity.
  - simpl. unfold Sem.bind. rewrite (IH s H).
    destruct (peval q rho a) as [v | er | w]; simpl; [apply lift_res | reflexivity | reflexivity].
  - destruct H as [H1 H2].
    simpl. unfold Sem.bind. rewrite (IHl s H1).
    destruct (peval q rho l) as [v | er | w]; simpl; [| reflexivity | reflexivity].
    rewrite (IHr s H2).
    destruct (peval q rho r) as [v2 | er | w]; simpl; [apply lift_res | reflexivity | reflexivity].
  - simpl. exact (IH s H).
Qed.
