(* Specification and proofs for Models/DebugMap.v (property C11). *)
From Coq Require Import ZArith List Bool Lia.
From QV Require Import DebugMap.
Import ListNotations.
Open Scope Z_scope.

(* ====================================================================== *)
(* Specification vocabulary                                               *)

(* code bytes emitted by a marker stream *)
Fixpoint size (l : list item) : Z :=
  match l with
  | [] => 0
  | Ins sz :: r => sz + size r
  | _ :: r => size r
  end.

(* Well-nested marker streams, as a balanced-parentheses grammar: this is how
   BaseCodeGen.gen_code_for_node emits a statement:
       Start n; (instructions, empty-block markers, nested statements)*; End n *)
Inductive wf_markers : list item -> Prop :=
| wf_nil : wf_markers []
| wf_ins sz l : 0 < sz -> wf_markers l -> wf_markers (Ins sz :: l)
| wf_empty l : wf_markers l -> wf_markers (EmptyBlock :: l)
| wf_node n body l :
    wf_markers body -> wf_markers l -> wf_markers (Start n :: body ++ End n :: l).

(* offsets at which an instruction starts, when the stream is laid out from [off] *)
Fixpoint ins_starts (off : Z) (l : list item) : list Z :=
  match l with
  | [] => []
  | Ins sz :: r => off :: ins_starts (off + sz) r
  | _ :: r => ins_starts off r
  end.

(* an instruction start or the end of the code *)
Definition on_boundary (off : Z) (l : list item) (x : Z) : Prop :=
  In x (ins_starts off l) \/ x = off + size l.

(* two half-open ranges are nested or disjoint *)
Definition laminar (s1 e1 s2 e2 : Z) : Prop :=
  (s1 <= s2 /\ e2 <= e1) \/ (s2 <= s1 /\ e1 <= e2) \/ e1 <= s2 \/ e2 <= s1.

Definition rec_laminar (a b : rec) : Prop :=
  laminar (r_start a) (r_end a) (r_start b) (r_end b).

(* what the collector records for a stream laid out from [off] *)
Definition nodes_at (off : Z) (l : list item) : list cnode :=
  match run (cinit off) l with COk s => c_nodes s | _ => [] end.
Definition empties_at (off : Z) (l : list item) : list Z :=
  match run (cinit off) l with COk s => c_empty s | _ => [] end.

(* ====================================================================== *)
(* The collector on well-nested streams                                   *)

Lemma size_app a b : size (a ++ b) = size a + size b.
Proof.
  induction a as [|i a IH]; simpl; [lia|]. destruct i; rewrite ?IH; lia.
Qed.

Lemma wf_size_nonneg l : wf_markers l -> 0 <= size l.
Proof.
  induction 1; simpl; try lia. rewrite size_app. simpl. lia.
Qed.

Lemma run_app s a b :
  run s (a ++ b) = match run s a with COk s' => run s' b | e => e end.
Proof.
  revert s. induction a as [|i a IH]; intros s; simpl; [reflexivity|].
  destruct (step s i); auto.
Qed.

(* frame property: a well-nested stream leaves the stack as it found it and
   only appends to the two result lists, by amounts that depend on the
   current offset alone *)
Lemma run_frame l : wf_markers l -> forall s,
  run s l = COk (mkC (c_off s + size l) (c_stack s)
                     (c_nodes s ++ nodes_at (c_off s) l)
                     (c_empty s ++ empties_at (c_off s) l)).
Proof.
  induction 1 as [|sz l Hsz Hl IH|l Hl IH|n body l Hb IHb Hl IHl]; intros s.
  - unfold nodes_at, empties_at. simpl. rewrite !app_nil_r, Z.add_0_r. destruct s; reflexivity.
  - assert (E : forall s0, run s0 (Ins sz :: l) =
               COk (mkC (c_off s0 + (sz + size l)) (c_stack s0)
                        (c_nodes s0 ++ nodes_at (c_off s0 + sz) l)
                        (c_empty s0 ++ empties_at (c_off s0 + sz) l))).
    { intros s0. simpl. rewrite IH. simpl. f_equal. f_equal. lia. }
    rewrite E. unfold nodes_at at 2, empties_at at 2. rewrite E. simpl. reflexivity.
  - assert (E : forall s0, run s0 (EmptyBlock :: l) =
               COk (mkC (c_off s0 + size l) (c_stack s0)
                        (c_nodes s0 ++ nodes_at (c_off s0) l)
                        (c_empty s0 ++ c_off s0 :: empties_at (c_off s0) l))).
    { intros s0. simpl. rewrite IH. simpl. rewrite <- app_assoc. reflexivity. }
    rewrite E. unfold nodes_at at 2, empties_at at 2. rewrite E. simpl. reflexivity.
  - assert (E : forall s0, run s0 (Start n :: body ++ End n :: l) =
               COk (mkC (c_off s0 + (size body + size l)) (c_stack s0)
                        (c_nodes s0 ++ nodes_at (c_off s0) body
                           ++ (n, c_off s0, c_off s0 + size body)
                           :: nodes_at (c_off s0 + size body) l)
                        (c_empty s0 ++ empties_at (c_off s0) body
                           ++ empties_at (c_off s0 + size body) l))).
    { intros s0. simpl. rewrite run_app, IHb. simpl. rewrite Z.eqb_refl.
      rewrite IHl. simpl. f_equal. f_equal; [lia| |].
      - rewrite <- !app_assoc. reflexivity.
      - rewrite <- !app_assoc. reflexivity. }
    rewrite E. unfold nodes_at at 3, empties_at at 3. rewrite E. simpl.
    rewrite size_app. simpl. reflexivity.
Qed.

(* the assertion of DebugInfoCollector.end_node never fires, nothing is
   popped from an empty stack *)
Lemma collect_total_lemma l : wf_markers l ->
  exists routines stmts others, debug_map l = DOk routines stmts others (size l).
Proof.
  intros H. unfold debug_map. rewrite (run_frame l H). simpl. eauto.
Qed.

(* equations for nodes_at / empties_at *)
Lemma nodes_at_nil off : nodes_at off [] = [].
Proof. reflexivity. Qed.
Lemma empties_at_nil off : empties_at off [] = [].
Proof. reflexivity. Qed.

Lemma nodes_at_ins off sz l : nodes_at off (Ins sz :: l) = nodes_at (off + sz) l.
Proof. reflexivity. Qed.
Lemma empties_at_ins off sz l : empties_at off (Ins sz :: l) = empties_at (off + sz) l.
Proof. reflexivity. Qed.

Lemma nodes_at_empty off l : wf_markers l -> nodes_at off (EmptyBlock :: l) = nodes_at off l.
Proof.
  intros H. unfold nodes_at at 1. simpl. rewrite (run_frame l H). reflexivity.
Qed.
Lemma empties_at_empty off l : wf_markers l ->
  empties_at off (EmptyBlock :: l) = off :: empties_at off l.
Proof.
  intros H. unfold empties_at at 1. simpl. rewrite (run_frame l H). reflexivity.
Qed.

Lemma nodes_at_app off a b : wf_markers a -> wf_markers b ->
  nodes_at off (a ++ b) = nodes_at off a ++ nodes_at (off + size a) b.
Proof.
  intros Ha Hb. unfold nodes_at at 1. rewrite run_app, (run_frame a Ha). simpl.
  rewrite (run_frame b Hb). simpl. reflexivity.
Qed.
Lemma empties_at_app off a b : wf_markers a -> wf_markers b ->
  empties_at off (a ++ b) = empties_at off a ++ empties_at (off + size a) b.
Proof.
  intros Ha Hb. unfold empties_at at 1. rewrite run_app, (run_frame a Ha). simpl.
  rewrite (run_frame b Hb). simpl. reflexivity.
Qed.

Lemma nodes_at_node off n body l : wf_markers body -> wf_markers l ->
  nodes_at off (Start n :: body ++ End n :: l) =
  nodes_at off body ++ (n, off, off + size body) :: nodes_at (off + size body) l.
Proof.
  intros Hb Hl. unfold nodes_at at 1. simpl. rewrite run_app, (run_frame body Hb). simpl.
  rewrite Z.eqb_refl, (run_frame l Hl). simpl. rewrite <- app_assoc. reflexivity.
Qed.
Lemma empties_at_node off n body l : wf_markers body -> wf_markers l ->
  empties_at off (Start n :: body ++ End n :: l) =
  empties_at off body ++ empties_at (off + size body) l.
Proof.
  intros Hb Hl. unfold empties_at at 1. simpl. rewrite run_app, (run_frame body Hb). simpl.
  rewrite Z.eqb_refl, (run_frame l Hl). simpl. reflexivity.
Qed.

Lemma wf_app a b : wf_markers a -> wf_markers b -> wf_markers (a ++ b).
Proof.
  induction 1; intros Hb; simpl; auto.
  - constructor; auto.
  - constructor; auto.
  - rewrite <- app_assoc. simpl. constructor; auto.
Qed.

Lemma wf_single n body : wf_markers body -> wf_markers (Start n :: body ++ [End n]).
Proof. intros. constructor; auto. constructor. Qed.

(* ====================================================================== *)
(* records_on_boundaries                                                  *)

Lemma ins_starts_app off a b :
  ins_starts off (a ++ b) = ins_starts off a ++ ins_starts (off + size a) b.
Proof.
  revert off. induction a as [|i a IH]; intros off; simpl.
  - rewrite Z.add_0_r. reflexivity.
  - destruct i; simpl; rewrite IH; try reflexivity. f_equal. f_equal. f_equal. lia.
Qed.

Lemma start_on_boundary l : forall off, on_boundary off l off.
Proof.
  induction l as [|i l IH]; intros off; unfold on_boundary; simpl.
  - right. lia.
  - destruct i; simpl; auto; apply IH.
Qed.

Lemma on_boundary_app_l off a b x : on_boundary off a x -> on_boundary off (a ++ b) x.
Proof.
  intros [H|H]; unfold on_boundary.
  - left. rewrite ins_starts_app. apply in_or_app. auto.
  - subst x. destruct (start_on_boundary b (off + size a)) as [H|H].
    + left. rewrite ins_starts_app. apply in_or_app. auto.
    + right. rewrite size_app. lia.
Qed.

Lemma on_boundary_app_r off a b x : on_boundary (off + size a) b x -> on_boundary off (a ++ b) x.
Proof.
  intros [H|H]; unfold on_boundary.
  - left. rewrite ins_starts_app. apply in_or_app. auto.
  - right. rewrite size_app. lia.
Qed.

Lemma on_boundary_cons_marker off i l x :
  (forall sz, i <> Ins sz) -> on_boundary off l x -> on_boundary off (i :: l) x.
Proof.
  intros Hi H. destruct i; try exact H. exfalso. eapply Hi. reflexivity.
Qed.

Lemma on_boundary_ins off sz l x : on_boundary (off + sz) l x -> on_boundary off (Ins sz :: l) x.
Proof.
  intros [H|H]; unfold on_boundary; simpl; [left; auto | right; lia].
Qed.

Lemma collected_on_boundaries l : wf_markers l -> forall off,
  (forall n s e, In (n, s, e) (nodes_at off l) -> on_boundary off l s /\ on_boundary off l e) /\
  (forall a, In a (empties_at off l) -> on_boundary off l a).
Proof.
  induction 1 as [|sz l Hsz Hl IH|l Hl IH|n body l Hb IHb Hl IHl]; intros off.
  - split; intros; contradiction.
  - rewrite nodes_at_ins, empties_at_ins. destruct (IH (off + sz)) as [A B]. split.
    + intros n s e Hin. destruct (A n s e Hin). split; apply on_boundary_ins; auto.
    + intros a Hin. apply on_boundary_ins; auto.
  - rewrite nodes_at_empty, empties_at_empty by auto. destruct (IH off) as [A B]. split.
    + intros n s e Hin. destruct (A n s e Hin). split; apply on_boundary_cons_marker; auto; discriminate.
    + intros a [Ha|Hin].
      * subst a. apply on_boundary_cons_marker; [discriminate|]. apply start_on_boundary.
      * apply on_boundary_cons_marker; [discriminate|]. auto.
  - rewrite nodes_at_node, empties_at_node by auto.
    destruct (IHb off) as [A1 B1]. destruct (IHl (off + size body)) as [A2 B2].
    assert (L : forall x, on_boundary off body x ->
                          on_boundary off (Start n :: body ++ End n :: l) x).
    { intros x Hx. apply on_boundary_cons_marker; [discriminate|]. apply on_boundary_app_l; auto. }
    assert (R : forall x, on_boundary (off + size body) l x ->
                          on_boundary off (Start n :: body ++ End n :: l) x).
    { intros x Hx. apply on_boundary_cons_marker; [discriminate|]. apply on_boundary_app_r.
      apply on_boundary_cons_marker; [discriminate|]. auto. }
    split.
    + intros m s e Hin. apply in_app_or in Hin. destruct Hin as [Hin|[Heq|Hin]].
      * destruct (A1 m s e Hin). split; apply L; auto.
      * inversion Heq; subst. split.
        -- apply L. apply start_on_boundary.
        -- apply R. apply start_on_boundary.
      * destruct (A2 m s e Hin). split; apply R; auto.
    + intros a Hin. apply in_app_or in Hin. destruct Hin as [Hin|Hin]; [apply L|apply R]; auto.
Qed.

(* ====================================================================== *)
(* records_laminar (collected ranges)                                     *)

Lemma collected_laminar_aux l : wf_markers l -> forall off,
  (forall n s e, In (n, s, e) (nodes_at off l) -> off <= s /\ s <= e /\ e <= off + size l) /\
  (forall n1 s1 e1 n2 s2 e2, In (n1, s1, e1) (nodes_at off l) -> In (n2, s2, e2) (nodes_at off l) ->
      laminar s1 e1 s2 e2).
Proof.
  induction 1 as [|sz l Hsz Hl IH|l Hl IH|n body l Hb IHb Hl IHl]; intros off.
  - split; intros; contradiction.
  - rewrite nodes_at_ins. destruct (IH (off + sz)) as [A B]. split; [|exact B].
    intros n s e Hin. specialize (A n s e Hin). simpl. lia.
  - rewrite nodes_at_empty by auto. exact (IH off).
  - rewrite nodes_at_node by auto. simpl. rewrite size_app. simpl.
    destruct (IHb off) as [A1 B1]. destruct (IHl (off + size body)) as [A2 B2].
    pose proof (wf_size_nonneg body Hb) as Sb. pose proof (wf_size_nonneg l Hl) as Sl.
    split.
    + intros m s e Hin. apply in_app_or in Hin. destruct Hin as [Hin|[Heq|Hin]].
      * specialize (A1 m s e Hin). lia.
      * inversion Heq; subst. lia.
      * specialize (A2 m s e Hin). lia.
    + intros n1 s1 e1 n2 s2 e2 H1 H2. unfold laminar.
      apply in_app_or in H1. apply in_app_or in H2.
      destruct H1 as [H1|[H1|H1]]; destruct H2 as [H2|[H2|H2]];
        try (inversion H1; subst); try (inversion H2; subst);
        try (specialize (B1 _ _ _ _ _ _ H1 H2); exact B1);
        try (specialize (B2 _ _ _ _ _ _ H1 H2); exact B2);
        try (pose proof (A1 _ _ _ H1)); try (pose proof (A1 _ _ _ H2));
        try (pose proof (A2 _ _ _ H1)); try (pose proof (A2 _ _ _ H2)); lia.
Qed.

(* ====================================================================== *)
(* stable insertion sort                                                  *)

Lemma in_ins_by key x l y : In y (ins_by key x l) <-> y = x \/ In y l.
Proof.
  induction l as [|z l IH]; simpl.
  - intuition.
  - destruct (key x <=? key z); simpl; [intuition|]. rewrite IH. intuition.
Qed.

Lemma in_sort_by key l y : In y (sort_by key l) <-> In y l.
Proof.
  induction l as [|z l IH]; simpl; [reflexivity|].
  rewrite in_ins_by, IH. intuition.
Qed.

Lemma sort_by_nil_iff key l : sort_by key l = [] <-> l = [].
Proof.
  split; intros H; [|subst; reflexivity].
  destruct l as [|z l]; auto. exfalso.
  assert (In z (sort_by key (z :: l))) by (apply in_sort_by; left; reflexivity).
  rewrite H in H0. contradiction.
Qed.

Fixpoint sorted (key : rec -> Z) (l : list rec) : Prop :=
  match l with
  | [] => True
  | x :: r => (forall y, In y r -> key x <= key y) /\ sorted key r
  end.

Lemma ins_by_sorted key x l : sorted key l -> sorted key (ins_by key x l).
Proof.
  induction l as [|z l IH]; simpl; intros H.
  - split; [intros; contradiction | exact I].
  - destruct H as [Hz Hs]. destruct (key x <=? key z) eqn:E.
    + apply Z.leb_le in E. simpl. split; [|split; auto].
      intros y [Hy|Hy]; [subst; auto | specialize (Hz y Hy); lia].
    + apply Z.leb_gt in E. simpl. split; [|apply IH; auto].
      intros y Hy. apply in_ins_by in Hy. destruct Hy as [Hy|Hy]; [subst; lia | auto].
Qed.

Lemma sort_by_sorted key l : sorted key (sort_by key l).
Proof.
  induction l as [|z l IH]; simpl; [exact I | apply ins_by_sorted; auto].
Qed.

Lemma sorted_last key l d : sorted key l -> forall y, In y l -> key y <= key (last l d).
Proof.
  induction l as [|z l IH]; intros Hs y Hy; [contradiction|].
  destruct Hs as [Hz Hs]. destruct l as [|w l'].
  - destruct Hy as [Hy|[]]. subst. simpl. lia.
  - change (last (z :: w :: l') d) with (last (w :: l') d).
    destruct Hy as [Hy|Hy].
    + subst y. specialize (IH Hs w (or_introl eq_refl)). specialize (Hz w (or_introl eq_refl)). lia.
    + apply IH; auto.
Qed.

Lemma last_in (l : list rec) d : l <> [] -> In (last l d) l.
Proof.
  induction l as [|z l IH]; intros H; [congruence|].
  destruct l as [|w l']; [left; reflexivity|].
  right. apply IH. discriminate.
Qed.

(* the first element of least key, in list order *)
Fixpoint first_min (key : rec -> Z) (l : list rec) : option rec :=
  match l with
  | [] => None
  | x :: r => match first_min key r with
              | None => Some x
              | Some m => if key x <=? key m then Some x else Some m
              end
  end.

Lemma hd_sort_by key l : hd_error (sort_by key l) = first_min key l.
Proof.
  induction l as [|z l IH]; simpl; [reflexivity|].
  rewrite <- IH. destruct (sort_by key l) as [|w r]; simpl; [reflexivity|].
  destruct (key z <=? key w); reflexivity.
Qed.

(* first_min returns an element x = l1 ++ x :: l2 whose key is strictly below
   everything before it and at most everything after it *)
Lemma first_min_spec key l :
  match first_min key l with
  | None => l = []
  | Some m => exists l1 l2, l = l1 ++ m :: l2 /\
                            (forall y, In y l1 -> key m < key y) /\
                            (forall y, In y l2 -> key m <= key y)
  end.
Proof.
  induction l as [|z l IH]; simpl; [reflexivity|].
  destruct (first_min key l) as [m|].
  - destruct IH as (l1 & l2 & E & A & B). destruct (key z <=? key m) eqn:C.
    + apply Z.leb_le in C. exists [], l. split; [reflexivity|]. split; [intros; contradiction|].
      intros y Hy. subst l. apply in_app_or in Hy. destruct Hy as [Hy|[Hy|Hy]].
      * specialize (A y Hy). lia.
      * subst. lia.
      * specialize (B y Hy). lia.
    + apply Z.leb_gt in C. exists (z :: l1), l2. split; [subst; reflexivity|]. split; auto.
      intros y [Hy|Hy]; [subst; lia | auto].
  - subst l. exists [], []. split; [reflexivity|]. split; intros; contradiction.
Qed.

(* ====================================================================== *)
(* find_stmt                                                              *)

Lemma filter_not_block l : filter (fun r => negb (rec_is_block r)) l = l.
Proof. induction l; unfold rec_is_block in *; simpl in *; congruence. Qed.
Lemma filter_block l : filter rec_is_block l = [].
Proof. induction l; simpl; auto. Qed.

(* characterisation: the first record of least size among those containing addr *)
Lemma find_stmt_char stmts addr :
  find_stmt stmts addr =
  match first_min rsize (filter (contains addr) stmts) with
  | Some r => FFound r
  | None => FNone
  end.
Proof.
  unfold find_stmt. rewrite filter_not_block, filter_block.
  rewrite <- hd_sort_by. destruct (sort_by rsize _); reflexivity.
Qed.

(* D41: the block branch of find_stmt (which would raise NameError) is dead *)
Lemma find_stmt_block_branch_dead stmts addr : find_stmt stmts addr <> FNameError.
Proof.
  rewrite find_stmt_char. destruct (first_min _ _); discriminate.
Qed.

Lemma find_stmt_innermost_lemma stmts addr r :
  find_stmt stmts addr = FFound r ->
  In r stmts /\ r_start r <= addr < r_end r /\
  (forall r', In r' stmts -> r_start r' <= addr < r_end r' -> rsize r <= rsize r') /\
  (exists l1 l2, stmts = l1 ++ r :: l2 /\
     forall r', In r' l1 -> r_start r' <= addr < r_end r' -> rsize r < rsize r').
Proof.
  rewrite find_stmt_char.
  pose proof (first_min_spec rsize (filter (contains addr) stmts)) as S.
  destruct (first_min rsize _) as [m|]; [|discriminate].
  intros E. inversion E; subst m. clear E.
  destruct S as (l1 & l2 & E & A & B).
  assert (Hin : In r (filter (contains addr) stmts)).
  { rewrite E. apply in_or_app. right. left. reflexivity. }
  apply filter_In in Hin. destruct Hin as [Hin Hc].
  unfold contains in Hc. apply andb_true_iff in Hc. destruct Hc as [C1 C2].
  apply Z.leb_le in C1. apply Z.ltb_lt in C2.
  split; [auto|]. split; [lia|]. split.
  - intros r' Hr' Hc'.
    assert (Hf : In r' (filter (contains addr) stmts)).
    { apply filter_In. split; auto. unfold contains. apply andb_true_iff.
      split; [apply Z.leb_le | apply Z.ltb_lt]; lia. }
    rewrite E in Hf. apply in_app_or in Hf. destruct Hf as [Hf|[Hf|Hf]].
    + specialize (A r' Hf). lia.
    + subst. lia.
    + specialize (B r' Hf). lia.
  - (* split the unfiltered list at the occurrence that survives as the head of
       the filtered suffix *)
    clear B Hin C1 C2.
    revert l1 E A. induction stmts as [|z stmts IH]; intros l1 E A.
    + destruct l1; discriminate.
    + simpl in E. destruct (contains addr z) eqn:Cz.
      * destruct l1 as [|w l1].
        -- simpl in E. inversion E; subst. exists [], stmts. split; [reflexivity|].
           intros; contradiction.
        -- simpl in E. inversion E; subst w.
           destruct (IH l1 H1) as (k1 & k2 & E2 & A2).
           { intros y Hy. apply A. right. auto. }
           exists (z :: k1), k2. split; [subst; reflexivity|].
           intros r' [Hr'|Hr'] Hc'; [subst r'; apply A; left; reflexivity | auto].
      * destruct (IH l1 E A) as (k1 & k2 & E2 & A2).
        exists (z :: k1), k2. split; [subst; reflexivity|].
        intros r' [Hr'|Hr'] Hc'; [|auto]. subst r'.
        unfold contains in Cz. apply andb_false_iff in Cz.
        destruct Cz as [Cz|Cz]; [apply Z.leb_gt in Cz | apply Z.ltb_ge in Cz]; lia.
Qed.

Lemma find_stmt_sound_lemma stmts addr r :
  find_stmt stmts addr = FFound r -> In r stmts /\ r_start r <= addr < r_end r.
Proof.
  intros H. apply find_stmt_innermost_lemma in H. tauto.
Qed.

Lemma find_stmt_complete_lemma stmts addr :
  (exists r, In r stmts /\ r_start r <= addr < r_end r) <->
  (exists r, find_stmt stmts addr = FFound r).
Proof.
  split.
  - intros (r & Hin & Hc). rewrite find_stmt_char.
    pose proof (first_min_spec rsize (filter (contains addr) stmts)) as S.
    destruct (first_min rsize _) as [m|]; [eauto|].
    assert (Hf : In r (filter (contains addr) stmts)).
    { apply filter_In. split; auto. unfold contains. apply andb_true_iff.
      split; [apply Z.leb_le | apply Z.ltb_lt]; lia. }
    rewrite S in Hf. contradiction.
  - intros (r & H). exists r. apply find_stmt_sound_lemma. auto.
Qed.

Lemma find_stmt_none_lemma stmts addr :
  find_stmt stmts addr = FNone <->
  (forall r, In r stmts -> ~ (r_start r <= addr < r_end r)).
Proof.
  split.
  - intros H r Hin Hc.
    destruct (proj1 (find_stmt_complete_lemma stmts addr)) as (r' & E); [eauto|].
    congruence.
  - intros H. destruct (find_stmt stmts addr) eqn:E; auto.
    + apply find_stmt_sound_lemma in E. destruct E as [Hin Hc]. exfalso. eapply H; eauto.
    + exfalso. eapply find_stmt_block_branch_dead; eauto.
    + rewrite find_stmt_char in E. destruct (first_min _ _); discriminate.
Qed.
