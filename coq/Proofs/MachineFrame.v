(* Frame properties of the machine model used by the debugger theorems:
   no instruction reads [halted]/[reason] (they are only written, by IHalt, by
   _trap and by the end-of-code check of tick), and device events are only ever
   appended.  Proved once for every monadic primitive and every instruction. *)
From Coq Require Import ZArith List Bool Lia.
From QV Require Import Sx Strs Fl Dec NumFmt Cell Using Print Machine Cpu.
Import ListNotations.
Open Scope Z_scope.

Definition omap {A} (f : st -> st) (o : out A) : out A :=
  match o with
  | R a s => R a (f s)
  | T c k s => T c k (f s)
  | ZD s => ZD (f s)
  | X k s => X k (f s)
  | NI s => NI (f s)
  end.

Definition ostate {A} (o : out A) : st :=
  match o with R _ s | T _ _ s | ZD s | X _ s | NI s => s end.

(* b extends a at the front (events are kept most recent first) *)
Definition ext (a b : list event) : Prop := exists l, b = l ++ a.

Lemma ext_refl a : ext a a.
Proof. exists []. reflexivity. Qed.
Lemma ext_cons a e : ext a (e :: a).
Proof. exists [e]. reflexivity. Qed.
Lemma ext_trans a b c : ext a b -> ext b c -> ext a c.
Proof. intros [l1 H1] [l2 H2]. exists (l2 ++ l1). subst. now rewrite app_assoc. Qed.

(* commutes with any overwrite of halted/reason; only appends events *)
Definition good {A} (c : M A) : Prop :=
  (forall s h r, c (set_halt s h r) = omap (fun s' => set_halt s' h r) (c s)) /\
  (forall s, ext (events s) (events (ostate (c s)))).

Lemma good_ret A (a : A) : good (ret a).
Proof. split; intros; [reflexivity | apply ext_refl]. Qed.

Lemma good_bind A B (c : M A) (f : A -> M B) :
  good c -> (forall a, good (f a)) -> good (bind c f).
Proof.
  intros [H1 H2] Hf. split.
  - intros s h r. unfold bind. rewrite H1. destruct (c s); simpl; try reflexivity.
    apply (proj1 (Hf a)).
  - intros s. unfold bind. specialize (H2 s). destruct (c s) as [a s'| | | |]; simpl in *; try assumption.
    eapply ext_trans; [exact H2 | apply (proj2 (Hf a))].
Qed.

Lemma good_get_bind B (f : st -> M B) :
  (forall s0, good (f s0)) -> (forall s0 h r, f (set_halt s0 h r) = f s0) -> good (bind get f).
Proof.
  intros Hf Hi. split.
  - intros s h r. unfold bind, get. rewrite Hi. apply (proj1 (Hf s)).
  - intros s. unfold bind, get. apply (proj2 (Hf s)).
Qed.

Lemma good_trap A c : good (@trap A c).
Proof. split; intros; [reflexivity | apply ext_refl]. Qed.
Lemma good_trap_badkw A c : good (@trap_badkw A c).
Proof. split; intros; [reflexivity | apply ext_refl]. Qed.
Lemma good_crashM A k : good (@crashM A k).
Proof. split; intros; [reflexivity | apply ext_refl]. Qed.
Lemma good_ZD A : good (fun s => @ZD A s).
Proof. split; intros; [reflexivity | apply ext_refl]. Qed.
Lemma good_NI A : good (fun s => @NI A s).
Proof. split; intros; [reflexivity | apply ext_refl]. Qed.

(* a state update that commutes with set_halt and keeps the events *)
Lemma good_modify f :
  (forall s h r, f (set_halt s h r) = set_halt (f s) h r) ->
  (forall s, ext (events s) (events (f s))) -> good (modify f).
Proof. intros H1 H2. split; intros; unfold modify; simpl; [now rewrite H1 | apply H2]. Qed.

Ltac gmod := apply good_modify; [intros; reflexivity | intros; first [apply ext_refl | apply ext_cons]].

Lemma good_upd_stack f : good (upd_stack f).
Proof. split; intros; [reflexivity | apply ext_refl]. Qed.
Lemma good_emit_ev id args : good (emit_ev id args).
Proof. unfold emit_ev. gmod. Qed.

Lemma good_if A (b : bool) (c1 c2 : M A) : good c1 -> good c2 -> good (if b then c1 else c2).
Proof. destruct b; auto. Qed.

Create HintDb good discriminated.
#[export] Hint Resolve good_ret good_trap good_trap_badkw good_crashM good_ZD good_NI good_upd_stack
  good_emit_ev : good.

(* the workhorse: decompose binds, case-split every match/if on a pure value *)
Ltac good_step :=
  match goal with
  | |- good (bind get _) => apply good_get_bind; [intro | intros; reflexivity]
  | |- good (bind _ _) => apply good_bind; [| intro]
  | |- good (modify _) => gmod
  | |- good (let '(_, _) := ?p in _) => destruct p
  | |- good (let _ := _ in _) => cbv zeta
  | |- good (match ?x with _ => _ end) => destruct x
  | |- good (if ?b then _ else _) => destruct b
  | |- good _ => solve [auto with good]
  end.
Ltac good_tac := repeat good_step.

Lemma good_mk_cell ty v : good (mk_cell ty v).
Proof. unfold mk_cell. good_tac. Qed.
#[export] Hint Resolve good_mk_cell : good.

Lemma good_push_cell c : good (push_cell c).
Proof. unfold push_cell. auto with good. Qed.
#[export] Hint Resolve good_push_cell : good.

Lemma good_push ty v : good (push ty v).
Proof. unfold push. good_tac. Qed.
#[export] Hint Resolve good_push : good.

Lemma good_repush c : good (repush c).
Proof. unfold repush. auto with good. Qed.
#[export] Hint Resolve good_repush : good.

Ltac raw := split; [intros s h r; destruct s; cbn | intros s; destruct s; cbn].

Lemma good_pop : good pop.
Proof.
  unfold pop. raw.
  - destruct stack; reflexivity.
  - destruct stack; apply ext_refl.
Qed.
#[export] Hint Resolve good_pop : good.

Lemma good_pop_ty ty : good (pop_ty ty).
Proof. unfold pop_ty. good_tac. Qed.
#[export] Hint Resolve good_pop_ty : good.

Lemma good_pop_int : good pop_int.
Proof. unfold pop_int. good_tac. Qed.
Lemma good_pop_long : good pop_long.
Proof. unfold pop_long. good_tac. Qed.
Lemma good_pop_str : good pop_str.
Proof. unfold pop_str. good_tac. Qed.
Lemma good_pop_ref : good pop_ref.
Proof. unfold pop_ref. good_tac. Qed.
#[export] Hint Resolve good_pop_int good_pop_long good_pop_str good_pop_ref : good.

Lemma good_get_seg g : good (get_seg g).
Proof.
  unfold get_seg. raw.
  - destruct (nthZ heap g); reflexivity.
  - destruct (nthZ heap g); apply ext_refl.
Qed.
#[export] Hint Resolve good_get_seg : good.

Lemma good_seg_get g i : good (seg_get g i).
Proof. unfold seg_get. good_tac. Qed.
#[export] Hint Resolve good_seg_get : good.

Lemma good_set_heap_raw g sg :
  good (fun s => match setZ (heap s) g sg with
                 | Some h => R tt (set_heap s h)
                 | None => X CrAssert s
                 end).
Proof.
  raw.
  - destruct (setZ heap g sg); reflexivity.
  - destruct (setZ heap g sg); apply ext_refl.
Qed.
#[export] Hint Resolve good_set_heap_raw : good.

Lemma good_seg_set g i c : good (seg_set g i c).
Proof. unfold seg_set. good_tac. Qed.
#[export] Hint Resolve good_seg_set : good.

Lemma good_alloc_seg sg : good (alloc_seg sg).
Proof. unfold alloc_seg. raw; [reflexivity | apply ext_refl]. Qed.
#[export] Hint Resolve good_alloc_seg : good.

Lemma good_cur_frame : good cur_frame.
Proof.
  unfold cur_frame. raw.
  - destruct cur; reflexivity.
  - destruct cur; apply ext_refl.
Qed.
#[export] Hint Resolve good_cur_frame : good.

Lemma good_scope_seg b : good (scope_seg b).
Proof. unfold scope_seg. good_tac. Qed.
#[export] Hint Resolve good_scope_seg : good.

Lemma good_read_var b i : good (read_var b i).
Proof. unfold read_var. good_tac. Qed.
Lemma good_write_var b i c : good (write_var b i c).
Proof. unfold write_var. good_tac. Qed.
#[export] Hint Resolve good_read_var good_write_var : good.

Lemma good_dev_arg ty : good (dev_arg ty).
Proof. unfold dev_arg. good_tac. Qed.
#[export] Hint Resolve good_dev_arg : good.
Lemma good_dev_arg_int : good dev_arg_int.
Proof. unfold dev_arg_int. good_tac. Qed.
Lemma good_dev_arg_long : good dev_arg_long.
Proof. unfold dev_arg_long. good_tac. Qed.
Lemma good_dev_arg_single : good dev_arg_single.
Proof. unfold dev_arg_single. good_tac. Qed.
#[export] Hint Resolve good_dev_arg_int good_dev_arg_long good_dev_arg_single : good.

Lemma good_take_line : good take_line.
Proof.
  unfold take_line. raw.
  - destruct scr as [l a b c]; cbn. destruct l; reflexivity.
  - destruct scr as [l a b c]; cbn. destruct l; apply ext_refl.
Qed.
Lemma good_take_rnd : good take_rnd.
Proof.
  unfold take_rnd. raw.
  - destruct scr as [l a b c]; cbn. destruct a; reflexivity.
  - destruct scr as [l a b c]; cbn. destruct a; apply ext_refl.
Qed.
Lemma good_take_timer : good take_timer.
Proof.
  unfold take_timer. raw.
  - destruct scr as [l a b c]; cbn. destruct b; reflexivity.
  - destruct scr as [l a b c]; cbn. destruct b; apply ext_refl.
Qed.
Lemma good_take_inkey : good take_inkey.
Proof.
  unfold take_inkey. raw.
  - destruct scr as [l a b c]; cbn. destruct c; reflexivity.
  - destruct scr as [l a b c]; cbn. destruct c; apply ext_refl.
Qed.
#[export] Hint Resolve good_take_line good_take_rnd good_take_timer good_take_inkey : good.

Lemma good_pop_n n : forall acc, good (pop_n n acc).
Proof. induction n; intros; simpl; good_tac; try apply IHn. Qed.
#[export] Hint Resolve good_pop_n : good.

Lemma fold_add_event_halt calls : forall s h r,
  fold_left (fun s' t => add_event s' (mkEv E_PRINT [sx_str t])) calls (set_halt s h r)
  = set_halt (fold_left (fun s' t => add_event s' (mkEv E_PRINT [sx_str t])) calls s) h r.
Proof.
  induction calls as [|a calls IH]; intros; simpl; [reflexivity |].
  exact (IH (add_event s (mkEv E_PRINT [sx_str a])) h r).
Qed.

Lemma fold_add_event_ext calls : forall s,
  ext (events s) (events (fold_left (fun s' t => add_event s' (mkEv E_PRINT [sx_str t])) calls s)).
Proof.
  induction calls; intros; simpl; [apply ext_refl |].
  eapply ext_trans; [| apply IHcalls]. apply ext_cons.
Qed.

Lemma good_dev_print : good dev_print.
Proof.
  unfold dev_print. good_tac.
  split; intros; simpl; [now rewrite fold_add_event_halt | apply fold_add_event_ext].
Qed.
#[export] Hint Resolve good_dev_print : good.

Lemma good_conv_fields l : good (conv_fields l).
Proof. induction l as [|[v ty] l IH]; simpl; good_tac; try assumption. Qed.
#[export] Hint Resolve good_conv_fields : good.

Lemma good_push_all l : good (push_all l).
Proof. induction l as [|[ty v] l IH]; simpl; good_tac; try assumption. Qed.
#[export] Hint Resolve good_push_all : good.

Lemma good_push_fields l : good (push_fields l).
Proof. unfold push_fields. good_tac. Qed.
#[export] Hint Resolve good_push_fields : good.

Lemma good_input_loop fuel : forall prompt q sl types, good (input_loop fuel prompt q sl types).
Proof. induction fuel; intros; simpl; good_tac; try apply IHfuel. Qed.

Lemma good_pop_ints n : forall acc, good (pop_ints n acc).
Proof. induction n; intros; simpl; good_tac; try apply IHn. Qed.
#[export] Hint Resolve good_pop_ints : good.

Lemma good_dev_input : good dev_input.
Proof.
  unfold dev_input. good_tac.
  split.
  - intros s h r.
    exact (proj1 (good_input_loop (S (length (sc_lines (scr s)))) _ _ _ _) s h r).
  - intros s. apply (proj2 (good_input_loop _ _ _ _ _)).
Qed.
#[export] Hint Resolve good_dev_input : good.

(* ---------- devices ---------- *)

Ltac gmod2 :=
  apply good_modify;
  [ intros; cbn; repeat match goal with |- context [if ?c then _ else _] => destruct c end; reflexivity
  | intros; cbn; repeat match goal with |- context [if ?c then _ else _] => destruct c end;
    first [apply ext_refl | apply ext_cons] ].

Lemma good_dev_read m : good (dev_read m).
Proof.
  unfold dev_read. good_tac.
  all: try gmod2.
Qed.

Lemma good_dev_restore : good dev_restore.
Proof. unfold dev_restore. good_tac. Qed.

Lemma good_dev_rnd : good dev_rnd.
Proof. unfold dev_rnd. good_tac. Qed.

Lemma good_dev_locate : good dev_locate.
Proof. unfold dev_locate. good_tac. Qed.

Lemma good_dev_set_mode : good dev_set_mode.
Proof. unfold dev_set_mode. good_tac. Qed.
#[export] Hint Resolve good_dev_read good_dev_restore good_dev_rnd good_dev_locate good_dev_set_mode : good.

Lemma good_exec_io m d o : good (exec_io m d o).
Proof. unfold exec_io. good_tac. Qed.
#[export] Hint Resolve good_exec_io : good.

(* ---------- instruction helpers ---------- *)

Lemma good_type_mismatch A : good (@type_mismatch A).
Proof. unfold type_mismatch. auto with good. Qed.
#[export] Hint Resolve good_type_mismatch : good.

Lemma good_bitwise op : good (bitwise op).
Proof. unfold bitwise. good_tac. Qed.
Lemma good_arith_prelude : good arith_prelude.
Proof. unfold arith_prelude. good_tac. Qed.
Lemma good_push_opt ty o : good (push_opt ty o).
Proof. unfold push_opt. good_tac. Qed.
Lemma good_check_long z : good (check_long z).
Proof. unfold check_long. good_tac. Qed.
#[export] Hint Resolve good_bitwise good_arith_prelude good_push_opt good_check_long : good.

Lemma good_check_bounds_long bs : good (check_bounds_long bs).
Proof. induction bs as [|[lb ub] bs IH]; simpl; good_tac; try assumption. Qed.
Lemma good_cell_val_Z o : good (cell_val_Z o).
Proof. unfold cell_val_Z. good_tac. Qed.
#[export] Hint Resolve good_check_bounds_long good_cell_val_Z : good.

Lemma good_read_array_bounds n : good (read_array_bounds n).
Proof.
  unfold read_array_bounds. generalize (@nil (Z * Z)).
  induction n; intros acc; simpl; good_tac; try apply IHn.
Qed.
#[export] Hint Resolve good_read_array_bounds : good.

Lemma good_exec_arridx n : good (exec_arridx n).
Proof.
  unfold exec_arridx. good_tac.
  - match goal with |- good (?F (Z.to_nat n) []) =>
      assert (HF : forall k acc, good (F k acc));
        [induction k; intros; simpl; good_tac; try apply IHk | apply HF] end.
  - match goal with |- good (?F ?l ?b ?acc) =>
      assert (HF : forall l0 b0 acc0, good (F l0 b0 acc0));
        [induction l0 as [|i l0 IH]; intros; simpl; good_tac; try apply IH | apply HF] end.
Qed.
#[export] Hint Resolve good_exec_arridx : good.

Lemma good_find_stmt_at m stmts addr : good (find_stmt_at m stmts addr).
Proof. unfold find_stmt_at. good_tac. Qed.
#[export] Hint Resolve good_find_stmt_at : good.

Lemma good_exec_errres m next : good (exec_errres m next).
Proof. unfold exec_errres. good_tac. Qed.
#[export] Hint Resolve good_exec_errres : good.

Lemma good_read_generic l ty c d : good (read_generic l ty c d).
Proof. unfold read_generic. good_tac. Qed.
#[export] Hint Resolve good_read_generic : good.

Lemma good_exec_initarr l i n es : good (exec_initarr l i n es).
Proof.
  unfold exec_initarr. good_tac.
  all: match goal with |- good (?F ?bs ?k) =>
      assert (HF : forall bs0 k0, good (F bs0 k0));
        [induction bs0 as [|[lb ub] bs0 IH]; intros; simpl; good_tac; try apply IH | apply HF] end.
Qed.
#[export] Hint Resolve good_exec_initarr : good.

Lemma good_T_lastkw A c : good (fun s' => @T A c (last_kw_ok s') s').
Proof. split; intros; [reflexivity | apply ext_refl]. Qed.
#[export] Hint Resolve good_T_lastkw : good.

Lemma good_X_trapped_addr A k : good (fun s' => @X A k (set_trapped_addr s' (prev_pc s'))).
Proof. split; [intros s h r; destruct s; reflexivity | intros s; destruct s; apply ext_refl]. Qed.
#[export] Hint Resolve good_X_trapped_addr : good.

Lemma good_exp_tail a b : good (exp_tail a b).
Proof. unfold exp_tail, exp_tail_ref. good_tac. Qed.
#[export] Hint Resolve good_exp_tail : good.

(* every instruction except halt commutes with overwriting halted/reason *)
Lemma good_exec m i : i <> IHalt -> good (exec m i).
Proof.
  intros Hi. destruct i; try congruence; cbv beta iota delta [exec]; good_tac.
  all: try match goal with |- good (?F (Z.to_nat ?p)) =>
      assert (HF : forall k, good (F k));
        [induction k; intros; simpl; good_tac; try apply IHk | apply HF] end.
Qed.

Lemma exec_halt_ext m s : ext (events s) (events (ostate (exec m IHalt s))).
Proof. apply ext_refl. Qed.

(* ---------- tick ---------- *)

Definition tstate (t : tick_out) : st := match t with Next s | Crash _ s | NeedInput s => s end.
Definition tmap (f : st -> st) (t : tick_out) : tick_out :=
  match t with Next s => Next (f s) | Crash k s => Crash k (f s) | NeedInput s => NeedInput (f s) end.
Definition same_kind (t t' : tick_out) : Prop :=
  match t, t' with
  | Next _, Next _ => True
  | Crash k _, Crash k' _ => k = k'
  | NeedInput _, NeedInput _ => True
  | _, _ => False
  end.

(* equal up to halted/reason *)
Definition eqh (a b : st) : Prop := set_halt a false 0 = set_halt b false 0.

Lemma eqh_refl a : eqh a a. Proof. reflexivity. Qed.
Lemma eqh_sym a b : eqh a b -> eqh b a. Proof. unfold eqh; congruence. Qed.
Lemma eqh_trans a b c : eqh a b -> eqh b c -> eqh a c. Proof. unfold eqh; congruence. Qed.
Lemma eqh_set_halt a h r : eqh a (set_halt a h r). Proof. reflexivity. Qed.
Lemma eqh_set_halt_l a b h r : eqh a b -> eqh (set_halt a h r) b. Proof. exact (fun H => H). Qed.
Lemma eqh_set_halt_r a b h r : eqh a b -> eqh a (set_halt b h r). Proof. exact (fun H => H). Qed.

Lemma set_halt_id s : set_halt s (halted s) (reason s) = s.
Proof. destruct s; reflexivity. Qed.

Lemma eqh_is_set_halt a b : eqh a b -> b = set_halt a (halted b) (reason b).
Proof.
  unfold eqh. intros H. destruct a, b; cbn in *. inversion H; subst. reflexivity.
Qed.

Lemma eqh_events a b : eqh a b -> events a = events b.
Proof. intros H. apply (f_equal events) in H. exact H. Qed.
Lemma eqh_pc a b : eqh a b -> pc a = pc b.
Proof. intros H. apply (f_equal pc) in H. exact H. Qed.

(* what one step does to a state whose halted/reason were overwritten:
   either nothing halted (the overwrite is carried along) or the step halted
   the machine (the overwrite is overwritten) *)
Definition hrel (h0 : bool) (r0 : Z) (h : bool) (r : Z) (t t' : tick_out) : Prop :=
  (t' = tmap (fun a => set_halt a h r) t /\ halted (tstate t) = h0 /\ reason (tstate t) = r0) \/
  (t' = t /\ halted (tstate t) = true).

Lemma exec_preserves m i s : i <> IHalt ->
  halted (ostate (exec m i s)) = halted s /\ reason (ostate (exec m i s)) = reason s.
Proof.
  intros Hi. pose proof (proj1 (good_exec m i Hi) s (halted s) (reason s)) as H.
  rewrite set_halt_id in H.
  destruct (exec m i s); simpl in *; inversion H as [H1]; rewrite H1; split; reflexivity.
Qed.

Lemma exec_errres_preserves m b s :
  halted (ostate (exec_errres m b s)) = halted s /\ reason (ostate (exec_errres m b s)) = reason s.
Proof.
  pose proof (proj1 (good_exec_errres m b) s (halted s) (reason s)) as H.
  rewrite set_halt_id in H.
  destruct (exec_errres m b s); simpl in *; inversion H as [H1]; rewrite H1; split; reflexivity.
Qed.

Lemma do_trap_hrel m c kw s h r :
  hrel (halted s) (reason s) h r (do_trap m c kw s) (do_trap m c kw (set_halt s h r)).
Proof.
  unfold do_trap.
  change (handler_active (set_last_trap (set_halt s h r) (Some c) kw)) with (handler_active s).
  change (ttarget_ (set_last_trap (set_halt s h r) (Some c) kw)) with (ttarget_ s).
  change (handler_active (set_last_trap s (Some c) kw)) with (handler_active s).
  change (ttarget_ (set_last_trap s (Some c) kw)) with (ttarget_ s).
  destruct (handler_active s); simpl.
  - destruct kw; [right | left]; repeat split; reflexivity.
  - destruct (ttarget_ s); simpl.
    + destruct kw; [right | left]; repeat split; reflexivity.
    + change (set_last_trap (set_halt s h r) (Some c) kw) with (set_halt (set_last_trap s (Some c) kw) h r).
      rewrite (proj1 (good_exec_errres m true)).
      destruct (exec_errres_preserves m true (set_last_trap s (Some c) kw)) as [P1 P2].
      destruct (exec_errres m true (set_last_trap s (Some c) kw)) as [u s'|c' k' s'|s'|k' s'|s'];
        simpl in *; try (left; repeat split; assumption).
      (* the statement lookup failed: the original error is reported *)
      destruct kw.
      * right. split; [destruct s'; reflexivity | reflexivity].
      * left. repeat split; try assumption; destruct s'; cbn in *; try reflexivity; assumption.
    + left; repeat split; reflexivity.
Qed.

Definition rel3 (s : st) (h : bool) (r : Z) (t t' : tick_out) : Prop :=
  same_kind t t' /\ eqh (tstate t) (tstate t') /\
  (halted s = false -> h = false ->
   tstate t' = if halted (tstate t) then tstate t else set_halt (tstate t) false r).

Lemma hrel_rel3 s h r t t' : hrel (halted s) (reason s) h r t t' -> rel3 s h r t t'.
Proof.
  intros [[E [H1 H2]] | [E H1]]; subst t'; (split; [|split]).
  - destruct t; simpl; auto.
  - destruct t; simpl; apply eqh_set_halt.
  - intros Hs Hh. subst h. rewrite H1, Hs. destruct t; reflexivity.
  - destruct t; simpl; auto.
  - apply eqh_refl.
  - intros _ _. rewrite H1. reflexivity.
Qed.

Lemma end_check_rel3 m s h r t t' :
  hrel (halted s) (reason s) h r t t' -> rel3 s h r (end_check m t) (end_check m t').
Proof.
  unfold rel3.
  intros [[E [H1 H2]] | [E H1]]; subst t'.
  - destruct t as [a | k a | a]; simpl in *.
    + change (pc (set_halt a h r)) with (pc a).
      change (halted (set_halt a h r)) with h.
      rewrite H1.
      destruct (pc a >=? code_len m); rewrite ?andb_true_r, ?andb_false_r.
      * destruct (halted s) eqn:Hs, h; simpl; (split; [exact I | split]);
          try (unfold eqh; reflexivity); try (intros Hx Hy; congruence);
          try (intros _ _; reflexivity).
      * simpl. split; [exact I | split]; [apply eqh_set_halt |].
        intros Hs Hh. subst h. rewrite H1, Hs. reflexivity.
    + split; [reflexivity | split]; [apply eqh_set_halt |].
      intros Hs Hh. subst h. rewrite H1, Hs. reflexivity.
    + split; [exact I | split]; [apply eqh_set_halt |].
      intros Hs Hh. subst h. rewrite H1, Hs. reflexivity.
  - destruct t as [a | k a | a]; simpl in *.
    + rewrite H1. simpl. split; [exact I | split]; [apply eqh_refl |]. intros _ _. rewrite H1. reflexivity.
    + split; [reflexivity | split]; [apply eqh_refl |]. intros _ _. rewrite H1. reflexivity.
    + split; [exact I | split]; [apply eqh_refl |]. intros _ _. rewrite H1. reflexivity.
Qed.

Lemma exec_hrel m i s h r :
  hrel (halted s) (reason s) h r
       (match exec m i s with
        | R _ s3 => Next s3
        | T c kw s3 => do_trap m c kw (set_trapped_addr s3 (prev_pc s3))
        | ZD s3 => do_trap m T_DIVISION_BY_ZERO true (set_trapped_addr s3 (prev_pc s3))
        | X k s3 => Crash k s3
        | NI s3 => NeedInput s3
        end)
       (match exec m i (set_halt s h r) with
        | R _ s3 => Next s3
        | T c kw s3 => do_trap m c kw (set_trapped_addr s3 (prev_pc s3))
        | ZD s3 => do_trap m T_DIVISION_BY_ZERO true (set_trapped_addr s3 (prev_pc s3))
        | X k s3 => Crash k s3
        | NI s3 => NeedInput s3
        end).
Proof.
  assert (Hd : {i = IHalt} + {i <> IHalt}) by (destruct i; (left; reflexivity) || (right; discriminate)).
  destruct Hd as [-> | Hi].
  - right. split; reflexivity.
  - rewrite (proj1 (good_exec m i Hi)).
    destruct (exec_preserves m i s Hi) as [P1 P2].
    destruct (exec m i s) as [u s3 | c kw s3 | s3 | k s3 | s3]; simpl in *.
    + left; repeat split; assumption.
    + change (set_trapped_addr (set_halt s3 h r) (prev_pc (set_halt s3 h r)))
        with (set_halt (set_trapped_addr s3 (prev_pc s3)) h r).
      rewrite <- P1, <- P2. apply (do_trap_hrel m c kw (set_trapped_addr s3 (prev_pc s3)) h r).
    + change (set_trapped_addr (set_halt s3 h r) (prev_pc (set_halt s3 h r)))
        with (set_halt (set_trapped_addr s3 (prev_pc s3)) h r).
      rewrite <- P1, <- P2. apply (do_trap_hrel m T_DIVISION_BY_ZERO true (set_trapped_addr s3 (prev_pc s3)) h r).
    + left; repeat split; assumption.
    + left; repeat split; assumption.
Qed.

Lemma tick_set_halt m s h r : rel3 s h r (tick m s) (tick m (set_halt s h r)).
Proof.
  unfold tick.
  change (irq (set_halt s h r)) with (irq s).
  change (pc (set_halt s h r)) with (pc s).
  destruct (irq s).
  - apply hrel_rel3. apply (do_trap_hrel m _ _ (set_irq s false) h r).
  - destruct ((pc s <? 0) || (pc s >=? code_len m)).
    + apply hrel_rel3. left. repeat split; reflexivity.
    + destruct (decode (skipn (Z.to_nat (pc s)) (m_code m))) as [| | i size].
      * change (set_prev_pc (set_halt s h r) (pc s)) with (set_halt (set_prev_pc s (pc s)) h r).
        apply hrel_rel3.
        destruct (do_trap_hrel m T_INVALID_OP_CODE true (set_prev_pc s (pc s)) h r) as [[E [H1 H2]] | [E H1]];
          rewrite E.
        -- destruct (do_trap m T_INVALID_OP_CODE true (set_prev_pc s (pc s))); simpl in *;
             left; repeat split; assumption.
        -- destruct (do_trap m T_INVALID_OP_CODE true (set_prev_pc s (pc s))); simpl in *;
             right; split; auto.
      * apply hrel_rel3. left. repeat split; reflexivity.
      * change (set_pc (set_prev_pc (set_halt s h r) (pc s)) (pc (set_prev_pc (set_halt s h r) (pc s)) + size))
          with (set_halt (set_pc (set_prev_pc s (pc s)) (pc (set_prev_pc s (pc s)) + size)) h r).
        assert (HE := exec_hrel m i (set_pc (set_prev_pc s (pc s)) (pc (set_prev_pc s (pc s)) + size)) h r).
        change (halted (set_pc (set_prev_pc s (pc s)) (pc (set_prev_pc s (pc s)) + size))) with (halted s) in HE.
        change (reason (set_pc (set_prev_pc s (pc s)) (pc (set_prev_pc s (pc s)) + size))) with (reason s) in HE.
        destruct i; try (apply end_check_rel3; exact HE).
        destruct (nthZ (m_literals m) idx).
        -- apply end_check_rel3; exact HE.
        -- apply hrel_rel3. left. repeat split; reflexivity.
Qed.

(* corollaries in the form used by the debugger proofs *)
Lemma tick_eqh m s1 s2 : eqh s1 s2 ->
  same_kind (tick m s1) (tick m s2) /\ eqh (tstate (tick m s1)) (tstate (tick m s2)).
Proof.
  intros E. rewrite (eqh_is_set_halt _ _ E).
  destruct (tick_set_halt m s1 (halted s2) (reason s2)) as [K [Q _]]. split; assumption.
Qed.

Lemma tick_nh m s1 s2 s1' : eqh s1 s2 -> halted s1 = false -> halted s2 = false ->
  tick m s1 = Next s1' ->
  exists s2', tick m s2 = Next s2' /\ eqh s1' s2' /\ halted s2' = halted s1' /\
              (halted s1' = true -> s2' = s1').
Proof.
  intros E H1 H2 T1. rewrite (eqh_is_set_halt _ _ E). rewrite H2.
  destruct (tick_set_halt m s1 false (reason s2)) as [K [Q S]].
  rewrite T1 in *. simpl in *.
  destruct (tick m (set_halt s1 false (reason s2))) as [s2' | |]; simpl in *; try contradiction.
  exists s2'. specialize (S H1 eq_refl). repeat split; auto.
  - rewrite S. destruct (halted s1') eqn:Hh; [exact Hh | reflexivity].
  - intros Hh. rewrite S, Hh. reflexivity.
Qed.

(* events are only appended by a tick *)
Lemma do_trap_ext m c kw s : ext (events s) (events (tstate (do_trap m c kw s))).
Proof.
  unfold do_trap.
  destruct (negb (handler_active (set_last_trap s (Some c) kw)) && _).
  - destruct (ttarget_ (set_last_trap s (Some c) kw)); try apply ext_refl.
    pose proof (proj2 (good_exec_errres m true) (set_last_trap s (Some c) kw)) as H.
    destruct (exec_errres m true (set_last_trap s (Some c) kw)) as [u s0|c0 k0 s0|s0|k0 s0|s0];
      try exact H.
    destruct kw; destruct s0; exact H.
  - destruct kw; apply ext_refl.
Qed.

Lemma end_check_events m t : events (tstate (end_check m t)) = events (tstate t).
Proof. destruct t; simpl; try reflexivity. destruct (negb (halted s) && _); reflexivity. Qed.

Lemma exec_ext m i s : ext (events s) (events (ostate (exec m i s))).
Proof.
  assert (Hd : {i = IHalt} + {i <> IHalt}) by (destruct i; (left; reflexivity) || (right; discriminate)).
  destruct Hd as [-> | Hi]; [apply ext_refl | apply (proj2 (good_exec m i Hi))].
Qed.

Lemma tick_ext m s : ext (events s) (events (tstate (tick m s))).
Proof.
  unfold tick. destruct (irq s).
  - apply (do_trap_ext m _ _ (set_irq s false)).
  - destruct ((pc s <? 0) || (pc s >=? code_len m)); [apply ext_refl |].
    destruct (decode (skipn (Z.to_nat (pc s)) (m_code m))) as [| | i size].
    + pose proof (do_trap_ext m T_INVALID_OP_CODE true (set_prev_pc s (pc s))) as H.
      destruct (do_trap m T_INVALID_OP_CODE true (set_prev_pc s (pc s))); exact H.
    + apply ext_refl.
    + assert (H : ext (events s) (events (tstate
                (match exec m i (set_pc (set_prev_pc s (pc s)) (pc (set_prev_pc s (pc s)) + size)) with
                 | R _ s3 => Next s3
                 | T c kw s3 => do_trap m c kw (set_trapped_addr s3 (prev_pc s3))
                 | ZD s3 => do_trap m T_DIVISION_BY_ZERO true (set_trapped_addr s3 (prev_pc s3))
                 | X k s3 => Crash k s3
                 | NI s3 => NeedInput s3
                 end)))).
      { pose proof (exec_ext m i (set_pc (set_prev_pc s (pc s)) (pc (set_prev_pc s (pc s)) + size))) as H.
        destruct (exec m i _) as [u s3 | c kw s3 | s3 | k s3 | s3]; simpl in *; try exact H.
        - eapply ext_trans; [exact H | apply (do_trap_ext m c kw (set_trapped_addr s3 (prev_pc s3)))].
        - eapply ext_trans; [exact H | apply (do_trap_ext m T_DIVISION_BY_ZERO true (set_trapped_addr s3 (prev_pc s3)))]. }
      destruct i; try (rewrite end_check_events; exact H).
      destruct (nthZ (m_literals m) idx); [rewrite end_check_events; exact H | apply ext_refl].
Qed.
