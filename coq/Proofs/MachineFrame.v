(* Frame properties of the machine model used by the debugger theorems:
   no instruction reads [halted]/[reason] (they are only written, by IHalt, by
   _trap and by the end-of-code check of tick), and device events are only ever
   appended.  Proved once for every monadic primitive and every instruction. *)
From Coq Require Import ZArith List Bool Lia.
From QV Require Import Sx Strs Fl Dec NumFmt Cell Using Print Machine Cpu.
Import ListNotations.
Open Scope Z_scope.

Definition omap {A} (f : st -> st) (o : out A) : out A :=
  match o with
  | R a s => R a (f s)
  | T c k s => T c k (f s)
  | ZD s => ZD (f s)
  | X k s => X k (f s)
  | NI s => NI (f s)
  end.

Definition ostate {A} (o : out A) : st :=
  match o with R _ s | T _ _ s | ZD s | X _ s | NI s => s end.

(* b extends a at the front (events are kept most recent first) *)
Definition ext (a b : list event) : Prop := exists l, b = l ++ a.

Lemma ext_refl a : ext a a.
Proof. exists []. reflexivity. Qed.
Lemma ext_cons a e : ext a (e :: a).
Proof. exists [e]. reflexivity. Qed.
Lemma ext_trans a b c : ext a b -> ext b c -> ext a c.
Proof. intros [l1 H1] [l2 H2]. exists (l2 ++ l1). subst. now rewrite app_assoc. Qed.

(* commutes with any overwrite of halted/reason; only appends events *)
Definition good {A} (c : M A) : Prop :=
  (forall s h r, c (set_halt s h r) = omap (fun s' => set_halt s' h r) (c s)) /\
  (forall s, ext (events s) (events (ostate (c s)))).

Lemma good_ret A (a : A) : good (ret a).
Proof. split; intros; [reflexivity | apply ext_refl]. Qed.

Lemma good_bind A B (c : M A) (f : A -> M B) :
  good c -> (forall a, good (f a)) -> good (bind c f).
Proof.
  intros [H1 H2] Hf. split.
  - intros s h r. unfold bind. rewrite H1. destruct (c s); simpl; try reflexivity.
    apply (proj1 (Hf a)).
  - intros s. unfold bind. specialize (H2 s). destruct (c s) as [a s'| | | |]; simpl in *; try assumption.
    eapply ext_trans; [exact H2 | apply (proj2 (Hf a))].
Qed.

Lemma good_get_bind B (f : st -> M B) :
  (forall s0, good (f s0)) -> (forall s0 h r, f (set_halt s0 h r) = f s0) -> good (bind get f).
Proof.
  intros Hf Hi. split.
  - intros s h r. unfold bind, get. rewrite Hi. apply (proj1 (Hf s)).
  - intros s. unfold bind, get. apply (proj2 (Hf s)).
Qed.

Lemma good_trap A c : good (@trap A c).
Proof. split; intros; [reflexivity | apply ext_refl]. Qed.
Lemma good_trap_badkw A c : good (@trap_badkw A c).
Proof. split; intros; [reflexivity | apply ext_refl]. Qed.
Lemma good_crashM A k : good (@crashM A k).
Proof. split; intros; [reflexivity | apply ext_refl]. Qed.
Lemma good_ZD A : good (fun s => @ZD A s).
Proof. split; intros; [reflexivity | apply ext_refl]. Qed.
Lemma good_NI A : good (fun s => @NI A s).
Proof. split; intros; [reflexivity | apply ext_refl]. Qed.

(* a state update that commutes with set_halt and keeps the events *)
Lemma good_modify f :
  (forall s h r, f (set_halt s h r) = set_halt (f s) h r) ->
  (forall s, ext (events s) (events (f s))) -> good (modify f).
Proof. intros H1 H2. split; intros; unfold modify; simpl; [now rewrite H1 | apply H2]. Qed.

Ltac gmod := apply good_modify; [intros; reflexivity | intros; first [apply ext_refl | apply ext_cons]].

Lemma good_upd_stack f : good (upd_stack f).
Proof. split; intros; [reflexivity | apply ext_refl]. Qed.
Lemma good_emit_ev id args : good (emit_ev id args).
Proof. unfold emit_ev. gmod. Qed.

Lemma good_if A (b : bool) (c1 c2 : M A) : good c1 -> good c2 -> good (if b then c1 else c2).
Proof. destruct b; auto. Qed.

Create HintDb good discriminated.
#[export] Hint Resolve good_ret good_trap good_trap_badkw good_crashM good_ZD good_NI good_upd_stack
  good_emit_ev : good.

(* the workhorse: decompose binds, case-split every match/if on a pure value *)
Ltac good_step :=
  match goal with
  | |- good (bind get _) => apply good_get_bind; [intro | intros; reflexivity]
  | |- good (bind _ _) => apply good_bind; [| intro]
  | |- good (modify _) => gmod
  | |- good (let '(_, _) := ?p in _) => destruct p
  | |- good (let _ := _ in _) => cbv zeta
  | |- good (match ?x with _ => _ end) => destruct x
  | |- good (if ?b then _ else _) => destruct b
  | |- good _ => solve [auto with good]
  end.
Ltac good_tac := repeat good_step.

Lemma good_mk_cell ty v : good (mk_cell ty v).
Proof. unfold mk_cell. good_tac. Qed.
#[export] Hint Resolve good_mk_cell : good.

Lemma good_push_cell c : good (push_cell c).
Proof. unfold push_cell. auto with good. Qed.
#[export] Hint Resolve good_push_cell : good.

Lemma good_push ty v : good (push ty v).
Proof. unfold push. good_tac. Qed.
#[export] Hint Resolve good_push : good.

Lemma good_repush c : good (repush c).
Proof. unfold repush. auto with good. Qed.
#[export] Hint Resolve good_repush : good.

Ltac raw := split; [intros s h r; destruct s; cbn | intros s; destruct s; cbn].

Lemma good_pop : good pop.
Proof.
  unfold pop. raw.
  - destruct stack; reflexivity.
  - destruct stack; apply ext_refl.
Qed.
#[export] Hint Resolve good_pop : good.

Lemma good_pop_ty ty : good (pop_ty ty).
Proof. unfold pop_ty. good_tac. Qed.
#[export] Hint Resolve good_pop_ty : good.

Lemma good_pop_int : good pop_int.
Proof. unfold pop_int. good_tac. Qed.
Lemma good_pop_long : good pop_long.
Proof. unfold pop_long. good_tac. Qed.
Lemma good_pop_str : good pop_str.
Proof. unfold pop_str. good_tac. Qed.
Lemma good_pop_ref : good pop_ref.
Proof. unfold pop_ref. good_tac. Qed.
#[export] Hint Resolve good_pop_int good_pop_long good_pop_str good_pop_ref : good.

Lemma good_get_seg g : good (get_seg g).
Proof.
  unfold get_seg. raw.
  - destruct (nthZ heap g); reflexivity.
  - destruct (nthZ heap g); apply ext_refl.
Qed.
#[export] Hint Resolve good_get_seg : good.

Lemma good_seg_get g i : good (seg_get g i).
Proof. unfold seg_get. good_tac. Qed.
#[export] Hint Resolve good_seg_get : good.

Lemma good_set_heap_raw g sg :
  good (fun s => match setZ (heap s) g sg with
                 | Some h => R tt (set_heap s h)
                 | None => X CrAssert s
                 end).
Proof.
  raw.
  - destruct (setZ heap g sg); reflexivity.
  - destruct (setZ heap g sg); apply ext_refl.
Qed.
#[export] Hint Resolve good_set_heap_raw : good.

Lemma good_seg_set g i c : good (seg_set g i c).
Proof. unfold seg_set. good_tac. Qed.
#[export] Hint Resolve good_seg_set : good.

Lemma good_alloc_seg sg : good (alloc_seg sg).
Proof. unfold alloc_seg. raw; [reflexivity | apply ext_refl]. Qed.
#[export] Hint Resolve good_alloc_seg : good.

Lemma good_cur_frame : good cur_frame.
Proof.
  unfold cur_frame. raw.
  - destruct cur; reflexivity.
  - destruct cur; apply ext_refl.
Qed.
#[export] Hint Resolve good_cur_frame : good.

Lemma good_scope_seg b : good (scope_seg b).
Proof. unfold scope_seg. good_tac. Qed.
#[export] Hint Resolve good_scope_seg : good.

Lemma good_read_var b i : good (read_var b i).
Proof. unfold read_var. good_tac. Qed.
Lemma good_write_var b i c : good (write_var b i c).
Proof. unfold write_var. good_tac. Qed.
#[export] Hint Resolve good_read_var good_write_var : good.

Lemma good_dev_arg ty : good (dev_arg ty).
Proof. unfold dev_arg. good_tac. Qed.
#[export] Hint Resolve good_dev_arg : good.
Lemma good_dev_arg_int : good dev_arg_int.
Proof. unfold dev_arg_int. good_tac. Qed.
Lemma good_dev_arg_long : good dev_arg_long.
Proof. unfold dev_arg_long. good_tac. Qed.
Lemma good_dev_arg_single : good dev_arg_single.
Proof. unfold dev_arg_single. good_tac. Qed.
#[export] Hint Resolve good_dev_arg_int good_dev_arg_long good_dev_arg_single : good.

Lemma good_take_line : good take_line.
Proof.
  unfold take_line. raw.
  - destruct scr as [l a b c]; cbn. destruct l; reflexivity.
  - destruct scr as [l a b c]; cbn. destruct l; apply ext_refl.
Qed.
Lemma good_take_rnd : good take_rnd.
Proof.
  unfold take_rnd. raw.
  - destruct scr as [l a b c]; cbn. destruct a; reflexivity.
  - destruct scr as [l a b c]; cbn. destruct a; apply ext_refl.
Qed.
Lemma good_take_timer : good take_timer.
Proof.
  unfold take_timer. raw.
  - destruct scr as [l a b c]; cbn. destruct b; reflexivity.
  - destruct scr as [l a b c]; cbn. destruct b; apply ext_refl.
Qed.
Lemma good_take_inkey : good take_inkey.
Proof.
  unfold take_inkey. raw.
  - destruct scr as [l a b c]; cbn. destruct c; reflexivity.
  - destruct scr as [l a b c]; cbn. destruct c; apply ext_refl.
Qed.
#[export] Hint Resolve good_take_line good_take_rnd good_take_timer good_take_inkey : good.

Lemma good_pop_n n : forall acc, good (pop_n n acc).
Proof. induction n; intros; simpl; good_tac; try apply IHn. Qed.
#[export] Hint Resolve good_pop_n : good.

Lemma fold_add_event_halt calls : forall s h r,
  fold_left (fun s' t => add_event s' (mkEv E_PRINT [sx_str t])) calls (set_halt s h r)
  = set_halt (fold_left (fun s' t => add_event s' (mkEv E_PRINT [sx_str t])) calls s) h r.
Proof.
  induction calls as [|a calls IH]; intros; simpl; [reflexivity |].
  exact (IH (add_event s (mkEv E_PRINT [sx_str a])) h r).
Qed.

Lemma fold_add_event_ext calls : forall s,
  ext (events s) (events (fold_left (fun s' t => add_event s' (mkEv E_PRINT [sx_str t])) calls s)).
Proof.
  induction calls; intros; simpl; [apply ext_refl |].
  eapply ext_trans; [| apply IHcalls]. apply ext_cons.
Qed.

Lemma good_dev_print : good dev_print.
Proof.
  unfold dev_print. good_tac.
  split; intros; simpl; [now rewrite fold_add_event_halt | apply fold_add_event_ext].
Qed.
#[export] Hint Resolve good_dev_print : good.

Lemma good_push_fields l : good (push_fields l).
Proof. induction l as [|[v ty] l IH]; simpl; good_tac; try assumption. Qed.
#[export] Hint Resolve good_push_fields : good.

Lemma good_input_loop fuel : forall prompt q sl types, good (input_loop fuel prompt q sl types).
Proof. induction fuel; intros; simpl; good_tac; try apply IHfuel. Qed.

Lemma good_pop_ints n : forall acc, good (pop_ints n acc).
Proof. induction n; intros; simpl; good_tac; try apply IHn. Qed.
#[export] Hint Resolve good_pop_ints : good.

Lemma good_dev_input : good dev_input.
Proof.
  unfold dev_input. good_tac.
  split.
  - intros s h r.
    exact (proj1 (good_input_loop (S (length (sc_lines (scr s)))) _ _ _ _) s h r).
  - intros s. apply (proj2 (good_input_loop _ _ _ _ _)).
Qed.
#[export] Hint Resolve good_dev_input : good.

(* ---------- devices ---------- *)

Ltac gmod2 :=
  apply good_modify;
  [ intros; cbn; repeat match goal with |- context [if ?c then _ else _] => destruct c end; reflexivity
  | intros; cbn; repeat match goal with |- context [if ?c then _ else _] => destruct c end;
    first [apply ext_refl | apply ext_cons] ].

Lemma good_dev_read m : good (dev_read m).
Proof.
  unfold dev_read. good_tac.
  all: try gmod2.
Qed.

Lemma good_dev_restore : good dev_restore.
Proof. unfold dev_restore. good_tac. Qed.

Lemma good_dev_rnd : good dev_rnd.
Proof. unfold dev_rnd. good_tac. Qed.

Lemma good_dev_locate : good dev_locate.
Proof. unfold dev_locate. good_tac. Qed.

Lemma good_dev_set_mode : good dev_set_mode.
Proof. unfold dev_set_mode. good_tac. Qed.
#[export] Hint Resolve good_dev_read good_dev_restore good_dev_rnd good_dev_locate good_dev_set_mode : good.

Lemma good_exec_io m d o : good (exec_io m d o).
Proof. unfold exec_io. good_tac. Qed.
#[export] Hint Resolve good_exec_io : good.

(* ---------- instruction helpers ---------- *)

Lemma good_type_mismatch A : good (@type_mismatch A).
Proof. unfold type_mismatch. auto with good. Qed.
#[export] Hint Resolve good_type_mismatch : good.

Lemma good_bitwise op : good (bitwise op).
Proof. unfold bitwise. good_tac. Qed.
Lemma good_arith_prelude : good arith_prelude.
Proof. unfold arith_prelude. good_tac. Qed.
Lemma good_push_opt ty o : good (push_opt ty o).
Proof. unfold push_opt. good_tac. Qed.
Lemma good_check_long z : good (check_long z).
Proof. unfold check_long. good_tac. Qed.
#[export] Hint Resolve good_bitwise good_arith_prelude good_push_opt good_check_long : good.

Lemma good_check_bounds_long bs : good (check_bounds_long bs).
Proof. induction bs as [|[lb ub] bs IH]; simpl; good_tac; try assumption. Qed.
Lemma good_cell_val_Z o : good (cell_val_Z o).
Proof. unfold cell_val_Z. good_tac. Qed.
#[export] Hint Resolve good_check_bounds_long good_cell_val_Z : good.

Lemma good_read_array_bounds n : good (read_array_bounds n).
Proof.
  unfold read_array_bounds. generalize (@nil (Z * Z)).
  induction n; intros acc; simpl; good_tac; try apply IHn.
Qed.
#[export] Hint Resolve good_read_array_bounds : good.

Lemma good_exec_arridx n : good (exec_arridx n).
Proof.
  unfold exec_arridx. good_tac.
  - match goal with |- good (?F (Z.to_nat n) []) =>
      assert (HF : forall k acc, good (F k acc));
        [induction k; intros; simpl; good_tac; try apply IHk | apply HF] end.
  - match goal with |- good (?F ?l ?b ?acc) =>
      assert (HF : forall l0 b0 acc0, good (F l0 b0 acc0));
        [induction l0 as [|i l0 IH]; intros; simpl; good_tac; try apply IH | apply HF] end.
Qed.
#[export] Hint Resolve good_exec_arridx : good.

Lemma good_find_stmt_at m stmts addr : good (find_stmt_at m stmts addr).
Proof. unfold find_stmt_at. good_tac. Qed.
#[export] Hint Resolve good_find_stmt_at : good.

Lemma good_exec_errres m next : good (exec_errres m next).
Proof. unfold exec_errres. good_tac. Qed.
#[export] Hint Resolve good_exec_errres : good.

Lemma good_read_generic l ty c d : good (read_generic l ty c d).
Proof. unfold read_generic. good_tac. Qed.
#[export] Hint Resolve good_read_generic : good.

Lemma good_exec_initarr l i n es : good (exec_initarr l i n es).
Proof.
  unfold exec_initarr. good_tac.
  all: match goal with |- good (?F ?bs ?k) =>
      assert (HF : forall bs0 k0, good (F bs0 k0));
        [induction bs0 as [|[lb ub] bs0 IH]; intros; simpl; good_tac; try apply IH | apply HF] end.
Qed.
#[export] Hint Resolve good_exec_initarr : good.

Lemma good_T_lastkw A c : good (fun s' => @T A c (last_kw_ok s') s').
Proof. split; intros; [reflexivity | apply ext_refl]. Qed.
#[export] Hint Resolve good_T_lastkw : good.

(* every instruction except halt commutes with overwriting halted/reason *)
Lemma good_exec m i : i <> IHalt -> good (exec m i).
Proof.
  intros Hi. destruct i; try congruence; cbv beta iota delta [exec]; good_tac.
  all: try match goal with |- good (?F (Z.to_nat ?p)) =>
      assert (HF : forall k, good (F k));
        [induction k; intros; simpl; good_tac; try apply IHk | apply HF] end.
Qed.

Lemma exec_halt_ext m s : ext (events s) (events (ostate (exec m IHalt s))).
Proof. apply ext_refl. Qed.
