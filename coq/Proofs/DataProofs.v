(* C15, device and program part: READ delivers the items in source order,
   RESTORE label positions exactly (where the code supports it), the grouping
   of DATA statements by "last label seen" keeps the source order. *)
From Coq Require Import ZArith List Bool Lia.
From QV Require Import Sx Strs Fl NumFmt Cell DataText DataDev DataSpec.
From QV Require Export DataTextProofs.
Import ListNotations.
Open Scope Z_scope.

(* ---------- lists ---------- *)

Lemma nth_error_hd_skipn {A} (l : list A) n : nth_error l n = hd_error (skipn n l).
Proof.
  revert l; induction n as [|n IH]; intros [|a l]; simpl; try reflexivity. apply IH.
Qed.

Lemma skipn_S_tl {A} (l : list A) n : skipn (S n) l = tl (skipn n l).
Proof.
  revert l; induction n as [|n IH]; intros [|a l]; try reflexivity.
  change (skipn (S (S n)) (a :: l)) with (skipn (S n) l). rewrite IH. reflexivity.
Qed.

Lemma skipn_nth {A} (l : list A) i x :
  (i < length l)%nat -> skipn i l = nth i l x :: skipn (S i) l.
Proof.
  revert l; induction i as [|i IH]; intros [|a l] H; simpl in *; try lia; [reflexivity|].
  apply IH. lia.
Qed.

Lemma concat_skipn_nth {A} (d : list (list A)) k :
  concat (skipn k d) = nth k d [] ++ concat (skipn (S k) d).
Proof.
  revert d; induction k as [|k IH]; intros [|a d]; try reflexivity.
  change (skipn (S k) (a :: d)) with (skipn k d). rewrite IH. reflexivity.
Qed.

Lemma skipn_app_exact {A} (a b : list A) : skipn (length a) (a ++ b) = b.
Proof. induction a; simpl; [reflexivity | assumption]. Qed.

(* ---------- the device ---------- *)

Lemma py_nth_nat {A} (l : list A) (n : nat) : py_nth l (Z.of_nat n) = nth_error l n.
Proof.
  unfold py_nth, zlen.
  destruct (Nat.lt_ge_cases n (length l)) as [H|H].
  - replace ((0 <=? Z.of_nat n) && (Z.of_nat n <? Z.of_nat (length l))) with true.
    + now rewrite Nat2Z.id.
    + symmetry. apply andb_true_iff. split; [apply Z.leb_le | apply Z.ltb_lt]; lia.
  - replace ((0 <=? Z.of_nat n) && (Z.of_nat n <? Z.of_nat (length l))) with false.
    + replace (Z.of_nat n <? 0) with false by (symmetry; apply Z.ltb_ge; lia).
      rewrite andb_false_r. symmetry. now apply nth_error_None.
    + symmetry. apply andb_false_iff. right. apply Z.ltb_ge. lia.
Qed.

(* items still to be delivered from cursor (p, i), in the order the device delivers them *)
Definition remaining (d : dparts) (p i : nat) : list ditem :=
  skipn i (nth p d []) ++ concat (skipn (S p) d).

(* a cursor the device can be in: inside a part, or just after the last part *)
Definition cur_ok (d : dparts) (p i : nat) : Prop :=
  ((p < length d)%nat /\ (i < length (nth p d []))%nat) \/ (p = length d /\ i = 0%nat).

Lemma parts_nonempty_nth d p :
  parts_nonempty d = true -> (p < length d)%nat -> (0 < length (nth p d []))%nat.
Proof.
  unfold parts_nonempty. intros H Hp. rewrite forallb_forall in H.
  specialize (H (nth p d []) (nth_In d [] Hp)).
  destruct (nth p d []); [discriminate | simpl; lia].
Qed.

Lemma remaining_part_start d k : remaining d k 0 = concat (skipn k d).
Proof. unfold remaining. simpl. symmetry. apply concat_skipn_nth. Qed.

Lemma cur_ok_part_start d k :
  parts_nonempty d = true -> (k <= length d)%nat -> cur_ok d k 0.
Proof.
  intros H Hk. destruct (Nat.eq_dec k (length d)) as [->|Hn].
  - right. split; reflexivity.
  - left. split; [lia|]. apply parts_nonempty_nth; [exact H | lia].
Qed.

Lemma exec_read_ok d p i ty :
  parts_nonempty d = true -> cur_ok d p i ->
  match remaining d p i with
  | [] => exec_read d (Z.of_nat p, Z.of_nat i) ty = (RDevErr 4, (Z.of_nat p, Z.of_nat i))
  | it :: rest =>
    match convert ty it with
    | RVal c => exists p' i',
        exec_read d (Z.of_nat p, Z.of_nat i) ty = (RVal c, (Z.of_nat p', Z.of_nat i')) /\
        cur_ok d p' i' /\ remaining d p' i' = rest
    | r => exec_read d (Z.of_nat p, Z.of_nat i) ty = (r, (Z.of_nat p, Z.of_nat i))
    end
  end.
Proof.
  intros Hne [[Hp Hi] | [Hp Hi]].
  - set (part := nth p d []) in *.
    assert (Hd : nth_error d p = Some part) by (apply nth_error_nth'; exact Hp).
    set (it := nth i part DEmpty).
    assert (Hpi : nth_error part i = Some it) by (apply nth_error_nth'; exact Hi).
    assert (Hrm : remaining d p i = it :: (skipn (S i) part ++ concat (skipn (S p) d))).
    { unfold remaining. fold part. rewrite (skipn_nth part i DEmpty Hi). reflexivity. }
    rewrite Hrm. unfold exec_read. rewrite py_nth_nat, Hd, py_nth_nat, Hpi.
    destruct (convert ty it) as [c| | |] eqn:Ec; try reflexivity.
    unfold zlen. destruct (Z.of_nat i + 1 >=? Z.of_nat (length part)) eqn:Eg.
    + exists (S p), 0%nat. split; [|split].
      * rewrite Nat2Z.inj_succ. reflexivity.
      * apply cur_ok_part_start; [exact Hne | lia].
      * rewrite remaining_part_start.
        assert (Hs : skipn (S i) part = []) by (apply skipn_all2; apply Z.geb_le in Eg; lia).
        now rewrite Hs.
    + exists p, (S i). split; [|split].
      * rewrite Nat2Z.inj_succ. reflexivity.
      * left. split; [exact Hp|]. fold part. rewrite Z.geb_leb in Eg. apply Z.leb_gt in Eg. lia.
      * unfold remaining. fold part. reflexivity.
  - subst p i. unfold remaining. rewrite nth_overflow by lia.
    rewrite (skipn_all2 (n := S (length d)) d) by lia. simpl.
    unfold exec_read. rewrite py_nth_nat.
    replace (nth_error d (length d)) with (@None (list ditem)); [reflexivity|].
    symmetry. apply nth_error_None. lia.
Qed.

Lemma run_ops_read_val d cur ty c cur' code :
  exec_read d cur ty = (RVal c, cur') ->
  run_ops d cur (DRead ty :: code)
  = (c :: fst (run_ops d cur' code), snd (run_ops d cur' code)).
Proof. intro H. simpl. rewrite H. destruct (run_ops d cur' code). reflexivity. Qed.

Lemma run_ops_read_err d cur ty r cur' code :
  exec_read d cur ty = (r, cur') -> (forall c, r <> RVal c) ->
  run_ops d cur (DRead ty :: code) = ([], ETrap r).
Proof.
  intros H Hr. simpl. rewrite H. destruct r; try reflexivity. exfalso. now apply (Hr c).
Qed.

Definition str_cell (it : ditem) : cell :=
  match it with DEmpty => CStr [] | DItem s => CStr s end.

Lemma convert_str it : convert 5 it = RVal (str_cell it).
Proof. destruct it; reflexivity. Qed.

Lemma read_all_from d ty rest : forall p i,
  parts_nonempty d = true -> cur_ok d p i -> remaining d p i = rest ->
  run_ops d (Z.of_nat p, Z.of_nat i) (map DRead (repeat 5 (length rest) ++ [ty]))
  = (map str_cell rest, ETrap (RDevErr 4)).
Proof.
  induction rest as [|it rest IH]; intros p i Hne Hok Hrem.
  - pose proof (exec_read_ok d p i ty Hne Hok) as H. rewrite Hrem in H.
    cbn [length repeat app map]. apply (run_ops_read_err _ _ _ _ _ _ H). discriminate.
  - pose proof (exec_read_ok d p i 5 Hne Hok) as H. rewrite Hrem in H.
    rewrite convert_str in H. destruct H as [p' [i' [He [Hok' Hrem']]]].
    cbn [length repeat app map].
    rewrite (run_ops_read_val _ _ _ _ _ _ He).
    rewrite (IH p' i' Hne Hok' Hrem'). reflexivity.
Qed.

Theorem read_all_then_out_of_data d ty :
  parts_nonempty d = true ->
  run_ops d cur_init (map DRead (repeat 5 (length (concat d)) ++ [ty]))
  = (map str_cell (concat d), ETrap (RDevErr 4)).
Proof.
  intro Hne. change cur_init with (Z.of_nat 0, Z.of_nat 0).
  apply read_all_from; [exact Hne | | ].
  - apply cur_ok_part_start; [exact Hne | lia].
  - apply remaining_part_start.
Qed.

(* the k-th READ: after k items read as strings, READ ty delivers the k-th item of the
   flat list, converted; a failing conversion is the trap, with the k values before it *)
Lemma kth_read_from d ty it post pre : forall p i,
  parts_nonempty d = true -> cur_ok d p i -> remaining d p i = pre ++ it :: post ->
  run_ops d (Z.of_nat p, Z.of_nat i) (map DRead (repeat 5 (length pre) ++ [ty]))
  = match convert ty it with
    | RVal c => (map str_cell pre ++ [c], EDone)
    | r => (map str_cell pre, ETrap r)
    end.
Proof.
  induction pre as [|x pre IH]; intros p i Hne Hok Hrem.
  - cbn [length repeat app map].
    destruct (convert ty it) as [c|k| |] eqn:Ec;
      pose proof (exec_read_ok d p i ty Hne Hok) as H; rewrite Hrem in H;
      cbn [app] in H; rewrite Ec in H.
    + destruct H as [p' [i' [He _]]]. rewrite (run_ops_read_val _ _ _ _ _ _ He). reflexivity.
    + apply (run_ops_read_err _ _ _ _ _ _ H). discriminate.
    + apply (run_ops_read_err _ _ _ _ _ _ H). discriminate.
    + apply (run_ops_read_err _ _ _ _ _ _ H). discriminate.
  - pose proof (exec_read_ok d p i 5 Hne Hok) as H. rewrite Hrem in H. cbn [app] in H.
    rewrite convert_str in H. destruct H as [p' [i' [He [Hok' Hrem']]]].
    cbn [length repeat app map].
    rewrite (run_ops_read_val _ _ _ _ _ _ He).
    rewrite (IH p' i' Hne Hok' Hrem'). destruct (convert ty it); reflexivity.
Qed.

Theorem kth_read d k ty it :
  parts_nonempty d = true -> nth_error (concat d) k = Some it ->
  run_ops d cur_init (map DRead (repeat 5 k ++ [ty]))
  = match convert ty it with
    | RVal c => (map str_cell (firstn k (concat d)) ++ [c], EDone)
    | r => (map str_cell (firstn k (concat d)), ETrap r)
    end.
Proof.
  intros Hne Hn. destruct (nth_error_split _ _ Hn) as [l1 [l2 [El Hl]]].
  assert (Hf : firstn k (concat d) = l1).
  { rewrite El, <- Hl. rewrite firstn_app, Nat.sub_diag, firstn_all. simpl. apply app_nil_r. }
  rewrite Hf. subst k. change cur_init with (Z.of_nat 0, Z.of_nat 0).
  apply (kth_read_from d ty it l2 l1); [exact Hne | |].
  - apply cur_ok_part_start; [exact Hne | lia].
  - rewrite remaining_part_start. exact El.
Qed.

(* conversions *)
Lemma convert_empty :
  convert 1 DEmpty = RVal (CI 0) /\ convert 2 DEmpty = RVal (CL 0) /\
  convert 3 DEmpty = RVal (CS (fzero false)) /\ convert 4 DEmpty = RVal (CD (fzero false)) /\
  convert 5 DEmpty = RVal (CStr []).
Proof. repeat split. Qed.

Lemma convert_text_into_numeric s :
  (py_int s = None -> convert 1 (DItem s) = RDevErr 2 /\ convert 2 (DItem s) = RDevErr 2) /\
  (py_float s = None -> convert 3 (DItem s) = RDevErr 2 /\ convert 4 (DItem s) = RDevErr 2).
Proof. split; intro H; unfold convert; rewrite H; split; reflexivity. Qed.

Lemma convert_string_verbatim s : convert 5 (DItem s) = RVal (CStr s).
Proof. reflexivity. Qed.

Lemma convert_typed ty it : 1 <= ty <= 5 -> convert ty it <> RAssert.
Proof.
  intro H. assert (E : ty = 1 \/ ty = 2 \/ ty = 3 \/ ty = 4 \/ ty = 5) by lia.
  destruct E as [->|[->|[->|[->| ->]]]]; unfold convert; destruct it as [|s];
    try discriminate.
  - destruct (py_int s); [destruct (in_int z)|]; discriminate.
  - destruct (py_int s); [destruct (in_long z)|]; discriminate.
  - destruct (py_float s); [destruct (to_single f)|]; discriminate.
  - destruct (py_float s); discriminate.
Qed.

(* ---------- labels ---------- *)

Lemma key_eqb_eq a b : key_eqb a b = true <-> a = b.
Proof.
  destruct a as [x|], b as [y|]; simpl; split; intro H; try discriminate; try reflexivity.
  - apply str_eqb_eq in H. now subst.
  - inversion H. now apply str_eqb_eq.
Qed.

Lemma key_eqb_refl a : key_eqb a a = true.
Proof. now apply key_eqb_eq. Qed.

Lemma key_eqb_neq a b : a <> b -> key_eqb a b = false.
Proof. intro H. destruct (key_eqb a b) eqn:E; [|reflexivity]. now apply key_eqb_eq in E. Qed.

Lemma mem_label_In l ls : mem_label l ls = true <-> In l ls.
Proof.
  unfold mem_label. rewrite existsb_exists. split.
  - intros [x [H1 H2]]. apply str_eqb_eq in H2. now subst.
  - intro H. exists l. split; [exact H | now apply str_eqb_eq].
Qed.

Lemma has_dup_NoDup ls : has_dup ls = false -> NoDup ls.
Proof.
  induction ls as [|l ls IH]; simpl; intro H; [constructor|].
  apply orb_false_iff in H as [H1 H2]. constructor; [|now apply IH].
  intro Hin. apply mem_label_In in Hin. congruence.
Qed.

Definition ev_labels (e : ev) : list label :=
  match e with ELabel l | ESubLabel l => [l] | EData _ => [] end.

Definition ev_items (e : ev) : list ditem :=
  match e with EData its => its | _ => [] end.

Lemma labels_of_cons e evs : labels_of (e :: evs) = ev_labels e ++ labels_of evs.
Proof. destruct e; reflexivity. Qed.

Lemma labels_of_app a b : labels_of (a ++ b) = labels_of a ++ labels_of b.
Proof. unfold labels_of. apply flat_map_app. Qed.

Lemma all_items_cons e evs : all_items (e :: evs) = ev_items e ++ all_items evs.
Proof. destruct e; reflexivity. Qed.

Lemma all_items_app a b : all_items (a ++ b) = all_items a ++ all_items b.
Proof. unfold all_items. apply flat_map_app. Qed.

(* ---------- the dictionary of DATA groups ---------- *)

Definition gacc : Type := list (key * list ditem).
Definition gkeys (acc : gacc) : list key := map fst acc.

Lemma In_key_dec (k : key) ks : In k ks \/ ~ In k ks.
Proof.
  induction ks as [|a ks IH]; [right; intros []|].
  destruct (key_eqb a k) eqn:E.
  - left. left. now apply key_eqb_eq.
  - destruct IH as [IH|IH]; [left; now right|].
    right. intros [H|H]; [|contradiction]. subst. now rewrite key_eqb_refl in E.
Qed.

Lemma dict_extend_skip acc0 acc1 k its :
  ~ In k (gkeys acc0) -> dict_extend (acc0 ++ acc1) k its = acc0 ++ dict_extend acc1 k its.
Proof.
  induction acc0 as [|[k' v] acc0 IH]; intro H; [reflexivity|].
  simpl in *. rewrite key_eqb_neq by (intro E; apply H; now left).
  f_equal. apply IH. intro Hin. apply H. now right.
Qed.

Lemma dict_extend_new acc k its :
  ~ In k (gkeys acc) -> dict_extend acc k its = acc ++ [(k, its)].
Proof.
  intro H. rewrite <- (app_nil_r acc) at 1. now rewrite dict_extend_skip.
Qed.

Lemma dict_extend_last acc' k v its :
  ~ In k (gkeys acc') -> dict_extend (acc' ++ [(k, v)]) k its = acc' ++ [(k, v ++ its)].
Proof. intro H. rewrite dict_extend_skip by exact H. simpl. now rewrite key_eqb_refl. Qed.

Definition gstate : Type := (key * gacc)%type.
Definition gparts (st : gstate) : list ditem := concat (map snd (snd st)).

(* invariant of Pass1 over the remaining events *)
Definition ginv (st : gstate) (evs : list ev) : Prop :=
  NoDup (labels_of evs) /\
  (forall l, In l (labels_of evs) -> ~ In (Some l) (gkeys (snd st))) /\
  (forall l, fst st = Some l -> ~ In l (labels_of evs)) /\
  (In (fst st) (gkeys (snd st)) ->
   exists acc' v, snd st = acc' ++ [(fst st, v)] /\ ~ In (fst st) (gkeys acc')).

Lemma gkeys_app a b : gkeys (a ++ b) = gkeys a ++ gkeys b.
Proof. unfold gkeys. apply map_app. Qed.

Lemma ginv_step st e evs :
  ginv st (e :: evs) ->
  ginv (gstep st e) evs /\ gparts (gstep st e) = gparts st ++ ev_items e.
Proof.
  destruct st as [last acc]. unfold ginv, gparts. simpl fst. simpl snd.
  rewrite labels_of_cons. intros [Hnd [Hk [Hl Hin]]].
  assert (Hlab : forall l, (e = ELabel l \/ e = ESubLabel l) ->
            ginv (Some l, acc) evs /\ concat (map snd acc) = concat (map snd acc) ++ ev_items e).
  { intros l He. assert (Hev : ev_labels e = [l]) by (destruct He; subst; reflexivity).
    rewrite Hev in *. simpl in Hnd, Hk, Hl. inversion Hnd as [|x xs Hnotin Hnd']; subst.
    split; [|destruct He; subst; simpl; now rewrite app_nil_r].
    unfold ginv. simpl fst. simpl snd. split; [exact Hnd'|]. split; [|split].
    - intros l' Hl'. apply Hk. now right.
    - intros l' E. inversion E; subst. exact Hnotin.
    - intro Hc. exfalso. apply (Hk l); [now left | exact Hc]. }
  destruct e as [l|its|l].
  - simpl gstep. apply Hlab. now left.
  - simpl gstep. simpl ev_labels in *. simpl app in *. simpl ev_items. cbn [fst snd].
    destruct (In_key_dec last (gkeys acc)) as [Hi|Hi].
    + destruct (Hin Hi) as [acc' [v [Ea Hni]]]. subst acc.
      rewrite (dict_extend_last _ _ _ _ Hni).
      assert (Hkeys : gkeys (acc' ++ [(last, v ++ its)]) = gkeys (acc' ++ [(last, v)])).
      { now rewrite !gkeys_app. }
      split.
      * split; [exact Hnd|]. split; [|split].
        -- intros l Hl'. rewrite Hkeys. now apply Hk.
        -- exact Hl.
        -- intros _. exists acc', (v ++ its). split; [reflexivity | exact Hni].
      * rewrite !map_app, !concat_app. simpl. rewrite !app_nil_r. now rewrite app_assoc.
    + rewrite (dict_extend_new _ _ _ Hi). split.
      * split; [exact Hnd|]. split; [|split].
        -- intros l Hl' Hc. rewrite gkeys_app in Hc. apply in_app_or in Hc as [Hc|Hc].
           ++ now apply (Hk l Hl').
           ++ simpl in Hc. destruct Hc as [Hc|[]]. apply (Hl l); [now symmetry | exact Hl'].
        -- exact Hl.
        -- intros _. exists acc, its. split; [reflexivity | exact Hi].
      * rewrite map_app, concat_app. simpl. now rewrite app_nil_r.
  - simpl gstep. apply Hlab. now right.
Qed.

Lemma ginv_run a : forall st b,
  ginv st (a ++ b) ->
  ginv (fold_left gstep a st) b /\ gparts (fold_left gstep a st) = gparts st ++ all_items a.
Proof.
  induction a as [|e a IH]; intros st b H.
  - simpl. split; [exact H | now rewrite app_nil_r].
  - simpl app in H. destruct (ginv_step st e (a ++ b) H) as [H1 H2].
    destruct (IH (gstep st e) b H1) as [H3 H4]. simpl fold_left. split; [exact H3|].
    rewrite H4, H2, all_items_cons. now rewrite app_assoc.
Qed.

Lemma ginv_init evs : NoDup (labels_of evs) -> ginv (None, []) evs.
Proof.
  intro H. unfold ginv. simpl. split; [exact H|]. split; [|split].
  - intros l _ [].
  - intros l E. discriminate.
  - intros [].
Qed.

Theorem parts_are_source_order evs :
  has_dup (labels_of evs) = false -> concat (parts_of (group evs)) = all_items evs.
Proof.
  intro H. apply has_dup_NoDup in H.
  destruct (ginv_run evs (None, []) []) as [_ H2].
  - rewrite app_nil_r. now apply ginv_init.
  - unfold group, parts_of. unfold gparts in H2. simpl in H2. exact H2.
Qed.

(* entries whose keys cannot occur any more are never touched *)
Lemma grun_prefix evs : forall last acc0 acc1,
  (forall k, In k (gkeys acc0) -> k <> last /\ forall l, In l (labels_of evs) -> k <> Some l) ->
  fold_left gstep evs (last, acc0 ++ acc1)
  = (fst (fold_left gstep evs (last, acc1)), acc0 ++ snd (fold_left gstep evs (last, acc1))).
Proof.
  induction evs as [|e evs IH]; intros last acc0 acc1 H; [reflexivity|].
  rewrite labels_of_cons in H.
  assert (Hlab : forall l, ev_labels e = [l] ->
            fold_left gstep evs (Some l, acc0 ++ acc1)
            = (fst (fold_left gstep evs (Some l, acc1)),
               acc0 ++ snd (fold_left gstep evs (Some l, acc1)))).
  { intros l He. apply IH. intros k Hk. destruct (H k Hk) as [_ H2]. rewrite He in H2. split.
    - apply H2. now left.
    - intros l' Hl'. apply H2. now right. }
  destruct e as [l|its|l]; simpl fold_left.
  - now apply Hlab.
  - rewrite dict_extend_skip.
    + apply IH. intros k Hk. destruct (H k Hk) as [H1 H2]. split; [exact H1|].
      intros l Hl. apply H2. exact Hl.
    + intro Hin. destruct (H last Hin) as [H1 _]. now apply H1.
  - now apply Hlab.
Qed.

Lemma dict_extend_head k v r k2 its :
  exists v' r', dict_extend ((k, v) :: r) k2 its = (k, v') :: r'.
Proof. simpl. destruct (key_eqb k k2); eexists; eexists; reflexivity. Qed.

Lemma grun_head evs : forall last k v r,
  exists v' r', snd (fold_left gstep evs (last, (k, v) :: r)) = (k, v') :: r'.
Proof.
  induction evs as [|e evs IH]; intros last k v r; [now exists v, r|].
  destruct e as [l|its|l]; simpl fold_left; try apply IH.
  destruct (key_eqb k last); apply IH.
Qed.

Lemma key_index_app a b k i :
  ~ In k (gkeys a) -> key_index (a ++ b) k i = key_index b k (i + Z.of_nat (length a)).
Proof.
  revert i; induction a as [|[k' v] a IH]; intros i H.
  - simpl. now rewrite Z.add_0_r.
  - simpl in H. simpl app. cbn [key_index].
    rewrite key_eqb_neq by (intro E; apply H; now left).
    rewrite IH by (intro Hin; apply H; now right).
    f_equal. simpl length. lia.
Qed.

Lemma label_pos_app pre l r : forall n,
  ~ In l (labels_of pre) ->
  label_pos l (pre ++ ELabel l :: r) n = Some (n + length (all_items pre))%nat.
Proof.
  induction pre as [|e pre IH]; intros n H.
  - simpl. assert (E : str_eqb l l = true) by now apply str_eqb_eq. rewrite E. f_equal. lia.
  - rewrite labels_of_cons in H. rewrite all_items_cons.
    assert (Hp : ~ In l (labels_of pre)) by (intro Hin; apply H; apply in_or_app; now right).
    destruct e as [l'|its|l']; simpl app; cbn [label_pos]; simpl ev_items.
    + destruct (str_eqb l l') eqn:E.
      * apply str_eqb_eq in E. subst. exfalso. apply H. now left.
      * now apply IH.
    + rewrite IH by exact Hp. f_equal. rewrite app_length. lia.
    + now apply IH.
Qed.

Lemma label_has_data_split l evs :
  label_has_data l evs = true -> exists pre its post, evs = pre ++ ELabel l :: EData its :: post.
Proof.
  induction evs as [|e evs IH]; [discriminate|].
  destruct e as [l'|its|l']; cbn [label_has_data]; intro H.
  - apply orb_true_iff in H as [H|H].
    + apply andb_true_iff in H as [H1 H2]. apply str_eqb_eq in H1. subst l'.
      destruct evs as [|[|its|] post]; try discriminate.
      exists [], its, post. reflexivity.
    + destruct (IH H) as [pre [its [post E]]]. exists (ELabel l' :: pre), its, post.
      now rewrite E.
  - destruct (IH H) as [pre [its' [post E]]]. exists (EData its :: pre), its', post. now rewrite E.
  - destruct (IH H) as [pre [its [post E]]]. exists (ESubLabel l' :: pre), its, post. now rewrite E.
Qed.

Lemma group_label pre l its post :
  NoDup (labels_of (pre ++ ELabel l :: EData its :: post)) ->
  exists k,
    key_index (group (pre ++ ELabel l :: EData its :: post)) (Some l) 0 = Some (Z.of_nat k) /\
    (k < length (group (pre ++ ELabel l :: EData its :: post)))%nat /\
    concat (firstn k (parts_of (group (pre ++ ELabel l :: EData its :: post)))) = all_items pre /\
    label_pos l (pre ++ ELabel l :: EData its :: post) 0 = Some (length (all_items pre)).
Proof.
  intro Hnd. set (evs := pre ++ ELabel l :: EData its :: post) in *.
  destruct (ginv_run pre (None, []) (ELabel l :: EData its :: post) (ginv_init _ Hnd)) as [Hinv Hparts].
  destruct (fold_left gstep pre (None, [])) as [last1 acc1] eqn:E1.
  unfold gparts in Hparts. simpl in Hparts.
  destruct Hinv as [Hnd1 [Hk1 _]]. simpl fst in *. simpl snd in *.
  assert (Hl1 : ~ In (Some l) (gkeys acc1)) by (apply Hk1; now left).
  destruct (grun_head post (Some l) (Some l) its []) as [v' [r' Eh]].
  assert (Hg : group evs = acc1 ++ (Some l, v') :: r').
  { unfold group, evs. rewrite fold_left_app, E1. simpl fold_left.
    rewrite (dict_extend_new _ _ _ Hl1). rewrite grun_prefix.
    - cbn [snd]. f_equal. exact Eh.
    - intros k Hk. split.
      + intro Ek. subst k. contradiction.
      + intros l' Hl' Ek. subst k. apply (Hk1 l'); [|exact Hk].
        rewrite !labels_of_cons. simpl. now right. }
  exists (length acc1). rewrite Hg. split; [|split; [|split]].
  - rewrite key_index_app by exact Hl1. cbn [key_index]. rewrite key_eqb_refl. f_equal.
  - rewrite app_length. simpl. lia.
  - unfold parts_of. rewrite map_app.
    replace (length acc1) with (length (map snd acc1)) by apply map_length.
    rewrite firstn_app, Nat.sub_diag, firstn_all. simpl. rewrite app_nil_r. exact Hparts.
  - unfold evs. rewrite label_pos_app; [reflexivity|].
    unfold evs in Hnd. rewrite labels_of_app, labels_of_cons in Hnd. simpl in Hnd.
    apply NoDup_remove_2 in Hnd. intro Hin. apply Hnd. apply in_or_app. now left.
Qed.

(* RESTORE label: the part index exists and its first item is the first item at or after the label *)
Theorem restore_label evs l :
  has_dup (labels_of evs) = false -> label_has_data l evs = true ->
  exists k n,
    key_index (group evs) (Some l) 0 = Some (Z.of_nat k) /\
    (k < length (parts_of (group evs)))%nat /\
    label_pos l evs 0 = Some n /\
    skipn n (all_items evs) = concat (skipn k (parts_of (group evs))).
Proof.
  intros Hd Hl. pose proof (parts_are_source_order evs Hd) as Hso.
  apply has_dup_NoDup in Hd.
  destruct (label_has_data_split l evs Hl) as [pre [its [post E]]]. subst evs.
  destruct (group_label pre l its post Hd) as [k [H1 [H2 [H3 H4]]]].
  exists k, (length (all_items pre)). split; [exact H1|]. split; [|split; [exact H4|]].
  - unfold parts_of. now rewrite map_length.
  - rewrite <- Hso. rewrite <- (firstn_skipn k (parts_of _)) at 1.
    rewrite concat_app, H3. apply skipn_app_exact.
Qed.

(* every part of the data section is non-empty *)
Lemma dict_extend_nonempty acc k its :
  its <> [] -> parts_nonempty (map snd acc) = true ->
  parts_nonempty (map snd (dict_extend acc k its)) = true.
Proof.
  intro Hi. induction acc as [|[k' v] acc IH]; simpl; intro H.
  - destruct its; [contradiction | reflexivity].
  - apply andb_true_iff in H as [H1 H2]. destruct (key_eqb k' k); simpl.
    + rewrite H2. destruct v; [discriminate | reflexivity].
    + rewrite H1. now apply IH.
Qed.

Lemma grun_nonempty evs : forall st,
  data_nonempty evs = true -> parts_nonempty (map snd (snd st)) = true ->
  parts_nonempty (map snd (snd (fold_left gstep evs st))) = true.
Proof.
  induction evs as [|e evs IH]; intros [last acc] Hd Hp; [exact Hp|].
  simpl in Hd. apply andb_true_iff in Hd as [He Hd].
  destruct e as [l|its|l]; simpl fold_left; apply IH; try assumption.
  simpl. apply dict_extend_nonempty; [|exact Hp]. destruct its; [discriminate | discriminate].
Qed.

Lemma group_nonempty evs :
  data_nonempty evs = true -> parts_nonempty (parts_of (group evs)) = true.
Proof. intro H. unfold group, parts_of. now apply grun_nonempty. Qed.

(* ---------- programs ---------- *)

(* code generation with the index pushed for a bare RESTORE as a parameter:
   -1 = the code as it is, 0 = after fixes/C15-D11.diff *)
Fixpoint gen_ops_b (b : Z) (g : gacc) (ops : list op) : option (list dop) :=
  match ops with
  | [] => Some []
  | ORead ty :: r => option_map (cons (DRead ty)) (gen_ops_b b g r)
  | ORestore None :: r => option_map (cons (DRestore b)) (gen_ops_b b g r)
  | ORestore (Some l) :: r =>
    match key_index g (Some l) 0 with
    | Some i => option_map (cons (DRestore i)) (gen_ops_b b g r)
    | None => None
    end
  end.

Lemma gen_ops_is g ops : gen_ops g ops = gen_ops_b (-1) g ops.
Proof.
  induction ops as [|[ty|[l|]] r IH]; simpl; try reflexivity; now rewrite IH.
Qed.

Lemma gen_ops_fixed_is g ops : gen_ops_fixed g ops = gen_ops_b 0 g ops.
Proof.
  induction ops as [|[ty|[l|]] r IH]; simpl; try reflexivity; now rewrite IH.
Qed.

Section Sim.
  Variable evs : list ev.
  Hypothesis Hdup : has_dup (labels_of evs) = false.
  Hypothesis Hne : data_nonempty evs = true.

  Let g := group evs.
  Let d := parts_of g.

  Lemma d_nonempty : parts_nonempty d = true.
  Proof. apply group_nonempty. exact Hne. Qed.

  Lemma d_source : concat d = all_items evs.
  Proof. apply parts_are_source_order. exact Hdup. Qed.

  Lemma sim b ops : forall p i pos,
    ops_typed ops = true -> targets_own_data evs ops = true ->
    (b = 0 \/ no_bare_restore ops = true) ->
    cur_ok d p i -> skipn pos (all_items evs) = remaining d p i ->
    exists code, gen_ops_b b g ops = Some code /\
      exists e', abstract_ending (snd (run_ops d (Z.of_nat p, Z.of_nat i) code)) = Some e' /\
                 spec_run evs pos ops = (fst (run_ops d (Z.of_nat p, Z.of_nat i) code), e').
  Proof.
    induction ops as [|o ops IH]; intros p i pos Hty Htg Hb Hok Hrem.
    - exists []. split; [reflexivity|]. exists SDone. split; reflexivity.
    - destruct o as [ty|[l|]].
      + (* READ *)
        simpl in Hty. apply andb_true_iff in Hty as [Hty1 Hty].
        assert (Hb' : b = 0 \/ no_bare_restore ops = true).
        { destruct Hb as [Hb|Hb]; [now left | right; exact Hb]. }
        assert (Htr : 1 <= ty <= 5).
        { apply andb_true_iff in Hty1 as [A B]. apply Z.leb_le in A. apply Z.leb_le in B. lia. }
        destruct (IH p i pos Hty Htg Hb' Hok Hrem) as [code0 [Hc0 _]].
        pose proof (exec_read_ok d p i ty d_nonempty Hok) as Hr.
        cbn [spec_run]. rewrite nth_error_hd_skipn, Hrem.
        destruct (remaining d p i) as [|it rest] eqn:Er.
        * exists (DRead ty :: code0). split; [cbn [gen_ops_b]; now rewrite Hc0|].
          rewrite (run_ops_read_err _ _ _ _ _ _ Hr) by discriminate.
          exists SRuntimeError. split; reflexivity.
        * cbn [hd_error]. destruct (convert ty it) as [c|k| |] eqn:Ec.
          -- destruct Hr as [p' [i' [He [Hok' Hrem']]]].
             assert (Hsk : skipn (S pos) (all_items evs) = remaining d p' i').
             { rewrite skipn_S_tl, Hrem, Hrem'. reflexivity. }
             destruct (IH p' i' (S pos) Hty Htg Hb' Hok' Hsk) as [code [Hc [e' [Ha Hs]]]].
             exists (DRead ty :: code). split; [cbn [gen_ops_b]; now rewrite Hc|].
             rewrite (run_ops_read_val _ _ _ _ _ _ He). exists e'. split; [exact Ha|].
             rewrite Hs. reflexivity.
          -- exists (DRead ty :: code0). split; [cbn [gen_ops_b]; now rewrite Hc0|].
             rewrite (run_ops_read_err _ _ _ _ _ _ Hr) by discriminate.
             exists SRuntimeError. split; reflexivity.
          -- exists (DRead ty :: code0). split; [cbn [gen_ops_b]; now rewrite Hc0|].
             rewrite (run_ops_read_err _ _ _ _ _ _ Hr) by discriminate.
             exists SRuntimeError. split; reflexivity.
          -- exfalso. now apply (convert_typed ty it Htr).
      + (* RESTORE label *)
        simpl in Hty. unfold targets_own_data in Htg. simpl in Htg.
        apply andb_true_iff in Htg as [Hl Htg].
        assert (Hb' : b = 0 \/ no_bare_restore ops = true).
        { destruct Hb as [Hb|Hb]; [now left | right; exact Hb]. }
        destruct (restore_label evs l Hdup Hl) as [k [n [Hki [Hk [Hlp Hsk]]]]].
        fold g in Hki. fold g d in Hk, Hsk.
        assert (Hok' : cur_ok d k 0) by (apply cur_ok_part_start; [apply d_nonempty | lia]).
        assert (Hrem' : skipn n (all_items evs) = remaining d k 0).
        { now rewrite remaining_part_start. }
        destruct (IH k 0%nat n Hty Htg Hb' Hok' Hrem') as [code [Hc [e' [Ha Hs]]]].
        exists (DRestore (Z.of_nat k) :: code). split.
        * cbn [gen_ops_b]. rewrite Hki, Hc. reflexivity.
        * exists e'. cbn [run_ops]. unfold exec_restore. split; [exact Ha|].
          cbn [spec_run]. rewrite Hlp. exact Hs.
      + (* RESTORE *)
        simpl in Hty. destruct Hb as [Hb|Hb]; [|simpl in Hb; discriminate]. subst b.
        assert (Hok' : cur_ok d 0 0) by (apply cur_ok_part_start; [apply d_nonempty | lia]).
        assert (Hrem' : skipn 0 (all_items evs) = remaining d 0 0).
        { rewrite remaining_part_start. simpl. symmetry. apply d_source. }
        assert (Htg' : targets_own_data evs ops = true) by exact Htg.
        destruct (IH 0%nat 0%nat 0%nat Hty Htg' (or_introl eq_refl) Hok' Hrem')
          as [code [Hc [e' [Ha Hs]]]].
        exists (DRestore 0 :: code). split.
        * cbn [gen_ops_b]. rewrite Hc. reflexivity.
        * exists e'. cbn [run_ops]. unfold exec_restore. split; [exact Ha|].
          cbn [spec_run]. exact Hs.
  Qed.

  Lemma sim_start b ops :
    ops_typed ops = true -> targets_own_data evs ops = true ->
    (b = 0 \/ no_bare_restore ops = true) ->
    exists code, gen_ops_b b g ops = Some code /\
      exists e', abstract_ending (snd (run_ops d cur_init code)) = Some e' /\
                 spec_run evs 0 ops = (fst (run_ops d cur_init code), e').
  Proof.
    intros Hty Htg Hb. change cur_init with (Z.of_nat 0, Z.of_nat 0).
    apply sim; try assumption.
    - apply cur_ok_part_start; [apply d_nonempty | lia].
    - rewrite remaining_part_start. simpl. symmetry. apply d_source.
  Qed.
End Sim.

Theorem program_partial evs ops :
  prog_valid evs ops = true -> data_nonempty evs = true -> ops_typed ops = true ->
  no_bare_restore ops = true -> targets_own_data evs ops = true ->
  abstract_pres (run_prog evs ops) = Some (spec_prog evs ops).
Proof.
  intros Hv Hne Hty Hnb Htg. unfold spec_prog. rewrite Hv.
  unfold prog_valid in Hv. apply andb_true_iff in Hv as [Hd Ht]. apply negb_true_iff in Hd.
  unfold run_prog, compile. rewrite Hd, Ht. simpl negb. cbv iota.
  destruct (sim_start evs Hd Hne (-1) ops Hty Htg (or_intror Hnb)) as [code [Hc [e' [Ha Hs]]]].
  rewrite gen_ops_is, Hc.
  destruct (run_ops (parts_of (group evs)) cur_init code) as [vs e] eqn:Er.
  simpl in Ha, Hs. rewrite Hs. simpl. now rewrite Ha.
Qed.

(* what holds once a bare RESTORE pushes 0 (fixes/C15-D11.diff): no guard on RESTORE *)
Theorem program_fixed_partial evs ops :
  prog_valid evs ops = true -> data_nonempty evs = true -> ops_typed ops = true ->
  targets_own_data evs ops = true ->
  abstract_pres (run_prog_fixed evs ops) = Some (spec_prog evs ops).
Proof.
  intros Hv Hne Hty Htg. unfold spec_prog. rewrite Hv.
  unfold prog_valid in Hv. apply andb_true_iff in Hv as [Hd Ht]. apply negb_true_iff in Hd.
  unfold run_prog_fixed. rewrite Hd, Ht. simpl negb. cbv iota.
  destruct (sim_start evs Hd Hne 0 ops Hty Htg (or_introl eq_refl)) as [code [Hc [e' [Ha Hs]]]].
  rewrite gen_ops_fixed_is, Hc.
  destruct (run_ops (parts_of (group evs)) cur_init code) as [vs e] eqn:Er.
  simpl in Ha, Hs. rewrite Hs. simpl. now rewrite Ha.
Qed.

(* READ only, on any data section with non-empty parts: the values of the flat item list *)
Theorem read_in_source_order d tys :
  parts_nonempty d = true ->
  ops_typed (map ORead tys) = true ->
  exists e', abstract_ending (snd (run_ops d cur_init (map DRead tys))) = Some e' /\
    spec_run (map EData d) 0 (map ORead tys) = (fst (run_ops d cur_init (map DRead tys)), e').
Proof.
  intros Hne Hty.
  assert (Hall : all_items (map EData d) = concat d).
  { induction d as [|a d' IH]; [reflexivity|]. simpl in Hne. apply andb_true_iff in Hne as [_ Hne].
    rewrite map_cons, all_items_cons. simpl. now rewrite IH. }
  assert (G : forall tys p i pos, ops_typed (map ORead tys) = true -> cur_ok d p i ->
              skipn pos (concat d) = remaining d p i ->
              exists e', abstract_ending (snd (run_ops d (Z.of_nat p, Z.of_nat i) (map DRead tys))) = Some e' /\
                spec_run (map EData d) pos (map ORead tys)
                = (fst (run_ops d (Z.of_nat p, Z.of_nat i) (map DRead tys)), e')).
  { clear tys Hty. induction tys as [|ty tys IH]; intros p i pos Hty Hok Hrem.
    - exists SDone. split; reflexivity.
    - simpl in Hty. apply andb_true_iff in Hty as [Hty1 Hty].
      assert (Htr : 1 <= ty <= 5).
      { apply andb_true_iff in Hty1 as [A B]. apply Z.leb_le in A. apply Z.leb_le in B. lia. }
      pose proof (exec_read_ok d p i ty Hne Hok) as Hr.
      simpl map. cbn [spec_run]. rewrite Hall, nth_error_hd_skipn, Hrem.
      destruct (remaining d p i) as [|it rest] eqn:Er.
      + rewrite (run_ops_read_err _ _ _ _ _ _ Hr) by discriminate.
        exists SRuntimeError. split; reflexivity.
      + cbn [hd_error]. destruct (convert ty it) as [c|k| |] eqn:Ec.
        * destruct Hr as [p' [i' [He [Hok' Hrem']]]].
          assert (Hsk : skipn (S pos) (concat d) = remaining d p' i').
          { rewrite skipn_S_tl, Hrem, Hrem'. reflexivity. }
          destruct (IH p' i' (S pos) Hty Hok' Hsk) as [e' [Ha Hs]].
          rewrite (run_ops_read_val _ _ _ _ _ _ He). exists e'. split; [exact Ha|].
          rewrite Hs. reflexivity.
        * rewrite (run_ops_read_err _ _ _ _ _ _ Hr) by discriminate.
          exists SRuntimeError. split; reflexivity.
        * rewrite (run_ops_read_err _ _ _ _ _ _ Hr) by discriminate.
          exists SRuntimeError. split; reflexivity.
        * exfalso. now apply (convert_typed ty it Htr). }
  change cur_init with (Z.of_nat 0, Z.of_nat 0). apply G; [exact Hty | |].
  - apply cur_ok_part_start; [exact Hne | lia].
  - rewrite remaining_part_start. reflexivity.
Qed.
