(* Finite obligations tying the generated instruction table (qvm/instrs.py as it
   is in the repository now) to the hand-written decoder and mnemonics.  They
   break when an instruction is renumbered, renamed, re-typed, added or
   removed; tools/props/c09.py then reports the failing entries. *)
From Coq Require Import String.
From Coq Require Import ZArith List Bool.
From QV Require Import Sx Strs Fl Machine Cpu Instrs Codec InstrCheck.
Import ListNotations.
Open Scope Z_scope.

Lemma opcodes_unique_ok : opcodes_unique instr_table = true.
Proof. vm_compute. reflexivity. Qed.

Lemma mnemonics_unique_ok : mnemonics_unique instr_table = true.
Proof. vm_compute. reflexivity. Qed.

(* every table entry: Cpu.decode of the opcode followed by enough bytes yields
   an instruction of that mnemonic, of size 1 + sum of operand sizes, whose
   operands are read with the table's widths and signedness, and one byte
   fewer is a truncation *)
Lemma decode_agrees_with_table_ok : table_agrees instr_table = true.
Proof. vm_compute. reflexivity. Qed.

(* every byte that is not an opcode of the table decodes to DUnknown *)
Lemma unknown_opcodes_ok : unknown_agrees instr_table = true.
Proof. vm_compute. reflexivity. Qed.

(* the trap codes the machine model uses are the ones of qvm/trap.py *)
Definition lookup_z (name : str) (t : list (list Z * Z)) : option Z :=
  match find (fun e => str_eqb (fst e) name) t with Some e => Some (snd e) | None => None end.

Lemma trap_codes_ok :
  map (fun n => lookup_z (s2l n) trap_codes)
      ["INVALID_OP_CODE"; "DEVICE_NOT_AVAILABLE"; "DEVICE_ERROR"; "STACK_EMPTY";
       "INVALID_LOCAL_VAR_IDX"; "INVALID_GLOBAL_VAR_IDX"; "TYPE_MISMATCH"; "NULL_REFERENCE";
       "INVALID_OPERAND_VALUE"; "INVALID_CELL_VALUE"; "INDEX_OUT_OF_RANGE";
       "INVALID_DIMENSIONS"; "KEYBOARD_INTERRUPT"; "DIVISION_BY_ZERO"; "UNINITIALIZED_MEM";
       "NO_RESUME"; "ERRHAND_IN_HANDLER"; "CANNOT_RESUME"]%string
  = map Some [T_INVALID_OP_CODE; T_DEVICE_NOT_AVAILABLE; T_DEVICE_ERROR; T_STACK_EMPTY;
              T_INVALID_VAR_IDX; T_INVALID_VAR_IDX; T_TYPE_MISMATCH; T_NULL_REFERENCE;
              T_INVALID_OPERAND_VALUE; T_INVALID_CELL_VALUE; T_INDEX_OUT_OF_RANGE;
              T_INVALID_DIMENSIONS; T_KEYBOARD_INTERRUPT; T_DIVISION_BY_ZERO;
              T_UNINITIALIZED_MEM; T_NO_RESUME; T_ERRHAND_IN_HANDLER; T_CANNOT_RESUME].
Proof. vm_compute. reflexivity. Qed.
