(* sx codec of the core AST and entry point of the extracted reference
   interpreter.  Unverified glue on the Coq side (a decoding error gives sx_bad,
   never an agreement). *)
From Coq Require Import ZArith List Bool.
From QV Require Import Sx Strs Fl Cell SemBase Sem.
Import ListNotations.
Open Scope Z_scope.

Fixpoint sx_size (x : sx) : nat :=
  match x with
  | SZ _ => 1%nat
  | SL l => S ((fix go (l : list sx) : nat :=
                  match l with [] => O | a :: r => (sx_size a + go r)%nat end) l)
  end.

Definition lit_sx (x : sx) : option cell :=
  match cell_sx x with
  | Some (CRef _ _) => None
  | r => r
  end.

Definition unop_of_id (z : Z) : option unop :=
  if z =? 1 then Some UNeg else if z =? 2 then Some UNot else if z =? 3 then Some UPlus else None.

Fixpoint expr_sx (fuel : nat) (x : sx) : option expr :=
  match fuel with
  | O => None
  | S f =>
    let exprs := map_opt (expr_sx f) in
    match x with
    | SL [SZ 1; c] => option_map ELit (lit_sx c)
    | SL [SZ 2; SZ v] => Some (EVar v)
    | SL [SZ 3; SZ v; SL idx] => option_map (EIdx v) (exprs idx)
    | SL [SZ 4; SZ v; SZ fl_] => Some (EFld v fl_)
    | SL [SZ 5; SZ v; SL idx; SZ fl_] => option_map (fun i => EIdxFld v i fl_) (exprs idx)
    | SL [SZ 6; SZ o; a] =>
      match unop_of_id o, expr_sx f a with
      | Some o', Some a' => Some (EUn o' a') | _, _ => None end
    | SL [SZ 7; SZ o; a; b] =>
      match binop_of_id o, expr_sx f a, expr_sx f b with
      | Some o', Some a', Some b' => Some (EBin o' a' b') | _, _, _ => None end
    | SL [SZ 8; a] => option_map EPar (expr_sx f a)
    | SL [SZ 9; SZ b; SL args] => option_map (EBuiltin b) (exprs args)
    | SL [SZ 10; SZ fid; SL args] => option_map (ECall fid) (exprs args)
    | _ => None
    end
  end.

Definition lval_sx (fuel : nat) (x : sx) : option lval :=
  let exprs := map_opt (expr_sx fuel) in
  match x with
  | SL [SZ 1; SZ v] => Some (LVar v)
  | SL [SZ 2; SZ v; SL idx] => option_map (LIdx v) (exprs idx)
  | SL [SZ 3; SZ v; SZ f] => Some (LFld v f)
  | SL [SZ 4; SZ v; SL idx; SZ f] => option_map (fun i => LIdxFld v i f) (exprs idx)
  | _ => None
  end.

Definition pitem_sx (fuel : nat) (x : sx) : option pitem :=
  match x with
  | SZ 1 => Some PISemi
  | SZ 2 => Some PIComma
  | SL [SZ 0; e] => option_map PIExpr (expr_sx fuel e)
  | _ => None
  end.

Definition clause_sx (fuel : nat) (x : sx) : option clause :=
  match x with
  | SL [SZ 1; e] => option_map CVal (expr_sx fuel e)
  | SL [SZ 2; a; b] =>
    match expr_sx fuel a, expr_sx fuel b with
    | Some a', Some b' => Some (CRange a' b') | _, _ => None end
  | SL [SZ 3; SZ o; e] =>
    match binop_of_id o, expr_sx fuel e with
    | Some o', Some e' => Some (CIs o' e') | _, _ => None end
  | _ => None
  end.

Definition eltty_sx (x : sx) : option eltty :=
  match x with
  | SL [SZ 0; SZ t] => option_map EScalar (vty_of_id t)
  | SL [SZ 1; SZ tid] => Some (ERecord tid)
  | _ => None
  end.

Definition bound_sx (x : sx) : option (Z * Z) :=
  match x with SL [SZ a; SZ b] => Some (a, b) | _ => None end.

Definition decl_sx (x : sx) : option decl :=
  match x with
  | SL [SZ v; SL bs; t] =>
    match map_opt bound_sx bs, eltty_sx t with
    | Some b, Some t' => Some (Decl v b t') | _, _ => None end
  | _ => None
  end.

Definition ditem_sx (x : sx) : option ditem :=
  match x with
  | SL [] => Some DEmptyI
  | SL [s] => option_map DTextI (get_str s)
  | _ => None
  end.

Definition cond_sx (fuel : nat) (x : sx) : option (option (bool * expr)) :=
  match x with
  | SZ 0 => Some None
  | SL [SZ 1; e] => option_map (fun e' => Some (false, e')) (expr_sx fuel e)
  | SL [SZ 2; e] => option_map (fun e' => Some (true, e')) (expr_sx fuel e)
  | _ => None
  end.

Definition zbool (z : Z) : bool := negb (z =? 0).

Fixpoint stmt_sx (fuel : nat) (x : sx) : option stmt :=
  match fuel with
  | O => None
  | S f =>
    let stmts := map_opt (stmt_sx f) in
    let ex := expr_sx f in
    match x with
    | SL [SZ 1; SZ ln; lv; e] =>
      match lval_sx f lv, ex e with
      | Some lv', Some e' => Some (SAssign ln lv' e') | _, _ => None end
    | SL [SZ 2; SZ ln; SL items] => option_map (SPrint ln) (map_opt (pitem_sx f) items)
    | SL [SZ 3; SL arms; SL els] =>
      match map_opt (fun a => match a with
                              | SL [SZ ln; c; SL body] =>
                                match ex c, stmts body with
                                | Some c', Some b' => Some (ln, c', b') | _, _ => None end
                              | _ => None end) arms, stmts els with
      | Some a', Some e' => Some (SIf a' e') | _, _ => None end
    | SL [SZ 4; SZ ln; c; SL th; SL el] =>
      match ex c, stmts th, stmts el with
      | Some c', Some t', Some e' => Some (SIfLine ln c' t' e') | _, _, _ => None end
    | SL [SZ 5; SZ ln; c; SL body] =>
      match ex c, stmts body with
      | Some c', Some b' => Some (SWhile ln c' b') | _, _ => None end
    | SL [SZ 6; SZ ln; pre; SL body; SZ lnpost; post] =>
      match cond_sx f pre, stmts body, cond_sx f post with
      | Some p', Some b', Some q' => Some (SDo ln p' b' lnpost q') | _, _, _ => None end
    | SL [SZ 7; SZ ln; SZ v; e1; e2; SL step; SL body; SZ lnnext] =>
      match ex e1, ex e2, map_opt ex step, stmts body with
      | Some a, Some b, Some st, Some bd =>
        Some (SFor ln v a b (match st with [s] => Some s | _ => None end) bd lnnext)
      | _, _, _, _ => None end
    | SL [SZ 8; SZ ln; e; SL cases; SL els] =>
      match ex e,
            map_opt (fun a => match a with
                              | SL [SZ cln; SL cls; SL body] =>
                                match map_opt (clause_sx f) cls, stmts body with
                                | Some c', Some b' => Some (cln, c', b') | _, _ => None end
                              | _ => None end) cases,
            map_opt (fun a => match a with SL b => stmts b | _ => None end) els with
      | Some e', Some cs, Some el =>
        Some (SSelect ln e' cs (match el with [b] => Some b | _ => None end))
      | _, _, _ => None end
    | SL [SZ 9; SZ k] => Some (SExit k)
    | SL [SZ 10; SZ ln; SZ l] => Some (SGoto ln l)
    | SL [SZ 11; SZ ln; SZ l] => Some (SGosub ln l)
    | SL [SZ 12; SZ ln] => Some (SReturn ln)
    | SL [SZ 13; SZ l] => Some (SLabel l)
    | SL [SZ 14; SZ ln; SZ sid; SL args] => option_map (SCall ln sid) (map_opt ex args)
    | SL [SZ 15; SZ ln; SZ sh; SL ds] => option_map (SDim ln (zbool sh)) (map_opt decl_sx ds)
    | SL [SZ 16; SZ ln; SL ds] => option_map (SStatic ln) (map_opt decl_sx ds)
    | SL [SZ 17; SZ ln; SZ v; e] => option_map (SConst ln v) (ex e)
    | SL [SZ 18; SZ ln; pr; SZ qu; SZ sl; SL lvs] =>
      match get_str pr, map_opt (lval_sx f) lvs with
      | Some p', Some l' => Some (SInput ln p' (zbool qu) (zbool sl) l') | _, _ => None end
    | SL [SZ 19; SZ ln; SL lvs] => option_map (SRead ln) (map_opt (lval_sx f) lvs)
    | SL [SZ 20; SZ ln; SL l] =>
      match l with
      | [] => Some (SRestore ln None)
      | [SZ k] => Some (SRestore ln (Some k))
      | _ => None
      end
    | SL [SZ 21; SZ ln; e] => option_map (SRandomize ln) (ex e)
    | SL [SZ 22; SZ ln] => Some (SEnd ln)
    | SL [SZ 23; SZ ln; e] => option_map (SRetSet ln) (ex e)
    | SL [SZ 24; SL items] => option_map SData (map_opt ditem_sx items)
    | _ => None
    end
  end.

Definition param_sx (x : sx) : option (Z * vty) :=
  match x with
  | SL [SZ v; SZ t] => option_map (fun t' => (v, t')) (vty_of_id t)
  | _ => None
  end.

Definition routine_sx (fuel : nat) (x : sx) : option routine :=
  match x with
  | SL [SZ isfn; SL ps; SZ rt; SL body] =>
    match map_opt param_sx ps, vty_of_id rt, map_opt (stmt_sx fuel) body with
    | Some p', Some t', Some b' => Some (mkRoutine (zbool isfn) p' t' b')
    | _, _, _ => None end
  | _ => None
  end.

Definition program_sx (x : sx) : option program :=
  let fuel := sx_size x in
  match x with
  | SL [SL vts; SL tys; SL main; SL rs] =>
    match map_opt (fun v => match v with SZ t => vty_of_id t | _ => None end) vts,
          map_opt (fun t => match t with
                            | SL l => map_opt (fun v => match v with SZ t => vty_of_id t | _ => None end) l
                            | _ => None end) tys,
          map_opt (stmt_sx fuel) main,
          map_opt (routine_sx fuel) rs with
    | Some a, Some b, Some c, Some d => Some (mkProgram a b c d)
    | _, _, _, _ => None end
  | _ => None
  end.

Definition sx_ev (e : ev) : sx :=
  match e with
  | EvPrint t => SL [SZ 1; sx_str t]
  | EvInput sl line => SL [SZ 2; sx_bool sl; sx_str line]
  | EvRndNext => SL [SZ 15]
  | EvRndSeeded s => SL [SZ 16; SZ (bits_of_fl s)]
  | EvSeed s => SL [SZ 14; SZ (bits_of_fl s)]
  | EvTime => SL [SZ 13]
  end.

Definition sx_outcome (o : outcome) : sx :=
  match o with
  | ONormal => SL [SZ 0]
  | OError e ln => SL [SZ 1; SZ (err_id e); SZ ln]
  | OStuck w => SL [SZ 2; SZ w]
  end.

Fixpoint mem_z (z : Z) (l : list Z) : bool :=
  match l with [] => false | a :: r => (a =? z) || mem_z z r end.

(* (1 program (quirks) (lines) (rnd bits) (timer bits) fuel)  ->  ((events) outcome)
   (2 quirks op a b)       one binary operator on two literal cells
   (3 quirks b (args))     one pure builtin *)
Definition sx_pres (r : pres cell) : sx :=
  match r with
  | POk c => SL [SZ 0; sx_cell c]
  | PErr e => SL [SZ 1; SZ (err_id e)]
  | PStuck w => SL [SZ 2; SZ w]
  end.

Definition sem_entry (x : sx) : sx :=
  match x with
  | SL [SZ 1; p; SL qs; SL lines; SL rnd; SL timer; SZ fuel] =>
    match program_sx p, get_zs qs, map_opt get_str lines, get_zs rnd, get_zs timer with
    | Some P, Some q, Some l, Some r, Some t =>
      let '(evs, o) := run P (fun z => mem_z z q) l (map fl_of_bits r) (map fl_of_bits t)
                           (Z.to_nat fuel) in
      SL [SL (map sx_ev evs); sx_outcome o]
    | _, _, _, _, _ => sx_bad
    end
  | SL [SZ 2; SL qs; SZ o; a; b] =>
    match get_zs qs, binop_of_id o, lit_sx a, lit_sx b with
    | Some q, Some o', Some a', Some b' => sx_pres (binop_sem (fun z => mem_z z q) o' a' b')
    | _, _, _, _ => sx_bad
    end
  | SL [SZ 3; SL qs; SZ b; SL args] =>
    match get_zs qs, map_opt lit_sx args with
    | Some q, Some a' => sx_pres (builtin_pure (fun z => mem_z z q) b a')
    | _, _ => sx_bad
    end
  | _ => sx_bad
  end.
