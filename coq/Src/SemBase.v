(* Reference semantics of the QBASIC core language, part 1: values, implicit
   conversions, operators and pure builtin functions.  This is a SPECIFICATION
   written from what QBASIC prescribes; it is not a model of qbee.  The only
   concession to the implementation is the parameter [q : Z -> bool] ("quirk
   switches"): with [q = no_quirks] the functions below are the reference;
   switching one quirk on replaces ONE rule by what qbee does instead, which
   the harness uses to attribute a disagreement to exactly one known defect. *)
From Coq Require Import ZArith List Bool Lia.
From QV Require Import Sx Strs Fl Dec NumFmt Cell.
Import ListNotations.
Open Scope Z_scope.

(* quirk ids *)
Definition Q_FLOOR_DIV := 1.     (* D06: \ and MOD floor instead of truncating *)
Definition Q_RIGHT0 := 2.        (* D07: RIGHT$(s,0) = s *)
Definition Q_LOOP_COND := 3.     (* D08: DO UNTIL / LOOP WHILE use bitwise NOT; LOOP cond must be INTEGER *)
Definition Q_FOR_PRECHECK := 4.  (* D10: FOR range arithmetic in the variable's type *)
Definition Q_MID_TRAP := 5.      (* D31: MID$(s, start) with start > LEN(s)+1 fails *)
Definition Q_POW_INT := 6.       (* D32: ^ on integral operands typed integral *)
Definition Q_COND_INT := 7.      (* conditions are converted to INTEGER before the test *)
Definition Q_CONST_UNTYPED := 8. (* CONST ignores the type suffix of its name *)
Definition Q_INT_LONG := 9.      (* INT(x) typed LONG *)
Definition Q_LEN_LONG := 10.     (* LEN / INSTR typed LONG *)
Definition Q_DBL_INF := 11.      (* DOUBLE overflow gives inf instead of an error *)
Definition Q_RESTORE_WRAP := 12. (* D11: RESTORE without label rewinds to "part -1": the items are read twice *)
Definition Q_INT_NUMERAL := 13.  (* READ/INPUT into INTEGER/LONG accept only [sign]digits *)
Definition no_quirks : Z -> bool := fun _ => false.

Inductive vty := TI | TL | TS | TD | TStr.

Definition rank (t : vty) : Z :=
  match t with TI => 1 | TL => 2 | TS => 3 | TD => 4 | TStr => 5 end.
Definition vty_eqb (a b : vty) : bool := rank a =? rank b.
Definition vty_of_id (z : Z) : option vty :=
  if z =? 1 then Some TI else if z =? 2 then Some TL else if z =? 3 then Some TS
  else if z =? 4 then Some TD else if z =? 5 then Some TStr else None.

Definition ty_of (c : cell) : vty :=
  match c with CI _ => TI | CL _ => TL | CS _ => TS | CD _ => TD | _ => TStr end.
Definition is_num_ty (t : vty) : bool := match t with TStr => false | _ => true end.
Definition join (a b : vty) : vty := if rank a <? rank b then b else a.
Definition default_of (t : vty) : cell :=
  match t with TI => CI 0 | TL => CL 0 | TS => CS (fzero false) | TD => CD (fzero false)
             | TStr => CStr [] end.

(* run-time error classes of the language *)
Inductive err :=
| EDivZero | EOverflow | ESubscript | EIllegal | EOutOfData | EReadSyntax
| ETypeMismatch    (* only reachable with a quirk switched on *)
| EExhausted.      (* not a language error: the scripted device input ran out *)

Definition err_id (e : err) : Z :=
  match e with EDivZero => 1 | EOverflow => 2 | ESubscript => 3 | EIllegal => 4
             | EOutOfData => 5 | EReadSyntax => 6 | ETypeMismatch => 7 | EExhausted => 8 end.

(* why codes of PStuck / Stuck: 1 out of fuel, 2 ill-formed program, 3 not modelled
   (float ^ with a fractional or huge exponent), 4 input script exhausted *)
Inductive pres (A : Type) := POk (a : A) | PErr (e : err) | PStuck (why : Z).
Arguments POk {A}. Arguments PErr {A}. Arguments PStuck {A}.

Definition pbind {A B} (m : pres A) (f : A -> pres B) : pres B :=
  match m with POk a => f a | PErr e => PErr e | PStuck w => PStuck w end.
Notation "'pdo' x <- m ; f" := (pbind m (fun x => f))
  (at level 200, x pattern, m at level 100, f at level 200).

(* ---------- conversions ---------- *)

Definition chk_int (z : Z) : pres cell := if in_int z then POk (CI z) else PErr EOverflow.
Definition chk_long (z : Z) : pres cell := if in_long z then POk (CL z) else PErr EOverflow.

Definition mk_single (f : fl) : pres cell :=
  match f with
  | FFin _ _ _ =>
    match to_single f with
    | Some (FFin n m e) => POk (CS (FFin n m e))
    | _ => PErr EOverflow
    end
  | _ => PErr EOverflow
  end.

Definition mk_double (q : Z -> bool) (f : fl) : pres cell :=
  match f with
  | FFin _ _ _ => POk (CD f)
  | _ => if q Q_DBL_INF then POk (CD f) else PErr EOverflow
  end.

Definition mk_num (q : Z -> bool) (t : vty) (z : Z) : pres cell :=
  match t with
  | TI => chk_int z | TL => chk_long z
  | TS => mk_single (of_Z z) | TD => POk (CD (of_Z z))
  | TStr => PStuck 2
  end.

(* value -> value of type t: the implicit conversion of assignments, operands
   and arguments.  Float -> integer rounds to nearest, ties to even. *)
Definition conv (q : Z -> bool) (t : vty) (c : cell) : pres cell :=
  match t, c with
  | TStr, CStr _ => POk c
  | TI, CI _ | TL, CL _ | TS, CS _ | TD, CD _ => POk c
  | TI, CL z => chk_int z
  | TL, CI z => POk (CL z)
  | TI, CS f | TI, CD f =>
    match fround f with Some z => chk_int z | None => PErr EOverflow end
  | TL, CS f | TL, CD f =>
    match fround f with Some z => chk_long z | None => PErr EOverflow end
  | TS, CI z | TS, CL z => mk_single (of_Z z)
  | TS, CD f => mk_single f
  | TD, CI z | TD, CL z => POk (CD (of_Z z))
  | TD, CS f => POk (CD f)
  | _, _ => PStuck 2
  end.

(* ---------- operators ---------- *)

Inductive binop :=
| OAdd | OSub | OMul | ODiv | OIDiv | OMod | OPow
| OEq | ONe | OLt | OGt | OLe | OGe
| OAnd | OOr | OXor | OEqv | OImp.
Inductive unop := UNeg | UNot | UPlus.

Definition binop_id (o : binop) : Z :=
  match o with
  | OAdd => 1 | OSub => 2 | OMul => 3 | ODiv => 4 | OIDiv => 5 | OMod => 6 | OPow => 7
  | OEq => 8 | ONe => 9 | OLt => 10 | OGt => 11 | OLe => 12 | OGe => 13
  | OAnd => 14 | OOr => 15 | OXor => 16 | OEqv => 17 | OImp => 18
  end.
Definition binop_of_id (z : Z) : option binop :=
  nth_error [OAdd; OSub; OMul; ODiv; OIDiv; OMod; OPow; OEq; ONe; OLt; OGt; OLe; OGe;
             OAnd; OOr; OXor; OEqv; OImp] (Z.to_nat (z - 1)).

Definition bool_cell (b : bool) : cell := CI (if b then -1 else 0).

Fixpoint str_cmp (x y : str) : comparison :=
  match x, y with
  | [], [] => Eq
  | [], _ :: _ => Lt
  | _ :: _, [] => Gt
  | c :: x', d :: y' => match c ?= d with Eq => str_cmp x' y' | r => r end
  end.

Definition fl_cmp (x y : fl) : comparison :=
  match fcmp x y with Some r => r | None => Gt end.

(* operands already converted to a common type *)
Definition cmp_same (a b : cell) : pres comparison :=
  match a, b with
  | CI x, CI y | CL x, CL y => POk (x ?= y)
  | CS x, CS y | CD x, CD y => POk (fl_cmp x y)
  | CStr x, CStr y => POk (str_cmp x y)
  | _, _ => PStuck 2
  end.

Definition rel_holds (o : binop) (c : comparison) : bool :=
  match o, c with
  | OEq, Eq => true | ONe, (Lt | Gt) => true
  | OLt, Lt => true | OGt, Gt => true
  | OLe, (Lt | Eq) => true | OGe, (Gt | Eq) => true
  | _, _ => false
  end.

Definition is_rel (o : binop) : bool :=
  match o with OEq | ONe | OLt | OGt | OLe | OGe => true | _ => false end.
Definition is_logic (o : binop) : bool :=
  match o with OAnd | OOr | OXor | OEqv | OImp => true | _ => false end.

(* type in which \ MOD and the logical operators work *)
Definition int_ty (a b : vty) : vty :=
  match a, b with TI, TI => TI | _, _ => TL end.
(* type in which / and ^ work *)
Definition flt_ty (a b : vty) : vty :=
  match a, b with TD, _ | _, TD => TD | _, _ => TS end.

Definition int_val (c : cell) : pres Z :=
  match c with CI z | CL z => POk z | _ => PStuck 2 end.
Definition flt_val (c : cell) : pres fl :=
  match c with CS f | CD f => POk f | _ => PStuck 2 end.

Definition mk_flt (q : Z -> bool) (t : vty) (f : fl) : pres cell :=
  match t with TS => mk_single f | TD => mk_double q f | _ => PStuck 2 end.

(* exact integer power of a float, correctly rounded *)
Definition fpow_int (x : fl) (n : Z) : pres fl :=
  match x with
  | FFin neg m e =>
    if n =? 0 then POk f_one
    else if m <=? 0 then
      (if n <? 0 then PErr EDivZero else POk (fzero (neg && Z.odd n)))
    else
      let rneg := neg && Z.odd n in
      if (m =? 1) && (e =? 0) then POk (FFin rneg 1 0)
      else if Z.abs n >? 64 then PStuck 3
      else if n >? 0 then
        match round64 rneg (m ^ n) (e * n) false with
        | FFin a b c => POk (FFin a b c)
        | _ => PErr EOverflow
        end
      else
        match fdiv f_one (FFin false (m ^ (- n)) (e * (- n))) with
        | FFin _ m' e' => POk (FFin rneg m' e')
        | _ => PErr EOverflow
        end
  | _ => PStuck 3
  end.

(* integral value of a float, if it has one *)
Definition int_of_fl (f : fl) : option Z :=
  match f with
  | FFin n m e =>
    if m <=? 0 then Some 0
    else if e >=? 0 then Some (smant n (Z.shiftl m e)) else None
  | _ => None
  end.

Definition fpow (x y : fl) : pres fl :=
  match int_of_fl y with
  | Some n => fpow_int x n
  | None =>
    match x with
    | FFin neg m _ =>
      if m <=? 0 then (if sgn_of y then PErr EDivZero else POk (fzero false))
      else if neg then PErr EIllegal
      else PStuck 3
    | _ => PStuck 3
    end
  end.

(* what qbee does for ^ on two integral operands (quirk Q_POW_INT) *)
Definition pow_int_quirk (t : vty) (x y : Z) : pres cell :=
  let chk := match t with TI => chk_int | _ => chk_long end in
  if y >=? 0 then
    (if (Z.abs x <=? 1) then chk (x ^ y)
     else if y >? 64 then PErr EOverflow else chk (x ^ y))
  else if x =? 0 then PErr EDivZero
  else if x =? 1 then chk 1
  else if x =? -1 then chk (if Z.odd y then -1 else 1)
  else chk 0.

Definition trunc_div (q : Z -> bool) (x y : Z) : Z :=
  if q Q_FLOOR_DIV then x / y else Z.quot x y.
Definition trunc_mod (q : Z -> bool) (x y : Z) : Z :=
  if q Q_FLOOR_DIV then x mod y else Z.rem x y.

Definition binop_sem (q : Z -> bool) (o : binop) (a b : cell) : pres cell :=
  let ta := ty_of a in
  let tb := ty_of b in
  match ta, tb with
  | TStr, TStr =>
    match o, a, b with
    | OAdd, CStr x, CStr y => POk (CStr (x ++ y))
    | _, _, _ =>
      if is_rel o then pdo c <- cmp_same a b; POk (bool_cell (rel_holds o c))
      else PStuck 2
    end
  | TStr, _ | _, TStr => PStuck 2
  | _, _ =>
    if is_rel o then
      let t := join ta tb in
      pdo a' <- conv q t a; pdo b' <- conv q t b;
      pdo c <- cmp_same a' b'; POk (bool_cell (rel_holds o c))
    else if is_logic o || (match o with OIDiv | OMod => true | _ => false end) then
      let t := int_ty ta tb in
      pdo a' <- conv q t a; pdo b' <- conv q t b;
      pdo x <- int_val a'; pdo y <- int_val b';
      match o with
      | OAnd => mk_num q t (Z.land x y)
      | OOr => mk_num q t (Z.lor x y)
      | OXor => mk_num q t (Z.lxor x y)
      | OEqv => mk_num q t (Z.lnot (Z.lxor x y))
      | OImp => mk_num q t (Z.lor (Z.lnot x) y)
      | OIDiv => if y =? 0 then PErr EDivZero else mk_num q t (trunc_div q x y)
      | _ => if y =? 0 then PErr EDivZero else mk_num q t (trunc_mod q x y)
      end
    else
      match o with
      | ODiv =>
        let t := flt_ty ta tb in
        pdo a' <- conv q t a; pdo b' <- conv q t b;
        pdo x <- flt_val a'; pdo y <- flt_val b';
        if is_zero y then PErr EDivZero else mk_flt q t (fdiv x y)
      | OPow =>
        if q Q_POW_INT && (rank ta <=? 2) && (rank tb <=? 2) then
          let t := join ta tb in
          pdo a' <- conv q t a; pdo b' <- conv q t b;
          pdo x <- int_val a'; pdo y <- int_val b';
          pow_int_quirk t x y
        else
        let t := flt_ty ta tb in
        pdo a' <- conv q t a; pdo b' <- conv q t b;
        pdo x <- flt_val a'; pdo y <- flt_val b';
        pdo r <- fpow x y; mk_flt q t r
      | _ =>
        let t := join ta tb in
        pdo a' <- conv q t a; pdo b' <- conv q t b;
        match a', b' with
        | CI x, CI y | CL x, CL y =>
          mk_num q t (match o with OAdd => x + y | OSub => x - y | _ => x * y end)
        | CS x, CS y | CD x, CD y =>
          mk_flt q t (match o with OAdd => fadd x y | OSub => fsub x y | _ => fmul x y end)
        | _, _ => PStuck 2
        end
      end
  end.

Definition unop_sem (q : Z -> bool) (o : unop) (a : cell) : pres cell :=
  match o, a with
  | _, CStr _ => PStuck 2
  | _, CRef _ _ => PStuck 2
  | UPlus, _ => POk a
  | UNeg, CI z => chk_int (- z)
  | UNeg, CL z => chk_long (- z)
  | UNeg, CS f => POk (CS (fneg f))
  | UNeg, CD f => POk (CD (fneg f))
  | UNot, _ =>
    let t := int_ty (ty_of a) (ty_of a) in
    pdo a' <- conv q t a; pdo x <- int_val a'; mk_num q t (Z.lnot x)
  end.

(* static result types (used by the theorems; the interpreter is dynamically typed) *)
Definition binop_ty (o : binop) (ta tb : vty) : option vty :=
  match ta, tb with
  | TStr, TStr => if is_rel o then Some TI else match o with OAdd => Some TStr | _ => None end
  | TStr, _ | _, TStr => None
  | _, _ =>
    if is_rel o then Some TI
    else if is_logic o || (match o with OIDiv | OMod => true | _ => false end)
    then Some (int_ty ta tb)
    else match o with ODiv | OPow => Some (flt_ty ta tb) | _ => Some (join ta tb) end
  end.
Definition unop_ty (o : unop) (t : vty) : option vty :=
  match o, t with
  | _, TStr => None
  | UNot, _ => Some (int_ty t t)
  | _, _ => Some t
  end.

(* ---------- strings ---------- *)

Definition zlen (s : str) : Z := Z.of_nat (length s).
Definition str_left (s : str) (n : Z) : str := firstn (Z.to_nat n) s.
Definition str_right (s : str) (n : Z) : str :=
  if n >=? zlen s then s else skipn (Z.to_nat (zlen s - n)) s.
Definition str_mid (s : str) (start len : Z) : str :=
  firstn (Z.to_nat len) (skipn (Z.to_nat (start - 1)) s).
Definition up_ch (c : Z) : Z := if (97 <=? c) && (c <=? 122) then c - 32 else c.
Definition lo_ch (c : Z) : Z := if (65 <=? c) && (c <=? 90) then c + 32 else c.
Fixpoint ltrim (s : str) : str :=
  match s with c :: r => if c =? 32 then ltrim r else s | [] => [] end.
Definition rtrim (s : str) : str := rev (ltrim (rev s)).

Fixpoint is_prefix (p s : str) : bool :=
  match p, s with
  | [], _ => true
  | c :: p', d :: s' => (c =? d) && is_prefix p' s'
  | _ :: _, [] => false
  end.
Fixpoint find_at (sub s : str) (pos : Z) : Z :=
  match s with
  | [] => 0
  | _ :: r => if is_prefix sub s then pos else find_at sub r (pos + 1)
  end.
(* INSTR as tabulated in the language reference *)
Definition instr_sem (start : Z) (s1 s2 : str) : pres Z :=
  if start <=? 0 then PErr EIllegal
  else match s1 with
       | [] => POk 0
       | _ => if start >? zlen s1 then POk 0
              else match s2 with
                   | [] => POk start
                   | _ => POk (find_at s2 (skipn (Z.to_nat (start - 1)) s1) start)
                   end
       end.

(* number -> text as PRINT / STR$ show it (C16 owns this function) *)
Definition num_text (c : cell) : option str :=
  match c with
  | CI z | CL z => Some (fmt_int z)
  | CS f => Some (fmt_float true f)
  | CD f => Some (fmt_float false f)
  | _ => None
  end.

(* ---------- pure builtin functions ---------- *)
Definition B_ABS := 1.  Definition B_INT := 2.  Definition B_CINT := 3.  Definition B_CLNG := 4.
Definition B_LEN := 5.  Definition B_ASC := 6.  Definition B_CHR := 7.  Definition B_LEFT := 8.
Definition B_RIGHT := 9.  Definition B_MID := 10.  Definition B_UCASE := 11.
Definition B_LCASE := 12.  Definition B_LTRIM := 13.  Definition B_RTRIM := 14.
Definition B_SPACE := 15.  Definition B_STRING := 16.  Definition B_STR := 17.
Definition B_INSTR := 18.  Definition B_RND := 19.  Definition B_TIMER := 20.

Definition arg_int (q : Z -> bool) (c : cell) : pres Z :=
  pdo c' <- conv q TI c; int_val c'.

Definition len_cell (q : Z -> bool) (z : Z) : pres cell :=
  if q Q_LEN_LONG then chk_long z else chk_int z.

Definition builtin_pure (q : Z -> bool) (b : Z) (args : list cell) : pres cell :=
  if b =? B_ABS then
    match args with
    | [CI z] => chk_int (Z.abs z) | [CL z] => chk_long (Z.abs z)
    | [CS f] => POk (CS (fabs f)) | [CD f] => POk (CD (fabs f))
    | _ => PStuck 2
    end
  else if b =? B_INT then
    match args with
    | [CI z] => if q Q_INT_LONG then POk (CL z) else POk (CI z)
    | [CL z] => POk (CL z)
    | [CS f] =>
      match ffloor f with
      | Some z => if q Q_INT_LONG then chk_long z else mk_single (of_Z z)
      | None => PErr EOverflow
      end
    | [CD f] =>
      match ffloor f with
      | Some z => if q Q_INT_LONG then chk_long z else POk (CD (of_Z z))
      | None => PErr EOverflow
      end
    | _ => PStuck 2
    end
  else if b =? B_CINT then
    match args with [c] => if is_num_ty (ty_of c) then conv q TI c else PStuck 2 | _ => PStuck 2 end
  else if b =? B_CLNG then
    match args with [c] => if is_num_ty (ty_of c) then conv q TL c else PStuck 2 | _ => PStuck 2 end
  else if b =? B_LEN then
    match args with [CStr s] => len_cell q (zlen s) | _ => PStuck 2 end
  else if b =? B_ASC then
    match args with
    | [CStr []] => PErr EIllegal
    | [CStr (c :: _)] => POk (CI c)
    | _ => PStuck 2
    end
  else if b =? B_CHR then
    match args with
    | [c] => pdo n <- arg_int q c;
             if (n <? 0) || (n >? 255) then PErr EIllegal else POk (CStr [n])
    | _ => PStuck 2
    end
  else if b =? B_LEFT then
    match args with
    | [CStr s; c] => pdo n <- arg_int q c;
                     if n <? 0 then PErr EIllegal else POk (CStr (str_left s n))
    | _ => PStuck 2
    end
  else if b =? B_RIGHT then
    match args with
    | [CStr s; c] => pdo n <- arg_int q c;
                     if n <? 0 then PErr EIllegal
                     else if (n =? 0) && q Q_RIGHT0 then POk (CStr s)
                     else POk (CStr (str_right s n))
    | _ => PStuck 2
    end
  else if b =? B_MID then
    match args with
    | [CStr s; c] =>
      pdo st <- arg_int q c;
      if st <=? 0 then PErr EIllegal
      else if q Q_MID_TRAP && (st >? zlen s + 1) then PErr EIllegal
      else POk (CStr (skipn (Z.to_nat (st - 1)) s))
    | [CStr s; c; d] =>
      pdo st <- arg_int q c; pdo n <- arg_int q d;
      if st <=? 0 then PErr EIllegal
      else if n <? 0 then PErr EIllegal
      else POk (CStr (str_mid s st n))
    | _ => PStuck 2
    end
  else if b =? B_UCASE then
    match args with [CStr s] => POk (CStr (map up_ch s)) | _ => PStuck 2 end
  else if b =? B_LCASE then
    match args with [CStr s] => POk (CStr (map lo_ch s)) | _ => PStuck 2 end
  else if b =? B_LTRIM then
    match args with [CStr s] => POk (CStr (ltrim s)) | _ => PStuck 2 end
  else if b =? B_RTRIM then
    match args with [CStr s] => POk (CStr (rtrim s)) | _ => PStuck 2 end
  else if b =? B_SPACE then
    match args with
    | [c] => pdo n <- arg_int q c;
             if n <? 0 then PErr EIllegal else POk (CStr (repeat 32 (Z.to_nat n)))
    | _ => PStuck 2
    end
  else if b =? B_STRING then
    match args with
    | [c; CStr s] =>
      pdo n <- arg_int q c;
      if n <? 0 then PErr EIllegal
      else match s with
           | [] => PErr EIllegal
           | ch :: _ => POk (CStr (repeat ch (Z.to_nat n)))
           end
    | [c; d] =>
      pdo n <- arg_int q c; pdo code <- arg_int q d;
      if n <? 0 then PErr EIllegal
      else if (code <? 0) || (code >? 255) then PErr EIllegal
      else POk (CStr (repeat code (Z.to_nat n)))
    | _ => PStuck 2
    end
  else if b =? B_STR then
    match args with
    | [c] => match num_text c with Some t => POk (CStr t) | None => PStuck 2 end
    | _ => PStuck 2
    end
  else if b =? B_INSTR then
    match args with
    | [CStr s1; CStr s2] => pdo r <- instr_sem 1 s1 s2; len_cell q r
    | [c; CStr s1; CStr s2] =>
      pdo st <- arg_int q c; pdo r <- instr_sem st s1 s2; len_cell q r
    | _ => PStuck 2
    end
  else PStuck 2.

(* ---------- numerals in INPUT responses and DATA items ---------- *)

(* [sign] digits [. digits] [(E|D) [sign] digits], at least one digit in the
   mantissa; surrounding blanks ignored.  Result: (neg, c, k) = (-1)^neg c 10^k *)
Fixpoint take_digits (s : str) (acc cnt : Z) : Z * Z * str :=
  match s with
  | c :: r => if is_digit c then take_digits r (acc * 10 + (c - 48)) (cnt + 1) else (acc, cnt, s)
  | [] => (acc, cnt, [])
  end.

Definition parse_numeral (s0 : str) : option (bool * Z * Z) :=
  let s := strip_sp s0 in
  let '(neg, s1) := match s with
                    | c :: r => if c =? ch_minus then (true, r)
                                else if c =? ch_plus then (false, r) else (false, s)
                    | [] => (false, s) end in
  let '(ip, icnt, s2) := take_digits s1 0 0 in
  let '(m, fcnt, s3) :=
    match s2 with
    | c :: r => if c =? ch_dot then take_digits r ip 0 else (ip, 0, s2)
    | [] => (ip, 0, s2)
    end in
  if (icnt =? 0) && (fcnt =? 0) then None
  else match s3 with
       | [] => Some (neg, m, - fcnt)
       | c :: r =>
         if (c =? 69) || (c =? 101) || (c =? 68) || (c =? 100) then
           let '(eneg, r1) := match r with
                              | d :: r' => if d =? ch_minus then (true, r')
                                           else if d =? ch_plus then (false, r') else (false, r)
                              | [] => (false, r) end in
           match take_digits r1 0 0 with
           | (ev, ecnt, []) =>
             if ecnt =? 0 then None
             else let ev' := if ev >? 100000 then 100000 else ev in
                  Some (neg, m, (if eneg then - ev' else ev') - fcnt)
           | _ => None
           end
         else None
       end.

(* [sign] digits only (what qbee accepts for an integral variable, quirk Q_INT_NUMERAL) *)
Definition plain_int (s0 : str) : bool :=
  let s := strip_sp s0 in
  let s1 := match s with
            | c :: r => if (c =? ch_minus) || (c =? ch_plus) then r else s
            | [] => s end in
  match s1 with
  | [] => false
  | _ => forallb is_digit s1
  end.

(* nearest integer (ties to even) of c * 10^k, c >= 0 *)
Definition dec_round (c k : Z) : Z :=
  if k >=? 0 then c * 10 ^ k
  else let d := 10 ^ (- k) in
       let qv := c / d in
       let r := c - qv * d in
       if 2 * r >? d then qv + 1 else if 2 * r <? d then qv
       else if Z.odd qv then qv + 1 else qv.

(* the numeral as a value of type t; None = the type cannot hold it *)
Definition numeral_value (t : vty) (n : bool * Z * Z) : option cell :=
  let '(neg, c, k) := n in
  match t with
  | TI => let z := dec_round c k in let z := if neg then - z else z in
          if in_int z then Some (CI z) else None
  | TL => let z := dec_round c k in let z := if neg then - z else z in
          if in_long z then Some (CL z) else None
  | TS => match dec_to_fl_gen round32 neg c k with
          | FFin a b d => Some (CS (FFin a b d)) | _ => None end
  | TD => match dec_to_fl neg c k with
          | FFin a b d => Some (CD (FFin a b d)) | _ => None end
  | TStr => None
  end.
