(* Reference semantics of the QBASIC core language, part 2: the typed core
   AST, the store, and a big-step interpreter on fuel.  Specification, not a
   model of qbee (see SemBase.v for the role of the quirk switches [q]). *)
From Coq Require Import ZArith List Bool Lia.
From QV Require Import Sx Strs Fl Dec NumFmt Cell Print SemBase.
Import ListNotations.
Open Scope Z_scope.

(* ---------- syntax ---------- *)

(* variables are numbered; [p_varty] gives the type a name has when it is used
   as an (implicit) scalar.  Record types are numbered; fields are scalars. *)
Inductive expr :=
| ELit (c : cell)
| EVar (x : Z)
| EIdx (x : Z) (idx : list expr)
| EFld (x f : Z)
| EIdxFld (x : Z) (idx : list expr) (f : Z)
| EUn (o : unop) (e : expr)
| EBin (o : binop) (l r : expr)
| EPar (e : expr)
| EBuiltin (b : Z) (args : list expr)
| ECall (fid : Z) (args : list expr).

Inductive lval :=
| LVar (x : Z)
| LIdx (x : Z) (idx : list expr)
| LFld (x f : Z)
| LIdxFld (x : Z) (idx : list expr) (f : Z).

Inductive pitem := PIExpr (e : expr) | PISemi | PIComma.
Inductive clause := CVal (e : expr) | CRange (a b : expr) | CIs (o : binop) (e : expr).
Inductive eltty := EScalar (t : vty) | ERecord (tid : Z).
Inductive decl := Decl (x : Z) (bounds : list (Z * Z)) (t : eltty).
Inductive ditem := DEmptyI | DTextI (s : str).

Inductive stmt :=
| SAssign (ln : Z) (lv : lval) (e : expr)
| SPrint (ln : Z) (items : list pitem)
| SIf (arms : list (Z * expr * list stmt)) (els : list stmt)
| SIfLine (ln : Z) (c : expr) (th el : list stmt)
| SWhile (ln : Z) (c : expr) (body : list stmt)
| SDo (ln : Z) (pre : option (bool * expr)) (body : list stmt)
      (lnpost : Z) (post : option (bool * expr))          (* bool: true = UNTIL *)
| SFor (ln : Z) (x : Z) (e1 e2 : expr) (step : option expr) (body : list stmt) (lnnext : Z)
| SSelect (ln : Z) (e : expr) (cases : list (Z * list clause * list stmt))
          (els : option (list stmt))
| SExit (k : Z)                       (* 1 FOR, 2 DO, 3 SUB, 4 FUNCTION *)
| SGoto (ln l : Z) | SGosub (ln l : Z) | SReturn (ln : Z) | SLabel (l : Z)
| SCall (ln sid : Z) (args : list expr)
| SDim (ln : Z) (shared : bool) (ds : list decl)
| SStatic (ln : Z) (ds : list decl)
| SConst (ln x : Z) (e : expr)
| SInput (ln : Z) (prompt : str) (question sameline : bool) (lvs : list lval)
| SRead (ln : Z) (lvs : list lval)
| SRestore (ln : Z) (l : option Z)
| SRandomize (ln : Z) (e : expr)
| SEnd (ln : Z)
| SRetSet (ln : Z) (e : expr)
| SData (items : list ditem).

Record routine := mkRoutine {
  r_isfn : bool; r_params : list (Z * vty); r_ret : vty; r_body : list stmt }.

Record program := mkProgram {
  p_varty : list vty;
  p_types : list (list vty);
  p_main : list stmt;
  p_routines : list routine }.

(* ---------- store ---------- *)

Inductive binding :=
| BVar (addr : Z) (t : eltty)
| BArr (addr : Z) (bounds : list (Z * Z)) (t : eltty)
| BConst (v : cell).
Definition env := list (Z * binding).

Inductive ev :=
| EvPrint (t : str) | EvInput (sameline : bool) (line : str)
| EvRndNext | EvRndSeeded (seed : fl) | EvSeed (seed : fl) | EvTime.

Record frame := mkFrame { f_rid : Z; f_env : env }.

Record state := mkState {
  s_mem : list cell;
  s_frame : frame;
  s_shared : env;
  s_statics : list (Z * env);
  s_data : Z;
  s_lines : list str;
  s_rnd : list fl;
  s_timer : list fl;
  s_lastrnd : option fl;
  s_out : list ev }.                 (* most recent first *)

Definition RETVAR : Z := -1.
Definition MAIN : Z := -1.

(* result of a computation: error with the line of the failing statement
   (0 = not yet attributed) and the state reached *)
Inductive res (A : Type) :=
| Ok (a : A) (s : state)
| Err (e : err) (ln : Z) (s : state)
| Stuck (why : Z).
Arguments Ok {A}. Arguments Err {A}. Arguments Stuck {A}.

Definition M (A : Type) := state -> res A.
Definition ret {A} (a : A) : M A := fun s => Ok a s.
Definition bind {A B} (m : M A) (f : A -> M B) : M B :=
  fun s => match m s with
           | Ok a s' => f a s'
           | Err e ln s' => Err e ln s'
           | Stuck w => Stuck w
           end.
Notation "'do' x <- m ; f" := (bind m (fun x => f))
  (at level 200, x pattern, m at level 100, f at level 200).
Notation "m ;; f" := (bind m (fun _ => f)) (at level 199, right associativity).

Definition fail {A} (e : err) : M A := fun s => Err e 0 s.
Definition stuck {A} (w : Z) : M A := fun _ => Stuck w.
Definition lift {A} (p : pres A) : M A :=
  match p with POk a => ret a | PErr e => fail e | PStuck w => stuck w end.
Definition at_line {A} (ln : Z) (m : M A) : M A :=
  fun s => match m s with
           | Err e 0 s' => Err e ln s'
           | r => r
           end.
Definition get : M state := fun s => Ok s s.
Definition put (s : state) : M unit := fun _ => Ok tt s.

Definition set_mem (s : state) (m : list cell) : state :=
  mkState m (s_frame s) (s_shared s) (s_statics s) (s_data s) (s_lines s) (s_rnd s)
          (s_timer s) (s_lastrnd s) (s_out s).
Definition set_frame (s : state) (f : frame) : state :=
  mkState (s_mem s) f (s_shared s) (s_statics s) (s_data s) (s_lines s) (s_rnd s)
          (s_timer s) (s_lastrnd s) (s_out s).
Definition set_shared (s : state) (e : env) : state :=
  mkState (s_mem s) (s_frame s) e (s_statics s) (s_data s) (s_lines s) (s_rnd s)
          (s_timer s) (s_lastrnd s) (s_out s).
Definition set_statics (s : state) (e : list (Z * env)) : state :=
  mkState (s_mem s) (s_frame s) (s_shared s) e (s_data s) (s_lines s) (s_rnd s)
          (s_timer s) (s_lastrnd s) (s_out s).
Definition set_data (s : state) (d : Z) : state :=
  mkState (s_mem s) (s_frame s) (s_shared s) (s_statics s) d (s_lines s) (s_rnd s)
          (s_timer s) (s_lastrnd s) (s_out s).
Definition set_script (s : state) (l : list str) (r t : list fl) (lr : option fl) : state :=
  mkState (s_mem s) (s_frame s) (s_shared s) (s_statics s) (s_data s) l r t lr (s_out s).
Definition emit (e : ev) : M unit :=
  fun s => Ok tt (mkState (s_mem s) (s_frame s) (s_shared s) (s_statics s) (s_data s)
                          (s_lines s) (s_rnd s) (s_timer s) (s_lastrnd s) (e :: s_out s)).

Fixpoint lookup_env (x : Z) (e : env) : option binding :=
  match e with
  | [] => None
  | (y, b) :: r => if x =? y then Some b else lookup_env x r
  end.
Fixpoint lookup_statics (rid : Z) (l : list (Z * env)) : env :=
  match l with
  | [] => []
  | (r, e) :: t => if r =? rid then e else lookup_statics rid t
  end.
Fixpoint set_statics_of (rid : Z) (e : env) (l : list (Z * env)) : list (Z * env) :=
  match l with
  | [] => [(rid, e)]
  | (r, e0) :: t => if r =? rid then (r, e) :: t else (r, e0) :: set_statics_of rid e t
  end.

Definition alloc (cells : list cell) : M Z :=
  fun s => Ok (Z.of_nat (length (s_mem s))) (set_mem s (s_mem s ++ cells)).

Definition bind_local (x : Z) (b : binding) : M unit :=
  fun s => Ok tt (set_frame s (mkFrame (f_rid (s_frame s)) ((x, b) :: f_env (s_frame s)))).
Definition bind_shared (x : Z) (b : binding) : M unit :=
  fun s => Ok tt (set_shared s ((x, b) :: s_shared s)).
Definition bind_static (x : Z) (b : binding) : M unit :=
  fun s => let rid := f_rid (s_frame s) in
           Ok tt (set_statics s (set_statics_of rid ((x, b) :: lookup_statics rid (s_statics s))
                                                (s_statics s))).

Fixpoint set_nth {A} (l : list A) (n : nat) (a : A) : list A :=
  match l, n with
  | [], _ => []
  | _ :: r, O => a :: r
  | x :: r, S n' => x :: set_nth r n' a
  end.

Definition read_mem (a : Z) : M cell :=
  fun s => if a <? 0 then Stuck 2 else
           match nth_error (s_mem s) (Z.to_nat a) with
           | Some c => Ok c s
           | None => Stuck 2
           end.
Definition write_mem (a : Z) (c : cell) : M unit :=
  fun s => if (a <? 0) || (a >=? Z.of_nat (length (s_mem s))) then Stuck 2
           else Ok tt (set_mem s (set_nth (s_mem s) (Z.to_nat a) c)).

Section WithProgram.
Variable P : program.
Variable q : Z -> bool.

Definition fields_of (tid : Z) : option (list vty) :=
  if tid <? 0 then None else nth_error (p_types P) (Z.to_nat tid).
Definition elt_size (t : eltty) : Z :=
  match t with
  | EScalar _ => 1
  | ERecord tid => match fields_of tid with Some l => Z.of_nat (length l) | None => 1 end
  end.
Definition elt_defaults (t : eltty) : list cell :=
  match t with
  | EScalar ty => [default_of ty]
  | ERecord tid => match fields_of tid with Some l => map default_of l | None => [] end
  end.
Definition field_ty (t : eltty) (f : option Z) : option vty :=
  match t, f with
  | EScalar ty, None => Some ty
  | ERecord tid, Some k =>
    match fields_of tid with
    | Some l => if k <? 0 then None else nth_error l (Z.to_nat k)
    | None => None
    end
  | _, _ => None
  end.
Definition field_off (f : option Z) : Z := match f with Some k => k | None => 0 end.

(* name resolution: parameters and locals of the running procedure, its
   STATIC variables, then SHARED variables and module-level CONSTs; a name
   not found is a new local scalar of the type its spelling gives *)
Definition resolve (x : Z) : M binding :=
  fun s =>
    match lookup_env x (f_env (s_frame s)) with
    | Some b => Ok b s
    | None =>
      match lookup_env x (lookup_statics (f_rid (s_frame s)) (s_statics s)) with
      | Some b => Ok b s
      | None =>
        match lookup_env x (s_shared s) with
        | Some b => Ok b s
        | None =>
          if x <? 0 then Stuck 2 else
          match nth_error (p_varty P) (Z.to_nat x) with
          | Some t =>
            (do a <- alloc [default_of t];
             bind_local x (BVar a (EScalar t));;
             ret (BVar a (EScalar t))) s
          | None => Stuck 2
          end
        end
      end
    end.

Fixpoint dims_size (bounds : list (Z * Z)) : Z :=
  match bounds with [] => 1 | (lo, hi) :: r => (hi - lo + 1) * dims_size r end.

(* row-major position of an element; subscripts are rounded to LONG *)
Fixpoint lin_index (bounds : list (Z * Z)) (idx : list cell) (acc : Z) : pres Z :=
  match bounds, idx with
  | [], [] => POk acc
  | (lo, hi) :: bs, c :: cs =>
    pdo c' <- conv q TL c; pdo i <- int_val c';
    if (i <? lo) || (i >? hi) then PErr ESubscript
    else lin_index bs cs (acc * (hi - lo + 1) + (i - lo))
  | _, _ => PStuck 2
  end.

(* address and scalar type of  x [ (idx) ] [ .f ] *)
Definition var_loc (x : Z) (idx : option (list cell)) (f : option Z) : M (Z * vty) :=
  do b <- resolve x;
  match b, idx with
  | BVar a t, None =>
    match field_ty t f with Some ty => ret (a + field_off f, ty) | None => stuck 2 end
  | BArr a bounds t, Some vs =>
    do k <- lift (lin_index bounds vs 0);
    match field_ty t f with
    | Some ty => ret (a + k * elt_size t + field_off f, ty)
    | None => stuck 2
    end
  | _, _ => stuck 2
  end.

Definition map_eval (ev1 : expr -> M cell) : list expr -> M (list cell) :=
  fix go (l : list expr) : M (list cell) :=
    match l with
    | [] => ret []
    | e :: r => do v <- ev1 e; do vs <- go r; ret (v :: vs)
    end.

Definition take_rnd : M fl :=
  fun s => match s_rnd s with
           | v :: r => Ok v (set_script s (s_lines s) r (s_timer s) (s_lastrnd s))
           | [] => Err EExhausted 0 s
           end.
Definition take_timer : M fl :=
  fun s => match s_timer s with
           | v :: r => Ok v (set_script s (s_lines s) (s_rnd s) r (s_lastrnd s))
           | [] => Err EExhausted 0 s
           end.
Definition take_line : M str :=
  fun s => match s_lines s with
           | v :: r => Ok v (set_script s r (s_rnd s) (s_timer s) (s_lastrnd s))
           | [] => Err EExhausted 0 s
           end.
Definition set_lastrnd (v : fl) : M unit :=
  fun s => Ok tt (set_script s (s_lines s) (s_rnd s) (s_timer s) (Some v)).

(* RND [(x)]: x < 0 reseeds, x = 0 repeats the last number, otherwise the next one *)
Definition rnd_sem (arg : option cell) : M cell :=
  do a <- match arg with
          | None => ret f_one
          | Some c => do c' <- lift (conv q TS c); lift (flt_val c')
          end;
  (match fcmp a (fzero false) with
   | Some Eq =>
     do s <- get;
     match s_lastrnd s with
     | Some _ => ret tt
     | None => do v <- take_rnd; emit EvRndNext;; set_lastrnd v
     end
   | Some Lt => do v <- take_rnd; emit (EvRndSeeded a);; set_lastrnd v
   | _ => do v <- take_rnd; emit EvRndNext;; set_lastrnd v
   end);;
  do s <- get;
  match s_lastrnd s with
  | Some v => lift (mk_single v)
  | None => stuck 2
  end.

(* by-reference / by-value argument: a variable, element or field of exactly
   the parameter's type is passed as its location; anything else (also a
   parenthesised variable and a CONST) is evaluated, converted and copied *)
Definition arg_loc (ev1 : expr -> M cell) (t : vty) (a : expr) : M Z :=
  let byval := do v <- ev1 a; do v' <- lift (conv q t v); alloc [v'] in
  let byref x (vs : option (list cell)) f :=
      do (addr, ty) <- var_loc x vs f;
      if vty_eqb ty t then ret addr else stuck 2 in
  match a with
  | EVar x =>
    do b <- resolve x;
    match b with BConst _ => byval | _ => byref x None None end
  | EIdx x idx => do vs <- map_eval ev1 idx; byref x (Some vs) None
  | EFld x f => byref x None (Some f)
  | EIdxFld x idx f => do vs <- map_eval ev1 idx; byref x (Some vs) (Some f)
  | _ => byval
  end.

Definition args_locs (ev1 : expr -> M cell) : list expr -> list vty -> M (list Z) :=
  fix go (l : list expr) (ts : list vty) {struct l} : M (list Z) :=
    match l, ts with
    | [], [] => ret []
    | a :: r, t :: ts' => do z <- arg_loc ev1 t a; do zs <- go r ts'; ret (z :: zs)
    | _, _ => stuck 2
    end.

Definition routine_of (rid : Z) : option routine :=
  if rid <? 0 then None else nth_error (p_routines P) (Z.to_nat rid).

(* ---------- expressions ---------- *)
Section Eval.
Variable callf : Z -> list Z -> M cell.     (* run a FUNCTION on argument locations *)

Fixpoint eval (e : expr) : M cell :=
  match e with
  | ELit c => ret c
  | EVar x =>
    do b <- resolve x;
    match b with
    | BConst v => ret v
    | BVar a (EScalar _) => read_mem a
    | _ => stuck 2
    end
  | EIdx x idx =>
    do vs <- map_eval eval idx; do (a, _) <- var_loc x (Some vs) None; read_mem a
  | EFld x f => do (a, _) <- var_loc x None (Some f); read_mem a
  | EIdxFld x idx f =>
    do vs <- map_eval eval idx; do (a, _) <- var_loc x (Some vs) (Some f); read_mem a
  | EUn o a => do v <- eval a; lift (unop_sem q o v)
  | EBin o l r => do a <- eval l; do b <- eval r; lift (binop_sem q o a b)
  | EPar a => eval a
  | EBuiltin b args =>
    if b =? B_RND then
      match args with
      | [] => rnd_sem None
      | [a] => do v <- eval a; rnd_sem (Some v)
      | _ => stuck 2
      end
    else if b =? B_TIMER then
      do v <- take_timer; emit EvTime;; lift (mk_single v)
    else do vs <- map_eval eval args; lift (builtin_pure q b vs)
  | ECall fid args =>
    match routine_of fid with
    | Some r =>
      if r_isfn r then
        do locs <- args_locs eval args (map snd (r_params r));
        callf fid locs
      else stuck 2
    | None => stuck 2
    end
  end.
End Eval.

(* ---------- statements ---------- *)

Inductive signal :=
| SigNormal | SigExitFor | SigExitDo | SigExitSub | SigExitFn
| SigGoto (l : Z) | SigReturn | SigEnd.

Definition assign_loc (loc : Z * vty) (v : cell) : M unit :=
  do v' <- lift (conv q (snd loc) v); write_mem (fst loc) v'.

Definition lval_loc (ev1 : expr -> M cell) (lv : lval) : M (Z * vty) :=
  match lv with
  | LVar x => var_loc x None None
  | LIdx x idx => do vs <- map_eval ev1 idx; var_loc x (Some vs) None
  | LFld x f => var_loc x None (Some f)
  | LIdxFld x idx f => do vs <- map_eval ev1 idx; var_loc x (Some vs) (Some f)
  end.

(* truth of a condition: non-zero *)
Definition truth (v : cell) : M bool :=
  if q Q_COND_INT then
    do v' <- lift (conv q TI v);
    match v' with CI z => ret (negb (z =? 0)) | _ => stuck 2 end
  else
  match v with
  | CI z | CL z => ret (negb (z =? 0))
  | CS f | CD f => ret (negb (is_zero f))
  | _ => stuck 2
  end.

(* the conditions of DO UNTIL / LOOP WHILE / LOOP UNTIL in qbee (quirk) *)
Definition truth_loop (pre until : bool) (v : cell) : M bool :=
  if q Q_LOOP_COND then
    if pre then
      do v' <- lift (conv q TI v);
      match v' with
      | CI z => ret (if until then negb (Z.lnot z =? 0) else negb (z =? 0))
      | _ => stuck 2
      end
    else
      match v with
      | CI z => ret (if until then (z =? 0) else (Z.lnot z =? 0))
      | _ => fail ETypeMismatch
      end
  else truth v.

Definition print_item (ev1 : expr -> M cell) (it : pitem) : M Print.pitem :=
  match it with
  | PISemi => ret PSemi
  | PIComma => ret PComma
  | PIExpr e =>
    do v <- ev1 e;
    match v with
    | CStr s => ret (PStr s)
    | _ => match num_text v with Some t => ret (PNum t) | None => stuck 2 end
    end
  end.

Fixpoint print_items (ev1 : expr -> M cell) (l : list pitem) : M (list Print.pitem) :=
  match l with
  | [] => ret []
  | it :: r => do p <- print_item ev1 it; do ps <- print_items ev1 r; ret (p :: ps)
  end.

Definition alloc_decl (d : decl) : M (Z * binding) :=
  let '(Decl x bounds t) := d in
  match bounds with
  | [] => do a <- alloc (elt_defaults t); ret (x, BVar a t)
  | _ =>
    let n := dims_size bounds in
    do a <- alloc (concat (repeat (elt_defaults t) (Z.to_nat n)));
    ret (x, BArr a bounds t)
  end.

(* DATA: all items of the module-level DATA statements in source order *)
Fixpoint all_data (l : list stmt) : list ditem :=
  match l with
  | [] => []
  | SData items :: r => items ++ all_data r
  | _ :: r => all_data r
  end.
Fixpoint data_before_label (lbl : Z) (l : list stmt) (n : Z) : option Z :=
  match l with
  | [] => None
  | SLabel k :: r => if k =? lbl then Some n else data_before_label lbl r n
  | SData items :: r => data_before_label lbl r (n + Z.of_nat (length items))
  | _ :: r => data_before_label lbl r n
  end.
Fixpoint from_label (lbl : Z) (l : list stmt) : option (list stmt) :=
  match l with
  | [] => None
  | SLabel k :: r => if k =? lbl then Some r else from_label lbl r
  | _ :: r => from_label lbl r
  end.

Definition read_item (t : vty) (it : ditem) : M cell :=
  match it, t with
  | DEmptyI, _ => ret (default_of t)
  | DTextI s, TStr => ret (CStr s)
  | DTextI s, _ =>
    if q Q_INT_NUMERAL && (rank t <=? 2) && negb (plain_int s) then fail EReadSyntax else
    match parse_numeral s with
    | None => fail EReadSyntax
    | Some n => match numeral_value t n with Some c => ret c | None => fail EOverflow end
    end
  end.

(* a negative cursor only arises with quirk Q_RESTORE_WRAP: position
   cursor + number of items, running on into position 0 *)
Definition next_data : M ditem :=
  fun s => let total := Z.of_nat (length (all_data (p_main P))) in
           let pos := if s_data s <? 0 then s_data s + total else s_data s in
           if pos <? 0 then Stuck 2 else
           match nth_error (all_data (p_main P)) (Z.to_nat pos) with
           | Some it => Ok it (set_data s (s_data s + 1))
           | None => Err EOutOfData 0 s
           end.

(* INPUT: one field per variable, each numeric field a numeral its type holds *)
Fixpoint parse_fields (fs : list str) (ts : list vty) : option (list cell) :=
  match fs, ts with
  | [], [] => Some []
  | f :: fr, t :: tr =>
    let v := match t with
             | TStr => Some (CStr (strip_sp f))
             | _ => if q Q_INT_NUMERAL && (rank t <=? 2) && negb (plain_int f) then None else
                    match parse_numeral f with
                    | Some n => numeral_value t n
                    | None => None end
             end in
    match v, parse_fields fr tr with
    | Some c, Some cs => Some (c :: cs)
    | _, _ => None
    end
  | _, _ => None
  end.

Definition redo_text : str :=
  [82; 101; 100; 111; 32; 102; 114; 111; 109; 32; 115; 116; 97; 114; 116] ++ crlf.

Fixpoint input_loop (fuel : nat) (prompt : str) (question sameline : bool) (ts : list vty)
  : M (list cell) :=
  match fuel with
  | O => stuck 4
  | S f =>
    emit (EvPrint (prompt ++ (if question then [63; 32] else [])));;
    do line <- take_line;
    emit (EvInput sameline line);;
    match parse_fields (split_commas line) ts with
    | Some vs => ret vs
    | None => emit (EvPrint redo_text);; input_loop f prompt question sameline ts
    end
  end.

Fixpoint assign_all (locs : list (Z * vty)) (vs : list cell) : M unit :=
  match locs, vs with
  | [], [] => ret tt
  | l :: lr, v :: vr => assign_loc l v;; assign_all lr vr
  | _, _ => stuck 2
  end.

Definition arith_t (t : vty) (o : binop) (a b : cell) : M cell :=
  do r <- lift (binop_sem q o a b); lift (conv q t r).

(* FOR termination test: past the limit in the direction of the step *)
Definition for_done (cur lim step : cell) : M bool :=
  do neg <- lift (binop_sem q OLt step (CI 0));
  do t <- truth neg;
  do c <- lift (binop_sem q (if t then OLt else OGt) cur lim);
  truth c.

(* qbee's range arithmetic in the loop variable's type (quirk Q_FOR_PRECHECK):
   (to - from) * sgn(step) and sgn(step) * to are computed, and cur * sgn(step)
   on every test *)
Definition sign_cell (t : vty) (step : cell) : M cell :=
  do lt <- lift (binop_sem q OLt step (CI 0));
  do gt <- lift (binop_sem q OGt step (CI 0));
  do a <- truth lt; do b <- truth gt;
  lift (conv q t (CI (if a then -1 else if b then 1 else 0))).

Definition for_quirk_pre (t : vty) (v1 v2 sg : cell) : M unit :=
  if q Q_FOR_PRECHECK then
    do d <- arith_t t OSub v2 v1;
    do _ <- arith_t t OMul d sg;
    do _ <- arith_t t OMul sg v2;
    ret tt
  else ret tt.
Definition for_quirk_test (t : vty) (cur sg : cell) : M unit :=
  if q Q_FOR_PRECHECK then do _ <- arith_t t OMul cur sg; ret tt else ret tt.

Definition sel_match (sel : cell) (c : clause) (ev1 : expr -> M cell) : M bool :=
  match c with
  | CVal e => do v <- ev1 e; do r <- lift (binop_sem q OEq sel v); truth r
  | CRange a b =>
    do va <- ev1 a; do r1 <- lift (binop_sem q OGe sel va);
    do vb <- ev1 b; do r2 <- lift (binop_sem q OLe sel vb);
    do t1 <- truth r1; do t2 <- truth r2; ret (t1 && t2)
  | CIs o e => do v <- ev1 e; do r <- lift (binop_sem q o sel v); truth r
  end.

Fixpoint any_match (sel : cell) (cs : list clause) (ev1 : expr -> M cell) : M bool :=
  match cs with
  | [] => ret false
  | c :: r =>
    (* every clause of the list is evaluated (they are side-effect free in the
       explored fragment); the result is their disjunction *)
    do m <- sel_match sel c ev1; do ms <- any_match sel r ev1; ret (m || ms)
  end.

Definition in_main : M bool := fun s => Ok (f_rid (s_frame s) =? MAIN) s.

Fixpoint call_routine (fuel : nat) (rid : Z) (locs : list Z) : M (signal * cell) :=
  match fuel with
  | O => stuck 1
  | S f =>
    match routine_of rid with
    | None => stuck 2
    | Some r =>
      do s0 <- get;
      let caller := s_frame s0 in
      let penv := (fix go (ps : list (Z * vty)) (ls : list Z) : env :=
                     match ps, ls with
                     | (x, t) :: pr, a :: lr => (x, BVar a (EScalar t)) :: go pr lr
                     | _, _ => []
                     end) (r_params r) locs in
      do ra <- alloc [default_of (r_ret r)];
      (fun s => Ok tt (set_frame s (mkFrame rid ((RETVAR, BVar ra (EScalar (r_ret r))) :: penv))));;
      do sg <- exec_list f (r_body r);
      do rv <- read_mem ra;
      (fun s => Ok tt (set_frame s caller));;
      match sg with
      | SigNormal | SigExitSub | SigExitFn => ret (SigNormal, rv)
      | SigEnd => ret (SigEnd, rv)
      | _ => stuck 2
      end
    end
  end

with evalf (fuel : nat) (e : expr) : M cell :=
  match fuel with
  | O => stuck 1
  | S f =>
    eval (fun fid locs =>
            do (sg, v) <- call_routine f fid locs;
            match sg with SigNormal => ret v | _ => stuck 2 end) e
  end

with exec_list (fuel : nat) (l : list stmt) : M signal :=
  match fuel with
  | O => stuck 1
  | S f =>
    match l with
    | [] => ret SigNormal
    | s :: r =>
      do sg <- exec f s;
      match sg with
      | SigNormal => exec_list f r
      | _ => ret sg
      end
    end
  end

(* module level: run from a statement list, resolving GOTO against the
   module's top-level labels *)
with run_top (fuel : nat) (l : list stmt) : M signal :=
  match fuel with
  | O => stuck 1
  | S f =>
    do sg <- exec_list f l;
    match sg with
    | SigGoto lbl =>
      match from_label lbl (p_main P) with
      | Some tail => run_top f tail
      | None => stuck 2
      end
    | _ => ret sg
    end
  end

with while_loop (fuel : nat) (ln : Z) (c : expr) (body : list stmt) : M signal :=
  match fuel with
  | O => stuck 1
  | S f =>
    do t <- at_line ln (do v <- evalf f c; truth v);
    if t then
      do sg <- exec_list f body;
      match sg with
      | SigNormal => while_loop f ln c body
      | _ => ret sg
      end
    else ret SigNormal
  end

with do_loop (fuel : nat) (ln : Z) (pre : option (bool * expr)) (body : list stmt)
             (lnpost : Z) (post : option (bool * expr)) : M signal :=
  match fuel with
  | O => stuck 1
  | S f =>
    do go <- match pre with
             | None => ret true
             | Some (until, c) =>
               at_line ln (do v <- evalf f c; do t <- truth_loop true until v;
                           ret (if q Q_LOOP_COND then t else if until then negb t else t))
             end;
    if go then
      do sg <- exec_list f body;
      match sg with
      | SigNormal =>
        do again <- match post with
                    | None => ret true
                    | Some (until, c) =>
                      at_line lnpost (do v <- evalf f c; do t <- truth_loop false until v;
                                      ret (if q Q_LOOP_COND then t else if until then negb t else t))
                    end;
        if again then do_loop f ln pre body lnpost post else ret SigNormal
      | SigExitDo => ret SigNormal
      | _ => ret sg
      end
    else ret SigNormal
  end

with for_loop (fuel : nat) (ln : Z) (loc : Z * vty) (lim step sg : cell) (body : list stmt)
              (lnnext : Z) : M signal :=
  match fuel with
  | O => stuck 1
  | S f =>
    do cur <- read_mem (fst loc);
    at_line ln (for_quirk_test (snd loc) cur sg);;
    do fin <- at_line ln (for_done cur lim step);
    if fin then ret SigNormal
    else
      do s <- exec_list f body;
      match s with
      | SigNormal =>
        at_line lnnext (do cur' <- read_mem (fst loc);
                        do nv <- arith_t (snd loc) OAdd cur' step;
                        write_mem (fst loc) nv);;
        for_loop f ln loc lim step sg body lnnext
      | SigExitFor => ret SigNormal
      | _ => ret s
      end
  end

with exec (fuel : nat) (s : stmt) : M signal :=
  match fuel with
  | O => stuck 1
  | S f =>
    let ev1 := evalf f in
    match s with
    | SAssign ln lv e =>
      at_line ln (do v <- ev1 e; do loc <- lval_loc ev1 lv; assign_loc loc v);;
      ret SigNormal
    | SPrint ln items =>
      at_line ln (do ps <- print_items ev1 items; emit (EvPrint (print_text ps)));;
      ret SigNormal
    | SIf arms els =>
      (fix go (arms : list (Z * expr * list stmt)) : M signal :=
         match arms with
         | [] => exec_list f els
         | (ln, c, body) :: r =>
           do t <- at_line ln (do v <- ev1 c; truth v);
           if t then exec_list f body else go r
         end) arms
    | SIfLine ln c th el =>
      do t <- at_line ln (do v <- ev1 c; truth v);
      if t then exec_list f th else exec_list f el
    | SWhile ln c body => while_loop f ln c body
    | SDo ln pre body lnpost post => do_loop f ln pre body lnpost post
    | SFor ln x e1 e2 step body lnnext =>
      do (loc, lim, stp, sg) <-
         at_line ln
           (do loc <- var_loc x None None;
            let t := snd loc in
            if negb (is_num_ty t) then stuck 2 else
            do v1 <- ev1 e1; do v1' <- lift (conv q t v1);
            do v2 <- ev1 e2; do v2' <- lift (conv q t v2);
            do vs <- match step with
                     | Some e => do v <- ev1 e; lift (conv q t v)
                     | None => lift (conv q t (CI 1))
                     end;
            do sg <- sign_cell t vs;
            write_mem (fst loc) v1';;
            for_quirk_pre t v1' v2' sg;;
            ret (loc, v2', vs, sg));
      for_loop f ln loc lim stp sg body lnnext
    | SSelect ln e cases els =>
      do sel <- at_line ln (ev1 e);
      (fix go (cs : list (Z * list clause * list stmt)) : M signal :=
         match cs with
         | [] => match els with Some b => exec_list f b | None => ret SigNormal end
         | (cln, cls, body) :: r =>
           do m <- at_line cln (any_match sel cls ev1);
           if m then exec_list f body else go r
         end) cases
    | SExit k =>
      ret (if k =? 1 then SigExitFor else if k =? 2 then SigExitDo
           else if k =? 3 then SigExitSub else SigExitFn)
    | SGoto ln l => ret (SigGoto l)
    | SGosub ln l =>
      match from_label l (p_main P) with
      | None => stuck 2
      | Some tail =>
        do sg <- run_top f tail;
        match sg with
        | SigReturn => ret SigNormal
        | SigNormal | SigEnd => ret SigEnd       (* ran off the end of the program *)
        | _ => stuck 2
        end
      end
    | SReturn ln => ret SigReturn
    | SLabel _ => ret SigNormal
    | SCall ln sid args =>
      match routine_of sid with
      | Some r =>
        if r_isfn r then stuck 2 else
        do locs <- at_line ln (args_locs ev1 args (map snd (r_params r)));
        do (sg, _) <- call_routine f sid locs;
        ret sg
      | None => stuck 2
      end
    | SDim ln shared ds =>
      (fix go (ds : list decl) : M unit :=
         match ds with
         | [] => ret tt
         | d :: r => do (x, b) <- alloc_decl d;
                     (if shared then bind_shared x b else bind_local x b);; go r
         end) ds;;
      ret SigNormal
    | SStatic ln ds =>
      (fix go (ds : list decl) : M unit :=
         match ds with
         | [] => ret tt
         | d :: r =>
           let '(Decl x _ _) := d in
           do s0 <- get;
           match lookup_env x (lookup_statics (f_rid (s_frame s0)) (s_statics s0)) with
           | Some _ => go r
           | None => do (x', b) <- alloc_decl d; bind_static x' b;; go r
           end
         end) ds;;
      ret SigNormal
    | SConst ln x e =>
      do v <- at_line ln (ev1 e);
      do v' <- at_line ln
                 (if q Q_CONST_UNTYPED then ret v
                  else if x <? 0 then stuck 2 else
                  match nth_error (p_varty P) (Z.to_nat x) with
                  | Some t => lift (conv q t v)
                  | None => stuck 2
                  end);
      do m <- in_main;
      (if m then bind_shared x (BConst v') else bind_local x (BConst v'));;
      ret SigNormal
    | SInput ln prompt question sameline lvs =>
      at_line ln
        (do locs <- (fix go (l : list lval) : M (list (Z * vty)) :=
                       match l with
                       | [] => ret []
                       | lv :: r => do a <- lval_loc ev1 lv; do as_ <- go r; ret (a :: as_)
                       end) lvs;
         do s0 <- get;
         do vs <- input_loop (S (length (s_lines s0))) prompt question sameline (map snd locs);
         assign_all locs vs);;
      ret SigNormal
    | SRead ln lvs =>
      at_line ln
        ((fix go (l : list lval) : M unit :=
            match l with
            | [] => ret tt
            | lv :: r =>
              do loc <- lval_loc ev1 lv;
              do it <- next_data;
              do v <- read_item (snd loc) it;
              assign_loc loc v;; go r
            end) lvs);;
      ret SigNormal
    | SRestore ln l =>
      match l with
      | None =>
        if q Q_RESTORE_WRAP
        then (fun s => Ok SigNormal (set_data s (- Z.of_nat (length (all_data (p_main P))))))
        else (fun s => Ok SigNormal (set_data s 0))
      | Some lbl =>
        match data_before_label lbl (p_main P) 0 with
        | Some n => (fun s => Ok SigNormal (set_data s n))
        | None => stuck 2
        end
      end
    | SRandomize ln e =>
      at_line ln (do v <- ev1 e; do v' <- lift (conv q TS v); do x <- lift (flt_val v');
                  emit (EvSeed x));;
      ret SigNormal
    | SEnd ln => ret SigEnd
    | SRetSet ln e =>
      at_line ln (do v <- ev1 e; do loc <- var_loc RETVAR None None;
                  assign_loc loc v);;
      ret SigNormal
    | SData _ => ret SigNormal
    end
  end.

End WithProgram.

(* ---------- whole programs ---------- *)

Inductive outcome :=
| ONormal
| OError (e : err) (ln : Z)
| OStuck (why : Z).

Definition init_state (lines : list str) (rnd timer : list fl) : state :=
  mkState [] (mkFrame MAIN []) [] [] 0 lines rnd timer None [].

Definition run (P : program) (q : Z -> bool) (lines : list str) (rnd timer : list fl)
           (fuel : nat) : list ev * outcome :=
  match run_top P q fuel (p_main P) (init_state lines rnd timer) with
  | Ok sg s =>
    (rev (s_out s),
     match sg with
     | SigNormal | SigEnd => ONormal
     | _ => OStuck 2
     end)
  | Err e ln s => (rev (s_out s), OError e ln)
  | Stuck w => ([], OStuck w)
  end.

(* the evaluator of the theorems: expressions without user FUNCTION calls *)
Definition eval_nocall (P : program) (q : Z -> bool) : expr -> M cell :=
  eval P q (fun _ _ => stuck 2).
