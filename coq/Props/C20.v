(* C20 - compilation and execution are deterministic.
   Statements only; proofs in Proofs/DeterminismProofs.v.

   What a Gallina model can and cannot say here.  [Cpu.run] and every function
   of Models/Determinism.v are closed terms: their value is determined by their
   arguments - there is no way to mention a hash seed, a clock, a working
   directory or "what was compiled before" in them.  That half of the property
   is therefore a typing fact of the model, not a theorem, and it is the
   perturbed correspondence of tools/props/c20.py (same program under different
   hash seeds, process histories, directories, times, threads, machine
   interleavings, all compared with one reference value and with the extracted
   model) that establishes that the IMPLEMENTATION is such a function.  The
   theorems below are the parts with content:
   - the result of a run does not depend on how much fuel the harness gives it,
     once the machine stops by itself (so "the" result of a run is well defined
     and the tick count is an intrinsic quantity);
   - two machines ticking alternately, in any schedule, each behave as alone;
   - the places where the compiler goes through a Python set (DEFtype letters,
     the label set) give results independent of the enumeration order, and the
     places where it goes through dict / list order (DATA parts, literal table)
     are functions of the source order alone, described explicitly. *)
From Coq Require Import ZArith List Bool Permutation.
From QV Require Import Sx Strs Machine Cpu Determinism DeterminismProofs.
Import ListNotations.
Open Scope Z_scope.

(* ---------- machine ---------- *)

(* more fuel never changes a run that stopped by itself *)
Theorem C20_run_fuel_mono : forall m f s t s' k n,
  run m f s t = (s', k, n) -> k <> StFuel ->
  forall f', (f <= f')%nat -> run m f' s t = (s', k, n).
Proof. exact run_fuel_mono. Qed.
Print Assumptions C20_run_fuel_mono.

(* a run is a function of (module, script): any two harness runs that reach the
   end agree on the final state, on the interaction trace and on the number of
   instructions executed, whatever their tick limits *)
Theorem C20_run_deterministic : forall m sc f1 f2 s1 n1 s2 n2,
  run m f1 (init_state m sc) 0 = (s1, StHalt, n1) ->
  run m f2 (init_state m sc) 0 = (s2, StHalt, n2) ->
  s1 = s2 /\ events s1 = events s2 /\ n1 = n2.
Proof. exact run_deterministic. Qed.
Print Assumptions C20_run_deterministic.

(* the same for every way of stopping (halt, host exception, script exhausted),
   from any state *)
Theorem C20_run_deterministic_any_stop : forall m s t f1 f2 s1 k1 n1 s2 k2 n2,
  run m f1 s t = (s1, k1, n1) -> run m f2 s t = (s2, k2, n2) ->
  k1 <> StFuel -> k2 <> StFuel ->
  s1 = s2 /\ k1 = k2 /\ n1 = n2.
Proof. exact run_deterministic_gen. Qed.
Print Assumptions C20_run_deterministic_any_stop.

(* two machines, any schedule of single ticks: each ends where it would have
   ended alone after as many ticks as it was given *)
Theorem C20_interleaving_independent : forall m1 m2 order s1 s2,
  sched m1 m2 order (s1, StFuel, 0) (s2, StFuel, 0) =
  (run m1 (count_b true order) s1 0, run m2 (count_b false order) s2 0).
Proof. exact interleaving_independent. Qed.
Print Assumptions C20_interleaving_independent.

(* ---------- compiler: sets ---------- *)

(* one DEFtype statement: the letter set may be iterated in any order *)
Theorem C20_deftype_order_irrelevant : forall letters letters' tab ty,
  Permutation letters letters' ->
  forall k, letter_type (apply_deftype tab letters ty) k =
            letter_type (apply_deftype tab letters' ty) k.
Proof. exact deftype_order_irrelevant. Qed.
Print Assumptions C20_deftype_order_irrelevant.

(* what the statement does, independent of any order *)
Theorem C20_deftype_lookup : forall letters tab ty k,
  letter_type (apply_deftype tab letters ty) k =
  if mem Z.eqb k (map lower letters) then Some ty else letter_type tab k.
Proof. exact deftype_lookup. Qed.
Print Assumptions C20_deftype_lookup.

(* a whole program's DEFtype statements, each set enumerated arbitrarily *)
Theorem C20_deftypes_order_irrelevant : forall s s', stmts_perm s s' ->
  forall k, letter_type (apply_deftypes [] s) k = letter_type (apply_deftypes [] s') k.
Proof. intros s s' H k. now apply deftypes_order_irrelevant. Qed.
Print Assumptions C20_deftypes_order_irrelevant.

(* the label set is only asked "is x a member": any set implementation (any way
   [ins] places a new element) gives the same verdict - no duplicate / first
   duplicate / first undefined target *)
Theorem C20_labels_set_membership_only : forall i1 i2 decls uses,
  ins_ok i1 -> ins_ok i2 -> check_labels i1 decls uses = check_labels i2 decls uses.
Proof. exact labels_set_membership_only. Qed.
Print Assumptions C20_labels_set_membership_only.

Theorem C20_labels_membership_perm : forall x l1 l2,
  Permutation l1 l2 -> mem str_eqb x l1 = mem str_eqb x l2.
Proof. exact labels_membership_perm. Qed.
Print Assumptions C20_labels_membership_perm.

(* ---------- compiler: insertion order ---------- *)

(* DATA parts: the parts are the labels in order of their first DATA statement
   (each once), and a part holds the items of its statements in source order *)
Theorem C20_data_parts_insertion_order : forall (stmts : list (option str * list str)),
  dict_keys (group_data okey_eqb stmts) = first_occ okey_eqb [] (map fst stmts) /\
  NoDup (dict_keys (group_data okey_eqb stmts)) /\
  forall k, dict_get okey_eqb (group_data okey_eqb stmts) k =
            if mem okey_eqb k (map fst stmts) then Some (items_of okey_eqb k stmts) else None.
Proof.
  intros stmts. split; [|split].
  - apply (group_keys okey_eqb).
  - rewrite (group_keys okey_eqb). apply (first_occ_nodup okey_eqb okey_eqb_spec).
  - intros k. apply (group_items okey_eqb okey_eqb_spec).
Qed.
Print Assumptions C20_data_parts_insertion_order.

(* the literal table holds each distinct literal once, in order of first use *)
Theorem C20_literal_table_first_occurrence : forall occ,
  literal_table occ = first_occ str_eqb [] occ /\ NoDup (literal_table occ).
Proof.
  intros occ. rewrite literal_table_first_occurrence. split; [reflexivity|].
  apply (first_occ_nodup str_eqb str_eqb_eq).
Qed.
Print Assumptions C20_literal_table_first_occurrence.

(* ---------- non-vacuity ---------- *)

(* a concrete module (push0%; halt) halts by itself; two different tick limits *)
Example C20_run_example :
  let m := mkModule [52; 100] [] [] 0 None in
  let s0 := init_state m (mkScript [] [] [] []) in
  exists s n, run m 7 s0 0 = (s, StHalt, n) /\ run m 1000 s0 0 = (s, StHalt, n).
Proof. eexists. eexists. split; vm_compute; reflexivity. Qed.

(* the dict really differs with the iteration order; its lookups do not *)
Example C20_deftype_example :
  apply_deftype [] [97; 98; 99] 1 <> apply_deftype [] [99; 97; 98] 1 /\
  map (letter_type (apply_deftype [(98, 5)] [65; 98; 99] 1)) [97; 98; 99; 100] =
  map (letter_type (apply_deftype [(98, 5)] [99; 65; 98] 1)) [97; 98; 99; 100].
Proof. split; [vm_compute; discriminate | vm_compute; reflexivity]. Qed.

Example C20_labels_example :
  check_labels ins_front [[97]; [98]; [99]] [[98]; [100]; [97]] = LUndefined 1 /\
  check_labels ins_back [[97]; [98]; [99]] [[98]; [100]; [97]] = LUndefined 1 /\
  check_labels ins_back [[97]; [98]; [97]] [] = LDuplicate 2.
Proof. vm_compute. repeat split; reflexivity. Qed.

Example C20_data_example :
  group_data okey_eqb [(None, [[49]]); (Some [108], [[50]]); (None, [[51]]); (Some [108], [[52]; [53]])] =
  [(None, [[49]; [51]]); (Some [108], [[50]; [52]; [53]])].
Proof. vm_compute. reflexivity. Qed.
