(* C04 - Variables, array elements and record fields never overlap or leak.
   Only statements, [exact], Print Assumptions.  Proofs: Proofs/LayoutProofs.v.
   Models: Models/Layout.v (qvm/memlayout.py, array header, _exec_arridx) and
   the machine model Models/Cpu.v (read*/readidx*/store*/deref*/frame...).

   Vocabulary: [denotes env t p o k] = the well-formed access path p (index
   tuples inside the declared bounds, existing field names) into an object of
   type t ends o cells after its start, at a scalar of builtin type k;
   [cellat h g i] = content of cell i of heap segment g;
   [upd_heap h g i c] = h with exactly that cell replaced. *)
From Coq Require Import ZArith List Bool Lia.
From QV Require Import Sx Strs Fl Cell Layout Machine Cpu LayoutProofs.
Import ListNotations.
Open Scope Z_scope.

(* ---------- layout: every record environment / declaration list / rank / bounds ---------- *)

(* every well-formed path of a declared variable denotes a cell inside
   [0, total) - the frame (params ++ locals) resp. the global area *)
Theorem C04_paths_in_frame : forall env ds v i t p o k total,
  wf_env env -> wf_decls ds ->
  var_idx_from env ds v 0 = Some i -> decl_ty ds v = Some t ->
  denotes env t p o k ->
  sizes_sum env ds = Some total ->
  0 <= i + o < total.
Proof. exact paths_in_frame. Qed.
Print Assumptions C04_paths_in_frame.

Theorem C04_local_paths_in_frame : forall env ps ls v i t p o k fsz,
  wf_env env -> wf_decls (ps ++ ls) ->
  local_var_idx env ps ls v = Some i -> decl_ty (ps ++ ls) v = Some t ->
  denotes env t p o k -> frame_size env ps ls = Some fsz -> 0 <= i + o < fsz.
Proof. exact local_paths_in_frame. Qed.
Print Assumptions C04_local_paths_in_frame.

(* two well-formed paths to scalar cells that reach the same cell are the same
   variable and the same path (contrapositive: distinct paths, distinct cells) *)
Theorem C04_paths_disjoint : forall env ds total v1 i1 t1 p1 o1 k1 v2 i2 t2 p2 o2 k2,
  wf_env env -> wf_decls ds -> sizes_sum env ds = Some total ->
  var_idx_from env ds v1 0 = Some i1 -> decl_ty ds v1 = Some t1 -> denotes env t1 p1 o1 k1 ->
  var_idx_from env ds v2 0 = Some i2 -> decl_ty ds v2 = Some t2 -> denotes env t2 p2 o2 k2 ->
  i1 + o1 = i2 + o2 ->
  v1 = v2 /\ p1 = p2 /\ k1 = k2.
Proof. exact paths_disjoint. Qed.
Print Assumptions C04_paths_disjoint.

Theorem C04_paths_injective : forall env t p1 o k1,
  denotes env t p1 o k1 -> wf_env env -> wf_ty t ->
  forall sz, type_size env t = Some sz ->
  forall p2 k2, denotes env t p2 o k2 -> p1 = p2 /\ k1 = k2.
Proof. exact paths_injective. Qed.
Print Assumptions C04_paths_injective.

Theorem C04_fields_disjoint : forall env fs f1 f2 acc o1 t1 o2 t2 s1 s2,
  wf_env env -> wf_fields fs ->
  field_offset env fs f1 acc = Some (o1, t1) ->
  field_offset env fs f2 acc = Some (o2, t2) ->
  type_size env t1 = Some s1 -> type_size env t2 = Some s2 ->
  f1 <> f2 ->
  o1 + s1 <= o2 \/ o2 + s2 <= o1.
Proof. exact fields_disjoint. Qed.
Print Assumptions C04_fields_disjoint.

(* mixed-radix row-major numbering is injective on in-range index tuples *)
Theorem C04_elem_number_injective : forall bs i1 i2 n,
  Forall (fun b => fst b <= snd b) bs ->
  elem_number bs i1 = Some n -> elem_number bs i2 = Some n -> i1 = i2.
Proof. exact elem_number_inj. Qed.
Print Assumptions C04_elem_number_injective.

Theorem C04_elements_disjoint : forall base es bs i1 i2 c1 c2,
  Forall (fun b => fst b <= snd b) bs -> 0 < es ->
  elem_index base es bs i1 = Some c1 -> elem_index base es bs i2 = Some c2 ->
  i1 <> i2 -> c1 + es <= c2 \/ c2 + es <= c1.
Proof. exact elem_index_disjoint. Qed.
Print Assumptions C04_elements_disjoint.

(* the cell _exec_arridx returns lies after the header and inside a segment
   that holds header + array_cells cells from base on *)
Theorem C04_arridx_in_segment : forall base es bs idxs c n,
  Forall (fun b => fst b <= snd b) bs -> 0 < es -> 0 <= base ->
  elem_index base es bs idxs = Some c ->
  base + header_size bs + array_cells es bs <= n ->
  base + header_size bs <= c /\ c + es <= n.
Proof. exact arridx_in_segment. Qed.
Print Assumptions C04_arridx_in_segment.

(* ... and the machine's arridx computes exactly that cell *)
Theorem C04_arridx_machine : forall m g base es bs idxs rest s sg c,
  stack s = CRef g base :: map CL (rev idxs) ++ rest ->
  0 <= g -> 0 <= base -> nth_error (heap s) (Z.to_nat g) = Some sg ->
  has_header (s_cells sg) base es bs ->
  elem_index base es bs idxs = Some c ->
  exec m (IArridx (rank bs)) s = R tt (set_stack s (CRef g c :: rest)).
Proof. exact arridx_ok. Qed.
Print Assumptions C04_arridx_machine.

(* allocarr allocates at least the reachable cells (it over-allocates for rank >= 2, element size >= 2) *)
Theorem C04_heap_array_large_enough : forall es bs,
  Forall (fun b => fst b <= snd b) bs -> 1 <= es -> bs <> [] ->
  array_cells es bs <= heap_array_cells es bs.
Proof. exact heap_array_cells_ge. Qed.
Print Assumptions C04_heap_array_large_enough.

(* every well-formed path into a dynamic array stays inside the segment allocarr creates *)
Theorem C04_heap_array_paths_in_segment : forall env bs e p o k es,
  denotes env (TArray bs e) p o k -> wf_env env -> wf_ty (TArray bs e) ->
  type_size env e = Some es -> 1 <= es -> bs <> [] ->
  0 <= o < header_size bs + heap_array_cells es bs.
Proof. exact heap_array_paths_in_segment. Qed.
Print Assumptions C04_heap_array_paths_in_segment.

(* field chains are addressed by get_dotted_index, elements of arrays of records
   by arridx followed by get_dotted_index *)
Theorem C04_field_chain_dotted : forall env t chain o k,
  denotes env t (map SFld chain) o k -> dotted_index env t chain = Some o.
Proof. exact denotes_dotted. Qed.
Print Assumptions C04_field_chain_dotted.

Theorem C04_element_field_chain : forall env bs e idxs chain o k,
  denotes env (TArray bs e) (SIdx idxs :: map SFld chain) o k ->
  exists es c d, type_size env e = Some es /\ elem_index 0 es bs idxs = Some c /\
                 dotted_index env e chain = Some d /\ o = c + d.
Proof. exact denotes_elem_dotted. Qed.
Print Assumptions C04_element_field_chain.

(* STATIC variables: `_static_<routine>_<name>` is distinct per (routine, name)
   and never a SHARED name; identifiers contain no underscore (grammar) *)
Theorem C04_static_names_distinct : forall r1 n1 r2 n2,
  ~ In ch_us r1 -> ~ In ch_us r2 ->
  static_full_name r1 n1 = static_full_name r2 n2 -> r1 = r2 /\ n1 = n2.
Proof. exact static_full_name_inj. Qed.
Print Assumptions C04_static_names_distinct.

Theorem C04_static_not_shared : forall r n (g : str) c,
  hd_error g = Some c -> c <> ch_us -> static_full_name r n <> g.
Proof. exact static_not_shared. Qed.
Print Assumptions C04_static_not_shared.

(* ---------- D14: `frame` pops params_size cells, callers push one per parameter ---------- *)

(* guarded: every parameter type has size 1 (builtin, array parameter, 1-cell record).
   Missing for the full statement: record parameters with two or more cells. *)
Theorem C04_frame_pops_what_callers_push_partial : forall env ps,
  Forall (fun d => type_size env (snd d) = Some 1) ps ->
  params_size env ps = Some (params_size_fixed ps).
Proof. exact params_size_fixed_ok. Qed.
Print Assumptions C04_frame_pops_what_callers_push_partial.

(* witness (LayoutProofs.d14_env / d14_params): TYPE r: a, b AS INTEGER / SUB f(p AS r) *)
Theorem C04_frame_pops_what_callers_push_refuted : exists env ps,
  wf_env env /\ wf_decls ps /\
  params_size env ps <> Some (params_size_fixed ps).
Proof. exact frame_pops_what_callers_push_refuted. Qed.
Print Assumptions C04_frame_pops_what_callers_push_refuted.

(* ---------- machine: assigning one location changes that one only ---------- *)

(* the frame lemma: after cell (g, j) is written it holds the value, every other
   cell of every segment is unchanged, no segment appears or disappears *)
Theorem C04_read_over_write : forall h g j c sg,
  nth_error h g = Some sg -> (j < length (s_cells sg))%nat ->
  cellat (upd_heap h g j c) g j = Some c /\
  (forall g' j', (g', j') <> (g, j) -> cellat (upd_heap h g j c) g' j' = cellat h g' j') /\
  length (upd_heap h g j c) = length h.
Proof. exact upd_read_over_write. Qed.
Print Assumptions C04_read_over_write.

(* store / storeidx / storeref write exactly the addressed cell *)
Theorem C04_store_writes_one_cell : forall m l i v rest s g sg,
  stack s = v :: rest -> scope_ok l s g -> 0 <= g ->
  nth_error (heap s) (Z.to_nat g) = Some sg -> 0 <= i < Z.of_nat (length (s_cells sg)) ->
  exec m (IStore l i) s
  = R tt (with_hs s (upd_heap (heap s) (Z.to_nat g) (Z.to_nat i) (Some v)) rest).
Proof. exact store_ok. Qed.
Print Assumptions C04_store_writes_one_cell.

Theorem C04_storeidx_writes_one_cell : forall m l v0 i v rest s g sg,
  stack s = v :: rest -> scope_ok l s g -> 0 <= g ->
  nth_error (heap s) (Z.to_nat g) = Some sg -> 0 <= v0 + i < Z.of_nat (length (s_cells sg)) ->
  exec m (IStoreidx l v0 i) s
  = R tt (with_hs s (upd_heap (heap s) (Z.to_nat g) (Z.to_nat (v0 + i)) (Some v)) rest).
Proof. exact storeidx_ok. Qed.
Print Assumptions C04_storeidx_writes_one_cell.

Theorem C04_storeref_writes_one_cell : forall m g i v rest s sg,
  stack s = CRef g i :: v :: rest -> 0 <= g ->
  nth_error (heap s) (Z.to_nat g) = Some sg -> 0 <= i < Z.of_nat (length (s_cells sg)) ->
  exec m IStoreref s
  = R tt (with_hs s (upd_heap (heap s) (Z.to_nat g) (Z.to_nat i) (Some v)) rest).
Proof. exact storeref_ok. Qed.
Print Assumptions C04_storeref_writes_one_cell.

(* reading a written cell changes nothing in memory *)
Theorem C04_read_changes_nothing : forall m l ty i s g sg c,
  (ty =? 7) = false -> scope_ok l s g -> 0 <= g ->
  nth_error (heap s) (Z.to_nat g) = Some sg -> 0 <= i ->
  nth_error (s_cells sg) (Z.to_nat i) = Some (Some c) ->
  exec m (IRead l ty i) s = R tt (set_stack s (c :: stack s)).
Proof. exact read_set_pure. Qed.
Print Assumptions C04_read_changes_nothing.

Theorem C04_deref_changes_nothing : forall m ty g i rest s sg c,
  stack s = CRef g i :: rest -> 0 <= g -> nth_error (heap s) (Z.to_nat g) = Some sg -> 0 <= i ->
  nth_error (s_cells sg) (Z.to_nat i) = Some (Some c) ->
  exec m (IDeref ty) s = R tt (set_stack s (c :: rest)).
Proof. exact deref_set_pure. Qed.
Print Assumptions C04_deref_changes_nothing.

Theorem C04_readidx_set_changes_nothing : forall m l ty v i s g sg c,
  (ty =? 7) = false -> scope_ok l s g -> 0 <= g ->
  nth_error (heap s) (Z.to_nat g) = Some sg -> 0 <= v + i ->
  nth_error (s_cells sg) (Z.to_nat (v + i)) = Some (Some c) ->
  exec m (IReadidx l ty v i) s = R tt (set_stack s (c :: stack s)).
Proof. exact readidx_set_pure. Qed.
Print Assumptions C04_readidx_set_changes_nothing.

(* a never-written cell reads as 0 / "" and only that cell is touched *)
Theorem C04_read_unset_default : forall m l ty i s g sg,
  (ty =? 7) = false -> scope_ok l s g -> 0 <= g ->
  nth_error (heap s) (Z.to_nat g) = Some sg -> 0 <= i ->
  nth_error (s_cells sg) (Z.to_nat i) = Some None ->
  exec m (IRead l ty i) s
  = R tt (with_hs s (upd_heap (heap s) (Z.to_nat g) (Z.to_nat i) (Some (default_cell ty)))
                  (default_cell ty :: stack s)).
Proof. exact read_unset_default. Qed.
Print Assumptions C04_read_unset_default.

Theorem C04_deref_unset_default : forall m ty g i rest s sg,
  stack s = CRef g i :: rest -> 0 <= g -> nth_error (heap s) (Z.to_nat g) = Some sg -> 0 <= i ->
  nth_error (s_cells sg) (Z.to_nat i) = Some None ->
  exec m (IDeref ty) s
  = R tt (with_hs s (upd_heap (heap s) (Z.to_nat g) (Z.to_nat i) (Some (default_cell ty)))
                  (default_cell ty :: rest)).
Proof. exact deref_unset_default. Qed.
Print Assumptions C04_deref_unset_default.

(* ---------- D15: readidx of an unset field / the repaired instruction ---------- *)

(* D15 was repaired in /repo (fix commit): the instruction is the corrected one *)
Theorem C04_readidx_is_fixed : forall m l ty v i s,
  exec m (IReadidx l ty v i) s = exec_readidx_fixed l ty v i s.
Proof. exact readidx_is_fixed. Qed.
Print Assumptions C04_readidx_is_fixed.

(* corrected instruction (write_var(scope, var + idx, value)): pure on a set
   cell, and an unset cell gets its default in place *)
Theorem C04_readidx_fixed_pure : forall l ty v i s g sg,
  (ty =? 7) = false -> scope_ok l s g -> 0 <= g ->
  nth_error (heap s) (Z.to_nat g) = Some sg -> 0 <= v + i ->
  (forall c, nth_error (s_cells sg) (Z.to_nat (v + i)) = Some (Some c) ->
     exec_readidx_fixed l ty v i s = R tt (set_stack s (c :: stack s))) /\
  (nth_error (s_cells sg) (Z.to_nat (v + i)) = Some None ->
     exec_readidx_fixed l ty v i s
     = R tt (with_hs s (upd_heap (heap s) (Z.to_nat g) (Z.to_nat (v + i)) (Some (default_cell ty)))
                     (default_cell ty :: stack s))).
Proof. exact readidx_fixed_pure. Qed.
Print Assumptions C04_readidx_fixed_pure.

(* ---------- references: a by-reference argument names exactly (segment, cell) ---------- *)

Theorem C04_pushrefl_names_cell : forall m i s g,
  cur s = Some g -> exec m (IPushrefl i) s = R tt (set_stack s (CRef g i :: stack s)).
Proof. exact pushrefl_ok. Qed.
Print Assumptions C04_pushrefl_names_cell.

Theorem C04_refidx_offsets_cell : forall m g i z rest s,
  stack s = CI z :: CRef g i :: rest ->
  exec m IRefidx s = R tt (set_stack s (CRef g (i + z) :: rest)).
Proof. exact refidx_ok. Qed.
Print Assumptions C04_refidx_offsets_cell.

(* ---------- frame_fresh: every activation gets a fresh segment ---------- *)

(* `frame p l` appends ONE new segment (id = old heap length, so not a segment
   of the old heap), leaves every existing segment as it is, makes it current;
   its cells are given by bind_args *)
Theorem C04_frame_fresh : forall m p l s ret_addr stk cells' stk',
  stack s = CL ret_addr :: stk -> 0 <= p -> 0 <= l -> in_long ret_addr = true ->
  bind_args (Z.of_nat (length (heap s))) (Z.to_nat p) stk (repeat None (Z.to_nat (p + l)))
    = Some (cells', stk') ->
  exec m (IFrame p l) s
  = R tt (set_cur (with_hs s (heap s ++ [mkSeg cells' (SFrame (cur s) (pc s) ret_addr (p + l))])
                          (CL ret_addr :: stk'))
                  (Some (Z.of_nat (length (heap s))))).
Proof. exact frame_ok. Qed.
Print Assumptions C04_frame_fresh.

(* ... where: the popped values are the arguments (last parameter on top); the
   cells k.. of the initial frame (the locals) are untouched, i.e. unset; a
   reference argument is stored as the caller's (segment, cell); any other value
   becomes a temporary appended to the NEW frame and the parameter refers to it *)
Theorem C04_frame_arguments : forall g k stk cells cells' stk',
  bind_args g k stk cells = Some (cells', stk') -> (k <= length cells)%nat ->
  exists vals,
    length vals = k /\ stk = rev vals ++ stk' /\
    (length cells <= length cells')%nat /\
    (forall j, (k <= j < length cells)%nat -> nth_error cells' j = nth_error cells j) /\
    (forall j a, nth_error vals j = Some a ->
       match a with
       | CRef _ _ => nth_error cells' j = Some (Some a)
       | _ => exists n, (length cells <= n)%nat /\
                        nth_error cells' j = Some (Some (CRef g (Z.of_nat n))) /\
                        nth_error cells' n = Some (Some a)
       end).
Proof. exact bind_args_spec. Qed.
Print Assumptions C04_frame_arguments.

(* ---------- non-vacuity ---------- *)

(* TYPE rb: a AS INTEGER, s AS STRING / TYPE rc: l AS LONG, i AS rb, d AS DOUBLE;
   DIM x AS INTEGER, arr(-1 TO 1, 2 TO 3) AS rc : arr(0, 3).i.s is cell 1 + 7 + (1*2+1)*4 + 2 = 22 *)
Definition ex_env : renv :=
  [([114; 99], [([108], TBuiltin 2); ([105], TRecord [114; 98]); ([100], TBuiltin 4)]);
   ([114; 98], [([97], TBuiltin 1); ([115], TBuiltin 5)])].
Definition ex_decls : decls :=
  [([120], TBuiltin 1); ([97], TArray [(-1, 1); (2, 3)] (TRecord [114; 99]))].

Example C04_example_sizes :
  type_size ex_env (TRecord [114; 99]) = Some 4 /\
  sizes_sum ex_env ex_decls = Some 32 /\
  var_idx_from ex_env ex_decls [97] 0 = Some 1 /\
  elem_index 1 4 [(-1, 1); (2, 3)] [0; 3] = Some 20 /\
  dotted_index ex_env (TArray [(-1, 1); (2, 3)] (TRecord [114; 99])) [[105]; [115]] = Some 2.
Proof. vm_compute. repeat split; reflexivity. Qed.

Example C04_example_path :
  denotes ex_env (TArray [(-1, 1); (2, 3)] (TRecord [114; 99]))
          [SIdx [0; 3]; SFld [105]; SFld [115]] (7 + 3 * 4 + (1 + 1)) 5.
Proof.
  eapply (DElem ex_env [(-1, 1); (2, 3)] (TRecord [114; 99]) [0; 3] 3 4); [reflexivity | reflexivity |].
  eapply (DField ex_env [114; 99] _ _ [105] 1 (TRecord [114; 98])); [reflexivity | reflexivity |].
  eapply (DField _ [114; 98] _ _ [115] 1 (TBuiltin 5) [] 0); [reflexivity | reflexivity |].
  constructor.
Qed.

(* `frame 2, 1` with a by-value 5 and a reference argument *)
Example C04_example_frame :
  bind_args 1 2 [CRef 0 3; CI 5; CL 99] [None; None; None]
  = Some ([Some (CRef 1 3); Some (CRef 0 3); None; Some (CI 5)], [CL 99]).
Proof. vm_compute. reflexivity. Qed.
