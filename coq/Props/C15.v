From Coq Require Import ZArith List Bool.
From QV Require Import Sx Strs DataText DataDev DataSpec.
Import ListNotations.
Open Scope Z_scope.
Theorem C15_stub : parse_data [] = Some [DEmpty].
Proof. reflexivity. Qed.
Print Assumptions C15_stub.
