(* C09 - binary module, loader, disassembler and assembly listing agree.
   Only statements, [exact], Print Assumptions.  Proofs: Proofs/InstrsOk.v,
   CodecProofs.v, SectionProofs.v, ListingProofs.v, TargetsProofs.v *)
From Coq Require Import String.
From Coq Require Import ZArith List Bool.
From QV Require Import Sx Strs Fl Machine Cpu Instrs Codec InstrCheck Listing Targets.
From QV Require Import InstrsOk CodecProofs SectionProofs ListingProofs TargetsProofs.
Import ListNotations.
Open Scope Z_scope.

(* ---- the instruction table of qvm/instrs.py (regenerated on every run) against
        the hand-written decoder and mnemonics: finite obligations ---- *)

Theorem C09_opcodes_unique : opcodes_unique instr_table = true.
Proof. exact opcodes_unique_ok. Qed.
Print Assumptions C09_opcodes_unique.

Theorem C09_mnemonics_unique : mnemonics_unique instr_table = true.
Proof. exact mnemonics_unique_ok. Qed.
Print Assumptions C09_mnemonics_unique.

(* every table entry decodes to an instruction of that mnemonic, of size
   1 + sum of operand sizes, with the table's operand widths and signedness *)
Theorem C09_decode_agrees_with_table : table_agrees instr_table = true.
Proof. exact decode_agrees_with_table_ok. Qed.
Print Assumptions C09_decode_agrees_with_table.

(* every other byte is rejected by the decoder *)
Theorem C09_unknown_opcodes_rejected : unknown_agrees instr_table = true.
Proof. exact unknown_opcodes_ok. Qed.
Print Assumptions C09_unknown_opcodes_rejected.

(* ---- instruction level ---- *)

(* what the assembler packs, the machine's decoder reads back: every
   instruction, every operand value inside its field; floats on bit patterns.
   Guard: a push$ index above 32767 (written '>H', read '>h'): D30 *)
Theorem C09_decode_encode_wire_partial : forall w bs rest,
  encode_w w = Some bs -> pushstr_small w ->
  decode (bs ++ rest) = DOk (instr_of_w w) (len bs).
Proof. exact decode_encode_w. Qed.
Print Assumptions C09_decode_encode_wire_partial.

Theorem C09_decode_encode_instr_partial : forall i bs rest,
  encode_instr i = Some bs -> float_canon i ->
  match i with IPushStr idx => idx <= 32767 | _ => True end ->
  decode (bs ++ rest) = DOk i (len bs).
Proof. exact decode_encode_instr. Qed.
Print Assumptions C09_decode_encode_instr_partial.

(* the unguarded statement is false of the faithful model *)
Theorem C09_decode_encode_instr_refuted :
  exists i bs, encode_instr i = Some bs /\
               decode bs = DOk (IPushStr (-32768)) 3 /\ i = IPushStr 32768.
Proof. exact pushstr_index_refuted. Qed.
Print Assumptions C09_decode_encode_instr_refuted.

(* a whole code section: the decoder recovers the instruction sequence with
   its offsets *)
Theorem C09_decode_encode_code_partial : forall ws bs,
  encode_code ws = Some bs -> Forall pushstr_small ws ->
  decode_code bs = COk (with_offsets 0 ws).
Proof. exact decode_encode_code. Qed.
Print Assumptions C09_decode_encode_code_partial.

(* ---- section level: QModule.parse (QvmCode.__bytes__ m) = m ---- *)

Theorem C09_decode_encode_module : forall m,
  sizes_ok m -> exists bs, encode_module m = EOk bs /\ decode_module bs = POk m.
Proof. exact decode_encode_module. Qed.
Print Assumptions C09_decode_encode_module.

(* whenever the writer produces bytes at all, the reader recovers the module *)
Theorem C09_decode_of_any_encoding : forall m bs,
  encode_module m = EOk bs -> decode_module_dbg bs = POk (m, false).
Proof. exact decode_encode_module_gen. Qed.
Print Assumptions C09_decode_of_any_encoding.

(* D30 at section level: the item count of a DATA part is written signed
   ('>h') although the reader takes it unsigned ('>H'): 32768 items are
   representable in the format but refused by the writer *)
Theorem C09_wide_part_refuted :
  let m := mkBmod [] [repeat DEmpty (Z.to_nat 32768)] 0 [] in
  encode_module m = EStructError /\ len (hd [] (b_data m)) <= 65535.
Proof. exact wide_part_rejected. Qed.
Print Assumptions C09_wide_part_refuted.

(* ---- listing, assembler, disassembler ---- *)

(* the disassembly of the assembled items shows, instruction by instruction,
   the mnemonic of the listing and its operands after resolution (labels ->
   offsets computed from the generated table's sizes, variables -> indices,
   devices/operations -> ids, literals -> index + text, floats -> the value at
   operand width); [expected_dis] never encodes or decodes.  Guard: at most
   32768 literals, so that no push$ index is read back negative (D30); beyond
   it the statement is not proved (the disassembler itself reads '>H'). *)
Theorem C09_disasm_matches_listing_partial : forall lits l code labels,
  assemble lits l = AOk (code, labels) -> len lits <= 32768 ->
  exists dl, expected_dis lits l = Some dl /\ dis_items lits code = DisOk dl /\
             disasm lits code = DisOk (render_dis dl).
Proof. exact disasm_matches_listing. Qed.
Print Assumptions C09_disasm_matches_listing_partial.

(* one instruction: mnemonic and operands of the disassembly entry *)
Theorem C09_asm_one_spec : forall lits labels op args w off,
  asm_one lits (fun n => assoc n labels) op args = AOk w ->
  exists toks c, spec_args lits labels op args = Some (toks, c) /\
                 dis_entry lits off (instr_of_w w) = Some (mkDline off op toks c).
Proof. exact asm_one_spec. Qed.
Print Assumptions C09_asm_one_spec.

(* what the assembler emits for a mnemonic has the size the generated table says *)
Theorem C09_assembled_size_is_table_size : forall lits lab op args w bs,
  asm_one lits lab op args = AOk w -> encode_w w = Some bs -> table_size op = Some (len bs).
Proof. exact asm_one_size. Qed.
Print Assumptions C09_assembled_size_is_table_size.

(* ---- targets, operands (the checker run on every module) ---- *)

Theorem C09_targets_ok_sound : forall prog ng,
  targets_ok prog ng = true -> targets_spec prog ng.
Proof. exact targets_ok_sound. Qed.
Print Assumptions C09_targets_ok_sound.

(* non-vacuity *)
Example C09_example_module :
  let m := mkBmod [[104; 105]; []] [[DText [49]; DEmpty]; []] 3 [23; 0; 0; 0; 1; 100] in
  encode_module m =
    EOk [1; 0; 0; 0; 6; 0; 2; 104; 105; 0; 0;
         2; 0; 0; 0; 11; 0; 2; 0; 2; 0; 1; 49; 255; 255; 0; 0;
         3; 0; 0; 0; 4; 0; 0; 0; 3;
         4; 0; 0; 0; 6; 23; 0; 0; 0; 1; 100]
  /\ decode_code (b_code m) = COk [(0, IFrame 0 1); (5, IHalt)].
Proof. vm_compute. split; reflexivity. Qed.

(*   call _sub__main / halt / _sub__main: / frame 0, 1 / push$ "hi" / storel x$ / jmp _sub__main *)
Example C09_example_listing :
  let l := [AOp (L "call") [ASym (L "_sub__main")]; AOp (L "halt") []; ALabel (L "_sub__main");
            AOp (L "frame") [AInt 0; AInt 1]; AOp (L "push$") [ASym (quote (L "hi"))];
            AOp (L "storel") [AVar (L "x$") 0]; AOp (L "jmp") [ASym (L "_sub__main")]] in
  assemble [L "hi"] l =
    AOk ([5; 0; 0; 0; 6; 100; 23; 0; 0; 0; 1; 43; 0; 0; 95; 0; 0; 28; 0; 0; 0; 6],
         [(L "_sub__main", 6)])
  /\ expected_dis [L "hi"] l =
     Some [mkDline 0 (L "call") [THex 6] None; mkDline 5 (L "halt") [] None;
           mkDline 6 (L "frame") [TNum 0; TNum 1] None;
           mkDline 11 (L "push$") [TNum 0] (Some (L "hi"));
           mkDline 14 (L "storel") [TNum 0] None; mkDline 17 (L "jmp") [THex 6] None]
  /\ targets_ok [(0, ICall 6); (5, IHalt); (6, IFrame 0 1); (11, IPushStr 0); (14, IStore true 0);
                 (17, IJmp 6)] 0 = true
  /\ targets_ok [(0, ICall 7); (5, IHalt); (6, IFrame 0 1); (11, IStore true 1)] 0 = false.
Proof. vm_compute. repeat split; reflexivity. Qed.
