(* C09 - binary module, loader, disassembler and assembly listing agree.
   Only statements, [exact], Print Assumptions.  Proofs: Proofs/InstrsOk.v,
   CodecProofs.v, SectionProofs.v, ListingProofs.v, TargetsProofs.v *)
From Coq Require Import ZArith List Bool.
From QV Require Import Sx Strs Fl Machine Cpu Instrs Codec InstrCheck Listing Targets.
From QV Require Import InstrsOk CodecProofs SectionProofs.
Import ListNotations.
Open Scope Z_scope.

(* ---- the instruction table of qvm/instrs.py (regenerated on every run) against
        the hand-written decoder and mnemonics: finite obligations ---- *)

Theorem C09_opcodes_unique : opcodes_unique instr_table = true.
Proof. exact opcodes_unique_ok. Qed.
Print Assumptions C09_opcodes_unique.

Theorem C09_mnemonics_unique : mnemonics_unique instr_table = true.
Proof. exact mnemonics_unique_ok. Qed.
Print Assumptions C09_mnemonics_unique.

(* every table entry decodes to an instruction of that mnemonic, of size
   1 + sum of operand sizes, with the table's operand widths and signedness *)
Theorem C09_decode_agrees_with_table : table_agrees instr_table = true.
Proof. exact decode_agrees_with_table_ok. Qed.
Print Assumptions C09_decode_agrees_with_table.

(* every other byte is rejected by the decoder *)
Theorem C09_unknown_opcodes_rejected : unknown_agrees instr_table = true.
Proof. exact unknown_opcodes_ok. Qed.
Print Assumptions C09_unknown_opcodes_rejected.

(* ---- instruction level ---- *)

(* what the assembler packs, the machine's decoder reads back: every
   instruction, every operand value inside its field; floats on bit patterns.
   Guard: a push$ index above 32767 (written '>H', read '>h'): D30 *)
Theorem C09_decode_encode_wire_partial : forall w bs rest,
  encode_w w = Some bs -> pushstr_small w ->
  decode (bs ++ rest) = DOk (instr_of_w w) (len bs).
Proof. exact decode_encode_w. Qed.
Print Assumptions C09_decode_encode_wire_partial.

Theorem C09_decode_encode_instr_partial : forall i bs rest,
  encode_instr i = Some bs -> float_canon i ->
  match i with IPushStr idx => idx <= 32767 | _ => True end ->
  decode (bs ++ rest) = DOk i (len bs).
Proof. exact decode_encode_instr. Qed.
Print Assumptions C09_decode_encode_instr_partial.

(* the unguarded statement is false of the faithful model *)
Theorem C09_decode_encode_instr_refuted :
  exists i bs, encode_instr i = Some bs /\
               decode bs = DOk (IPushStr (-32768)) 3 /\ i = IPushStr 32768.
Proof. exact pushstr_index_refuted. Qed.
Print Assumptions C09_decode_encode_instr_refuted.

(* a whole code section: the decoder recovers the instruction sequence with
   its offsets *)
Theorem C09_decode_encode_code_partial : forall ws bs,
  encode_code ws = Some bs -> Forall pushstr_small ws ->
  decode_code bs = COk (with_offsets 0 ws).
Proof. exact decode_encode_code. Qed.
Print Assumptions C09_decode_encode_code_partial.

(* ---- section level: QModule.parse (QvmCode.__bytes__ m) = m ---- *)

Theorem C09_decode_encode_module : forall m,
  sizes_ok m -> exists bs, encode_module m = EOk bs /\ decode_module bs = POk m.
Proof. exact decode_encode_module. Qed.
Print Assumptions C09_decode_encode_module.

(* whenever the writer produces bytes at all, the reader recovers the module *)
Theorem C09_decode_of_any_encoding : forall m bs,
  encode_module m = EOk bs -> decode_module_dbg bs = POk (m, false).
Proof. exact decode_encode_module_gen. Qed.
Print Assumptions C09_decode_of_any_encoding.

(* D30 at section level: the item count of a DATA part is written signed
   ('>h') although the reader takes it unsigned ('>H'): 32768 items are
   representable in the format but refused by the writer *)
Theorem C09_wide_part_refuted :
  let m := mkBmod [] [repeat DEmpty (Z.to_nat 32768)] 0 [] in
  encode_module m = EStructError /\ len (hd [] (b_data m)) <= 65535.
Proof. exact wide_part_rejected. Qed.
Print Assumptions C09_wide_part_refuted.

(* non-vacuity *)
Example C09_example_module :
  let m := mkBmod [[104; 105]; []] [[DText [49]; DEmpty]; []] 3 [23; 0; 0; 0; 1; 100] in
  encode_module m =
    EOk [1; 0; 0; 0; 6; 0; 2; 104; 105; 0; 0;
         2; 0; 0; 0; 11; 0; 2; 0; 2; 0; 1; 49; 255; 255; 0; 0;
         3; 0; 0; 0; 4; 0; 0; 0; 3;
         4; 0; 0; 0; 6; 23; 0; 0; 0; 1; 100]
  /\ decode_code (b_code m) = COk [(0, IFrame 0 1); (5, IHalt)].
Proof. vm_compute. split; reflexivity. Qed.
