(* C03 - accepted programs are type- and stack-safe on the virtual machine.
   Proofs in Proofs/VerifierProofs.v.  What is PROVED: for every stack
   instruction (arithmetic, logic, comparison, conversion, constants, string
   functions, stack shuffles, jz/jmp: the domain of [eff]) and EVERY machine
   state whose operand-stack types satisfy the instruction's abstract typing
   rule, execution never raises TYPE_MISMATCH / STACK_EMPTY / any host
   exception outside the stated guard, leaves memory untouched and produces
   exactly the abstract result types; lifted to straight-line blocks of any
   length.  What is CHECKED per module and per run (translation validation /
   run-time monitor, Models/Monitor.v, extracted): the premise of that theorem
   at every executed stack instruction, declared cell types after every tick,
   instruction boundaries, jump targets, stack depth at statement boundaries. *)
From Coq Require Import ZArith List Bool.
From QV Require Import Sx Strs Fl Cell Machine Cpu Verifier VerifierProofs.
Import ListNotations.
Open Scope Z_scope.

Theorem C03_instruction_type_safety : forall m i s t',
  eff i (tys (stack s)) = Some t' -> safe_out i s t' (exec m i s).
Proof. exact eff_sound. Qed.
Print Assumptions C03_instruction_type_safety.

Theorem C03_block_type_safety : forall m l s t',
  eff_list l (tys (stack s)) = Some t' -> block_out l s t' (exec_list m l s).
Proof. intros m l. exact (block_safe m l). Qed.
Print Assumptions C03_block_type_safety.

(* the only traps a well-typed stack instruction can raise are value errors *)
Theorem C03_no_type_confusion : forall c,
  ok_trap c = true -> c <> T_TYPE_MISMATCH /\ c <> T_STACK_EMPTY /\ c <> T_INVALID_OP_CODE /\
                      c <> T_INVALID_VAR_IDX /\ c <> T_NULL_REFERENCE.
Proof. exact ok_trap_not_type_confusion. Qed.
Print Assumptions C03_no_type_confusion.

(* non-vacuity: the block  push% 3; push% 4; add; conv%&; push& 2; cmp; lt; jz 9  is well typed *)
Example C03_block_example :
  eff_list [IPushI 3; IPushI 4; IAdd; IConv 1 2; IPushL 2; ICmp; ILt; IJz 9] [] = Some [].
Proof. vm_compute. reflexivity. Qed.
