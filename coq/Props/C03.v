(* C03 - accepted programs are type- and stack-safe on the virtual machine.
   Proofs in Proofs/VerifierProofs.v.  What is PROVED: for every stack
   instruction (arithmetic, logic, comparison, conversion, constants, string
   functions, stack shuffles, jz/jmp: the domain of [eff]) and EVERY machine
   state whose operand-stack types satisfy the instruction's abstract typing
   rule, execution never raises TYPE_MISMATCH / STACK_EMPTY / any host
   exception outside the stated guard, leaves memory untouched and produces
   exactly the abstract result types; lifted to straight-line blocks of any
   length.  What is CHECKED per module and per run (translation validation /
   run-time monitor, Models/Monitor.v, extracted): the premise of that theorem
   at every executed stack instruction, declared cell types after every tick,
   instruction boundaries, jump targets, stack depth at statement boundaries.
   Control flow (Models/VerifierCfg.v, Proofs/VerifierCtl.v, VerifierCfgProofs.v):
   a CERTIFICATE of stack types per code address that passes the local check
   [check_cert] against the decoded code section is an invariant of every
   execution inside the certified region of stack instructions - through jz /
   jmp, loops included, for any number of instructions: no TYPE_MISMATCH,
   STACK_EMPTY or host exception is ever raised there, memory and the event
   trace are untouched, and [tick] answers exactly the state [exec] produced. *)
From Coq Require Import ZArith List Bool.
From QV Require Import Sx Strs Fl Cell Machine Cpu Verifier VerifierProofs ErrProofs
     Monitor VerifierCfg CertObs VerifierCtl VerifierCfgProofs.
Import ListNotations.
Open Scope Z_scope.

Theorem C03_instruction_type_safety : forall m i s t',
  eff i (tys (stack s)) = Some t' -> safe_out i s t' (exec m i s).
Proof. exact eff_sound. Qed.
Print Assumptions C03_instruction_type_safety.

Theorem C03_block_type_safety : forall m l s t',
  eff_list l (tys (stack s)) = Some t' -> block_out l s t' (exec_list m l s).
Proof. intros m l. exact (block_safe m l). Qed.
Print Assumptions C03_block_type_safety.

(* the only traps a well-typed stack instruction can raise are value errors *)
Theorem C03_no_type_confusion : forall c,
  ok_trap c = true -> c <> T_TYPE_MISMATCH /\ c <> T_STACK_EMPTY /\ c <> T_INVALID_OP_CODE /\
                      c <> T_INVALID_VAR_IDX /\ c <> T_NULL_REFERENCE.
Proof. exact ok_trap_not_type_confusion. Qed.
Print Assumptions C03_no_type_confusion.

(* non-vacuity: the block  push% 3; push% 4; add; conv%&; push& 2; cmp; lt; jz 9  is well typed *)
Example C03_block_example :
  eff_list [IPushI 3; IPushI 4; IAdd; IConv 1 2; IPushL 2; ICmp; ILt; IJz 9] [] = Some [].
Proof. vm_compute. reflexivity. Qed.

(* ---------- control flow: certificates ---------- *)

(* one tick at a certified address (any state satisfying the invariant):
   the instruction there is a stack instruction typed by the certificate;
   if it completes, tick returns exactly that state, stack types are the
   abstract result, memory / frame / trace are unchanged and the invariant
   holds again; otherwise it raised a value trap (or ZeroDivisionError, which
   tick turns into a trap) - never a type trap, never a host exception *)
Theorem C03_cfg_step : forall m c s t,
  check_cert m c = true -> Inv c s -> cert_at c (pc s) = Some t ->
  exists i size t',
    decode (skipn (Z.to_nat (pc s)) (m_code m)) = DOk i size /\ eff i (tys (stack s)) = Some t' /\
    match exec m i (pre_exec s size) with
    | R _ s3 =>
      tick m s = end_check m (Next s3) /\
      tys (stack s3) = t' /\ heap s3 = heap s /\ cur s3 = cur s /\ events s3 = events s /\
      Inv c s3 /\ (cert_at c (pc s3) <> None -> tick m s = Next s3)
    | T cd kw _ => ok_trap cd = true /\ kw = true
    | ZD _ => True
    | X _ _ => False
    | NI _ => False
    end.
Proof. exact cfg_step. Qed.
Print Assumptions C03_cfg_step.

(* any number of instructions inside the region, loops included *)
Theorem C03_cfg_run : forall m c,
  check_cert m c = true ->
  forall n s s', Inv c s -> qsteps m c n s s' ->
  Inv c s' /\ heap s' = heap s /\ cur s' = cur s /\ events s' = events s.
Proof. exact cfg_run. Qed.
Print Assumptions C03_cfg_run.

(* ... and the instruction reached after them is again executed on a stack of
   the certified types, with the guarantees of C03_instruction_type_safety *)
Theorem C03_cfg_no_type_confusion : forall m c,
  check_cert m c = true ->
  forall n s s' t, Inv c s -> qsteps m c n s s' -> cert_at c (pc s') = Some t ->
  exists i size t',
    decode (skipn (Z.to_nat (pc s')) (m_code m)) = DOk i size /\
    eff i (tys (stack s')) = Some t' /\ tys (stack s') = t /\
    safe_out i (pre_exec s' size) t' (exec m i (pre_exec s' size)).
Proof. exact cfg_no_type_confusion. Qed.
Print Assumptions C03_cfg_no_type_confusion.

(* stack instructions move the program counter only through jmp / jz and leave
   the halt and interrupt flags alone *)
Theorem C03_stack_instr_control : forall m i s t',
  eff i (tys (stack s)) = Some t' -> ctl_post i s (exec m i s).
Proof. exact eff_ctl. Qed.
Print Assumptions C03_stack_instr_control.

(* frame rule: typing does not depend on the cells below the ones used ... *)
Theorem C03_eff_frame : forall i t t' r,
  eff i t = Some t' -> eff i (t ++ r) = Some (t' ++ r).
Proof. exact eff_frame. Qed.
Print Assumptions C03_eff_frame.

(* ... so a certificate checked RELATIVE to a base depth (the certificates
   Models/CertObs.v collects from real runs, relative to the stack depth at the
   start of the source statement) is a certificate under every stack tail r -
   whatever return addresses and caller operands lie below *)
Theorem C03_cert_frame : forall m c r,
  check_cert m c = true -> check_cert m (cert_shift r c) = true.
Proof. exact check_cert_frame. Qed.
Print Assumptions C03_cert_frame.

(* non-vacuity: a counting loop
      0: push% 3   3: dupl   4: jz 18   9: push% 1   12: sub   13: jmp 3   18: pop   19: halt
   with its certificate (address 19, the halt, is outside the region); the
   machine really goes round the loop three times: 19 ticks from the initial
   state end at address 19 with an empty stack *)
Definition ex_code : list Z :=
  [39;0;3; 103; 29;0;0;0;18; 39;0;1; 93; 28;0;0;0;3; 104; 100].
Definition ex_mod : module := mkModule ex_code [] [] 0 None.
Definition ex_cert : cert :=
  [(0, []); (3, [1]); (4, [1; 1]); (9, [1]); (12, [1; 1]); (13, [1]); (18, [1])].
Example C03_cfg_example :
  check_cert ex_mod ex_cert = true /\
  Inv ex_cert (init_state ex_mod (mkScript [] [] [] [])) /\
  (match ticks ex_mod 19 (init_state ex_mod (mkScript [] [] [] [])) with
   | Some s => pc s = 19 /\ stack s = [] /\ halted s = false
   | None => False
   end) /\
  (* a certificate claiming an INTEGER where the code leaves two is rejected *)
  check_cert ex_mod [(0, []); (3, [1]); (4, [1])] = false.
Proof.
  split; [vm_compute; reflexivity|]. split.
  - split; [reflexivity|]. cbn. intros t H. inversion H. reflexivity.
  - split; [vm_compute; repeat split; reflexivity | vm_compute; reflexivity].
Qed.
