(* C02 - optimisation and compile-time evaluation never change behaviour.
   The property theorems live in two statement files (each: Theorem / exact /
   Print Assumptions only), checked separately by ./check C02:
     Props/C02_fold_part.v  - the constant folder (Models/Fold.v)
     Props/C02_peep_part.v  - the peephole pass (Models/Peephole.v)
   This file only makes both part of one build target. *)
From QV Require C02_fold_part C02_peep_part.
