(* C17 - PRINT lays out items, print zones and line ends as QBASIC prescribes.
   Only statements, [exact], Print Assumptions.  Proofs: Proofs/PrintProofs.v *)
From Coq Require Import ZArith List Bool.
From QV Require Import Sx Strs Cell Print PrintProofs.
Import ListNotations.
Open Scope Z_scope.

(* each numeric item is its number text followed by one blank *)
Theorem C17_num_then_blank : forall items t,
  body (items ++ [PNum t]) = body items ++ t ++ [ch_space].
Proof. exact num_then_blank. Qed.
Print Assumptions C17_num_then_blank.

(* each string item verbatim *)
Theorem C17_str_verbatim : forall items s, body (items ++ [PStr s]) = body items ++ s.
Proof. exact str_verbatim. Qed.
Print Assumptions C17_str_verbatim.

(* a semicolon adds nothing *)
Theorem C17_semi_nothing : forall items, body (items ++ [PSemi]) = body items.
Proof. exact semi_nothing. Qed.
Print Assumptions C17_semi_nothing.

(* a comma pads with 1..14 blanks to the next multiple of 14 columns *)
Theorem C17_comma_to_zone : forall items,
  exists n : nat,
    body (items ++ [PComma]) = body items ++ spaces n /\
    (1 <= n <= 14)%nat /\
    (Z.of_nat (length (body (items ++ [PComma])))) mod 14 = 0 /\
    Z.of_nat (length (body items)) < Z.of_nat (length (body (items ++ [PComma])))
      <= Z.of_nat (length (body items)) + 14.
Proof. exact comma_to_zone. Qed.
Print Assumptions C17_comma_to_zone.

(* line break unless the statement ends in a separator; PRINT alone = line break *)
Theorem C17_newline_rule : forall items,
  (ends_in_sep items = false -> print_text items = body items ++ crlf) /\
  (ends_in_sep items = true -> print_text items = body items).
Proof. exact newline_rule. Qed.
Print Assumptions C17_newline_rule.

Theorem C17_print_alone : print_text [] = crlf.
Proof. exact print_alone. Qed.
Print Assumptions C17_print_alone.

(* the text is a function of the item sequence, built left to right *)
Theorem C17_body_app : forall a b, body (a ++ b) = fold_left put_item b (body a).
Proof. exact body_app. Qed.
Print Assumptions C17_body_app.

(* the device decodes exactly what the code generator pushed, for all values *)
Theorem C17_protocol_roundtrip : forall fmt args,
  decode_print (encoded_args fmt args) = POk fmt args.
Proof. exact print_protocol_roundtrip. Qed.
Print Assumptions C17_protocol_roundtrip.

Theorem C17_exec_print_plain : forall args items,
  map_opt item_of_arg args = Some items ->
  exec_print (encoded_args None args) = OutText [print_text items].
Proof. exact exec_print_plain. Qed.
Print Assumptions C17_exec_print_plain.

(* non-vacuity: a concrete statement  PRINT 1, "ab";  *)
Example C17_example :
  exec_print (encoded_args None [AVal (CI 1); AComma; AVal (CStr [97; 98]); ASemi])
  = OutText [[32; 49; 32] ++ spaces 11 ++ [97; 98]].
Proof. vm_compute. reflexivity. Qed.
