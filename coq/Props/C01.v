(* C01 - compiled programs do what their QBASIC source says.
   Only statements, [exact], Print Assumptions.  Proofs: Proofs/SemFacts.v,
   ExprStack.v, ExprCorrect.v, ExprSem.v, ExprRefuted.v.

   Models: Src/SemBase.v + Src/Sem.v = the reference semantics (specification);
   Models/ExprCodegen.v = the code generator for pure scalar expressions and
   qbee's static typing; Models/Cpu.v = the machine (tied to qvm/cpu.py by C07).

   What is proved: for the INTEGER/LONG expression fragment the generated code
   computes the reference value (or traps with the matching code); the stack
   discipline for EVERY pure expression.  What is NOT proved (explored by the
   correspondence suites only): SINGLE/DOUBLE/STRING expressions, / \ MOD ^,
   builtin functions, arrays, records, calls, and all statements. *)
From Coq Require Import ZArith List Bool.
From QV Require Import Sx Strs Fl Cell Machine Cpu SemBase Sem ExprCodegen
     SemFacts ExprStack ExprCorrect ExprSem ExprRefuted.
Import ListNotations.
Open Scope Z_scope.

(* every operator result has the static type of the typing rules *)
Theorem C01_binop_result_type : forall o a b v,
  binop_sem no_quirks o a b = POk v ->
  binop_ty o (ty_of a) (ty_of b) = Some (ty_of v).
Proof. exact binop_result_type. Qed.
Print Assumptions C01_binop_result_type.

(* compile_expr_correct, for the sub-language in_fragment (INTEGER/LONG literals
   and local variables, unary - NOT +, parentheses, + - *, = <> < > <= >=, AND OR
   XOR EQV IMP, implicit INTEGER->LONG conversions).  For every machine state
   whose current frame holds the variables (unset cells allowed), every operand
   stack: the code pushes exactly the reference value v on top of the untouched
   stack, v has the static type qbee computed, the heap changes at most by
   materialising defaults of unset variables (mat), everything else in the
   state is unchanged (upd) - or it traps with the code of the reference error.
   _partial: missing are the float and string types, / \ MOD ^ (see the
   _refuted witnesses: \ MOD ^ are false on the unchanged tree), builtins,
   array elements, record fields and calls. *)
Theorem C01_compile_expr_correct_partial : forall m tyenv e,
  in_fragment e = true ->
  forall st g sg,
    frame_at st g sg -> vars_ok tyenv (s_cells sg) e ->
    match peval no_quirks (rho_of (s_cells sg)) e with
    | POk v =>
      exists h' sg',
        exec_list m (cg e) st = R tt (upd st h' (v :: stack st)) /\
        nthZ h' g = Some sg' /\ mat tyenv (s_cells sg) (s_cells sg') /\
        q_ty e = Some (ty_of v) /\ integral (ty_of v) = true /\ wf_cell v = true
    | PErr er => exists kw st', exec_list m (cg e) st = T (trap_of_err er) kw st'
    | PStuck _ => False
    end.
Proof. exact expr_correct. Qed.
Print Assumptions C01_compile_expr_correct_partial.

(* peval above IS the reference interpreter of Src/Sem.v on pure expressions
   (all operators and types, any quirk setting, any FUNCTION-call handler) *)
Theorem C01_peval_is_reference_eval : forall P q callf rho e s,
  sem_rel rho s e ->
  eval P q callf (to_expr e) s = res_of (peval q rho e) s.
Proof. exact peval_is_eval. Qed.
Print Assumptions C01_peval_is_reference_eval.

(* stack discipline, for every pure expression (any operator, any types, well
   typed or not) and every state: expression code never touches the stack
   below its start *)
Theorem C01_stack_discipline : forall m e st,
  lits_numeric e = true ->
  match exec_list m (cg e) st with
  | R _ st' => exists v, stack st' = v :: stack st
  | T _ _ st' | ZD st' | X _ st' | NI st' => exists p, stack st' = p ++ stack st
  end.
Proof. exact stack_discipline. Qed.
Print Assumptions C01_stack_discipline.

(* outside the guard the full statement is false on the unchanged tree *)
Theorem C01_compile_expr_intdiv_refuted : q_ty e_idiv = Some TI /\ disagrees e_idiv.
Proof. exact idiv_refuted. Qed.
Print Assumptions C01_compile_expr_intdiv_refuted.

Theorem C01_compile_expr_mod_refuted : q_ty e_mod = Some TI /\ disagrees e_mod.
Proof. exact mod_refuted. Qed.
Print Assumptions C01_compile_expr_mod_refuted.

Theorem C01_compile_expr_pow_refuted : q_ty e_pow = Some TI /\ disagrees e_pow.
Proof. exact pow_refuted. Qed.
Print Assumptions C01_compile_expr_pow_refuted.

(* non-vacuity: (x% + 1) * 2 < y&  with x% = 1000 (frame cell 0) and y& unset
   (frame cell 1): the code leaves 0 (false) on the stack and materialises y& *)
Definition ex_e : pexpr :=
  PBin OLt (PBin OMul (PPar (PBin OAdd (PVar 0 TI) (PLit (CI 1)))) (PLit (CI 2))) (PVar 1 TL).
Definition ex_st : Machine.st :=
  let s := Machine.init_state m0 (mkScript [] [] [] []) in
  set_cur (set_heap s (heap s ++ [mkSeg [Some (CI 1000); None] (SFrame None 0 0 2)])) (Some 1).

Example C01_example :
  in_fragment ex_e = true /\
  peval no_quirks (rho_of [Some (CI 1000); None]) ex_e = POk (CI 0) /\
  (exists st', exec_list m0 (cg ex_e) ex_st = R tt st' /\ stack st' = [CI 0] /\
               nthZ (heap st') 1 = Some (mkSeg [Some (CI 1000); Some (CL 0)] (SFrame None 0 0 2))) /\
  (* and an overflow: 20000 + 20000 in INTEGER *)
  peval no_quirks (rho_of [Some (CI 1000); None]) (PBin OAdd (PLit (CI 20000)) (PLit (CI 20000))) = PErr EOverflow.
Proof.
  split; [reflexivity|]. split; [vm_compute; reflexivity|].
  split; [eexists; split; [vm_compute; reflexivity|]; split; reflexivity|].
  vm_compute. reflexivity.
Qed.
