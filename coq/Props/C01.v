(* C01 - compiled programs do what their QBASIC source says.
   Only statements, [exact], Print Assumptions.  Proofs: Proofs/SemFacts.v,
   Proofs/ExprCorrect.v *)
From Coq Require Import ZArith List Bool.
From QV Require Import Sx Strs Fl Cell SemBase Sem SemFacts.
Import ListNotations.
Open Scope Z_scope.

(* the result of every operator has the static type of the typing rules *)
Theorem C01_binop_result_type : forall o a b v,
  binop_sem no_quirks o a b = POk v ->
  binop_ty o (ty_of a) (ty_of b) = Some (ty_of v).
Proof. exact binop_result_type. Qed.
Print Assumptions C01_binop_result_type.

(* non-vacuity: -7 \ 2 = -3 and -7 MOD 2 = -1 in the reference (truncation),
   -4 and 1 with the implementation's rule switched on (D06) *)
Example C01_intdiv_reference :
  binop_sem no_quirks OIDiv (CI (-7)) (CI 2) = POk (CI (-3)) /\
  binop_sem no_quirks OMod (CI (-7)) (CI 2) = POk (CI (-1)) /\
  binop_sem (fun k => k =? Q_FLOOR_DIV) OIDiv (CI (-7)) (CI 2) = POk (CI (-4)).
Proof. vm_compute. repeat split; reflexivity. Qed.
