(* C18 - INPUT assigns only well-typed values and re-prompts on bad lines.
   Only statements, [exact], Print Assumptions.  Proofs: Proofs/InputProofs.v.

   Specification (Models/Input.v part 1): spec_prompt_text, spec_fields,
   spec_value / spec_accept (strict = what C18 demands; lenient = the same
   relative to the numerals Python's int()/float() read), spec_run.
   Code (part 2): exec_input = TerminalDevice._exec_input as it is in /repo,
   stack_at_io = what gen_input pushes, do_stores = its stores.
   exec_input_fixed (part 3) = the code after fixes/C18-D13.diff.

   The model has no memory and no cursor: _exec_input touches only the operand
   stack and the terminal, so "no change of memory" holds by construction;
   the operand stack is where the code leaves something behind (D13). *)
From Coq Require Import ZArith List Bool.
From QV Require Import Sx Strs Fl Cell Input InputProofs.
Import ListNotations.
Open Scope Z_scope.

(* the device decodes what the code generator pushed, for every statement *)
Theorem C18_protocol_decode : forall pv s lines st,
  i_tys s <> [] ->
  exec_input_gen pv lines (stack_at_io s st) =
  input_loop pv (i_question s) (i_prompt s) (flag (i_same_line s))
             (map ty_id (i_tys s)) lines st.
Proof. exact exec_decode. Qed.
Print Assumptions C18_protocol_decode.

(* before the user types, exactly the prompt text is shown: the literal
   prompt, then "? " iff there is no prompt or it is followed by ';' *)
Theorem C18_prompt_shape : forall sl f ts l rest st,
  ts <> [] ->
  exists pre tail,
    ires_evs (exec_input (l :: rest) (stack_at_io (stmt_of_form sl f ts) st))
    = pre ++ EInput (flag sl) l :: tail /\
    norm pre = [EPrint (spec_prompt_text f)].
Proof. exact prompt_shape. Qed.
Print Assumptions C18_prompt_shape.

(* a line is accepted iff it has one field per variable and every numeric
   field is a numeral (as read by int()/float()) that the type holds *)
Theorem C18_accept_iff : forall ts l st,
  (exists st', push_vars l (map ty_id ts) st = PVOk st') <->
  (exists vals, spec_accept false ts l = Some vals).
Proof. exact accept_iff. Qed.
Print Assumptions C18_accept_iff.

(* every line C18 calls acceptable is accepted, with the specified values *)
Theorem C18_accept_strict_sound : forall ts l st vals,
  spec_accept true ts l = Some vals ->
  push_vars l (map ty_id ts) st = PVOk (vals ++ st).
Proof. exact accept_strict_sound. Qed.
Print Assumptions C18_accept_strict_sound.

(* ... but not only those (D29): "1_0,nan" is accepted for an INTEGER and a
   SINGLE variable, "1e400" for a DOUBLE (stored as infinity) *)
Theorem C18_accept_only_wellformed_refuted :
  exists ts l st st', spec_accept true ts l = None /\ push_vars l (map ty_id ts) st = PVOk st'.
Proof. exact accept_only_wellformed_refuted. Qed.
Print Assumptions C18_accept_only_wellformed_refuted.

Theorem C18_accept_overflow_refuted :
  exists l st', spec_accept true [VDouble] l = None /\
                push_vars l [ty_id VDouble] [] = PVOk st'.
Proof. exact accept_overflow_refuted. Qed.
Print Assumptions C18_accept_overflow_refuted.

(* accepted fields end up on the stack first field on top, converted to their
   types, which is the order the stores of gen_input consume them *)
Theorem C18_assign_in_order : forall ts l st vals targets,
  spec_accept false ts l = Some vals ->
  length targets = length ts ->
  push_vars l (map ty_id ts) st = PVOk (vals ++ st) /\
  spec_values false ts (spec_fields l) = Some vals /\
  do_stores targets (vals ++ st) [] = Some (st, combine targets vals).
Proof. exact assign_in_order. Qed.
Print Assumptions C18_assign_in_order.

(* a rejected line leaves the stack unchanged - PARTIAL: true of the code as
   it is only when the field count is wrong or the LAST field is the bad one.
   Missing: a bad field with good fields to its right (see _refuted). *)
Theorem C18_reject_no_effect_count_partial : forall tys l st,
  length (spec_fields l) <> length tys -> push_vars l tys st = PVReject st.
Proof. exact reject_count_clean. Qed.
Print Assumptions C18_reject_no_effect_count_partial.

Theorem C18_reject_no_effect_last_partial : forall ts t fs f l st,
  spec_fields l = fs ++ [f] ->
  spec_value false t f = None ->
  push_vars l (map ty_id (ts ++ [t])) st = PVReject st.
Proof. exact reject_last_clean. Qed.
Print Assumptions C18_reject_no_effect_last_partial.

(* the same at the level of the statement: "Redo from start", the prompt
   again, and the run continues from the unchanged stack *)
Theorem C18_reject_no_effect_partial : forall ts t fs f l rest s st,
  i_tys s = ts ++ [t] ->
  length (spec_fields l) <> length (i_tys s) \/
  (spec_fields l = fs ++ [f] /\ spec_value false t f = None) ->
  exec_input (l :: rest) (stack_at_io s st) =
  i_pre (redo_block (i_question s) (i_prompt s) (flag (i_same_line s)) l)
        (exec_input rest (stack_at_io s st)).
Proof. exact reject_no_effect_partial. Qed.
Print Assumptions C18_reject_no_effect_partial.

(* generally: whenever the rejected line left nothing behind *)
Theorem C18_reject_restart_partial : forall s l rest st,
  i_tys s <> [] ->
  spec_accept false (i_tys s) l = None ->
  stale (map ty_id (i_tys s)) l = [] ->
  exec_input (l :: rest) (stack_at_io s st) =
  i_pre (redo_block (i_question s) (i_prompt s) (flag (i_same_line s)) l)
        (exec_input rest (stack_at_io s st)).
Proof. exact reject_restart_partial. Qed.
Print Assumptions C18_reject_restart_partial.

(* D13: "x,5" for two INTEGER variables is rejected and the converted 5 stays *)
Theorem C18_reject_no_effect_refuted :
  exists tys l st st', push_vars l tys st = PVReject st' /\ st' <> st.
Proof. exact reject_no_effect_refuted. Qed.
Print Assumptions C18_reject_no_effect_refuted.

(* so the final state after a rejected and an accepted line is NOT that of the
   accepted line alone ("x,5" then "1,2" for two INTEGER variables) *)
Theorem C18_retry_state_refuted :
  exists s bad good st,
    i_tys s <> [] /\
    spec_accept false (i_tys s) bad = None /\
    ires_stack (exec_input [bad; good] (stack_at_io s st)) <>
    ires_stack (exec_input [good] (stack_at_io s st)).
Proof. exact retry_state_refuted. Qed.
Print Assumptions C18_retry_state_refuted.

(* the repaired code: every rejected line leaves the stack unchanged *)
Theorem C18_reject_no_effect_fixed : forall l tys st st',
  push_vars_fixed l tys st = PVReject st' -> st' = st.
Proof. exact reject_no_effect_fixed_pv. Qed.
Print Assumptions C18_reject_no_effect_fixed.

Theorem C18_reject_restart_fixed : forall s l rest st,
  i_tys s <> [] ->
  spec_accept false (i_tys s) l = None ->
  exec_input_fixed (l :: rest) (stack_at_io s st) =
  i_pre (redo_block (i_question s) (i_prompt s) (flag (i_same_line s)) l)
        (exec_input_fixed rest (stack_at_io s st)).
Proof. exact reject_restart_fixed. Qed.
Print Assumptions C18_reject_restart_fixed.

(* for every n: n rejected lines then an accepted one give n Redo messages
   and the values of the accepted line on top; in the code as it is the cells
   the rejected lines left behind (stale) remain underneath *)
Theorem C18_retry_unbounded : forall n bad good more vals s st,
  length bad = n ->
  i_tys s <> [] ->
  (forall b, In b bad -> spec_accept false (i_tys s) b = None) ->
  spec_accept false (i_tys s) good = Some vals ->
  exec_input (bad ++ good :: more) (stack_at_io s st) =
  IDone (flat_map (redo_block (i_question s) (i_prompt s) (flag (i_same_line s))) bad
         ++ ask (i_question s) (i_prompt s) (flag (i_same_line s)) good)
        (vals ++ flat_map (stale (map ty_id (i_tys s))) (rev bad) ++ st).
Proof. exact retry_unbounded. Qed.
Print Assumptions C18_retry_unbounded.

(* the repaired code: the final state is that of the accepted line alone *)
Theorem C18_retry_unbounded_fixed : forall n bad good more vals s st,
  length bad = n ->
  i_tys s <> [] ->
  (forall b, In b bad -> spec_accept false (i_tys s) b = None) ->
  spec_accept false (i_tys s) good = Some vals ->
  exec_input_fixed (bad ++ good :: more) (stack_at_io s st) =
  IDone (flat_map (redo_block (i_question s) (i_prompt s) (flag (i_same_line s))) bad
         ++ ask (i_question s) (i_prompt s) (flag (i_same_line s)) good)
        (vals ++ st).
Proof. exact retry_unbounded_fixed. Qed.
Print Assumptions C18_retry_unbounded_fixed.

(* every history: the repaired code shows the texts and leaves the values
   spec_run prescribes (relative to Python numerals), nothing else *)
Theorem C18_run_meets_spec_fixed : forall sl f ts lines st,
  ts <> [] ->
  meets (exec_input_fixed lines (stack_at_io (stmt_of_form sl f ts) st))
        (spec_run false f (flag sl) ts lines) st.
Proof. exact run_meets_spec_fixed. Qed.
Print Assumptions C18_run_meets_spec_fixed.

(* PARTIAL for the code as it is: histories whose rejected lines are all
   clean rejections *)
Theorem C18_run_meets_spec_partial : forall sl f ts lines st,
  ts <> [] ->
  (forall l, In l lines -> stale (map ty_id ts) l = []) ->
  meets (exec_input lines (stack_at_io (stmt_of_form sl f ts) st))
        (spec_run false f (flag sl) ts lines) st.
Proof. exact run_meets_spec_partial. Qed.
Print Assumptions C18_run_meets_spec_partial.

(* and the strict specification is the lenient one on histories without the
   D29 forms *)
Theorem C18_strict_run_agrees : forall f sl ts lines,
  (forall l, In l lines -> spec_accept true ts l = spec_accept false ts l) ->
  spec_run true f sl ts lines = spec_run false f sl ts lines.
Proof. exact strict_run_agrees. Qed.
Print Assumptions C18_strict_run_agrees.

(* non-vacuity:  INPUT "n"; a%, b!  answered  "x,5"  "1"  " 7 ,2.5"  *)
Example C18_example :
  exec_input [[120; 44; 53]; [49]; [32; 55; 32; 44; 50; 46; 53]]
             (stack_at_io (stmt_of_form false (FSemi [110]) [VInt; VSingle]) [CL 5])
  = IDone ([EPrint [110]; EPrint s_question; EInput 0 [120; 44; 53]; EPrint s_redo;
            EPrint [110]; EPrint s_question; EInput 0 [49]; EPrint s_redo;
            EPrint [110]; EPrint s_question; EInput 0 [32; 55; 32; 44; 50; 46; 53]])
          [CI 7; CS (FFin false 5 (-1)); CS (FFin false 5 0); CL 5].
Proof. vm_compute. reflexivity. Qed.

Example C18_example_spec :
  spec_run true (FSemi [110]) 0 [VInt; VSingle]
           [[120; 44; 53]; [49]; [32; 55; 32; 44; 50; 46; 53]]
  = SDone ([EPrint [110; 63; 32]; EInput 0 [120; 44; 53]; EPrint s_redo;
            EPrint [110; 63; 32]; EInput 0 [49]; EPrint s_redo;
            EPrint [110; 63; 32]; EInput 0 [32; 55; 32; 44; 50; 46; 53]])
          [CI 7; CS (FFin false 5 (-1))].
Proof. vm_compute. reflexivity. Qed.
