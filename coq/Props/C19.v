From Coq Require Import ZArith List Bool.
From QV Require Import Sx Strs Using UsingSpec.
Import ListNotations.
Open Scope Z_scope.
Theorem C19_placeholder : using_format [35] [UInt 7] = UOk [55].
Proof. vm_compute. reflexivity. Qed.
Print Assumptions C19_placeholder.
