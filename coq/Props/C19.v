(* C19 - PRINT USING fields keep their width, rounding and overflow mark.
   Only statements, [exact], Print Assumptions.  Proofs: Proofs/UsingProofs.v
   (digit lemmas: Proofs/UsingDigits.v).
     model of the code      Models/Using.v (PrintUsingFormatter), Models/Print.v (hand-over)
     specification          Models/UsingSpec.v (spec_field, using_spec, literal_text, guards)
   The unchanged code does NOT meet the specification for every field and
   value (DESIGN.md section 6, D16 and D24): the full statements
        forall w o v, render_num w o v = UOk t  with  spec_field w o v = Some t
        forall fmt vals, using_format fmt vals is no crash
   are refuted by the witnesses at the end; what is proved is the statement
   under decidable guards ([field_guard], [using_guard], [total_guard]) plus
   the invariants that hold for every field and value. *)
From Coq Require Import ZArith List Bool.
From QV Require Import Sx Strs Fl Dec Cell Using UsingSpec Print PrintProofs UsingProofs.
Import ListNotations.
Open Scope Z_scope.

(* ---- literals and escapes ---- *)

(* a format made of literal characters and "_c" escapes is one literal part
   whose text is the format with every "_c" replaced by c *)
Theorem C19_scan_literal_copy : forall s t,
  literal_text s = Some t ->
  parse_format s = Some (match t with [] => [] | _ => [PNon t] end).
Proof. exact scan_literal_copy. Qed.
Print Assumptions C19_scan_literal_copy.

(* without any of  # + - & ! _  the format stands for itself *)
Theorem C19_literal_text_plain : forall s,
  forallb (fun c => negb (is_special c)) s = true -> literal_text s = Some s.
Proof. exact literal_text_plain. Qed.
Print Assumptions C19_literal_text_plain.

(* ---- string fields ---- *)

Theorem C19_str_field_amp : forall s, using_format [ch_amp] [UStr s] = UOk s.
Proof. exact str_field_amp. Qed.
Print Assumptions C19_str_field_amp.

Theorem C19_str_field_bang : forall c s, using_format [ch_bang] [UStr (c :: s)] = UOk [c].
Proof. exact str_field_bang. Qed.
Print Assumptions C19_str_field_bang.

(* ---- numeric fields: what holds for EVERY field and value ---- *)

(* never shorter than the field; exactly the width unless marked *)
Theorem C19_num_field_width : forall w o v s,
  render_num w o v = UOk s ->
  w <= zlen s /\ (hd_error s <> Some ch_pct -> zlen s = w).
Proof. exact num_field_width. Qed.
Print Assumptions C19_num_field_width.

(* "%" leads exactly when the text exceeds the field, and then what follows
   the mark is by itself longer than the field *)
Theorem C19_overflow_mark : forall w o v s,
  1 <= w -> render_num w o v = UOk s ->
  (hd_error s = Some ch_pct <-> w < zlen s) /\
  (w < zlen s -> exists r, s = ch_pct :: r /\ w < zlen r /\ np r = true).
Proof. exact overflow_mark. Qed.
Print Assumptions C19_overflow_mark.

(* ---- numeric fields: the specification, guarded ---- *)

(* PARTIAL: only inside [field_guard] (Models/UsingSpec.v field_reasons): the
   field has a decimal point or the value is an INTEGER/LONG; only '#' after
   the point (no trailing sign, no comma there) and at least one; a trailing
   sign only with a negative value or one spare position; finite value.
   Missing: everything outside the guard, where the code is wrong (D24). *)
Theorem C19_num_field_partial : forall w o v,
  field_guard w o v = true ->
  exists t, render_num w o v = UOk t /\ spec_field w o v = Some t.
Proof. exact num_field_partial. Qed.
Print Assumptions C19_num_field_partial.

(* the rounding demanded is a nearest rounding (ties go to the even digit) *)
Theorem C19_round_nearest : forall a p, 0 < p ->
  2 * Z.abs (rne_div a p * p - a) <= p /\
  (2 * (a mod p) = p -> Z.even (rne_div a p) = true).
Proof. exact rne_div_nearest. Qed.
Print Assumptions C19_round_nearest.

(* and it is taken on the exact value of the binary number *)
Theorem C19_exact_dec_value : forall m e N q, exact_dec m e = (N, q) ->
  (0 <= e -> q = 0 /\ N = m * 2 ^ e) /\
  (e < 0 -> q = e /\ N * 2 ^ (- e) = m * 10 ^ (- e)).
Proof. exact exact_dec_value. Qed.
Print Assumptions C19_exact_dec_value.

(* ---- the whole format ---- *)

(* the output is the concatenation, in format order, of one piece per part;
   the j-th field's piece is computed from the j-th value alone *)
Theorem C19_values_left_to_right : forall parts n vals i out s,
  render parts n vals i out = UOk s ->
  exists ps, pieces parts vals = Some ps /\ s = out ++ concat ps.
Proof. exact values_left_to_right. Qed.
Print Assumptions C19_values_left_to_right.

Theorem C19_render_app : forall p1 p2 n vals1 vals2 i out s1,
  render p1 n vals1 i out = UOk s1 ->
  render (p1 ++ p2) n (vals1 ++ vals2) i out = render p2 n vals2 (i + nfields p1) s1.
Proof. exact render_app. Qed.
Print Assumptions C19_render_app.

(* no host exception when the format does not end in "_", there is exactly
   one value per field, strings for "&" and "!" (non-empty for "!") and
   numbers for numeric fields *)
Theorem C19_render_total_on_guard : forall fmt vals,
  total_guard fmt vals = true -> exists s, using_format fmt vals = UOk s.
Proof. exact render_total_on_guard. Qed.
Print Assumptions C19_render_total_on_guard.

(* PARTIAL (guard = every field inside field_guard + total_guard): the text
   is the one the specification demands *)
Theorem C19_using_partial : forall fmt vals,
  using_guard fmt vals = true ->
  exists t, using_format fmt vals = UOk t /\ using_spec fmt vals = Some t.
Proof. exact using_partial. Qed.
Print Assumptions C19_using_partial.

(* ---- the statement ---- *)

(* a line break follows unless the statement ends in a separator *)
Theorem C19_newline_rule : forall fs args uv s,
  args <> [] ->
  map_opt uval_of_cell (args_vals args) = Some uv ->
  using_format fs uv = UOk s ->
  emit (Some (CStr fs)) args = OutText (if args_end_sep args then [s] else [s; crlf]).
Proof. exact using_newline_rule. Qed.
Print Assumptions C19_newline_rule.

(* PARTIAL: what the device prints for the cells the code generator pushes
   for PRINT USING fs; args  is what the specification demands *)
Theorem C19_stmt_partial : forall fs args uv,
  args <> [] ->
  map_opt uval_of_cell (args_vals args) = Some uv ->
  using_guard fs uv = true ->
  exists calls,
    exec_print (encoded_args (Some (CStr fs)) args) = OutText calls /\
    using_stmt_spec fs uv (args_end_sep args) = Some calls.
Proof. exact using_stmt_partial. Qed.
Print Assumptions C19_stmt_partial.

(* ---- refutations of the unguarded statements on the faithful model ---- *)

Definition s27 : fl := fl_of_bits 4613262278404341760.     (* 2.7 as SINGLE *)

(* D24: no decimal point, SINGLE value: not rounded, marked although 3 fits *)
Theorem C19_num_field_refuted_no_point :
  exists fmt v t1 t2, using_format fmt [v] = UOk t1 /\ using_spec fmt [v] = Some t2 /\ t1 <> t2.
Proof.
  exists [35; 35; 35], (UFlt s27),
    [37; 50; 46; 55; 48; 48; 48; 48; 48; 48; 52; 55; 54; 56; 51; 55; 49; 54], [32; 32; 51].
  vm_compute. repeat split; discriminate.
Qed.
Print Assumptions C19_num_field_refuted_no_point.

(* D24: "##.##-" with -1.5: the trailing sign is counted as a decimal: "1.500-" *)
Theorem C19_num_field_refuted_trailing_sign :
  using_format [35; 35; 46; 35; 35; 45] [UFlt (FFin true 3 (-1))] = UOk [49; 46; 53; 48; 48; 45] /\
  using_spec [35; 35; 46; 35; 35; 45] [UFlt (FFin true 3 (-1))] = Some [32; 49; 46; 53; 48; 45].
Proof. vm_compute. split; reflexivity. Qed.
Print Assumptions C19_num_field_refuted_trailing_sign.

(* "#.#," with 0.125: the comma after the point is counted as a decimal: "0.12" *)
Theorem C19_num_field_refuted_comma_after_point :
  using_format [35; 46; 35; 44] [UFlt (FFin false 1 (-3))] = UOk [48; 46; 49; 50] /\
  using_spec [35; 46; 35; 44] [UFlt (FFin false 1 (-3))] = Some [32; 48; 46; 49].
Proof. vm_compute. split; reflexivity. Qed.
Print Assumptions C19_num_field_refuted_comma_after_point.

(* "#." with 2.5: the decimal point is not printed: " 2" instead of "2." *)
Theorem C19_num_field_refuted_point_dropped :
  using_format [35; 46] [UFlt (FFin false 5 (-1))] = UOk [32; 50] /\
  using_spec [35; 46] [UFlt (FFin false 5 (-1))] = Some [50; 46].
Proof. vm_compute. split; reflexivity. Qed.
Print Assumptions C19_num_field_refuted_point_dropped.

(* "##+" with 55: fits, but printed as "% 55+";  "##-" with 55: " 55" not "55 " *)
Theorem C19_num_field_refuted_trailing_sign_nonneg :
  using_format [35; 35; 43] [UInt 55] = UOk [37; 32; 53; 53; 43] /\
  using_spec [35; 35; 43] [UInt 55] = Some [53; 53; 43] /\
  using_format [35; 35; 45] [UInt 55] = UOk [32; 53; 53] /\
  using_spec [35; 35; 45] [UInt 55] = Some [53; 53; 32].
Proof. vm_compute. repeat split; reflexivity. Qed.
Print Assumptions C19_num_field_refuted_trailing_sign_nonneg.

(* D16: host exceptions: "!" with "", trailing "_", too many values, too few
   values, a number for "&", a string for "#", and PRINT USING "x"; without
   any value (printables[-1] on the empty list) *)
Theorem C19_render_total_refuted :
  using_format [33] [UStr []] = UCrash UIndexError /\
  using_format [97; 95] [] = UCrash UIndexError /\
  using_format [35] [UInt 7; UInt 0] = UCrash URuntimeError /\
  using_format [35; 32; 35] [UInt 7] = UCrash UIndexError /\
  using_format [38] [UInt 7] = UCrash URuntimeError /\
  using_format [35] [UStr [97]] = UCrash UTypeError /\
  exec_print (encoded_args (Some (CStr [120])) []) = OutCrash PIndexError.
Proof. vm_compute. repeat split; reflexivity. Qed.
Print Assumptions C19_render_total_refuted.

(* ---- non-vacuity ---- *)

(* PRINT USING "total: #,###.## &!"; 1234.565#; "units"; "x"  (inside the guard) *)
Example C19_example :
  let fmt := [116; 111; 116; 97; 108; 58; 32; 35; 44; 35; 35; 35; 46; 35; 35; 32; 38; 33] in
  let v := UFlt (fl_of_bits 4653144489737332982) in      (* 1234.565 *)
  using_guard fmt [v; UStr [117; 110; 105; 116; 115]; UStr [120]] = true /\
  using_format fmt [v; UStr [117; 110; 105; 116; 115]; UStr [120]]
  = UOk [116; 111; 116; 97; 108; 58; 32; 49; 44; 50; 51; 52; 46; 53; 55; 32;
         117; 110; 105; 116; 115; 120].
Proof. vm_compute. split; reflexivity. Qed.

(* ties go to the even digit on the exact value: 0.125 -> "0.12", 2.5 -> "2." *)
Example C19_example_ties :
  spec_field 4 {| o_sign := None; o_comma := false; o_decpt := Some 2; o_real := 3; o_frac := 2 |}
             (UFlt (FFin false 1 (-3))) = Some [48; 46; 49; 50] /\
  field_guard 4 {| o_sign := None; o_comma := false; o_decpt := Some 2; o_real := 3; o_frac := 2 |}
             (UFlt (FFin false 1 (-3))) = true.
Proof. vm_compute. split; reflexivity. Qed.

(* overflow: 1234567 in "#,###.##" is widened and marked *)
Example C19_example_overflow :
  using_format [35; 44; 35; 35; 35; 46; 35; 35] [UInt 1234567]
  = UOk [37; 49; 44; 50; 51; 52; 44; 53; 54; 55; 46; 48; 48] /\
  using_guard [35; 44; 35; 35; 35; 46; 35; 35] [UInt 1234567] = true.
Proof. vm_compute. split; reflexivity. Qed.
