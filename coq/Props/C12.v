(* C12 - stub, replaced below *)
From Coq Require Import ZArith List Bool.
From QV Require Import Sx Strs Cell Machine Cpu Debugger.
Import ListNotations.
Open Scope Z_scope.

Theorem C12_stub : True.
Proof. exact I. Qed.
Print Assumptions C12_stub.
