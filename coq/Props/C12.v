(* C12 - debugger stepping and breakpoints are transparent and stop correctly.
   Only statements, [exact], Print Assumptions.  Model: Models/Debugger.v over
   Models/Machine.v + Models/Cpu.v.  Proofs: Proofs/MachineFrame.v (no
   instruction reads halted/reason; events are only appended) and
   Proofs/DebuggerProofs.v.

   Vocabulary.  [session m di sc fuel h] = Cmd(machine, module) (load the
   instructions, run to the first statement) followed by the command history h.
   [d_st d] is the machine state, [mn (d_m d)] the number of cpu.tick() calls
   made so far, [mres (d_m d)] whether the debugger ever drove a finished
   machine (tick with halted set / pc past the end, or run() entered with
   halted set).  [ticks m n s] = n applications of tick.  [run] (Cpu.v) is the
   free run.  [loads_clean m]: the linear decoding done by load_instructions
   meets no unknown opcode (true of compiled modules; decidable).  Results with
   status NoFuel (a loop of the debugger ran out of fuel), Crashed (host
   exception) or NeedIn (scripted input exhausted) are excluded by
   [d_status d = Live]. *)
From Coq Require Import ZArith List Bool.
From QV Require Import Sx Strs Cell Machine Cpu Debugger MachineFrame DebuggerProofs.
Import ListNotations.
Open Scope Z_scope.

(* For EVERY command history: the machine component is what [mn] applications
   of tick make of the initial state, in every field except the two the
   debugger itself overwrites (run() re-initialises halted/halt_reason, sets
   halt_reason to BREAKPOINT / END_OF_CODE): commands never touch the machine
   except through tick. *)
Theorem C12_commands_only_tick : forall m di sc fuel h,
  loads_clean m = true ->
  let d := session m di sc fuel h in
  d_status d = Live ->
  exists sp, ticks m (Z.to_nat (mn (d_m d))) (init_state m sc) = Some sp /\
             set_halt sp false 0 = set_halt (d_st d) false 0.
Proof. exact commands_only_tick. Qed.
Print Assumptions C12_commands_only_tick.

(* hence the device events after any history are those of [mn] ticks *)
Theorem C12_events_are_tick_events : forall m di sc fuel h,
  loads_clean m = true ->
  let d := session m di sc fuel h in
  d_status d = Live ->
  exists sp, ticks m (Z.to_nat (mn (d_m d))) (init_state m sc) = Some sp /\
             events (d_st d) = events sp.
Proof. exact events_are_tick_events. Qed.
Print Assumptions C12_events_are_tick_events.

(* a tick only appends device events (events are kept most recent first) *)
Theorem C12_tick_appends_events : forall m n s a,
  ticks m n s = Some a -> exists l, events a = l ++ events s.
Proof. exact ticks_ext. Qed.
Print Assumptions C12_tick_appends_events.

(* the device events form a chain: what one more command adds is appended, and
   the tick counter never decreases *)
Theorem C12_events_chain : forall m di sc fuel h c,
  loads_clean m = true ->
  let d := session m di sc fuel h in
  let d' := session m di sc fuel (h ++ [c]) in
  d_status d' = Live ->
  mn (d_m d) <= mn (d_m d') /\ exists l, events (d_st d') = l ++ events (d_st d).
Proof. exact events_chain. Qed.
Print Assumptions C12_events_chain.

(* ... and, as long as the debugger never drove a finished machine, they are a
   prefix of the free run's events, reached after no more ticks than the free
   run makes.  _partial: the guard [mres = false] is needed on the unchanged
   tree (D25b, D25c: a halted machine can be resumed, see
   C12_transparent_refuted). *)
Theorem C12_events_prefix_of_free_run_partial : forall m di sc fuel h fuel' sf N,
  loads_clean m = true ->
  let d := session m di sc fuel h in
  d_status d = Live -> mres (d_m d) = false ->
  run m fuel' (init_state m sc) 0 = (sf, StHalt, N) ->
  mn (d_m d) <= N /\ exists l, events sf = l ++ events (d_st d).
Proof. exact events_prefix_of_free_run. Qed.
Print Assumptions C12_events_prefix_of_free_run_partial.

(* Transparency: any history that ends with the machine halted (e.g. by a
   final continue, see C12_breakpoint_stops_only_at_bp) ends in the free run's
   final state - same device events, same tick count, every field equal except
   halt_reason, which is the free run's or was overwritten with BREAKPOINT
   (D25b).  _partial: guard [mres = false] as above. *)
Theorem C12_transparent_partial : forall m di sc fuel h fuel' sf N,
  loads_clean m = true ->
  let d := session m di sc fuel h in
  d_status d = Live -> mres (d_m d) = false -> halted (d_st d) = true ->
  run m fuel' (init_state m sc) 0 = (sf, StHalt, N) ->
  set_halt (d_st d) true 0 = set_halt sf true 0 /\
  halted sf = true /\
  (reason (d_st d) = reason sf \/ reason (d_st d) = H_BREAKPOINT) /\
  events (d_st d) = events sf /\
  mn (d_m d) = N.
Proof. exact transparent. Qed.
Print Assumptions C12_transparent_partial.

(* without the guard the property is false of the faithful model: the program
   of the witness halts with a trap after one PRINT; continue; continue
   resumes behind the trap and prints three times (D25c) *)
Theorem C12_transparent_refuted :
  exists m di sc fuel h sf N,
    loads_clean m = true /\
    let d := session m di sc fuel h in
    d_status d = Live /\ halted (d_st d) = true /\ mres (d_m d) = true /\
    run m fuel (init_state m sc) 0 = (sf, StHalt, N) /\
    reason sf = H_TRAP /\
    length (events sf) = 1%nat /\ length (events (d_st d)) = 3%nat /\ mn (d_m d) > N.
Proof. exact transparent_refuted. Qed.
Print Assumptions C12_transparent_refuted.

(* continue returns with the machine finished, or with pc on a user breakpoint
   (reported, and recorded as last_breakpoint) *)
Theorem C12_breakpoint_stops_only_at_bp : forall m di fuel d,
  d_status d = Live -> blocked (d_st d) = false ->
  let d' := exec_cmd m di fuel d CContinue in
  d_status d' = Live ->
  (finished m (d_st d') = true /\ d_msgs d' = []) \/
  (In (pc (d_st d')) (d_bps d) /\ d_msgs d' = [MHit] /\
   mlast (d_m d') = Some (HitUser (pc (d_st d')))).
Proof. exact breakpoint_stops_only_at_bp. Qed.
Print Assumptions C12_breakpoint_stops_only_at_bp.

(* ... and it stops at the FIRST such tick, each time: no state strictly
   between the entry of run() and the state it returns with sits on a user
   breakpoint (or is halted).  run() starts from the machine state with
   halted/halt_reason re-initialised. *)
Theorem C12_continue_stops_at_first_breakpoint : forall m di fuel d,
  d_status d = Live -> blocked (d_st d) = false ->
  let d' := exec_cmd m di fuel d CContinue in
  forall k sk, (0 < k)%nat -> Z.of_nat k < mn (d_m d') - mn (d_m d) ->
  ticks m k (set_halt (d_st d) false H_NONE) = Some sk ->
  user_hit (d_bps d) (pc sk) = None /\ halted sk = false.
Proof. exact continue_first_breakpoint. Qed.
Print Assumptions C12_continue_stops_at_first_breakpoint.

(* break L adds the start address of the first statement, in source order, at
   or after line L that has at least one instruction *)
Theorem C12_break_resolves_line : forall di l r,
  resolve_line di l = Some r ->
  In r di /\ l <= r_line r /\ 0 < rec_size r /\
  forall y, In y di -> l <= r_line y -> 0 < rec_size y -> r_soff r <= r_soff y.
Proof. exact resolve_line_spec. Qed.
Print Assumptions C12_break_resolves_line.

Theorem C12_break_sets_resolved : forall m fuel di l d r,
  d_status d = Live -> 0 <= l -> resolve_line di l = Some r ->
  let d' := exec_cmd m di fuel d (CBreak l) in
  d_bps d' = d_bps d ++ [r_start r] /\ d_m d' = d_m d.
Proof. exact break_sets_resolved. Qed.
Print Assumptions C12_break_sets_resolved.

(* delbr L removes one occurrence of that address and nothing else, and leaves the machine alone *)
Theorem C12_delbr_removes : forall m fuel di l d r,
  d_status d = Live -> 0 <= l -> resolve_line di l = Some r ->
  let d' := exec_cmd m di fuel d (CDelbr l) in
  let a := r_start r in
  count_occ Z.eq_dec (d_bps d') a = pred (count_occ Z.eq_dec (d_bps d) a) /\
  (forall b, b <> a -> count_occ Z.eq_dec (d_bps d') b = count_occ Z.eq_dec (d_bps d) b) /\
  d_m d' = d_m d.
Proof. exact delbr_removes. Qed.
Print Assumptions C12_delbr_removes.

(* an address that is not (any longer) in the list never stops continue *)
Theorem C12_absent_breakpoint_never_stops : forall m di fuel d a,
  d_status d = Live -> blocked (d_st d) = false -> ~ In a (d_bps d) ->
  let d' := exec_cmd m di fuel d CContinue in
  d_status d' = Live -> d_msgs d' = [MHit] -> pc (d_st d') <> a.
Proof. exact absent_breakpoint_never_stops. Qed.
Print Assumptions C12_absent_breakpoint_never_stops.

(* step: unless a loop of the debugger ran out of fuel (the program loops
   inside one statement), it returns with the machine finished, on a user
   breakpoint, or in a non-empty statement different from the one it started
   in.  _partial: fuel exhaustion is excluded (d_status d' = Live), and a user
   breakpoint may stop it inside the same statement. *)
Theorem C12_step_progress_partial : forall m di fuel d stmt,
  d_status d = Live -> blocked (d_st d) = false ->
  find_nonempty m di (pc (d_st d)) = Ok stmt ->
  let d' := exec_cmd m di fuel d CStep in
  d_status d' = Live ->
  finished m (d_st d') = true \/
  In (pc (d_st d')) (d_bps d) \/
  exists r, find_nonempty m di (pc (d_st d')) = Ok (Some r) /\ stmt_neq (Some r) stmt = true.
Proof. exact step_progress. Qed.
Print Assumptions C12_step_progress_partial.

(* step stops at the first instruction executed outside the statement it started
   in: every state strictly before the stop is in no statement or in that same
   statement - so iterating step visits the statements in execution order
   without skipping one *)
Theorem C12_step_stops_at_first_statement_change : forall m di fuel d stmt,
  d_status d = Live -> blocked (d_st d) = false ->
  find_nonempty m di (pc (d_st d)) = Ok (Some stmt) ->
  let d' := exec_cmd m di fuel d CStep in
  forall k sk, (0 < k)%nat -> Z.of_nat k < mn (d_m d') - mn (d_m d) ->
  ticks m k (set_halt (d_st d) false H_NONE) = Some sk ->
  user_hit (d_bps d) (pc sk) = None /\ halted sk = false /\
  (find_nonempty m di (pc sk) = Ok None \/
   exists r, find_nonempty m di (pc sk) = Ok (Some r) /\ rec_eqb r stmt = true).
Proof. exact step_first_change. Qed.
Print Assumptions C12_step_stops_at_first_statement_change.

Theorem C12_next_progress_partial : forall m di fuel d stmt,
  d_status d = Live -> blocked (d_st d) = false ->
  find_nonempty m di (pc (d_st d)) = Ok stmt ->
  let d' := exec_cmd m di fuel d CNext in
  d_status d' = Live ->
  halted (d_st d') = true \/
  In (pc (d_st d')) (d_bps d) \/
  exists new, find_nonempty m di (pc (d_st d')) = Ok new /\ stmt_neq new stmt = true.
Proof. exact next_progress. Qed.
Print Assumptions C12_next_progress_partial.

(* what cpu.next() does guarantee when it skips a call: it returns with the
   machine finished or with pc at the return address.  _partial: the property
   wants "in the activation the command was issued in"; that needs the guard
   "the first time pc equals the return address is the return of this very
   call", which fails for recursive procedures (next theorem). *)
Theorem C12_next_stops_at_return_address_partial : forall m di bps fuel x t size x',
  (pc (ms x) <? 0) || (pc (ms x) >=? code_len m) = false ->
  decode (skipn (Z.to_nat (pc (ms x))) (m_code m)) = DOk (ICall t) size ->
  cpu_next m di bps fuel x = RDone x' ->
  finished m (ms x') = true \/ pc (ms x') = pc (ms x) + size.
Proof. exact cpu_next_call_returns. Qed.
Print Assumptions C12_next_stops_at_return_address_partial.

(* D25: next stops inside the callee of a recursive procedure *)
Theorem C12_next_skips_calls_refuted :
  exists m di sc fuel h,
    loads_clean m = true /\
    let d := session m di sc fuel h in
    let d' := exec_cmd m di fuel d CNext in
    d_status d = Live /\ d_status d' = Live /\ mres (d_m d') = false /\
    d_bps d = [] /\ d_msgs d' = [] /\ halted (d_st d') = false /\
    cur_line m di (d_st d) = Some 6 /\ cur_line m di (d_st d') = Some 7 /\
    depth (d_st d) = 2 /\ depth (d_st d') = 3.
Proof. exact next_skips_calls_refuted. Qed.
Print Assumptions C12_next_skips_calls_refuted.

(* non-vacuity: a session on the compiled witness module that steps, sets,
   hits and deletes a breakpoint and runs to the end satisfies the guard *)
Example C12_example :
  let d := session wit_module wit_di no_script wit_fuel
                   [CStep; CBreak 7; CContinue; CContinue; CDelbr 7; CNext; CContinue] in
  d_status d = Live /\ mres (d_m d) = false /\ halted (d_st d) = true /\ reason (d_st d) = H_INSTRUCTION /\
  d_bps d = [] /\ length (events (d_st d)) = 5%nat.
Proof. vm_compute. repeat split; reflexivity. Qed.
