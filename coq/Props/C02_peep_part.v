(* C02 (peephole half) - the peephole pass never changes behaviour.
   Only statements, [exact], Print Assumptions.  Model: Models/Peephole.v
   (QvmCode.optimize as an index-walking loop on explicit fuel, with the
   compile-time evaluators it calls).  Proofs: Proofs/PeepholeProofs.v.
   The constant-folder half of C02 is stated elsewhere; the final Props/C02.v
   is assembled from both. *)
From Coq Require Import ZArith List Bool Relations.
From QV Require Import Sx Strs Fl Cell Machine Cpu Peephole PeepholeProofs.
Import ListNotations.
Open Scope Z_scope.

(* ---------- list level ---------- *)

(* every result of the loop - for every fuel and every list - is reached from
   the input by finitely many applications of the seven rewrites
   (push+conv, read/store, push+unary, push+push+binary, jump+jump, push%+jz,
   after-halt) to windows of the list *)
Theorem C02_peep_optimize_steps : forall fuel l,
  clos_refl_trans (list pins) (rewrites conv_fold fold1 fold2) l (optimize fuel l).
Proof. exact optimize_steps. Qed.
Print Assumptions C02_peep_optimize_steps.

(* no window of a rewrite contains a pseudo-instruction (label, debug marker):
   no rule ever fires across a label *)
Theorem C02_peep_window_no_mark : forall l l', rewrites conv_fold fold1 fold2 l l' ->
  exists pre w w' post, l = pre ++ w ++ post /\ l' = pre ++ w' ++ post /\
    forallb (fun p => negb (is_mark p)) w = true /\ forallb (fun p => negb (is_mark p)) w' = true.
Proof. exact rewrite_window_no_mark. Qed.
Print Assumptions C02_peep_window_no_mark.

(* the loop terminates: 3 * length - index decreases in every iteration, so
   the fuel 3 * length + 3 used by the extracted model is never exhausted *)
Theorem C02_peep_optimize_terminates : forall l, snd (optimize_st (opt_fuel l) l) <> OFuel.
Proof. exact optimize_terminates. Qed.
Print Assumptions C02_peep_optimize_terminates.

(* labels and debug markers survive, in order *)
Theorem C02_peep_keeps_marks : forall fuel l, marks (optimize fuel l) = marks l.
Proof. exact optimize_keeps_marks. Qed.
Print Assumptions C02_peep_keeps_marks.

(* ---------- machine level: each rewrite, on every machine state ---------- *)

(* push<src> v ; conv<src><dst>  =  push<dst> v'   for all 16 type pairs,
   whenever the pass folds (v' = the folded operand) *)
Theorem C02_peep_rule_push_conv_sound : forall m src dst v v' s,
  lit_ok src v -> (dst = 1 \/ dst = 2 \/ dst = 3 \/ dst = 4) ->
  conv_fold dst v = FVal v' ->
  (push src v ;; exec m (IConv src dst)) s = push dst v' s.
Proof. exact rule_push_conv_sound. Qed.
Print Assumptions C02_peep_rule_push_conv_sound.

(* the guard "a push! operand is a binary32 value" in lit_ok is necessary *)
Theorem C02_peep_rule_push_conv_refuted_unrounded_single :
  exists v', conv_fold 1 (PFlt f_half_plus) = FVal v' /\
    (exec pm0 (IPushS (asm_single f_half_plus)) ;; exec pm0 (IConv 3 1)) ps0 <> push 1 v' ps0.
Proof. exact rule_push_conv_refuted_unrounded_single. Qed.
Print Assumptions C02_peep_rule_push_conv_refuted_unrounded_single.

(* push% 0 ; jz L  =  jmp L        push% n ; jz L  =  nothing  (n <> 0) *)
Theorem C02_peep_rule_push_jz_sound : forall m t s,
  (push 1 (PInt 0) ;; exec m (IJz t)) s = exec m (IJmp t) s /\
  (forall n, in_int n = true -> n <> 0 -> (push 1 (PInt n) ;; exec m (IJz t)) s = ret tt s).
Proof. exact rule_push_jz_sound. Qed.
Print Assumptions C02_peep_rule_push_jz_sound.

(* read<X> v ; store<X> v : stack and every cell unchanged, except that an
   unset cell now holds the default the read materialised ... *)
Theorem C02_peep_rule_read_store_sound : forall m loc ty i s oc,
  ty <> 7 -> read_var loc i s = R oc s ->
  (exec m (IRead loc ty i) ;; exec m (IStore loc i)) s =
  match oc with
  | Some _ => R tt s
  | None => write_var loc i (default_cell ty) s
  end.
Proof. exact rule_read_store_sound. Qed.
Print Assumptions C02_peep_rule_read_store_sound.

(* ... which no later read of that variable can observe *)
Theorem C02_peep_read_after_materialise : forall m loc ty i s s',
  ty <> 7 -> read_var loc i s = R None s ->
  write_var loc i (default_cell ty) s = R tt s' ->
  exec m (IRead loc ty i) s' = exec m (IRead loc ty i) s.
Proof. exact read_after_materialise. Qed.
Print Assumptions C02_peep_read_after_materialise.

(* push ; not/neg on INTEGER and LONG operands.
   Full statement (false on the unchanged tree): for every type and operand.
   Missing: negation of the most negative value (clamped instead of trapping),
   every SINGLE/DOUBLE operand outside the LONG range (clamped), NOT of a
   float (folded instead of TYPE_MISMATCH): see the _refuted theorems. *)
Theorem C02_peep_rule_push_unary_sound_partial : forall m o tc z v' s,
  (tc = 1 /\ in_int z = true) \/ (tc = 2 /\ in_long z = true) ->
  (o = UNeg -> z <> (if tc =? 1 then -32768 else -2147483648)) ->
  fold1 o tc (PInt z) = FVal v' ->
  (push tc (PInt z) ;; exec m (un_instr o)) s = push tc v' s.
Proof. exact rule_push_unary_sound_partial. Qed.
Print Assumptions C02_peep_rule_push_unary_sound_partial.

Theorem C02_peep_rule_push_unary_refuted_int_min :
  exists v', fold1 UNeg 1 (PInt (-32768)) = FVal v' /\
    (push 1 (PInt (-32768)) ;; exec pm0 INeg) ps0 <> push 1 v' ps0.
Proof. exact rule_push_unary_refuted_int_min. Qed.
Print Assumptions C02_peep_rule_push_unary_refuted_int_min.

Theorem C02_peep_rule_push_unary_refuted_long_min :
  exists v', fold1 UNeg 2 (PInt (-2147483648)) = FVal v' /\
    (push 2 (PInt (-2147483648)) ;; exec pm0 INeg) ps0 <> push 2 v' ps0.
Proof. exact rule_push_unary_refuted_long_min. Qed.
Print Assumptions C02_peep_rule_push_unary_refuted_long_min.

Theorem C02_peep_rule_push_unary_refuted_float_clamp :
  exists v', fold1 UNeg 3 (PFlt (FFin false 1 35)) = FVal v' /\
    (push 3 (PFlt (FFin false 1 35)) ;; exec pm0 INeg) ps0 <> push 3 v' ps0.
Proof. exact rule_push_unary_refuted_float_clamp. Qed.
Print Assumptions C02_peep_rule_push_unary_refuted_float_clamp.

Theorem C02_peep_rule_push_unary_refuted_float_not :
  exists v', fold1 UNot 3 (PFlt (FFin false 3 (-1))) = FVal v' /\
    (push 3 (PFlt (FFin false 3 (-1))) ;; exec pm0 INot) ps0 <> push 3 v' ps0.
Proof. exact rule_push_unary_refuted_float_not. Qed.
Print Assumptions C02_peep_rule_push_unary_refuted_float_not.

(* push ; push ; op on INTEGER operands, every operator except "/".
   Full statement (false on the unchanged tree): every type and operator.
   Missing: "/" on integral operands (result typed as the operand), LONG
   results beyond 32 bits (limit() uses the 64-bit c_long), float operands
   (result not rounded to the operand type; logical ops / MOD folded although
   they trap at run time). *)
Theorem C02_peep_rule_push_binary_sound_partial : forall m o a b v' s,
  in_int a = true -> in_int b = true -> o <> BDiv ->
  fold2 o 1 (PInt a) (PInt b) = FVal v' ->
  (push 1 (PInt a) ;; push 1 (PInt b) ;; exec m (bin_instr o)) s = push 1 v' s.
Proof. exact rule_push_binary_sound_partial. Qed.
Print Assumptions C02_peep_rule_push_binary_sound_partial.

Theorem C02_peep_rule_push_binary_long_sound_partial : forall m o a b z s,
  in_long a = true -> in_long b = true -> o <> BDiv ->
  fold2 o 2 (PInt a) (PInt b) = FVal (PInt z) -> in_long z = true ->
  (push 2 (PInt a) ;; push 2 (PInt b) ;; exec m (bin_instr o)) s = push 2 (PInt z) s.
Proof. exact rule_push_binary_long_sound_partial. Qed.
Print Assumptions C02_peep_rule_push_binary_long_sound_partial.

Theorem C02_peep_rule_push_binary_refuted_long_range :
  exists z, fold2 BAdd 2 (PInt 2000000000) (PInt 2000000000) = FVal (PInt z) /\ in_long z = false.
Proof. exact rule_push_binary_refuted_long_range. Qed.
Print Assumptions C02_peep_rule_push_binary_refuted_long_range.

Theorem C02_peep_rule_push_binary_refuted_int_div :
  exists v', fold2 BDiv 1 (PInt 1) (PInt 2) = FVal v' /\
    (push 1 (PInt 1) ;; push 1 (PInt 2) ;; exec pm0 IDiv) ps0 <> push 1 v' ps0.
Proof. exact rule_push_binary_refuted_int_div. Qed.
Print Assumptions C02_peep_rule_push_binary_refuted_int_div.

(* jump+jump and after-halt delete an instruction that cannot execute:
   (1) jmp/ijmp/ret/retv never fall through: the state they leave does not
       depend on the pc they were entered with;
   (2) halt stops the machine;
   (3) the deleted instruction does not start at the address of any label
       (no PMark inside the window, instructions have positive size). *)
Theorem C02_peep_rule_jmp_jmp : forall m j s p r,
  jump_like j -> exec m j (set_pc s p) = R tt r -> exec m j s = R tt r.
Proof. exact rule_jmp_jmp. Qed.
Print Assumptions C02_peep_rule_jmp_jmp.

Theorem C02_peep_rule_after_halt : forall m s,
  exists s', exec m IHalt s = R tt s' /\ halted s' = true /\
    forall fuel t, run m fuel s' t = (s', (match fuel with O => StFuel | _ => StHalt end), t).
Proof. exact rule_after_halt. Qed.
Print Assumptions C02_peep_rule_after_halt.

Theorem C02_peep_dead_instruction_not_a_target : forall size routine_of,
  (forall p, is_mark p = false -> 0 < size p) ->
  forall pre j x post id a,
  is_mark j = false -> is_mark x = false ->
  In (id, a) (a_labels (asm size routine_of (pre ++ j :: x :: post))) ->
  a <> a_len (asm size routine_of (pre ++ [j])).
Proof. exact dead_instruction_not_a_target. Qed.
Print Assumptions C02_peep_dead_instruction_not_a_target.

(* non-vacuity: push! 2.5; conv!%; push% 3; add; jmp 7; jmp 8; label; push% 0; jz 7; halt; push% 1 *)
Example C02_peep_example :
  optimize_st 50
    [PPush 3 (PFlt (FFin false 5 (-1))); PConv 3 1; PPush 1 (PInt 3); PBin BAdd;
     PJmp 7; PJmp 8; PMark MLabel 9; PPush 1 (PInt 0); PJz 7; PHalt; PPush 1 (PInt 1)]
  = ([PPush 1 (PInt 5); PJmp 7; PMark MLabel 9; PJmp 7; PHalt], ODone).
Proof. vm_compute. reflexivity. Qed.
