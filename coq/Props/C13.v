(* C13 - debugger expression evaluation agrees with the running program.
   Only statements, [exact], Print Assumptions, Examples.
   Proofs: Proofs/DbgEvalProofs.v.  Models: Models/DbgEval.v ([dbg_print] = the
   evaluation half of Cmd.do_print = QvmEval.eval_lvalue + Expr.eval, faithful
   to /repo), Models/Layout.v (memlayout), Models/Cpu.v (the machine),
   Models/Fold.v (BinaryOp.eval / UnaryOp.eval = the constant folder).

   SPECIFICATION (what the property demands), against which the theorems are
   stated: at a stop point the value shown for an expression is the cell the
   program's own code for that expression pushes ([exec] of IRead / IReadidx /
   IArridx + IDeref on the same state, [rt_eval] for operators); unknown names
   and out-of-range subscripts give DEvalError; nothing is ever DCrash; the
   state is not changed.

   What is proved without restriction: purity; unknown names; scalar
   locals / SHARED globals / parameters; elements of static arrays of every
   rank; record fields along any path; subscripts out of range and wrong rank.  What is proved under a guard
   (_partial): operator expressions (the guard is the folder's: INTEGER
   operands, the 16 operators of FoldProofs.fold_sound_int).  What is refuted
   on the faithful model (_refuted): comparisons of non-integers (D01), crashes
   (D43), STATIC variables, names typed in the main routine while stopped in a
   procedure, evaluation after the main frame has been left, fields/subscripts
   on scalars.  All the scalar/element theorems carry the premise
   [main_type di n = ...]: the type the DEBUGGER assigns to the name (always
   looked up in the main routine) is the declared one - true in the main
   program and for names whose type is given by a suffix, false in general
   inside procedures (C13_typed_in_main_refuted). *)
From Coq Require Import ZArith List Bool.
From QV Require Import Sx Strs Fl Cell Machine Cpu Layout Fold LayoutProofs FoldProofs DbgEval DbgEvalProofs.
Import ListNotations.
Open Scope Z_scope.

(* ---- evaluation never alters program state ---- *)

(* [dbg_print : dbginfo -> st -> dexpr -> dres] returns no state at all; and it
   is a function of the heap and the current-frame register only: two machine
   states with the same memory give the same answer whatever their stack, pc,
   halt/trap registers, devices and output *)
Theorem C13_dbg_eval_pure : forall di s s' e,
  heap s = heap s' -> cur s = cur s' -> dbg_print di s e = dbg_print di s' e.
Proof. exact dbg_print_reads_only. Qed.
Print Assumptions C13_dbg_eval_pure.

(* ---- unknown names ---- *)

Theorem C13_dbg_unknown_name_is_eval_error : forall di s g sg cs n idx path,
  in_frame s g sg cs -> not_const di cs n ->
  has_key (d_globals di) n = false ->
  local_var_idx (d_env di) (r_params (find_routine di cs)) (r_locals (find_routine di cs)) n = None ->
  dbg_print di s (ELv n idx path) = DEvalError.
Proof. exact unknown_name_eval_error. Qed.
Print Assumptions C13_dbg_unknown_name_is_eval_error.

(* ---- scalars: same cell as the machine's read instruction, for every
        declaration list (the index is memlayout's on both sides) ---- *)

Theorem C13_dbg_scalar_agrees_local : forall di m s g sg cs n k idx c,
  in_frame s g sg cs -> not_const di cs n ->
  main_type di n = TBuiltin k ->
  has_key (d_globals di) n = false ->
  local_var_idx (d_env di) (r_params (find_routine di cs)) (r_locals (find_routine di cs)) n = Some idx ->
  0 <= idx ->
  nth_error (s_cells sg) (Z.to_nat idx) = Some (Some c) ->
  (cell_ty c =? 7) = false ->
  dbg_print di s (ELv n [] []) = DVal (pv_of c) /\
  exec m (IRead true (cell_ty c) idx) s = R tt (set_stack s (c :: stack s)).
Proof. exact local_scalar_agrees. Qed.
Print Assumptions C13_dbg_scalar_agrees_local.

Theorem C13_dbg_scalar_agrees_shared : forall di m s g sg cs sg0 n k idx c,
  in_frame s g sg cs -> not_const di cs n ->
  main_type di n = TBuiltin k ->
  has_key (d_globals di) n = true ->
  global_var_idx (d_env di) (d_globals di) n = Some idx ->
  0 <= idx ->
  nth_error (heap s) 0 = Some sg0 ->
  nth_error (s_cells sg0) (Z.to_nat idx) = Some (Some c) ->
  (cell_ty c =? 7) = false ->
  dbg_print di s (ELv n [] []) = DVal (pv_of c) /\
  exec m (IRead false (cell_ty c) idx) s = R tt (set_stack s (c :: stack s)).
Proof. exact global_scalar_agrees. Qed.
Print Assumptions C13_dbg_scalar_agrees_shared.

(* parameters (by reference to a variable / element / field, or by value
   through a frame temporary): one reference is followed, as `read@; deref` *)
Theorem C13_dbg_scalar_agrees_param : forall di m s g sg cs n k idx g1 i1 sg1 c,
  in_frame s g sg cs -> not_const di cs n ->
  main_type di n = TBuiltin k ->
  has_key (d_globals di) n = false ->
  local_var_idx (d_env di) (r_params (find_routine di cs)) (r_locals (find_routine di cs)) n = Some idx ->
  0 <= idx ->
  nth_error (s_cells sg) (Z.to_nat idx) = Some (Some (CRef g1 i1)) ->
  0 <= g1 -> nth_error (heap s) (Z.to_nat g1) = Some sg1 -> 0 <= i1 ->
  nth_error (s_cells sg1) (Z.to_nat i1) = Some (Some c) ->
  (cell_ty c =? 7) = false ->
  dbg_print di s (ELv n [] []) = DVal (pv_of c) /\
  exec m (IRead true 7 idx) s = R tt (set_stack s (CRef g1 i1 :: stack s)) /\
  exec m (IDeref (cell_ty c)) (set_stack s (CRef g1 i1 :: stack s)) = R tt (set_stack s (c :: stack s)).
Proof. exact param_agrees. Qed.
Print Assumptions C13_dbg_scalar_agrees_param.

(* ---- array elements: the debugger's nested lists + QArray.at select the
        cell of the machine's row-major arridx, for EVERY rank and shape ---- *)

Theorem C13_dbg_element_agrees : forall di m s g sg cs n bs0 k base es bs idxs cidx c,
  in_frame s g sg cs -> not_const di cs n ->
  main_type di n = TArray bs0 (TBuiltin k) ->
  has_key (d_globals di) n = false ->
  local_var_idx (d_env di) (r_params (find_routine di cs)) (r_locals (find_routine di cs)) n = Some base ->
  0 <= base ->
  nth_error (s_cells sg) (Z.to_nat base) = Some None ->
  has_header (s_cells sg) base es bs -> bs <> [] ->
  Forall (fun b => fst b <= snd b) bs -> 0 < es ->
  base + header_size bs + array_cells es bs <= Z.of_nat (length (s_cells sg)) ->
  elem_index base es bs idxs = Some cidx ->
  nth_error (s_cells sg) (Z.to_nat cidx) = Some (Some c) ->
  (cell_ty c =? 7) = false ->
  dbg_print di s (ELv n (map ilit idxs) []) = DVal (pv_of c) /\
  forall s1 rest, heap s1 = heap s -> stack s1 = CRef g base :: map CL (rev idxs) ++ rest ->
    exec m (IArridx (rank bs)) s1 = R tt (set_stack s1 (CRef g cidx :: rest)) /\
    exec m (IDeref (cell_ty c)) (set_stack s1 (CRef g cidx :: rest)) = R tt (set_stack s1 (c :: rest)).
Proof. exact element_agrees_in_segment. Qed.
Print Assumptions C13_dbg_element_agrees.

(* the core of it: indexing the nested lists = reading at the row-major offset *)
Theorem C13_dbg_nested_lists_are_row_major : forall leaf es bs base t idxs n,
  bs <> [] ->
  read_sub leaf es bs base = Ok t ->
  elem_number bs idxs = Some n ->
  exists x, leaf (base + n * es) = Ok x /\ arr_at t idxs bs = Ok x.
Proof. exact read_sub_at. Qed.
Print Assumptions C13_dbg_nested_lists_are_row_major.

(* a never-assigned element reads as 0 / "" on both sides *)
Theorem C13_dbg_element_unset_default : forall di s g sg cs n bs0 k base es bs idxs cidx t,
  in_frame s g sg cs -> not_const di cs n ->
  main_type di n = TArray bs0 (TBuiltin k) ->
  has_key (d_globals di) n = false ->
  local_var_idx (d_env di) (r_params (find_routine di cs)) (r_locals (find_routine di cs)) n = Some base ->
  0 <= base ->
  nth_error (s_cells sg) (Z.to_nat base) = Some None ->
  has_header (s_cells sg) base es bs -> bs <> [] ->
  Forall (fun b => fst b <= snd b) bs -> 0 < es ->
  read_sub (cell_leaf (heap s) g) es bs (base + header_size bs) = Ok t ->
  elem_index base es bs idxs = Some cidx ->
  nth_error (s_cells sg) (Z.to_nat cidx) = Some None ->
  1 <= k <= 5 ->
  dbg_print di s (ELv n (map ilit idxs) []) = DVal (pv_of (default_cell k)).
Proof. exact element_unset_default. Qed.
Print Assumptions C13_dbg_element_unset_default.

(* ---- record fields: read_struct + get_field return the cell at
        base + get_dotted_index, i.e. the operand of the program's readidx,
        for every record environment and every path (any nesting) ---- *)

Theorem C13_dbg_field_agrees : forall di m s g sg cs n rn base path off ft c0 c v,
  in_frame s g sg cs -> not_const di cs n ->
  main_type di n = TRecord rn ->
  has_key (d_globals di) n = false ->
  local_var_idx (d_env di) (r_params (find_routine di cs)) (r_locals (find_routine di cs)) n = Some base ->
  0 <= base ->
  nth_error (s_cells sg) (Z.to_nat base) = Some c0 ->
  (forall g1 i1, c0 <> Some (CRef g1 i1)) ->
  read_struct (heap s) (d_env di) rn g base = Ok v ->
  path <> [] ->
  dotted_index (d_env di) (TRecord rn) path = Some off ->
  dotted_type (d_env di) (TRecord rn) path = Some ft ->
  (forall m0, ft <> TRecord m0) ->
  0 <= base + off ->
  nth_error (s_cells sg) (Z.to_nat (base + off)) = Some (Some c) ->
  (cell_ty c =? 7) = false ->
  dbg_print di s (ELv n [] path) = DVal (pv_of c) /\
  exec m (IReadidx true (cell_ty c) base off) s = R tt (set_stack s (c :: stack s)).
Proof. exact field_agrees. Qed.
Print Assumptions C13_dbg_field_agrees.

Theorem C13_dbg_record_path_is_dotted_index : forall h g env n base v,
  read_struct h env n g base = Ok v ->
  forall path off ft, path <> [] ->
  dotted_index env (TRecord n) path = Some off ->
  dotted_type env (TRecord n) path = Some ft ->
  (forall m, ft <> TRecord m) ->
  exists c, get_cell h g (base + off) = Ok c /\ get_field v path = Ok (cell_or_default ft c).
Proof. exact read_struct_path. Qed.
Print Assumptions C13_dbg_record_path_is_dotted_index.

(* ---- subscripts out of range / wrong number of subscripts ---- *)

Theorem C13_dbg_out_of_range_is_eval_error : forall di s g sg cs n bs0 k base es bs idxs t,
  in_frame s g sg cs -> not_const di cs n ->
  main_type di n = TArray bs0 (TBuiltin k) ->
  has_key (d_globals di) n = false ->
  local_var_idx (d_env di) (r_params (find_routine di cs)) (r_locals (find_routine di cs)) n = Some base ->
  0 <= base ->
  nth_error (s_cells sg) (Z.to_nat base) = Some None ->
  has_header (s_cells sg) base es bs -> bs <> [] ->
  read_sub (cell_leaf (heap s) g) es bs (base + header_size bs) = Ok t ->
  idxs <> [] ->
  elem_number bs idxs = None ->
  dbg_print di s (ELv n (map ilit idxs) []) = DEvalError.
Proof. exact out_of_range_eval_error. Qed.
Print Assumptions C13_dbg_out_of_range_is_eval_error.

(* ---- operators ---- *)

(* over numeric leaves holding a value of their static type the debugger IS
   the constant folder applied to the values read (every operator, any nesting) *)
Theorem C13_dbg_expr_is_fold : forall di s rho e,
  num_expr di s rho e -> dbg_print di s e = dres_of (XF (fold_eval (to_c rho e))).
Proof. exact dbg_print_is_fold. Qed.
Print Assumptions C13_dbg_expr_is_fold.

(* guard = FoldProofs.fold_sound_int: two INTEGER variables, the 16 operators
   + - * \ MOD AND OR XOR EQV IMP = <> < > <= >=.  MISSING for the full
   statement: LONG arithmetic that overflows (D02), every float operand
   (D01, SINGLE rounding), strings (D03), / and ^ : see the _refuted
   theorems here and in Props/C02 *)
Theorem C13_dbg_expr_agrees_partial : forall di m s g sg cs rho x y ix iy op a b,
  In op int_ops ->
  in_frame s g sg cs -> not_const di cs x -> not_const di cs y ->
  main_type di x = TBuiltin 1 -> main_type di y = TBuiltin 1 ->
  has_key (d_globals di) x = false -> has_key (d_globals di) y = false ->
  local_var_idx (d_env di) (r_params (find_routine di cs)) (r_locals (find_routine di cs)) x = Some ix ->
  local_var_idx (d_env di) (r_params (find_routine di cs)) (r_locals (find_routine di cs)) y = Some iy ->
  0 <= ix -> 0 <= iy ->
  nth_error (s_cells sg) (Z.to_nat ix) = Some (Some (CI a)) ->
  nth_error (s_cells sg) (Z.to_nat iy) = Some (Some (CI b)) ->
  in_int a = true -> in_int b = true ->
  rho x = (1, PInt a) -> rho y = (1, PInt b) ->
  let e := EBin op (ELv x [] []) (ELv y [] []) in
  let c := CBin op (CNum 1 (PInt a)) (CNum 1 (PInt b)) in
  dbg_print di s e = dres_of (XF (fold_eval c)) /\
  (exists i j, push_lit 1 (PInt a) = CgOk [i] /\ push_lit 1 (PInt b) = CgOk [j] /\
     (forall s1, heap s1 = heap s -> cur s1 = cur s -> exec m (IRead true 1 ix) s1 = exec m i s1) /\
     (forall s1, heap s1 = heap s -> cur s1 = cur s -> exec m (IRead true 1 iy) s1 = exec m j s1)) /\
  (forall v, dbg_print di s e = DVal v -> exists cell, rt_eval c = RVal cell /\ pv_of cell = v).
Proof. exact int_binop_agrees. Qed.
Print Assumptions C13_dbg_expr_agrees_partial.

(* ---- where the unchanged code violates the property ---- *)

Theorem C13_dbg_cmp_float_refuted :
  dbg_print ex_di in_main (EBin OLt (lv n_u) (lv n_v)) = DVal (PInt 0) /\
  rt_eval (CBin OLt (CNum 3 (PFlt f15)) (CNum 3 (PFlt f_1_6))) = RVal (CI (-1)).
Proof. exact cmp_float_refuted. Qed.
Print Assumptions C13_dbg_cmp_float_refuted.

(* D43: x \ 0, an INTEGER overflow, 1 / 3, a subscripted constant, a field of a
   scalar inside an operator, any variable once the main frame is gone *)
Theorem C13_dbg_never_crashes_refuted :
  dbg_print ex_di in_main (EBin OIntdiv (lv n_a) (ENum 1 (PInt 0))) = DCrash K_ZERODIV /\
  dbg_print ex_di in_main (EBin OMul (lv n_a) (ENum 1 (PInt 20000))) = DCrash K_OVERFLOW /\
  dbg_print ex_di in_main (EBin ODiv (ENum 1 (PInt 1)) (ENum 1 (PInt 3))) = DCrash K_OVERFLOW /\
  dbg_print ex_di in_main (ELv n_c [ilit 1] []) = DCrash K_VALUE /\
  dbg_print ex_di in_main (EBin OAdd (ELv n_a [] [n_x]) (ENum 1 (PInt 1))) = DCrash K_COMPILE /\
  dbg_print ex_di finished (lv n_a) = DCrash K_ATTR.
Proof. exact crash_refuted. Qed.
Print Assumptions C13_dbg_never_crashes_refuted.

Theorem C13_dbg_after_finish_refuted : forall di s n idx path,
  cur s = None -> dbg_print di s (ELv n idx path) = DCrash K_ATTR.
Proof. exact no_frame_crashes. Qed.
Print Assumptions C13_dbg_after_finish_refuted.

Theorem C13_dbg_static_refuted : forall m,
  exec m (IRead false 1 1) in_sub = R tt (set_stack in_sub (CI 5 :: stack in_sub)) /\
  dbg_print ex_di in_sub (lv n_st) = DEvalError.
Proof. exact static_refuted. Qed.
Print Assumptions C13_dbg_static_refuted.

Theorem C13_typed_in_main_refuted : forall m,
  exec m (IReadidx true 2 1 1) in_sub = R tt (set_stack in_sub (CL 41 :: stack in_sub)) /\
  dbg_print ex_di in_sub (ELv n_lq [] [n_y]) = DVal (PInt 40) /\
  dtype ex_di (lv n_w) = Some 3.
Proof. exact typed_in_main_refuted. Qed.
Print Assumptions C13_typed_in_main_refuted.

Theorem C13_dbg_scalar_path_refuted :
  dbg_print ex_di in_main (ELv n_a [] [n_x]) = DVal (PInt 3) /\
  dbg_print ex_di in_main (ELv n_a [ilit 1] []) = DVal (PInt 3).
Proof. exact scalar_path_refuted. Qed.
Print Assumptions C13_dbg_scalar_path_refuted.

(* ---- non-vacuity ---- *)

Example C13_example_values :
  dbg_print ex_di in_main (lv n_a) = DVal (PInt 3) /\
  dbg_print ex_di in_main (ELv n_arr [ilit 2; ilit 0] []) = DVal (PInt 20) /\
  dbg_print ex_di in_main (ELv n_arr [ilit 3; ilit 0] []) = DEvalError /\
  dbg_print ex_di in_main (ELv n_p [] [n_y]) = DVal (PInt 9) /\
  dbg_print ex_di in_sub (lv n_q) = DVal (PInt 3) /\
  dbg_print ex_di in_main (EBin OAdd (lv n_a) (EBin OMul (lv n_b) (ENum 1 (PInt 2)))) = DVal (PInt 11).
Proof. vm_compute. repeat split; reflexivity. Qed.

(* the premises of the general theorems hold on a concrete stopped program *)
Example C13_example_scalar_premises : forall m,
  dbg_print ex_di in_main (lv n_b) = DVal (PInt 4) /\
  exec m (IRead true 1 1) in_main = R tt (set_stack in_main (CI 4 :: stack in_main)).
Proof. exact ex_local_scalar. Qed.

Example C13_example_element_premises : forall m s1 rest,
  heap s1 = heap in_main -> stack s1 = CRef 1 4 :: CL 0 :: CL 2 :: rest ->
  dbg_print ex_di in_main (ELv n_arr [ilit 2; ilit 0] []) = DVal (PInt 20) /\
  exec m (IArridx 2) s1 = R tt (set_stack s1 (CRef 1 13 :: rest)).
Proof. exact ex_element. Qed.
