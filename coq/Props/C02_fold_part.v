(* C02 - optimisation and compile-time evaluation never change behaviour.
   CONSTANT-FOLDER HALF (to be merged into Props/C02.v with the peephole half).
   Only statements, [exact], Print Assumptions.  Proofs: Proofs/FoldProofs.v.
   Models: Models/Fold.v ([fold] = Expr.fold as it is in /repo, [rt_eval] = the
   code gen_* emits for the expression run by Cpu.exec from an empty stack,
   [fold_fixed] = the folder after fixes/C02-fold.diff).

   sound_at e  :=  (fold e = Folded ty v -> rt_eval e = RVal (the cell of type ty holding v))
                /\ (rt_eval e traps -> fold e = NotFolded)
                /\ (fold e is never a compiler crash)                                   *)
From Coq Require Import ZArith List Bool.
From QV Require Import Sx Strs Fl Cell Machine Cpu Fold FoldProofs.
Import ListNotations.
Open Scope Z_scope.

(* ---- the folder as it is: what is true ---- *)

(* every pair of INTEGER literals (all 65536^2 pairs), 16 operators *)
Theorem C02_fold_sound_int : forall op a b, In op int_ops ->
  in_int a = true -> in_int b = true ->
  sound_at (CBin op (CNum 1 (PInt a)) (CNum 1 (PInt b))).
Proof. exact fold_sound_int. Qed.
Print Assumptions C02_fold_sound_int.

(* every pair of LONG literals: logical operators, MOD, comparisons *)
Theorem C02_fold_sound_long : forall op a b, In op long_ops ->
  in_long a = true -> in_long b = true ->
  sound_at (CBin op (CNum 2 (PInt a)) (CNum 2 (PInt b))).
Proof. exact fold_sound_long. Qed.
Print Assumptions C02_fold_sound_long.

(* + - * \ on LONG literals only under the guard "the result is a LONG": the
   folder's own range test is 64 bits wide (ctypes.c_long) and never fires
   (C02_fold_long_arith_always_folds), see C02_fold_long_overflow_refuted *)
Theorem C02_fold_long_arith_partial : forall op a b, In op long_arith_ops ->
  in_long a = true -> in_long b = true ->
  in_long (long_raw op a b) = true ->
  sound_at (CBin op (CNum 2 (PInt a)) (CNum 2 (PInt b))).
Proof. exact fold_long_arith_partial. Qed.
Print Assumptions C02_fold_long_arith_partial.

Theorem C02_fold_long_arith_always_folds : forall op a b, In op [OAdd; OSub; OMul] ->
  in_long a = true -> in_long b = true ->
  fold (CBin op (CNum 2 (PInt a)) (CNum 2 (PInt b))) = Folded 2 (PInt (long_raw op a b)).
Proof. exact fold_long_arith_always_folds. Qed.
Print Assumptions C02_fold_long_arith_always_folds.

(* + - * on DOUBLE literals (other than the literal -0#, see
   C02_fold_negative_zero_refuted): folder and machine apply the same Fl
   operation; overflow to inf / NaN is the same inf / NaN on both sides *)
Theorem C02_fold_float_arith_sound : forall op x y, In op [OAdd; OSub; OMul] ->
  x <> neg_zero -> y <> neg_zero ->
  fold (CBin op (dbl x) (dbl y)) = Folded 4 (PFlt (flop op x y)) /\
  rt_eval (CBin op (dbl x) (dbl y)) = RVal (CD (flop op x y)).
Proof. exact fold_float_arith_sound. Qed.
Print Assumptions C02_fold_float_arith_sound.

(* / on DOUBLE literals: zero divisor = not folded + DIVISION_BY_ZERO at run time *)
Theorem C02_fold_float_div_sound : forall x y, x <> neg_zero -> y <> neg_zero ->
  (is_zero y = true ->
     fold (CBin ODiv (dbl x) (dbl y)) = NotFolded /\
     rt_eval (CBin ODiv (dbl x) (dbl y)) = RTrap T_DIVISION_BY_ZERO) /\
  (is_zero y = false ->
     fold (CBin ODiv (dbl x) (dbl y)) = Folded 4 (PFlt (fdiv x y)) /\
     rt_eval (CBin ODiv (dbl x) (dbl y)) = RVal (CD (fdiv x y))).
Proof. exact fold_float_div_sound. Qed.
Print Assumptions C02_fold_float_div_sound.

(* the static bound used by the layout = the LONG the generated code stores,
   for INTEGER / LONG literal bounds *)
Theorem C02_static_bound_agrees : forall ty z, ty = 1 \/ ty = 2 -> in_ty ty z = true ->
  static_bound (CNum ty (PInt z)) = BVal z /\ rt_bound (CNum ty (PInt z)) = RVal (CL z).
Proof. exact static_bound_agrees. Qed.
Print Assumptions C02_static_bound_agrees.

(* ---- the folder as it is: what is false (witnesses on the faithful model) ---- *)

Theorem C02_fold_long_overflow_refuted :
  exists a b v, in_long a = true /\ in_long b = true /\
    fold (CBin OAdd (CNum 2 (PInt a)) (CNum 2 (PInt b))) = Folded 2 (PInt v) /\
    in_long v = false /\
    rt_eval (CBin OAdd (CNum 2 (PInt a)) (CNum 2 (PInt b))) = RTrap T_INVALID_CELL_VALUE /\
    rt_eval (CNum 2 (PInt v)) = RAsmCrash KStruct.
Proof. exact fold_long_overflow_refuted. Qed.
Print Assumptions C02_fold_long_overflow_refuted.

Theorem C02_fold_long_intdiv_refuted :
  exists a b v, in_long a = true /\ in_long b = true /\
    fold (CBin OIntdiv (CNum 2 (PInt a)) (CNum 2 (PInt b))) = Folded 2 (PInt v) /\
    in_long v = false /\
    rt_eval (CBin OIntdiv (CNum 2 (PInt a)) (CNum 2 (PInt b))) = RTrap T_INVALID_CELL_VALUE.
Proof. exact fold_long_intdiv_refuted. Qed.
Print Assumptions C02_fold_long_intdiv_refuted.

Theorem C02_fold_cmp_float_refuted :
  fold (CBin OLt (CNum 3 (PFlt f_1_5)) (CNum 3 (PFlt f_1_6))) = Folded 1 (PInt 0) /\
  rt_eval (CBin OLt (CNum 3 (PFlt f_1_5)) (CNum 3 (PFlt f_1_6))) = RVal (CI (-1)).
Proof. exact fold_cmp_float_refuted. Qed.
Print Assumptions C02_fold_cmp_float_refuted.

Theorem C02_fold_string_cmp_refuted :
  fold (CBin OEq (CStrLit [97]) (CStrLit [98])) = CompilerCrash KValue /\
  rt_eval (CBin OEq (CStrLit [97]) (CStrLit [98])) = RVal (CI 0) /\
  fold (CBin OEq (CStrLit [49]) (CStrLit [50])) = Folded 1 (PInt 12) /\
  rt_eval (CBin OEq (CStrLit [49]) (CStrLit [50])) = RVal (CI 0).
Proof. exact fold_string_cmp_refuted. Qed.
Print Assumptions C02_fold_string_cmp_refuted.

Theorem C02_fold_neg_clamp_refuted :
  fold (CUn UNeg (CNum 4 (PFlt f_3e10))) = Folded 4 (PFlt (of_Z (-2147483648))) /\
  rt_eval (CUn UNeg (CNum 4 (PFlt f_3e10))) = RVal (CD (fneg f_3e10)) /\
  fold (CUn UNeg (CNum 1 (PInt (-32768)))) = Folded 1 (PInt (-32768)) /\
  rt_eval (CUn UNeg (CNum 1 (PInt (-32768)))) = RTrap T_INVALID_CELL_VALUE /\
  fold (CUn UNot (CNum 4 (PFlt f_1e10))) = Folded 2 (PInt (-2147483648)) /\
  rt_eval (CUn UNot (CNum 4 (PFlt f_1e10))) = RTrap T_INVALID_CELL_VALUE.
Proof. exact fold_neg_clamp_refuted. Qed.
Print Assumptions C02_fold_neg_clamp_refuted.

Theorem C02_fold_single_literal_refuted :
  exists v, fold (CBin OAdd (CNum 3 (PFlt f_0_1)) (CNum 4 (PFlt f_one))) = Folded 4 (PFlt v) /\
            rt_eval (CBin OAdd (CNum 3 (PFlt f_0_1)) (CNum 4 (PFlt f_one))) <> RVal (CD v).
Proof. exact fold_single_literal_refuted. Qed.
Print Assumptions C02_fold_single_literal_refuted.

Theorem C02_fold_single_overflow_refuted :
  exists v, fold (CBin OAdd (CNum 3 (PFlt f_3e38)) (CNum 3 (PFlt f_3e38))) = Folded 3 (PFlt v) /\
            rt_eval (CBin OAdd (CNum 3 (PFlt f_3e38)) (CNum 3 (PFlt f_3e38))) = RTrap T_INVALID_CELL_VALUE /\
            rt_eval (CNum 3 (PFlt v)) = RAsmCrash KOverflow.
Proof. exact fold_single_overflow_refuted. Qed.
Print Assumptions C02_fold_single_overflow_refuted.

(* C02_fold_intdiv_float_refuted was removed: `\` with a float operand is typed integral since the fix commit (D46) *)

Theorem C02_fold_exp_negative_refuted :
  fold (CBin OExp (CNum 1 (PInt 2)) (CNum 1 (PInt (-1)))) = CompilerCrash KType /\
  rt_eval (CBin OExp (CNum 1 (PInt 2)) (CNum 1 (PInt (-1)))) = RVal (CI 0).
Proof. exact fold_exp_negative_refuted. Qed.
Print Assumptions C02_fold_exp_negative_refuted.

Theorem C02_fold_negative_zero_refuted :
  fold (CUn UNeg (CNum 4 (PFlt (fzero false)))) = Folded 4 (PFlt (fzero true)) /\
  rt_eval (CUn UNeg (CNum 4 (PFlt (fzero false)))) = RVal (CD (fzero true)) /\
  rt_eval (CNum 4 (PFlt (fzero true))) = RVal (CD (fzero false)).
Proof. exact fold_negative_zero_refuted. Qed.
Print Assumptions C02_fold_negative_zero_refuted.

Theorem C02_fold_logical_float_refuted :
  exists v, fold (CBin OAnd (CNum 4 (PFlt f_1e10)) (CNum 4 (PFlt f_1e10))) = Folded 2 (PInt v) /\
            in_long v = false /\
            rt_eval (CBin OAnd (CNum 4 (PFlt f_1e10)) (CNum 4 (PFlt f_1e10))) = RTrap T_INVALID_CELL_VALUE.
Proof. exact fold_logical_float_refuted. Qed.
Print Assumptions C02_fold_logical_float_refuted.

Theorem C02_static_bound_refuted :
  static_bound (CUn UNeg (CParen (CBin OLt (CNum 3 (PFlt f_1_5)) (CNum 3 (PFlt f_1_6))))) = BVal 0 /\
  rt_bound (CUn UNeg (CParen (CBin OLt (CNum 3 (PFlt f_1_5)) (CNum 3 (PFlt f_1_6))))) = RVal (CL 1).
Proof. exact static_bound_refuted. Qed.
Print Assumptions C02_static_bound_refuted.

(* ---- the folder after fixes/C02-fold.diff: sound without any guard ---- *)

(* for EVERY constant expression (all 18 binary and 3 unary operators, all
   types, all values, any nesting): a folded literal is exactly the cell the
   generated code computes at run time *)
Theorem C02_fold_fixed_sound : forall e ty v, fold_fixed e = Folded ty v ->
  exists c, cell_of_val ty v = Some c /\ rt_eval_fixed e = RVal c.
Proof. exact fold_fixed_sound. Qed.
Print Assumptions C02_fold_fixed_sound.

(* an expression that traps at run time is never folded to a value ... *)
Theorem C02_fold_fixed_keeps_traps : forall e code, rt_eval_fixed e = RTrap code ->
  forall ty v, fold_fixed e <> Folded ty v.
Proof. exact fold_fixed_keeps_traps. Qed.
Print Assumptions C02_fold_fixed_keeps_traps.

(* ... and never crashes the compiler *)
Theorem C02_fold_fixed_never_crashes : forall e k, fold_fixed e <> CompilerCrash k.
Proof. exact fold_fixed_never_crashes. Qed.
Print Assumptions C02_fold_fixed_never_crashes.

(* ---- non-vacuity ---- *)

(* 32767% + 1% : not folded, traps at run time *)
Example C02_fold_example_overflow :
  fold (CBin OAdd (CNum 1 (PInt 32767)) (CNum 1 (PInt 1))) = NotFolded /\
  rt_eval (CBin OAdd (CNum 1 (PInt 32767)) (CNum 1 (PInt 1))) = RTrap T_INVALID_CELL_VALUE.
Proof. vm_compute. split; reflexivity. Qed.

(* -7% MOD 3% = 2 (floor semantics on both sides) *)
Example C02_fold_example_mod :
  fold (CBin OMod (CNum 1 (PInt (-7))) (CNum 1 (PInt 3))) = Folded 1 (PInt 2) /\
  rt_eval (CBin OMod (CNum 1 (PInt (-7))) (CNum 1 (PInt 3))) = RVal (CI 2).
Proof. vm_compute. split; reflexivity. Qed.

(* the fixed folder on the D01 witness and on a nested mixed-type expression:
   (0.1! + 0.2!) * 3#  folds to the cell the machine computes *)
Example C02_fold_example_fixed :
  fold_fixed (CBin OLt (CNum 3 (PFlt f_1_5)) (CNum 3 (PFlt f_1_6))) = Folded 1 (PInt (-1)) /\
  (exists v, fold_fixed (CBin OMul (CParen (CBin OAdd (CNum 3 (PFlt f_0_1)) (CNum 3 (PFlt (fl_of_bits 4596373779694328218)))))
                              (CNum 4 (PFlt (of_Z 3)))) = Folded 4 (PFlt v) /\
             rt_eval_fixed (CBin OMul (CParen (CBin OAdd (CNum 3 (PFlt f_0_1)) (CNum 3 (PFlt (fl_of_bits 4596373779694328218)))))
                              (CNum 4 (PFlt (of_Z 3)))) = RVal (CD v)) /\
  fold_fixed (CBin OAdd (CNum 2 (PInt 2000000000)) (CNum 2 (PInt 2000000000))) = NotFolded.
Proof.
  split; [vm_compute; reflexivity|]. split; [|vm_compute; reflexivity].
  eexists (match fold_fixed (CBin OMul (CParen (CBin OAdd (CNum 3 (PFlt f_0_1)) (CNum 3 (PFlt (fl_of_bits 4596373779694328218)))))
                              (CNum 4 (PFlt (of_Z 3)))) with Folded _ (PFlt v) => v | _ => FNaN end).
  vm_compute. split; reflexivity.
Qed.
