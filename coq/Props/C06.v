(* C06 - the compiler is total: any text yields a module or a diagnostic.

   What is decided here by theorems is ONLY the part of the pipeline that is
   a pure list / offset computation and is modelled in Models/Tokens.v:
     - the two grammar parse actions that assume an arity
       (parse_left_assoc_binary_expr, parse_right_assoc_binary_expr),
     - the offset -> (line, column) arithmetic a diagnostic needs
       (convert_index_to_line_col, display_with_context).
   The pyparsing stage on arbitrary strings, the compile passes, the folder,
   the code generator and the assembler are NOT modelled for this property:
   there the check is a search with the oracle "only SyntaxError /
   CompileError with a position inside the text may escape"
   (tools/props/c06.py).
   Only statements, [exact], Print Assumptions.  Proofs: Proofs/TokensProofs.v *)
From Coq Require Import ZArith List Bool.
From QV Require Import Sx Tokens TokensProofs.
Import ListNotations.
Open Scope Z_scope.

(* The left-associative action never crashes on a well-shaped list
   (operand (operator operand)*, every operator string a binary operator) and
   returns the left-nested tree ((a o1 b) o2 c) ...: by induction on the list *)
Theorem C06_left_assoc_total : forall toks,
  well_shaped is_binop_str toks = true ->
  exists a pairs, toks = encode a pairs /\ parse_left toks = RTree (left_nest a pairs).
Proof. exact left_assoc_total_shape. Qed.
Print Assumptions C06_left_assoc_total.

(* the well-shaped lists are EXACTLY the domain of the action: on every other
   list it ends in one of the modelled host exceptions *)
Theorem C06_left_assoc_tree_iff_shape : forall toks,
  (exists t, parse_left toks = RTree t) <-> well_shaped is_binop_str toks = true.
Proof. exact left_assoc_tree_iff_shape. Qed.
Print Assumptions C06_left_assoc_tree_iff_shape.

(* ... and the in-order traversal of the result is the input sequence *)
Theorem C06_left_assoc_inorder : forall a pairs,
  forallb (fun p => is_binop_str (fst p)) pairs = true ->
  exists t, parse_left (encode (Leaf a) (leaves pairs)) = RTree t /\
            inorder t = items a pairs.
Proof. exact left_assoc_inorder. Qed.
Print Assumptions C06_left_assoc_inorder.

(* The right-associative action on operand ("^" operand)* returns
   a ^ (b ^ (c ...)) *)
Theorem C06_right_assoc_total : forall toks,
  well_shaped is_caret_str toks = true ->
  exists a pairs, toks = encode a pairs /\ parse_right toks = RTree (right_nest a pairs).
Proof. exact right_assoc_total_shape. Qed.
Print Assumptions C06_right_assoc_total.

(* On the shapes exponent_expr REALLY produces (sign^k operand ["^" node],
   the atom rule leaves its sign tokens in the list) the action returns a tree
   iff there is no sign; with any sign it fails an assert.  So the full
   statement "the action is total on what the grammar hands it" is false: *)
Theorem C06_right_assoc_real_shapes_partial : forall toks k,
  exponent_shape toks = Some k ->
  (k = O -> exists t, parse_right toks = RTree t) /\
  (k <> O -> parse_right toks = RCrash CAssert).
Proof. exact exponent_shape_outcome. Qed.
Print Assumptions C06_right_assoc_real_shapes_partial.

(* D05 witness: `2 ^ -1` - the nested exponent_expr receives ["-"; 1] *)
Theorem C06_right_assoc_unary_minus_refuted :
  exists toks, exponent_shape toks = Some 1%nat /\ parse_right toks = RCrash CAssert.
Proof. exact right_assoc_unary_minus_refuted. Qed.
Print Assumptions C06_right_assoc_unary_minus_refuted.

(* Every offset inside the text has a line and a column (debug map, -g) ... *)
Theorem C06_line_col_domain : forall s off,
  (0 <= off < Z.of_nat (length s) ->
     exists l c, line_col s off = Some (l, c) /\ 1 <= l <= 1 + count_nl s /\ 0 <= c) /\
  (off < 0 \/ Z.of_nat (length s) <= off -> line_col s off = None).
Proof. exact line_col_domain. Qed.
Print Assumptions C06_line_col_domain.

(* ... and a diagnostic whose position is inside the text can be displayed:
   display_with_context finds a target line within the text and a caret
   column; a position before or after the text has no target line (the host
   TypeError in main.py) *)
Theorem C06_display_position_total : forall s loc,
  (0 <= loc < Z.of_nat (length s) ->
     exists l c, display_target s loc = Some (l, c) /\
                 1 <= l <= 1 + count_nl s /\ 1 <= c <= loc + 1) /\
  (loc < 0 \/ Z.of_nat (length s) < loc -> display_target s loc = None).
Proof. exact display_position_total. Qed.
Print Assumptions C06_display_position_total.

(* the end-of-text offset is NOT displayable when the text ends in a newline
   (or is empty): "inside the text" must be read as loc < len *)
Theorem C06_display_at_end_newline_refuted : forall s,
  display_target (s ++ [ch_nl]) (Z.of_nat (length (s ++ [ch_nl]))) = None.
Proof. exact display_target_at_end_newline. Qed.
Print Assumptions C06_display_at_end_newline_refuted.

(* non-vacuity: 1 + 2 * 3 arrives at addsub_expr as [1; "+"; (2*3)] *)
Example C06_example_left :
  parse_left [TNode (Leaf 1); TStr 1; TNode (Bin 3 (Leaf 2) (Leaf 3)); TStr 2; TNode (Leaf 4)]
  = RTree (Bin 2 (Bin 1 (Leaf 1) (Bin 3 (Leaf 2) (Leaf 3))) (Leaf 4)).
Proof. vm_compute. reflexivity. Qed.

Example C06_example_right :
  parse_right [TNode (Leaf 2); TStr 0; TNode (Bin 0 (Leaf 3) (Leaf 4))]
  = RTree (Bin 0 (Leaf 2) (Bin 0 (Leaf 3) (Leaf 4))).
Proof. vm_compute. reflexivity. Qed.

(* "ab\ncd", offset 4 ('d'): line 2; the caret column is 2 *)
Example C06_example_display :
  display_target [97; 98; 10; 99; 100] 4 = Some (2, 2) /\
  line_col [97; 98; 10; 99; 100] 4 = Some (2, 2).
Proof. vm_compute. split; reflexivity. Qed.
