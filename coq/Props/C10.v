(* C10 - ON ERROR, RESUME and RESUME NEXT follow statement-level semantics.
   Proofs: Proofs/ErrProofs.v, about the machine model (Models/Cpu.v: tick,
   do_trap = QvmCpu._trap, exec_errres = _exec_errres/_exec_errresn, find_stmt =
   DebugInfo.find_stmt).  The model describes the tree AFTER the fix commits
   for D19 (failing address recorded for division by zero), D45 (RESUME leaves
   the handler) and D20 (RESUME NEXT mode that cannot resume reports the error). *)
From Coq Require Import ZArith List Bool.
From QV Require Import Sx Strs Fl Cell Machine Cpu ErrProofs.
Import ListNotations.
Open Scope Z_scope.

(* armed and not already handling: ANY trap (whatever instruction raised it)
   transfers control to the handler, marks it active and records the code *)
Theorem C10_trap_enters_handler : forall m c kw s a,
  ttarget_ s = TAddr a -> handler_active s = false ->
  do_trap m c kw s = Next (set_handler_active (set_pc (set_last_trap s (Some c) kw) a) true).
Proof. exact trap_enters_handler. Qed.
Print Assumptions C10_trap_enters_handler.

Theorem C10_handler_state : forall s c kw a,
  let s' := set_handler_active (set_pc (set_last_trap s (Some c) kw) a) true in
  pc s' = a /\ handler_active s' = true /\ last_trap s' = Some c /\
  stack s' = stack s /\ heap s' = heap s /\ cur s' = cur s /\ events s' = events s /\
  trapped_addr s' = trapped_addr s /\ ttarget_ s' = ttarget_ s.
Proof. exact handler_state. Qed.
Print Assumptions C10_handler_state.

(* ERR identifies the kind of error *)
Theorem C10_err_identifies : forall m s c,
  last_trap s = Some c -> in_int c = true ->
  exec m IErrget s = R tt (set_stack s (CI c :: stack s)).
Proof. exact errget_pushes_code. Qed.
Print Assumptions C10_err_identifies.

(* the address of the failing instruction is recorded for EVERY error source:
   a raised trap ... *)
Theorem C10_failing_address_recorded : forall m s i size c kw s3,
  in_code m s ->
  decode (skipn (Z.to_nat (pc s)) (m_code m)) = DOk i size ->
  (forall idx, i <> IPushStr idx) ->
  exec m i (pre_exec s size) = T c kw s3 ->
  tick m s = end_check m (do_trap m c kw (set_trapped_addr s3 (prev_pc s3))).
Proof. exact tick_trapped_shape. Qed.
Print Assumptions C10_failing_address_recorded.

(* ... and a division by zero (ZeroDivisionError path of tick) *)
Theorem C10_failing_address_recorded_zerodiv : forall m s i size s3,
  in_code m s ->
  decode (skipn (Z.to_nat (pc s)) (m_code m)) = DOk i size ->
  (forall idx, i <> IPushStr idx) ->
  exec m i (pre_exec s size) = ZD s3 ->
  tick m s = end_check m (do_trap m T_DIVISION_BY_ZERO true (set_trapped_addr s3 (prev_pc s3))).
Proof. exact tick_zerodiv_shape. Qed.
Print Assumptions C10_failing_address_recorded_zerodiv.

(* the statement lookup returns an innermost record containing the address, and
   one whenever any record contains it *)
Theorem C10_find_stmt_innermost : forall stmts addr,
  match find_stmt stmts addr with
  | Some r => contains r addr /\ forall r', In r' stmts -> contains r' addr -> size_of r <= size_of r'
  | None => forall r', In r' stmts -> ~ contains r' addr
  end.
Proof. exact find_stmt_innermost. Qed.
Print Assumptions C10_find_stmt_innermost.

(* RESUME re-executes the statement containing the failing instruction, RESUME
   NEXT continues after it; both leave the handler; nothing else changes *)
Theorem C10_resume : forall m stmts s a b next,
  m_stmts m = Some stmts -> trapped_addr s <> 0 ->
  find_stmt stmts (trapped_addr s) = Some (a, b) ->
  exec_errres m next s = R tt (set_handler_active (set_pc s (if next then b else a)) false).
Proof. exact resume_sets_pc. Qed.
Print Assumptions C10_resume.

Theorem C10_resumed_state : forall s p,
  let s' := set_handler_active (set_pc s p) false in
  pc s' = p /\ handler_active s' = false /\ stack s' = stack s /\ heap s' = heap s /\
  cur s' = cur s /\ events s' = events s /\ ttarget_ s' = ttarget_ s.
Proof. exact resumed_state. Qed.
Print Assumptions C10_resumed_state.

(* ON ERROR RESUME NEXT skips the failing statement without entering a handler *)
Theorem C10_resume_next_mode : forall m stmts c kw s a b,
  ttarget_ s = TNext -> handler_active s = false ->
  m_stmts m = Some stmts -> trapped_addr s <> 0 ->
  find_stmt stmts (trapped_addr s) = Some (a, b) ->
  do_trap m c kw s = Next (set_handler_active (set_pc (set_last_trap s (Some c) kw) b) false).
Proof. exact resume_next_mode. Qed.
Print Assumptions C10_resume_next_mode.

(* ON ERROR GOTO 0 restores default error reporting *)
Theorem C10_goto0_disarms : forall m s,
  handler_active s = false -> exec m (IErrhand 0) s = R tt (set_ttarget s TNone).
Proof. exact errhand0_disarms. Qed.
Print Assumptions C10_goto0_disarms.

Theorem C10_error_in_handler_halts : forall m c s,
  handler_active s = true ->
  do_trap m c true s = Next (set_halt (set_last_trap s (Some c) true) true H_TRAP).
Proof. exact trap_in_handler_halts. Qed.
Print Assumptions C10_error_in_handler_halts.

(* "execution proceeds as if the failed statement had not been started" holds
   for the program counter and handler state (above) but NOT for the operand
   stack: the machine does not unwind (C10_resumed_state: stack s' = stack s, the
   stack at the moment of the error, not at the start of the statement).
   Refutation on the faithful model: a state with two pending operands keeps
   them across RESUME NEXT. *)
Theorem C10_as_if_not_started_refuted :
  exists m s s', m_stmts m = Some [(0, 10)] /\ trapped_addr s = 5 /\ stack s = [CI 1; CI 5] /\
                 exec_errres m true s = R tt s' /\ pc s' = 10 /\ stack s' = [CI 1; CI 5].
Proof.
  exists (mkModule [] [] [] 0 (Some [(0, 10)])).
  exists (mkSt 7 5 [CI 1; CI 5] [] None false H_NONE (Some 14) true (TAddr 20) true 5 false 0 0 None
               (mkScript [] [] [] []) []).
  eexists. repeat split; try reflexivity.
Qed.
Print Assumptions C10_as_if_not_started_refuted.
