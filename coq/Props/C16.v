From Coq Require Import ZArith List Bool.
From QV Require Import Sx Strs Fl Dec NumFmt NumFmtProofs.
Import ListNotations.
Open Scope Z_scope.

Theorem C16_placeholder : fmt_int 0 = [ch_space; ch_0].
Proof. exact fmt_int_zero. Qed.
Print Assumptions C16_placeholder.
