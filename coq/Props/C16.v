(* C16 - numbers survive conversion to text and back.
   Only statements, [exact], Print Assumptions.  Proofs: Proofs/NumFmtProofs.v.
   Models (faithful to /repo): Models/NumFmt.v (format_number, Python int() /
   float()), Models/Literal.v (VAL = _exec_sdbl), Models/NumText.v (READ,
   INPUT, the STR$ call site), Models/Print.v (the PRINT call site).
   Specification: Models/NumSpec.v.

   Integers: full, for every z in Z (INTEGER and LONG are sub-ranges).
   Floats: what the shortest-digit search guarantees by construction, the
   call-site and negation clauses; the clauses the unchanged tree violates are
   stated as _refuted with their witnesses (findings/C16.json). *)
From Coq Require Import ZArith List Bool.
From QV Require Import Sx Strs Fl Dec NumFmt Cell Using Print PrintProofs Literal NumSpec NumText
     NumFmtProofs.
Import ListNotations.
Open Scope Z_scope.

(* ---------------------------------------------------------------------- *)
(* integers                                                               *)

(* text = blank or '-' followed by the plain decimal digits of |z|: all
   digits, value |z|, no leading zero unless z = 0 *)
Theorem C16_fmt_int_shape : forall z,
  fmt_int z = lead_of z :: nat_digits (Z.abs z)
  /\ forallb is_digit (nat_digits (Z.abs z)) = true
  /\ digits_val (nat_digits (Z.abs z)) = Some (Z.abs z)
  /\ (z <> 0 -> exists d r, nat_digits (Z.abs z) = (ch_0 + d) :: r /\ 1 <= d <= 9)
  /\ (z = 0 -> nat_digits (Z.abs z) = [ch_0]).
Proof. exact fmt_int_shape. Qed.
Print Assumptions C16_fmt_int_shape.

(* the same, against the specification predicate of NumSpec *)
Theorem C16_fmt_int_plain : forall z, plain_int_text z (fmt_int z) = true.
Proof. exact fmt_int_plain. Qed.
Print Assumptions C16_fmt_int_plain.

(* READ and INPUT use Python int(): it returns z, for every z *)
Theorem C16_read_fmt_int : forall z, py_int (fmt_int z) = Some z.
Proof. exact py_int_fmt_int. Qed.
Print Assumptions C16_read_fmt_int.

Theorem C16_read_fmt_int_integer : forall z,
  in_int z = true -> read_num TInt (fmt_int z) = RdCell (CI z).
Proof. exact read_fmt_int_integer. Qed.
Print Assumptions C16_read_fmt_int_integer.

Theorem C16_read_fmt_int_long : forall z,
  in_long z = true -> read_num TLong (fmt_int z) = RdCell (CL z).
Proof. exact read_fmt_int_long. Qed.
Print Assumptions C16_read_fmt_int_long.

Theorem C16_input_fmt_int_integer : forall z,
  in_int z = true -> input_num TInt (fmt_int z) = RdCell (CI z).
Proof. exact input_fmt_int_integer. Qed.
Print Assumptions C16_input_fmt_int_integer.

Theorem C16_input_fmt_int_long : forall z,
  in_long z = true -> input_num TLong (fmt_int z) = RdCell (CL z).
Proof. exact input_fmt_int_long. Qed.
Print Assumptions C16_input_fmt_int_long.

(* VAL: the leading blank is skipped by the grammar; every z that fits a LONG
   comes back (as the DOUBLE of_Z z); any other z makes the host SyntaxError
   "does not fit in LONG" escape _exec_sdbl *)
Theorem C16_val_fmt_int : forall z,
  val_text (fmt_int z) =
  if (z <? -2147483648) || (z >? 2147483647) then VSyntaxError 7 else VOk (of_Z z).
Proof. exact val_fmt_int. Qed.
Print Assumptions C16_val_fmt_int.

(* ... and that DOUBLE is exactly z: sign of z, m * 2^e = |z| *)
Theorem C16_val_fmt_int_value : forall z,
  -2147483648 <= z <= 2147483647 ->
  exists m e, val_text (fmt_int z) = VOk (FFin (z <? 0) m e) /\ 0 <= e /\ m * 2 ^ e = Z.abs z.
Proof. exact val_fmt_int_value. Qed.
Print Assumptions C16_val_fmt_int_value.

(* ---------------------------------------------------------------------- *)
(* floats                                                                 *)

(* PARTIAL (conditional form): the digits (c, k) returned by the search are a
   candidate that the search itself converted back (dec_to_fl) and found equal
   to x, or the exact finite decimal expansion of x, or the 20-digit fall-back.
   Missing: that the fall-back is never reached (the 17-digit theorem) and the
   correctness of dec_to_fl; both are checked on every value explored. *)
Theorem C16_shortest_roundtrip_partial : forall x neg top rest q fuel n c k,
  shortest_from x neg top rest q n fuel = (c, k) ->
  fl_same_mag (dec_to_fl neg c k) x = true
  \/ (rest = false /\ exists n', c * 10 ^ (topd - n') = top /\ k = q + (topd - n'))
  \/ (c, k) = (top, q).
Proof. exact shortest_from_sound. Qed.
Print Assumptions C16_shortest_roundtrip_partial.

(* at most 17 digits unless the fall-back is taken (fuel 17 from n = 1) *)
Theorem C16_shortest_digits_partial : forall x neg top rest q fuel n c k,
  0 <= top < 10 ^ topd -> 1 <= n -> n + Z.of_nat fuel <= 18 ->
  shortest_from x neg top rest q n fuel = (c, k) ->
  (c, k) = (top, q) \/ 0 <= c <= 10 ^ 17.
Proof. exact shortest_from_digits. Qed.
Print Assumptions C16_shortest_digits_partial.

(* PRINT and STR$ show the same text: both call sites are format_number *)
Theorem C16_print_str_same_digits : forall c t,
  exec_ntos c = NtosOk t ->
  Print.num_text c = Some t /\
  exec_print (encoded_args None [AVal c]) = OutText [t ++ [ch_space] ++ crlf].
Proof. exact print_str_same_digits. Qed.
Print Assumptions C16_print_str_same_digits.

(* DOUBLE: a number and its negation show the same digits, for every value *)
Theorem C16_negation_same_digits_double : forall m e, 0 < m ->
  exists digits,
    fmt_float false (FFin false m e) = ch_space :: digits /\
    fmt_float false (FFin true m e) = ch_minus :: digits.
Proof. exact negation_same_digits_double. Qed.
Print Assumptions C16_negation_same_digits_double.

(* SINGLE: refuted (D22): 123456792 prints " 123456800", -123456792 "-123457000" *)
Theorem C16_negation_same_digits_single_refuted :
  exists m e, 0 < m /\ to_single (FFin false m e) = Some (FFin false m e) /\
    fmt_float true (FFin false m e) = [32; 49; 50; 51; 52; 53; 54; 56; 48; 48] /\
    fmt_float true (FFin true m e) = [45; 49; 50; 51; 52; 53; 55; 48; 48; 48] /\
    same_digits (fmt_float true (FFin false m e)) (fmt_float true (FFin true m e)) = false.
Proof. exact negation_same_digits_single_refuted. Qed.
Print Assumptions C16_negation_same_digits_single_refuted.

(* ... and with fixes/C16-D22neg.diff applied (model fmt_float_D22fix: the digit
   count is taken on the text of |x|) the clause holds for SINGLE.  PARTIAL:
   guarded by "the 7-digit rounding of x is not zero" (never the case for a
   plain-form SINGLE, >= 1e-4; not proved) *)
Theorem C16_negation_same_digits_single_after_fix_partial : forall m e,
  0 < m -> round32 false m e false = FFin false m e ->
  (exists m1 e1, single_rounded_fixed (FFin false m e) = FFin false m1 e1 /\ 0 < m1) ->
  exists digits,
    fmt_float_D22fix true (FFin false m e) = ch_space :: digits /\
    fmt_float_D22fix true (FFin true m e) = ch_minus :: digits.
Proof. exact negation_same_digits_single_fixed. Qed.
Print Assumptions C16_negation_same_digits_single_after_fix_partial.

(* SINGLE "at most 7 significant digits": refuted (D22): " 1.4999999621068127E-05" *)
Theorem C16_single_seven_digits_refuted :
  exists x, to_single x = Some x /\
    fmt_float true x =
      [32; 49; 46; 52; 57; 57; 57; 57; 57; 57; 54; 50; 49; 48; 54; 56; 49; 50; 55; 69; 45; 48; 53] /\
    tv_digits (judge_text x (fmt_float true x)) = 17 /\
    float_text_ok true x (fmt_float true x) = false.
Proof. exact single_seven_digits_refuted. Qed.
Print Assumptions C16_single_seven_digits_refuted.

(* DOUBLE read back by READ / INPUT: refuted (D23): " 1D+300" *)
Theorem C16_double_D_marker_refuted :
  exists x, fmt_float false x = [32; 49; 68; 43; 51; 48; 48] /\
    py_float (fmt_float false x) = None /\
    read_num TDouble (fmt_float false x) = RdBadType /\
    input_num TDouble (fmt_float false x) = InReject /\
    val_text (fmt_float false x) = VOk x.
Proof. exact double_D_marker_refuted. Qed.
Print Assumptions C16_double_D_marker_refuted.

(* DOUBLE read back by VAL: refuted for plain integer texts beyond LONG: " 3000000000" *)
Theorem C16_val_big_integer_text_refuted :
  exists x, fmt_float false x = [32; 51; 48; 48; 48; 48; 48; 48; 48; 48; 48] /\
    val_text (fmt_float false x) = VSyntaxError 7 /\
    read_num TDouble (fmt_float false x) = RdCell (CD x).
Proof. exact val_big_integer_text_refuted. Qed.
Print Assumptions C16_val_big_integer_text_refuted.

(* "within half a unit of the last shown digit": refuted at 2^-44, whose
   shortest round-tripping digits 5.684341886080802E-14 are 0.513 units away *)
Theorem C16_half_unit_pow2_refuted :
  exists x, tv_numeral (judge_text x (fmt_float false x)) = true /\
    tv_digits (judge_text x (fmt_float false x)) = 16 /\
    tv_half (judge_text x (fmt_float false x)) = false /\
    py_float (map (fun c => if c =? ch_D then ch_e else c) (fmt_float false x)) = Some x.
Proof. exact half_unit_pow2_refuted. Qed.
Print Assumptions C16_half_unit_pow2_refuted.

(* ---------------------------------------------------------------------- *)
(* non-vacuity *)

Example C16_example_double :
  let x := FFin false 3602879701896397 (-55) in   (* 0.1 *)
  fmt_float false x = [32; 48; 46; 49] /\
  float_text_ok false x (fmt_float false x) = true /\
  read_num TDouble (fmt_float false x) = RdCell (CD x) /\
  input_num TDouble (fmt_float false x) = RdCell (CD x) /\
  val_text (fmt_float false x) = VOk x /\
  fmt_float false (fneg x) = [45; 48; 46; 49].
Proof. vm_compute. repeat split; reflexivity. Qed.

Example C16_example_single :
  let x := FFin false 10113579 (-13) in   (* the SINGLE nearest to 1234.5678 *)
  fmt_float true x = [32; 49; 50; 51; 52; 46; 53; 54; 56] /\
  float_text_ok true x (fmt_float true x) = true.
Proof. vm_compute. repeat split; reflexivity. Qed.

Example C16_example_int :
  fmt_int (-32768) = [45; 51; 50; 55; 54; 56] /\ fmt_int 7 = [32; 55] /\
  val_text (fmt_int (-32768)) = VOk (FFin true 1 15) /\
  val_text (fmt_int 2147483648) = VSyntaxError 7.
Proof. vm_compute. repeat split; reflexivity. Qed.
