(* C14 - spelling, spacing, comments and separators do not change the program.
   Only statements, [exact], Print Assumptions.  Model: Models/Lex.v (a lossless
   lexer for QBASIC text as qbee cuts it, and the canonical respelling [canon]).
   Proofs: Proofs/LexChars.v LexSpan.v LexTok.v LexTokSpec.v LexLayout.v LexProofs.v
   LexIdem.v.

   What is proved: [canon] does not change under any rewriting of the catalogue
   (letter case of a keyword/identifier, blanks and tabs between tokens, comments
   and empty lines, the spelling of a two-character comparison operator) nor
   under any finite composition of such rewritings, in either direction.  The
   correspondence (tools/props/c14.py) then checks ONE fact on the real compiler:
   [compile t] and [compile (canon t)] have identical sections.  Together: all
   texts connected by catalogue rewritings compile to the sections of their
   common canonical text.

   Not proved here (checked on the real compiler only, by the harness): joining
   and splitting statements at colons, LET, CALL f(a) versus f a, NEXT v versus
   NEXT, renaming labels / renumbering line numbers, letter case inside numeric
   literals (1E5, &HFF).  That the pyparsing grammar factors through these
   tokens is not a theorem either; it is what the correspondence tests. *)
From Coq Require Import ZArith List Bool.
From QV Require Import Sx Strs Lex LexLayout LexProofs LexIdem.
Import ListNotations.
Open Scope Z_scope.

(* the lexer loses nothing: the text is the concatenation of its layout *)
Theorem C14_lex_lossless : forall s,
  unlex (fst (lex_layout s)) (snd (lex_layout s)) = s.
Proof. exact unlex_lex. Qed.
Print Assumptions C14_lex_lossless.

(* what the lexer returns satisfies the token-by-token description [lay_ok] *)
Theorem C14_lex_image : forall s l tail,
  lex_layout s = (l, tail) ->
  unlex l tail = s /\ lay_ok l (hd_error tail) = true /\ forallb is_blank tail = true.
Proof. exact lex_lay_ok. Qed.
Print Assumptions C14_lex_image.

(* and conversely every layout satisfying it is the lexing of its own text:
   texts and valid layouts are in bijection *)
Theorem C14_lex_relex : forall l tail,
  lay_ok l (hd_error tail) = true -> forallb is_blank tail = true ->
  lex_layout (unlex l tail) = (l, tail).
Proof. exact relex. Qed.
Print Assumptions C14_lex_relex.

(* letter case of any keyword / identifier / DATA / REM word *)
Theorem C14_canon_invariant_case : forall s s', r_case s s' -> canon s' = canon s.
Proof. exact r_case_canon. Qed.
Print Assumptions C14_canon_invariant_case.

(* blanks and tabs in front of any token or at the end of the text, added,
   removed or exchanged, as long as the token before still ends there *)
Theorem C14_canon_invariant_blank : forall s s', r_blank s s' -> canon s' = canon s.
Proof. exact r_blank_canon. Qed.
Print Assumptions C14_canon_invariant_blank.

(* comment text, a comment at the end of a line, empty and comment-only lines *)
Theorem C14_canon_invariant_comment : forall s s', r_comment s s' -> canon s' = canon s.
Proof. exact r_comment_canon. Qed.
Print Assumptions C14_canon_invariant_comment.

(* <> / ><, <= / =<, >= / => *)
Theorem C14_canon_invariant_relop : forall s s', r_relop s s' -> canon s' = canon s.
Proof. exact r_relop_canon. Qed.
Print Assumptions C14_canon_invariant_relop.

(* every finite composition, each step taken forwards or backwards *)
Theorem C14_canon_invariant_star : forall s s', rewrites s s' -> canon s' = canon s.
Proof. exact canon_invariant_star. Qed.
Print Assumptions C14_canon_invariant_star.

(* the canonical text is a fixed point: canon is a projection onto one
   representative of every class of respellings *)
Theorem C14_canon_idempotent : forall s, canon (canon s) = canon s.
Proof. exact canon_idempotent. Qed.
Print Assumptions C14_canon_idempotent.

(* ---- non-vacuity on a small program:   IF a><1 THEN x=2 'c  ---- *)

Definition P1 : str :=
  [73;70;32;97;62;60;49;32;84;72;69;78;32;120;61;50;32;39;99;10].
(* if a><1 THEN x=2 'c *)
Definition P2 : str :=
  [105;102;32;97;62;60;49;32;84;72;69;78;32;120;61;50;32;39;99;10].
(* if a<>1 THEN x=2 'c *)
Definition P3 : str :=
  [105;102;32;97;60;62;49;32;84;72;69;78;32;120;61;50;32;39;99;10].
(* if a<>1 THEN   x=2 'c   (two more blanks) *)
Definition P4 : str :=
  [105;102;32;97;60;62;49;32;84;72;69;78;32;32;32;120;61;50;32;39;99;10].
(* if a<>1 THEN   x=2      (comment removed: P4 is P5 with the comment added) *)
Definition P5 : str :=
  [105;102;32;97;60;62;49;32;84;72;69;78;32;32;32;120;61;50;10].

Definition rest_a : list ltok :=
  [([32], TWord [84;72;69;78] []); ([32], TWord [120] []); ([], TOp [61]);
   ([], TNum [50] [] []); ([32], TApos [99]); ([], TNewline)].

Example C14_ex_lex :
  lex_layout P1 =
  (([], TWord [73;70] []) :: ([32], TWord [97] []) :: ([], TOp [62;60])
   :: ([], TNum [49] [] []) :: rest_a, []).
Proof. vm_compute. reflexivity. Qed.

(* the canonical text:  if a <> 1 then x = 2  *)
Example C14_ex_canon :
  canon P1 = [105;102;32;97;32;60;62;32;49;32;116;104;101;110;32;120;32;61;32;50;10].
Proof. vm_compute. reflexivity. Qed.

Example C14_ex_case : r_case P1 P2.
Proof.
  apply (rc_word P1 [] [] [73;70] []
           (([32], TWord [97] []) :: ([], TOp [62;60]) :: ([], TNum [49] [] []) :: rest_a)
           [] [105;102]); reflexivity.
Qed.

Example C14_ex_relop : r_relop P2 P3.
Proof.
  apply (rr_swap P2 [([], TWord [105;102] []); ([32], TWord [97] [])] [] [62;60]
           (([], TNum [49] [] []) :: rest_a) [] [60;62]); reflexivity.
Qed.

Example C14_ex_blank : r_blank P3 P4.
Proof.
  apply (rb_mid P3 [([], TWord [105;102] []); ([32], TWord [97] []); ([], TOp [60;62]);
                    ([], TNum [49] [] []); ([32], TWord [84;72;69;78] [])]
           [32] (TWord [120] [])
           [([], TOp [61]); ([], TNum [50] [] []); ([32], TApos [99]); ([], TNewline)]
           [] [32;32;32]); reflexivity.
Qed.

Example C14_ex_comment : r_comment P5 P4.
Proof.
  apply (rm_add_eol P5 [([], TWord [105;102] []); ([32], TWord [97] []); ([], TOp [60;62]);
                        ([], TNum [49] [] []); ([32], TWord [84;72;69;78] []);
                        ([32;32;32], TWord [120] []); ([], TOp [61]); ([], TNum [50] [] [])]
           [] [] [] [32] [99]); reflexivity.
Qed.

(* a composition of four rewritings (the last one taken backwards) *)
Example C14_ex_star : rewrites P1 P5.
Proof.
  apply (rws_step P1 P2 P5 (rw_case _ _ C14_ex_case)).
  apply (rws_step P2 P3 P5 (rw_relop _ _ C14_ex_relop)).
  apply (rws_step P3 P4 P5 (rw_blank _ _ C14_ex_blank)).
  apply (rws_back P4 P5 P5 (rw_comment _ _ C14_ex_comment)).
  apply rws_refl.
Qed.

Example C14_ex_star_canon : canon P5 = canon P1.
Proof. exact (C14_canon_invariant_star P1 P5 C14_ex_star). Qed.

(* the side condition of r_blank is not idle: removing the blank between
   THEN and x merges two words, and the canonical text changes *)
Example C14_ex_blank_guard :
  canon [116;104;101;110;120] <> canon [116;104;101;110;32;120].
Proof. vm_compute. discriminate. Qed.
