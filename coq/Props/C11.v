(* C11 - the debug map attributes every instruction to its source statement.
   Only statements, [exact], Print Assumptions.  Model: Models/DebugMap.v
   (DebugInfoCollector + QvmCode.assembled offsets, DebugInfo.add_node,
   finalize, find_stmt, convert_index_to_line_col).  Specification
   vocabulary (wf_markers, on_boundary, laminar, good, open_at) and proofs:
   Proofs/DebugMapProofs.v, DebugMapFinalize.v, DebugMapCover.v,
   DebugMapLines.v, DebugMapWitness.v. *)
From Coq Require Import ZArith List Bool.
From QV Require Import DebugMap DebugMapProofs DebugMapFinalize DebugMapCover DebugMapLines
  DebugMapWitness DebugMapAttr DebugMapCpu.
From QV Require Cpu.
Import ListNotations.
Open Scope Z_scope.

(* For every well-nested marker stream the assertion in
   DebugInfoCollector.end_node never fires (and nothing is popped from an
   empty stack): a table is produced, for the whole code. *)
Theorem C11_collect_total : forall l, wf_markers l ->
  exists routines stmts others, debug_map l = DOk routines stmts others (size l).
Proof. exact collect_total_lemma. Qed.
Print Assumptions C11_collect_total.

(* Every offset in the final table - statement records including the
   synthesised block start/end records, routine records, other nodes - is the
   offset of an instruction start or the end of the code. *)
Theorem C11_records_on_boundaries : forall l, wf_markers l ->
  forall routines stmts others sz, debug_map l = DOk routines stmts others sz ->
  sz = size l /\
  (forall r, In r stmts -> on_boundary 0 l (r_start r) /\ on_boundary 0 l (r_end r)) /\
  (forall k s e, In (k, (s, e)) routines -> on_boundary 0 l s /\ on_boundary 0 l e) /\
  (forall r, In r others -> on_boundary 0 l (r_start r) /\ on_boundary 0 l (r_end r)).
Proof. exact records_on_boundaries_lemma. Qed.
Print Assumptions C11_records_on_boundaries.

(* Any two ranges the collector records (statements, blocks, routines) are
   nested or disjoint. *)
Theorem C11_records_laminar : forall l, wf_markers l ->
  forall s, run (cinit 0) l = COk s ->
  forall n1 s1 e1 n2 s2 e2, In (n1, s1, e1) (c_nodes s) -> In (n2, s2, e2) (c_nodes s) ->
  laminar s1 e1 s2 e2.
Proof. exact collected_laminar_lemma. Qed.
Print Assumptions C11_records_laminar.

(* ... but the FINAL table is not laminar, even for generator-shaped streams:
   the synthesised end record of a block starts at the end of the child with
   the greatest START offset, which can be a statement nested in the last
   child.  Witness: single-line IF as last statement of a WHILE body. *)
Theorem C11_final_table_laminar_refuted :
  exists l, good true l /\
  exists routines stmts others sz, debug_map l = DOk routines stmts others sz /\
  exists r1 r2, In r1 stmts /\ In r2 stmts /\ ~ rec_laminar r1 r2.
Proof. exact final_laminar_refuted_lemma. Qed.
Print Assumptions C11_final_table_laminar_refuted.

(* Each routine record spans exactly the marker range of its SUB/FUNCTION
   node (gen_sub_block / gen_func_block: from the frame instruction to the
   byte after the final ret / retv), provided the node identity is recorded
   with one range only. *)
Theorem C11_routine_records_exact : forall pre n body post a b,
  wf_markers pre -> wf_markers body -> wf_markers post ->
  nk n = KRoutine a b ->
  (forall m s e, In (m, s, e) (nodes_at 0 (pre ++ Start n :: body ++ End n :: post)) ->
                 nid m = nid n -> s = size pre /\ e = size pre + size body) ->
  forall routines stmts others sz,
  debug_map (pre ++ Start n :: body ++ End n :: post) = DOk routines stmts others sz ->
  In (nid n, (size pre, size pre + size body)) routines.
Proof. exact routine_records_exact_lemma. Qed.
Print Assumptions C11_routine_records_exact.

(* The lookup, on ANY table: the answer contains addr, no record containing
   addr is strictly smaller, and it is the first such record in table order. *)
Theorem C11_find_stmt_innermost : forall stmts addr r,
  find_stmt stmts addr = FFound r ->
  In r stmts /\ r_start r <= addr < r_end r /\
  (forall r', In r' stmts -> r_start r' <= addr < r_end r' -> rsize r <= rsize r') /\
  (exists l1 l2, stmts = l1 ++ r :: l2 /\
     forall r', In r' l1 -> r_start r' <= addr < r_end r' -> rsize r < rsize r').
Proof. exact find_stmt_innermost_lemma. Qed.
Print Assumptions C11_find_stmt_innermost.

Theorem C11_find_stmt_sound : forall stmts addr r,
  find_stmt stmts addr = FFound r -> In r stmts /\ r_start r <= addr < r_end r.
Proof. exact find_stmt_sound_lemma. Qed.
Print Assumptions C11_find_stmt_sound.

Theorem C11_find_stmt_complete : forall stmts addr,
  (exists r, In r stmts /\ r_start r <= addr < r_end r) <->
  (exists r, find_stmt stmts addr = FFound r).
Proof. exact find_stmt_complete_lemma. Qed.
Print Assumptions C11_find_stmt_complete.

Theorem C11_find_stmt_none : forall stmts addr,
  find_stmt stmts addr = FNone <->
  (forall r, In r stmts -> ~ (r_start r <= addr < r_end r)).
Proof. exact find_stmt_none_lemma. Qed.
Print Assumptions C11_find_stmt_none.

(* the lookup of the machine model (Models/Cpu.v find_stmt, used by its
   RESUME / RESUME NEXT and tied to the real machine by the T-run suites) is
   this lookup: all find_stmt theorems here speak about what the machine does *)
Theorem C11_find_stmt_is_machine_lookup : forall stmts addr,
  Cpu.find_stmt (map rng stmts) addr =
  match DebugMap.find_stmt stmts addr with
  | FFound r => Some (rng r)
  | _ => None
  end.
Proof. exact machine_lookup_lemma. Qed.
Print Assumptions C11_find_stmt_is_machine_lookup.

(* D41: the "if blocks:" branch of find_stmt (undefined names) is unreachable *)
Theorem C11_find_stmt_block_branch_dead : forall stmts addr,
  find_stmt stmts addr <> FNameError.
Proof. exact find_stmt_block_branch_dead. Qed.
Print Assumptions C11_find_stmt_block_branch_dead.

(* body_covered.  For every generator-shaped stream ([good true]: see
   Proofs/DebugMapCover.v) every address inside the range of ANY Block -
   SUB/FUNCTION bodies included - lies in a statement record of the final
   table that itself lies inside the block: a child statement, or the
   synthesised start/end record.
   _partial: [good] demands of each Block that (a) no bare instruction sits
   between its child statements and (b) it has code inside a child, or an
   _empty_block marker strictly before its end offset.  (a) holds for all
   generators of qvm_codegen.py; (b) is the gap: it fails for accepted
   programs, see C11_body_covered_refuted. *)
Theorem C11_body_covered_partial : forall l, good true l ->
  forall routines stmts others sz, debug_map l = DOk routines stmts others sz ->
  forall s, run (cinit 0) l = COk s ->
  forall n bs be, In (n, bs, be) (c_nodes s) -> is_block_node n = true ->
  forall addr, bs <= addr < be ->
  exists r, In r stmts /\ r_start r <= addr < r_end r /\ bs <= r_start r /\ r_end r <= be.
Proof. exact body_covered_lemma. Qed.
Print Assumptions C11_body_covered_partial.

(* without guard (b): a block whose children emit no code and whose only
   marker sits at its end offset gets no record at all
   (IF c THEN / CONST k = 5 / END IF) *)
Theorem C11_body_covered_refuted :
  exists l, wf_markers l /\
  exists routines stmts others sz, debug_map l = DOk routines stmts others sz /\
  exists s n bs be addr,
    run (cinit 0) l = COk s /\ In (n, bs, be) (c_nodes s) /\ is_block_node n = true /\
    bs <= addr < be /\ find_stmt stmts addr = FNone.
Proof. exact body_covered_refuted_lemma. Qed.
Print Assumptions C11_body_covered_refuted.

(* attribution, the part that holds: if a non-block statement n was the
   innermost open node when the instruction at addr was emitted ([open_at] =
   the collector's stack at that instruction), then n has a record containing
   addr in the final table, and the lookup answers with a record that
   contains addr and is at most as large as n's.
   _partial: it does not say the answer IS n's record - see the refutation. *)
Theorem C11_attribution_stmt_partial : forall l, wf_markers l ->
  forall routines stmts others sz, debug_map l = DOk routines stmts others sz ->
  forall addr n rest, open_at l 0 [] addr = Some (n :: rest) -> nk n = KStmt ->
  exists s e, In (mkRec (nid n) s e) stmts /\ s <= addr < e /\
  exists r, find_stmt stmts addr = FFound r /\ r_start r <= addr < r_end r /\ rsize r <= e - s.
Proof. exact attribution_stmt_lemma. Qed.
Print Assumptions C11_attribution_stmt_partial.

(* attribution: an instruction emitted while statement n was the innermost
   open node should be looked up as n.  Refuted on the faithful model: the
   jump closing a single-line IF at the end of a loop body is answered with
   the loop's end statement. *)
Theorem C11_attribution_refuted :
  exists l, good true l /\
  exists routines stmts others sz, debug_map l = DOk routines stmts others sz /\
  exists addr n rest r,
    open_at l 0 [] addr = Some (n :: rest) /\ nk n = KStmt /\
    find_stmt stmts addr = FFound r /\ r_node r <> nid n.
Proof. exact attribution_refuted_lemma. Qed.
Print Assumptions C11_attribution_refuted.

(* recorded line of a source offset = 1 + number of newlines before it *)
Theorem C11_line_correct : forall text off,
  0 <= off < Z.of_nat (length text) ->
  exists col, index_to_line_col text off =
              Some (1 + count_nl (firstn (Z.to_nat off) text), col).
Proof. exact line_correct_lemma. Qed.
Print Assumptions C11_line_correct.

(* an offset at/after the end of the text has no line (None, None) *)
Theorem C11_line_none : forall text off,
  off < 0 \/ Z.of_nat (length text) <= off -> index_to_line_col text off = None.
Proof. exact line_none_lemma. Qed.
Print Assumptions C11_line_none.

(* column convention of the unchanged code: 0-based on the first line ... *)
Theorem C11_col_first_line : forall text off,
  0 <= off < Z.of_nat (length text) -> count_nl (firstn (Z.to_nat off) text) = 0 ->
  index_to_line_col text off = Some (1, off).
Proof. exact col_first_line_lemma. Qed.
Print Assumptions C11_col_first_line.

(* ... and 1-based on every later line *)
Theorem C11_col_later_line : forall a b j,
  (j < length b)%nat -> count_nl (firstn j b) = 0 ->
  index_to_line_col (a ++ 10 :: b) (Z.of_nat (length a + S j)) =
  Some (2 + count_nl a, 1 + Z.of_nat j).
Proof. exact col_later_line_lemma. Qed.
Print Assumptions C11_col_later_line.

(* non-vacuity: the stream of  x = 1 / WHILE x < 3 / x = x + 1 /
   IF x = 2 THEN PRINT 1002 / WEND  as the real compiler emits it at -O0 -g,
   and the table the real compiler produces for it *)
Example C11_example_table : debug_map w1 = DOk [] w1_table [] 70.
Proof. vm_compute. reflexivity. Qed.

Example C11_example_good : good true w3 /\
  debug_map w3 = DOk [] [mkRec 2 11 19; mkRec 3 19 24; mkRec 4 24 27] [] 28 /\
  find_stmt [mkRec 2 11 19; mkRec 3 19 24; mkRec 4 24 27] 14 = FFound (mkRec 2 11 19).
Proof. split; [exact w3_good|]. split; vm_compute; reflexivity. Qed.

Example C11_example_assert :
  debug_map [Start (st 1); Ins 1; End (st 2)] = DAssert /\
  debug_map [Ins 1; End (st 2)] = DPopEmpty.
Proof. split; vm_compute; reflexivity. Qed.
