(* C08 - debug information does not change what a program does.
   Only statements, [exact], Print Assumptions.  Model: Models/Peephole.v
   (instruction lists with pseudo-instructions PMark for labels and for the
   debug markers _dbg_info_start/_end/_empty_block; optimize; the offset and
   label computation of the assembler).  Proofs: Proofs/PeepholeProofs.v.

   The code generator emits, with debug info, the same list plus debug markers
   (checked on the real artefacts: erase_marks (instrs -g) = instrs, levels 0
   and 1).  What is proved here is that the two later stages cannot turn the
   markers into a behavioural difference. *)
From Coq Require Import ZArith List Bool Relations.
From QV Require Import Sx Strs Fl Cell Machine Cpu Peephole PeepholeProofs.
Import ListNotations.
Open Scope Z_scope.

(* the assembler: offsets of all emitted instructions, the routine they are
   resolved in, every label address and the code length are the same whether
   or not the list carries debug markers *)
Theorem C08_assemble_ignores_marks : forall size routine_of l off cur,
  asm_go size routine_of (erase_marks l) off cur = asm_go size routine_of l off cur.
Proof. exact assemble_ignores_marks. Qed.
Print Assumptions C08_assemble_ignores_marks.

(* the peephole pass at level 2: markers may change which windows are
   adjacent, but the code optimised without markers and the marker-free part
   of the code optimised with markers are BOTH obtained from the same
   unoptimised marker-free code by the rewrites of C02 (each sound on every
   machine state, none across a label) *)
Theorem C08_markers_only_block_rules : forall fuel fuel' l,
  clos_refl_trans (list pins) (rewrites conv_fold fold1 fold2)
                  (erase_marks l) (optimize fuel (erase_marks l)) /\
  clos_refl_trans (list pins) (rewrites conv_fold fold1 fold2)
                  (erase_marks l) (erase_marks (optimize fuel' l)).
Proof. exact markers_only_block_rules. Qed.
Print Assumptions C08_markers_only_block_rules.

(* hence they are rewrite-equivalent to each other *)
Theorem C08_markers_results_equivalent : forall fuel fuel' l,
  clos_refl_sym_trans (list pins) (rewrites conv_fold fold1 fold2)
                      (optimize fuel (erase_marks l)) (erase_marks (optimize fuel' l)).
Proof. exact markers_results_equivalent. Qed.
Print Assumptions C08_markers_results_equivalent.

(* the pass never deletes, moves or duplicates a marker or a label: the debug
   map built by the assembler sees the same marker sequence at every level *)
Theorem C08_optimize_keeps_marks : forall fuel l, marks (optimize fuel l) = marks l.
Proof. exact optimize_keeps_marks. Qed.
Print Assumptions C08_optimize_keeps_marks.

(* non-vacuity: a marker between two jumps blocks the jump+jump rule, so the
   two code sections differ at level 2 - and both are still rewritings of the
   same list *)
Example C08_example_markers_block_a_window :
  let l := [PJmp 1; PMark MDbgEnd 0; PMark MDbgStart 1; PJmp 2; PMark MLabel 3] in
  erase_marks (optimize 20 l) = [PJmp 1; PJmp 2; PMark MLabel 3] /\
  optimize 20 (erase_marks l) = [PJmp 1; PMark MLabel 3].
Proof. vm_compute. split; reflexivity. Qed.
