(* C07 - the virtual machine is total: every run ends in a halt or a trap.
   Statements only; proofs in Proofs/MachineProofs.v.  The model (Models/Machine.v,
   Models/Cpu.v) makes every host exception of the Python an explicit [Crash]
   outcome; the correspondence check ties it to qvm/cpu.py. *)
From Coq Require Import ZArith List Bool.
From QV Require Import Sx Strs Fl Cell Machine Cpu Verifier MachineProofs ErrProofs VerifierProofs.
Import ListNotations.
Open Scope Z_scope.

(* An interrupt request arriving between any two instructions, with no handler
   armed (or while a handler is already running), stops the run with the
   keyboard-interrupt error before any further instruction executes: for EVERY
   module and EVERY state, hence at every instruction boundary of every run. *)
Theorem C07_interrupt_stops : forall m s,
  irq s = true -> (ttarget_ s = TNone \/ handler_active s = true) ->
  tick m s = Next (interrupted s).
Proof. exact interrupt_stops. Qed.
Print Assumptions C07_interrupt_stops.

Theorem C07_interrupted_state : forall s,
  pc (interrupted s) = pc s /\ stack (interrupted s) = stack s /\ heap (interrupted s) = heap s /\
  cur (interrupted s) = cur s /\ events (interrupted s) = events s /\
  data_part (interrupted s) = data_part s /\ data_idx (interrupted s) = data_idx s /\
  scr (interrupted s) = scr s /\
  halted (interrupted s) = true /\ reason (interrupted s) = H_TRAP /\
  last_trap (interrupted s) = Some T_KEYBOARD_INTERRUPT.
Proof. exact interrupted_preserves. Qed.
Print Assumptions C07_interrupted_state.

(* why the property excludes armed handlers: the interrupt is dispatched like an error *)
Theorem C07_interrupt_goes_to_handler : forall m s a,
  irq s = true -> ttarget_ s = TAddr a -> handler_active s = false ->
  tick m s = Next (set_handler_active
                     (set_pc (set_last_trap (set_irq s false) (Some T_KEYBOARD_INTERRUPT) true) a) true).
Proof. exact interrupt_goes_to_handler. Qed.
Print Assumptions C07_interrupt_goes_to_handler.

(* a trap with no handler armed halts the machine with that code *)
Theorem C07_trap_halts : forall m c s,
  ttarget_ s = TNone ->
  do_trap m c true s = Next (set_halt (set_last_trap s (Some c) true) true H_TRAP).
Proof. exact do_trap_halts. Qed.
Print Assumptions C07_trap_halts.

(* the reported category matches the cause *)
Theorem C07_cause_division_by_zero : forall m s x r,
  (stack s = CI 0 :: CI x :: r -> exec m IIdiv s = ZD (set_stack s r)) /\
  (stack s = CI 0 :: CI x :: r -> exec m IMod s = ZD (set_stack s r)) /\
  (stack s = CL 0 :: CL x :: r -> exec m IIdiv s = ZD (set_stack s r)) /\
  (stack s = CI 0 :: CI x :: r -> exec m IDiv s = ZD (set_stack s r)).
Proof.
  intros; repeat split; [apply idiv_zero | apply mod_zero | apply idiv_zero_long | apply div_zero_int].
Qed.
Print Assumptions C07_cause_division_by_zero.

Theorem C07_cause_overflow : forall m s x y r,
  (stack s = CI y :: CI x :: r -> in_int (x + y) = false ->
   exec m IAdd s = T T_INVALID_CELL_VALUE true (set_stack s r)) /\
  (stack s = CL y :: CL x :: r -> in_long (x * y) = false ->
   exec m IMul s = T T_INVALID_CELL_VALUE true (set_stack s r)).
Proof. intros; split; [apply add_int_overflow | apply mul_long_overflow]. Qed.
Print Assumptions C07_cause_overflow.

Theorem C07_cause_illegal_argument : forall m s r,
  (forall c, stack s = CI c :: r -> (c < 0 \/ c > 255) ->
             exec m IChr s = T T_INVALID_OPERAND_VALUE true (set_stack s r)) /\
  (stack s = CStr [] :: r -> exec m IAsc s = T T_INVALID_OPERAND_VALUE true (set_stack s r)) /\
  (forall n, stack s = CI n :: r -> n < 0 ->
             exec m ISpace s = T T_INVALID_OPERAND_VALUE true (set_stack s r)).
Proof. intros; repeat split; intros; [eapply chr_illegal | eapply asc_empty | eapply space_negative]; eauto. Qed.
Print Assumptions C07_cause_illegal_argument.

Theorem C07_cause_out_of_data : forall m s ty r,
  stack s = CI ty :: r -> nthZ (m_data m) (data_part s) = None ->
  dev_read m s = T T_DEVICE_ERROR true (set_stack s r).
Proof. exact read_past_data. Qed.
Print Assumptions C07_cause_out_of_data.

(* tick is total; a host exception is exactly the Crash shape.  The statement
   that Crash is unreachable from compiler-produced modules is FALSE on the
   unchanged tree (KNOWN_FINDINGS: exp overflow/complex, conversion of inf,
   ERR before any error, PRINT USING, STRING$ code > 255, RESUME NEXT lookup):
   witnesses below. *)
Theorem C07_tick_shape : forall m s,
  (exists s', tick m s = Next s') \/ (exists k s', tick m s = Crash k s') \/
  (exists s', tick m s = NeedInput s').
Proof. exact tick_shape. Qed.
Print Assumptions C07_tick_shape.

(* the positive part: a stack instruction (arithmetic, logic, comparison,
   conversion, constants, string functions, stack shuffles, jz/jmp) decoded at pc
   whose operands have the types its rule demands never makes tick raise a host
   exception - for every module and state (after the fix commits for D17, D18,
   D37 the guard on values is empty).  The side conditions only exclude the
   RESUME-NEXT mode, whose statement lookup is covered by C10. *)
Theorem C07_typed_stack_instr_total : forall m s i size t',
  in_code m s ->
  decode (skipn (Z.to_nat (pc s)) (m_code m)) = DOk i size ->
  eff i (tys (stack s)) = Some t' ->
  (forall s3 c kw, exec m i (pre_exec s size) = T c kw s3 -> ttarget_ s3 <> TNext) ->
  (forall s3, exec m i (pre_exec s size) = ZD s3 -> ttarget_ s3 <> TNext) ->
  exists s', tick m s = Next s'.
Proof. exact tick_total_on_typed_stack_instr. Qed.
Print Assumptions C07_typed_stack_instr_total.

(* refutation witness for the unguarded statement: PRINT USING "!"; "" (a
   compiler-produced instruction sequence) raises IndexError (known finding D16) *)
Theorem C07_tick_total_refuted :
  exists m n, let '(_, k, _) := run m n (init_state m (mkScript [] [] [] [])) 0 in
              k = StCrash CrIndex.
Proof.
  exists (mkModule [39; 0; 3; 43; 0; 0; 52; 43; 0; 1; 39; 0; 4; 27; 2; 2; 100] [[33]; []] [] 0 None), 10%nat.
  vm_compute. reflexivity.
Qed.
Print Assumptions C07_tick_total_refuted.

(* non-vacuity of the interrupt theorem on a concrete reachable state *)
Example C07_interrupt_example :
  let m := mkModule [52; 100] [] [] 0 None in
  let s := set_irq (init_state m (mkScript [] [] [] [])) true in
  tick m s = Next (interrupted s) /\ stack (interrupted s) = [].
Proof. vm_compute. split; reflexivity. Qed.
