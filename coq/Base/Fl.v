(* Software model of Python floats (IEEE binary64, round to nearest even) and
   of the binary32 rounding done by struct.pack('>f'), entirely in Z.
   A finite value is (-1)^neg * m * 2^e with m >= 0; the canonical form has m
   odd, or m = 0 and e = 0.  Floats cross the harness boundary as 64-bit
   patterns (fl_of_bits / bits_of_fl). *)
From Coq Require Import ZArith List Bool Lia.
Import ListNotations.
Open Scope Z_scope.

Inductive fl : Type :=
| FNaN
| FInf (neg : bool)
| FFin (neg : bool) (m : Z) (e : Z).

Fixpoint strip_pos (p : positive) (e : Z) : positive * Z :=
  match p with
  | xO p' => strip_pos p' (e + 1)
  | _ => (p, e)
  end.

Definition norm (neg : bool) (m e : Z) : fl :=
  match m with
  | Zpos p => let '(p', e') := strip_pos p e in FFin neg (Zpos p') e'
  | _ => FFin neg 0 0
  end.

Definition fzero (neg : bool) : fl := FFin neg 0 0.

Definition bits (m : Z) : Z := if m <=? 0 then 0 else Z.log2 m + 1.

(* round m * 2^e (m > 0; plus something in (0, 2^e) when sticky) to precision
   [prec] with smallest ulp exponent [emin]; values >= 2^emax become infinite *)
Definition round_gen (prec emin emax : Z) (neg : bool) (m e : Z) (sticky : bool) : fl :=
  if m <=? 0 then fzero neg else
  let nb := bits m in
  let t := Z.max (e + nb - prec) emin in
  if t <=? e then
    (* all bits fit.  [sticky] is only passed by fdiv, whose quotient always
       has more than [prec] bits, so this branch is never taken with it *)
    if nb + e >? emax then FInf neg else norm neg m e
  else
    let sh := t - e in
    let q := Z.shiftr m sh in
    let r := m - Z.shiftl q sh in
    let half := Z.shiftl 1 (sh - 1) in
    let up :=
      if r >? half then true
      else if r <? half then false
      else if sticky then true else Z.odd q in
    let q' := if up then q + 1 else q in
    if q' =? 0 then fzero neg
    else if bits q' + t >? emax then FInf neg else norm neg q' t.

Definition round64 := round_gen 53 (-1074) 1024.
Definition round32 := round_gen 24 (-149) 128.

(* ---- interchange with IEEE bit patterns ---- *)

Definition fl_of_bits (b : Z) : fl :=
  let sign := Z.odd (Z.shiftr b 63) in
  let ex := Z.land (Z.shiftr b 52) 2047 in
  let frac := Z.land b (Z.shiftl 1 52 - 1) in
  if ex =? 2047 then (if frac =? 0 then FInf sign else FNaN)
  else if ex =? 0 then norm sign frac (-1074)
  else norm sign (Z.shiftl 1 52 + frac) (ex - 1075).

Definition nan_bits : Z := Z.shiftl 2047 52 + Z.shiftl 1 51.

Definition bits_of_fl (f : fl) : Z :=
  match f with
  | FNaN => nan_bits
  | FInf neg => (if neg then Z.shiftl 1 63 else 0) + Z.shiftl 2047 52
  | FFin neg m e =>
    let s := if neg then Z.shiftl 1 63 else 0 in
    if m <=? 0 then s else
    let nb := bits m in
    let E := e + nb - 1 in
    if E >=? -1022 then
      s + Z.shiftl (E + 1023) 52 + (Z.shiftl m (53 - nb) - Z.shiftl 1 52)
    else s + Z.shiftl m (e + 1074)
  end.

Definition fl_of_bits32 (b : Z) : fl :=
  let sign := Z.odd (Z.shiftr b 31) in
  let ex := Z.land (Z.shiftr b 23) 255 in
  let frac := Z.land b (Z.shiftl 1 23 - 1) in
  if ex =? 255 then (if frac =? 0 then FInf sign else FNaN)
  else if ex =? 0 then norm sign frac (-149)
  else norm sign (Z.shiftl 1 23 + frac) (ex - 150).

Definition bits32_of_fl (f : fl) : Z :=
  match f with
  | FNaN => Z.shiftl 255 23 + Z.shiftl 1 22
  | FInf neg => (if neg then Z.shiftl 1 31 else 0) + Z.shiftl 255 23
  | FFin neg m e =>
    let s := if neg then Z.shiftl 1 31 else 0 in
    if m <=? 0 then s else
    let nb := bits m in
    let E := e + nb - 1 in
    if E >=? -126 then
      s + Z.shiftl (E + 127) 23 + (Z.shiftl m (24 - nb) - Z.shiftl 1 23)
    else s + Z.shiftl m (e + 149)
  end.

(* ---- arithmetic (Python float semantics) ---- *)

Definition fneg (x : fl) : fl :=
  match x with
  | FNaN => FNaN
  | FInf n => FInf (negb n)
  | FFin n m e => FFin (negb n) m e
  end.

Definition fabs (x : fl) : fl :=
  match x with
  | FNaN => FNaN
  | FInf _ => FInf false
  | FFin _ m e => FFin false m e
  end.

Definition is_zero (x : fl) : bool :=
  match x with FFin _ m _ => m <=? 0 | _ => false end.

Definition is_nan (x : fl) : bool := match x with FNaN => true | _ => false end.
Definition is_inf (x : fl) : bool := match x with FInf _ => true | _ => false end.
Definition is_finite (x : fl) : bool := match x with FFin _ _ _ => true | _ => false end.

Definition sgn_of (x : fl) : bool :=
  match x with FNaN => false | FInf n => n | FFin n _ _ => n end.

(* signed integer mantissa at a common exponent *)
Definition smant (n : bool) (m : Z) : Z := if n then - m else m.

Definition fadd (x y : fl) : fl :=
  match x, y with
  | FNaN, _ | _, FNaN => FNaN
  | FInf a, FInf b => if Bool.eqb a b then FInf a else FNaN
  | FInf a, _ => FInf a
  | _, FInf b => FInf b
  | FFin n1 m1 e1, FFin n2 m2 e2 =>
    if (m1 <=? 0) && (m2 <=? 0) then fzero (n1 && n2)
    else if m1 <=? 0 then y
    else if m2 <=? 0 then x
    else
      let e := Z.min e1 e2 in
      let s := smant n1 (Z.shiftl m1 (e1 - e)) + smant n2 (Z.shiftl m2 (e2 - e)) in
      if s =? 0 then fzero false
      else round64 (s <? 0) (Z.abs s) e false
  end.

Definition fsub (x y : fl) : fl := fadd x (fneg y).

Definition fmul (x y : fl) : fl :=
  match x, y with
  | FNaN, _ | _, FNaN => FNaN
  | FInf a, FInf b => FInf (xorb a b)
  | FInf a, FFin b m _ => if m <=? 0 then FNaN else FInf (xorb a b)
  | FFin a m _, FInf b => if m <=? 0 then FNaN else FInf (xorb a b)
  | FFin n1 m1 e1, FFin n2 m2 e2 =>
    if (m1 <=? 0) || (m2 <=? 0) then fzero (xorb n1 n2)
    else round64 (xorb n1 n2) (m1 * m2) (e1 + e2) false
  end.

(* division; the caller has excluded a zero divisor (ZeroDivisionError) *)
Definition fdiv (x y : fl) : fl :=
  match x, y with
  | FNaN, _ | _, FNaN => FNaN
  | FInf a, FInf b => FNaN
  | FInf a, FFin b _ _ => FInf (xorb a b)
  | FFin a _ _, FInf b => fzero (xorb a b)
  | FFin n1 m1 e1, FFin n2 m2 e2 =>
    if m2 <=? 0 then FNaN
    else if m1 <=? 0 then fzero (xorb n1 n2)
    else
      let k := 64 + bits m2 in
      let num := Z.shiftl m1 k in
      let q := num / m2 in
      let r := num - q * m2 in
      round64 (xorb n1 n2) q (e1 - e2 - k) (negb (r =? 0))
  end.

(* comparison: None when unordered *)
Definition fcmp (x y : fl) : option comparison :=
  match x, y with
  | FNaN, _ | _, FNaN => None
  | FInf a, FInf b => Some (if Bool.eqb a b then Eq else if a then Lt else Gt)
  | FInf a, _ => Some (if a then Lt else Gt)
  | _, FInf b => Some (if b then Gt else Lt)
  | FFin n1 m1 e1, FFin n2 m2 e2 =>
    let e := Z.min e1 e2 in
    Some (Z.compare (smant n1 (Z.shiftl m1 (e1 - e))) (smant n2 (Z.shiftl m2 (e2 - e))))
  end.

Definition feqb (x y : fl) : bool :=
  match fcmp x y with Some Eq => true | _ => false end.
Definition fltb (x y : fl) : bool :=
  match fcmp x y with Some Lt => true | _ => false end.
Definition fleb (x y : fl) : bool :=
  match fcmp x y with Some Lt | Some Eq => true | _ => false end.

Definition of_Z (z : Z) : fl :=
  if z =? 0 then fzero false else round64 (z <? 0) (Z.abs z) 0 false.

(* exact integer value of a finite float with e >= 0, otherwise pieces *)
Definition floor_fin (neg : bool) (m e : Z) : Z :=
  if e >=? 0 then smant neg (Z.shiftl m e)
  else
    let q := Z.shiftr m (- e) in
    let exact := m =? Z.shiftl q (- e) in
    if neg then (if exact then - q else - q - 1) else q.

(* math.floor: None on inf/nan (OverflowError / ValueError in Python) *)
Definition ffloor (x : fl) : option Z :=
  match x with FFin n m e => Some (floor_fin n m e) | _ => None end.

(* int(x): truncation *)
Definition ftrunc (x : fl) : option Z :=
  match x with
  | FFin n m e =>
    if e >=? 0 then Some (smant n (Z.shiftl m e))
    else Some (smant n (Z.shiftr m (- e)))
  | _ => None
  end.

(* round(x) with one argument: nearest integer, ties to even *)
Definition fround (x : fl) : option Z :=
  match x with
  | FFin n m e =>
    if e >=? 0 then Some (smant n (Z.shiftl m e))
    else
      let sh := - e in
      let q := Z.shiftr m sh in
      let r := m - Z.shiftl q sh in
      let half := Z.shiftl 1 (sh - 1) in
      let q' := if r >? half then q + 1
                else if r <? half then q
                else if Z.odd q then q + 1 else q in
      Some (smant n q')
  | _ => None
  end.

(* struct.pack('>f', x) then unpack: None = OverflowError *)
Definition to_single (x : fl) : option fl :=
  match x with
  | FNaN => Some FNaN
  | FInf n => Some (FInf n)
  | FFin n m e =>
    if m <=? 0 then Some x
    else match round32 n m e false with
         | FInf _ => None
         | r => Some r
         end
  end.

Definition f_one : fl := FFin false 1 0.
Definition f_of_small (z : Z) : fl := of_Z z.
