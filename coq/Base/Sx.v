(* Universal interchange format between the harness and the models.
   Every model entry point is a total function [sx -> sx]; the OCaml driver
   and the vm_compute sample files only know this type.  Strings are lists
   of code points; floats travel as IEEE bit patterns (see Base/Fl.v). *)
From Coq Require Import ZArith List Bool.
Import ListNotations.
Open Scope Z_scope.

Inductive sx : Type :=
| SZ (z : Z)
| SL (l : list sx).

Definition str := list Z.

Definition sx_str (s : str) : sx := SL (map SZ s).

Definition sx_bool (b : bool) : sx := SZ (if b then 1 else 0).

Definition get_z (x : sx) : option Z :=
  match x with SZ z => Some z | SL _ => None end.

Definition get_l (x : sx) : option (list sx) :=
  match x with SL l => Some l | SZ _ => None end.

Fixpoint get_zs (l : list sx) : option (list Z) :=
  match l with
  | [] => Some []
  | SZ z :: r => match get_zs r with Some zs => Some (z :: zs) | None => None end
  | SL _ :: _ => None
  end.

Definition get_str (x : sx) : option str :=
  match x with SL l => get_zs l | SZ _ => None end.

Fixpoint map_opt {A B} (f : A -> option B) (l : list A) : option (list B) :=
  match l with
  | [] => Some []
  | a :: r => match f a, map_opt f r with
              | Some b, Some bs => Some (b :: bs)
              | _, _ => None
              end
  end.

(* malformed job: the driver prints this and the harness treats it as a
   harness error, never as agreement *)
Definition sx_bad : sx := SL [SZ (-999); SZ (-999); SZ (-999)].

Lemma get_zs_map_SZ s : get_zs (map SZ s) = Some s.
Proof. induction s as [|z s IH]; simpl; [reflexivity | now rewrite IH]. Qed.

Lemma get_str_sx_str s : get_str (sx_str s) = Some s.
Proof. apply get_zs_map_SZ. Qed.

(* used by the OCaml driver to build big integers without trusting OCaml ints *)
Definition z_muladd (a b c : Z) : Z := a * b + c.
