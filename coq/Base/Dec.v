(* Exact decimal <-> binary conversions, all in Z:
   - dec_to_fl c k      : correctly rounded binary64 value of c * 10^k  (Python float(str))
   - py_repr            : Python repr(float) / str(float) (shortest round-tripping digits)
   - py_round_nd        : Python round(x, nd)
   Every finite double m*2^e is exactly N * 10^q with N = m * 5^(-e), q = e (e < 0)
   or N = m * 2^e, q = 0. *)
From Coq Require Import ZArith List Bool Lia.
From QV Require Import Sx Strs Fl.
Import ListNotations.
Open Scope Z_scope.

(* correctly rounded c * 10^k, c >= 0 *)
Definition dec_to_fl_gen (rnd : bool -> Z -> Z -> bool -> fl) (neg : bool) (c k : Z) : fl :=
  if c <=? 0 then fzero neg
  else if k >=? 0 then rnd neg (c * 10 ^ k) 0 false
  else
    let d := 10 ^ (- k) in
    let s := 64 + bits d in
    let num := Z.shiftl c s in
    let q := num / d in
    let r := num - q * d in
    rnd neg q (- s) (negb (r =? 0)).

Definition dec_to_fl := dec_to_fl_gen round64.

(* number of decimal digits of n > 0 *)
Definition ndigits (n : Z) : Z :=
  if n <=? 0 then 1 else
  let est := (Z.log2 n * 30103) / 100000 + 1 in
  (* est is within one of the truth: fix up *)
  if n <? 10 ^ (est - 1) then est - 1
  else if n >=? 10 ^ est then est + 1 else est.

(* exact decimal form N * 10^q of m * 2^e *)
Definition exact_dec (m e : Z) : Z * Z :=
  if e >=? 0 then (Z.shiftl m e, 0) else (m * 5 ^ (- e), e).

(* top 20 digits: (top, rest_nonzero, q') with  top*10^q' <= value < (top+1)*10^q'
   and top having exactly 20 digits.  Three digits more than the 17 ever
   shown, so that "above / below one half" is decided exactly: with p = 10^j,
   j >= 1, and a remainder r + delta (0 <= delta < 1): 2r < p implies
   2(r + delta) < p because p is even. *)
Definition topd : Z := 20.
Definition top17 (N q : Z) : Z * bool * Z :=
  let L := ndigits N in
  if L <=? topd then (N * 10 ^ (topd - L), false, q - (topd - L))
  else
    let p := 10 ^ (L - topd) in
    let t := N / p in
    (t, negb (N - t * p =? 0), q + (L - topd)).

(* shortest round-tripping digits: returns (digits c, exponent k) meaning c * 10^k,
   c having n digits (or being 10^n), searched for n = 1 .. 17 *)
Fixpoint shortest_from (x : fl) (neg : bool) (top : Z) (rest : bool) (q : Z)
         (n : Z) (fuel : nat) : Z * Z :=
  match fuel with
  | O => (top, q)
  | S f =>
    let p := 10 ^ (topd - n) in
    let d := top / p in
    let r := top - d * p in
    let k := q + (topd - n) in
    let sticky := negb (r =? 0) || rest in
    if negb sticky then (d, k)
    else
      let lo_ok := match dec_to_fl neg d k, x with
                   | FFin _ a b, FFin _ a' b' => (a =? a') && (b =? b')
                   | _, _ => false end in
      let hi_ok := match dec_to_fl neg (d + 1) k, x with
                   | FFin _ a b, FFin _ a' b' => (a =? a') && (b =? b')
                   | _, _ => false end in
      (* is the fraction above one half?  2r vs p, rest breaks the tie upwards *)
      let up := if 2 * r >? p then true
                else if 2 * r <? p then false
                else if rest then true else Z.odd d in
      if lo_ok && hi_ok then (if up then (d + 1, k) else (d, k))
      else if lo_ok then (d, k)
      else if hi_ok then (d + 1, k)
      else shortest_from x neg top rest q (n + 1) f
  end.

Definition shortest (neg : bool) (m e : Z) : Z * Z :=
  let '(N, q) := exact_dec m e in
  let '(top, rest, q') := top17 N q in
  shortest_from (norm neg m e) neg top rest q' 1 17.

(* strip trailing decimal zeros of c > 0, adjusting k *)
Fixpoint strip10 (fuel : nat) (c k : Z) : Z * Z :=
  match fuel with
  | O => (c, k)
  | S f => if (c mod 10 =? 0) && (0 <? c) then strip10 f (c / 10) (k + 1) else (c, k)
  end.

(* Python repr of a finite non-zero magnitude: digit string ds and decpt with
   value = 0.ds * 10^decpt *)
Definition repr_digits (neg : bool) (m e : Z) : str * Z :=
  let '(c, k) := shortest neg m e in
  let '(c', k') := strip10 20 c k in
  let ds := nat_digits c' in
  (ds, k' + Z.of_nat (length ds)).

Definition zeros (n : Z) : str := repeat ch_0 (Z.to_nat n).

Definition two_digits (z : Z) : str :=
  if z <? 10 then ch_0 :: nat_digits z else nat_digits z.

Definition format_repr (ds : str) (decpt : Z) : str :=
  if (-4 <? decpt) && (decpt <=? 16) then
    if decpt <=? 0 then [ch_0; ch_dot] ++ zeros (- decpt) ++ ds
    else if Z.of_nat (length ds) <=? decpt then
      ds ++ zeros (decpt - Z.of_nat (length ds)) ++ [ch_dot; ch_0]
    else firstn (Z.to_nat decpt) ds ++ [ch_dot] ++ skipn (Z.to_nat decpt) ds
  else
    let ex := decpt - 1 in
    let mant := match ds with
                | [] => [ch_0]
                | [d] => [d]
                | d :: r => d :: ch_dot :: r
                end in
    mant ++ [ch_e] ++ [if ex <? 0 then ch_minus else ch_plus] ++ two_digits (Z.abs ex).

Definition s_nan : str := [110; 97; 110].
Definition s_inf : str := [105; 110; 102].

(* Python repr(float) *)
Definition py_repr (x : fl) : str :=
  match x with
  | FNaN => s_nan
  | FInf n => if n then ch_minus :: s_inf else s_inf
  | FFin n m e =>
    let sign := if n then [ch_minus] else [] in
    if m <=? 0 then sign ++ [ch_0; ch_dot; ch_0]
    else let '(ds, decpt) := repr_digits n m e in sign ++ format_repr ds decpt
  end.

(* Python round(x, nd): decimal rounding, half to even on the exact value,
   then correctly rounded back to binary64 *)
Definition py_round_nd (x : fl) (nd : Z) : fl :=
  match x with
  | FFin n m e =>
    if m <=? 0 then x else
    let '(N, q) := exact_dec m e in
    let s := q + nd in
    if s >=? 0 then x   (* already a multiple of 10^-nd *)
    else
      let p := 10 ^ (- s) in
      let d := N / p in
      let r := N - d * p in
      let d' := if 2 * r >? p then d + 1
                else if 2 * r <? p then d
                else if Z.odd d then d + 1 else d in
      dec_to_fl n d' (- nd)
  | _ => x
  end.
