(* Strings are lists of code points (Z).  Decimal rendering and parsing of
   integers, blanks, trimming: the string primitives the models share. *)
From Coq Require Import ZArith List Bool Lia.
From QV Require Import Sx.
Import ListNotations.
Open Scope Z_scope.

Definition ch_space : Z := 32.
Definition ch_tab : Z := 9.
Definition ch_cr : Z := 13.
Definition ch_lf : Z := 10.
Definition ch_comma : Z := 44.
Definition ch_quote : Z := 34.
Definition ch_minus : Z := 45.
Definition ch_plus : Z := 43.
Definition ch_dot : Z := 46.
Definition ch_0 : Z := 48.
Definition ch_hash : Z := 35.
Definition ch_pct : Z := 37.
Definition ch_amp : Z := 38.
Definition ch_bang : Z := 33.
Definition ch_us : Z := 95.
Definition ch_colon : Z := 58.
Definition ch_e : Z := 101.
Definition ch_E : Z := 69.
Definition ch_D : Z := 68.

Definition spaces (n : nat) : str := repeat ch_space n.

Definition crlf : str := [ch_cr; ch_lf].

Fixpoint str_eqb (a b : str) : bool :=
  match a, b with
  | [], [] => true
  | x :: a', y :: b' => (x =? y) && str_eqb a' b'
  | _, _ => false
  end.

Lemma str_eqb_eq a b : str_eqb a b = true <-> a = b.
Proof.
  revert b; induction a as [|x a IH]; intros [|y b]; simpl; split; intro H;
    try reflexivity; try discriminate.
  - apply andb_true_iff in H as [H1 H2]. apply Z.eqb_eq in H1. apply IH in H2. congruence.
  - inversion H; subst. rewrite Z.eqb_refl. simpl. now apply IH.
Qed.

(* ---- decimal digits of a non-negative integer ---- *)

Fixpoint digits_fuel (fuel : nat) (z : Z) (acc : str) : str :=
  match fuel with
  | O => (ch_0 + z) :: acc
  | S f => if z <? 10 then (ch_0 + z) :: acc
           else digits_fuel f (z / 10) ((ch_0 + z mod 10) :: acc)
  end.

(* enough fuel: the number of binary digits bounds the number of decimal ones *)
Definition nat_digits (z : Z) : str :=
  digits_fuel (Z.to_nat (Z.log2 z)) z [].

(* Python str(int) *)
Definition Z_to_dec (z : Z) : str :=
  if z <? 0 then ch_minus :: nat_digits (- z) else nat_digits z.

Definition is_digit (c : Z) : bool := (48 <=? c) && (c <=? 57).

(* value of a digit string, None if empty or a non-digit occurs *)
Fixpoint digits_val_acc (s : str) (acc : Z) : option Z :=
  match s with
  | [] => Some acc
  | c :: r => if is_digit c then digits_val_acc r (acc * 10 + (c - 48)) else None
  end.

Definition digits_val (s : str) : option Z :=
  match s with [] => None | _ => digits_val_acc s 0 end.

Definition is_blank (c : Z) : bool := (c =? 32) || (c =? 9).

Fixpoint drop_while (p : Z -> bool) (s : str) : str :=
  match s with
  | [] => []
  | c :: r => if p c then drop_while p r else s
  end.

Definition drop_while_end (p : Z -> bool) (s : str) : str :=
  rev (drop_while p (rev s)).

(* Python str.strip() with no argument strips all Unicode white space; the
   harness alphabets contain these: space, \t \n \v \f \r, \x1c-\x1f, \x85, \xa0 *)
Definition is_py_space (c : Z) : bool :=
  (c =? 32) || ((9 <=? c) && (c <=? 13)) || ((28 <=? c) && (c <=? 31))
  || (c =? 133) || (c =? 160).

Definition py_strip (s : str) : str :=
  drop_while_end is_py_space (drop_while is_py_space s).

Definition strip_sp (s : str) : str :=
  drop_while_end (fun c => c =? 32) (drop_while (fun c => c =? 32) s).

(* split at every occurrence of [sep]; always at least one field *)
Fixpoint split_on (sep : Z) (s : str) (cur : str) : list str :=
  match s with
  | [] => [rev cur]
  | c :: r => if c =? sep then rev cur :: split_on sep r [] else split_on sep r (c :: cur)
  end.

Definition split_commas (s : str) : list str := split_on ch_comma s [].

(* ---- facts used by several proofs ---- *)

Lemma spaces_length n : length (spaces n) = n.
Proof. apply repeat_length. Qed.

Lemma digits_fuel_app fuel z acc :
  digits_fuel fuel z acc = digits_fuel fuel z [] ++ acc.
Proof.
  revert z acc; induction fuel as [|f IH]; intros z acc; simpl.
  - reflexivity.
  - destruct (z <? 10); [reflexivity|].
    rewrite IH. rewrite (IH (z / 10) [_]). now rewrite <- app_assoc.
Qed.

Lemma digits_val_acc_app a b acc :
  digits_val_acc (a ++ b) acc =
  match digits_val_acc a acc with Some v => digits_val_acc b v | None => None end.
Proof.
  revert acc; induction a as [|c a IH]; intro acc; simpl; [reflexivity|].
  destruct (is_digit c); [apply IH | reflexivity].
Qed.

(* parsing the rendering gives the number back, for every z >= 0 *)
Lemma digits_fuel_val fuel z :
  0 <= z -> z < 2 ^ Z.of_nat (S fuel) ->
  digits_val_acc (digits_fuel fuel z []) 0 = Some z /\ digits_fuel fuel z [] <> [].
Proof.
  revert z; induction fuel as [|f IH]; intros z Hz Hlt.
  - simpl in *. assert (z = 0 \/ z = 1) as [-> | ->] by lia; split; try discriminate; reflexivity.
  - cbn [digits_fuel]. destruct (Z.ltb_spec z 10) as [Hs|Hs].
    + split; [|discriminate]. cbn [digits_val_acc]. unfold is_digit, ch_0.
      replace ((48 <=? 48 + z) && (48 + z <=? 57)) with true
        by (symmetry; apply andb_true_iff; split; apply Z.leb_le; lia).
      f_equal; lia.
    + rewrite digits_fuel_app.
      assert (Hq : 0 <= z / 10) by (apply Z.div_pos; lia).
      assert (Hq2 : z / 10 < 2 ^ Z.of_nat (S f)).
      { rewrite Nat2Z.inj_succ in Hlt. rewrite Z.pow_succ_r in Hlt by lia.
        apply Z.div_lt_upper_bound; [lia|]. lia. }
      destruct (IH (z / 10) Hq Hq2) as [IH1 IH2].
      split.
      * rewrite digits_val_acc_app, IH1. cbn [digits_val_acc]. unfold is_digit, ch_0.
        assert (0 <= z mod 10 < 10) by (apply Z.mod_pos_bound; lia).
        replace ((48 <=? 48 + z mod 10) && (48 + z mod 10 <=? 57)) with true
          by (symmetry; apply andb_true_iff; split; apply Z.leb_le; lia).
        f_equal. pose proof (Z.div_mod z 10). lia.
      * destruct (digits_fuel f (z / 10) []); [congruence | discriminate].
Qed.

Lemma nat_digits_val z : 0 <= z -> digits_val (nat_digits z) = Some z.
Proof.
  intro Hz. unfold nat_digits.
  assert (Hlt : z < 2 ^ Z.of_nat (S (Z.to_nat (Z.log2 z)))).
  { rewrite Nat2Z.inj_succ, Z2Nat.id by apply Z.log2_nonneg.
    destruct (Z.eq_dec z 0) as [->|Hn]; [reflexivity|].
    apply Z.log2_spec; lia. }
  destruct (digits_fuel_val _ z Hz Hlt) as [H1 H2].
  unfold digits_val. destruct (digits_fuel _ z []) eqn:E; [congruence | exact H1].
Qed.

Lemma digits_fuel_all_digits fuel z acc :
  0 <= z -> z < 2 ^ Z.of_nat (S fuel) ->
  forallb is_digit acc = true -> forallb is_digit (digits_fuel fuel z acc) = true.
Proof.
  revert z acc; induction fuel as [|f IH]; intros z acc Hz Hlt Hacc.
  - simpl in *. assert (z = 0 \/ z = 1) as [-> | ->] by lia; simpl; exact Hacc.
  - cbn [digits_fuel]. destruct (Z.ltb_spec z 10) as [Hs|Hs].
    + cbn [forallb]. rewrite Hacc. unfold is_digit, ch_0.
      replace ((48 <=? 48 + z) && (48 + z <=? 57)) with true
        by (symmetry; apply andb_true_iff; split; apply Z.leb_le; lia). reflexivity.
    + apply IH.
      * apply Z.div_pos; lia.
      * rewrite Nat2Z.inj_succ in Hlt. rewrite Z.pow_succ_r in Hlt by lia.
        apply Z.div_lt_upper_bound; lia.
      * cbn [forallb]. rewrite Hacc. unfold is_digit, ch_0.
        assert (0 <= z mod 10 < 10) by (apply Z.mod_pos_bound; lia).
        replace ((48 <=? 48 + z mod 10) && (48 + z mod 10 <=? 57)) with true
          by (symmetry; apply andb_true_iff; split; apply Z.leb_le; lia). reflexivity.
Qed.

Lemma nat_digits_all_digits z : 0 <= z -> forallb is_digit (nat_digits z) = true.
Proof.
  intro Hz. unfold nat_digits. apply digits_fuel_all_digits; [exact Hz| |reflexivity].
  rewrite Nat2Z.inj_succ, Z2Nat.id by apply Z.log2_nonneg.
  destruct (Z.eq_dec z 0) as [->|Hn]; [reflexivity|].
  apply Z.log2_spec; lia.
Qed.
