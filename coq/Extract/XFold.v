From Coq Require Import Extraction ExtrOcamlBasic.
From QV Require Import Sx Strs FoldEntry.
Definition entry := fold_entry.
Definition z_to_dec := Z_to_dec.
Extraction "../build/x/Fold/model.ml" entry z_muladd z_to_dec.
