From Coq Require Import Extraction ExtrOcamlBasic.
From QV Require Import Sx Strs DeterminismEntry.
Definition entry := determinism_entry.
Definition z_to_dec := Z_to_dec.
Extraction "../build/x/Determinism/model.ml" entry z_muladd z_to_dec.
