From Coq Require Import Extraction ExtrOcamlBasic.
From QV Require Import Sx Strs CodecEntry.
Definition entry := codec_entry.
Definition z_to_dec := Z_to_dec.
Extraction "../build/x/Codec/model.ml" entry z_muladd z_to_dec.
