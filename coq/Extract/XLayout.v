From Coq Require Import Extraction ExtrOcamlBasic.
From QV Require Import Sx Strs LayoutEntry.
Definition entry := layout_entry.
Definition z_to_dec := Z_to_dec.
Extraction "../build/x/Layout/model.ml" entry z_muladd z_to_dec.
