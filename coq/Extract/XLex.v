From Coq Require Import Extraction ExtrOcamlBasic.
From QV Require Import Sx Strs LexEntry.
Definition entry := lex_entry.
Definition z_to_dec := Z_to_dec.
Extraction "../build/x/Lex/model.ml" entry z_muladd z_to_dec.
