From Coq Require Import Extraction ExtrOcamlBasic.
From QV Require Import Sx Strs PrintEntry.
Definition entry := print_entry.
Definition z_to_dec := Z_to_dec.
Extraction "../build/x/Print/model.ml" entry z_muladd z_to_dec.
