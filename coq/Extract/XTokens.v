From Coq Require Import Extraction ExtrOcamlBasic.
From QV Require Import Sx Strs TokensEntry.
Definition entry := tokens_entry.
Definition z_to_dec := Z_to_dec.
Extraction "../build/x/Tokens/model.ml" entry z_muladd z_to_dec.
