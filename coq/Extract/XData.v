From Coq Require Import Extraction ExtrOcamlBasic.
From QV Require Import Sx Strs DataEntry.
Definition entry := data_entry.
Definition z_to_dec := Z_to_dec.
Extraction "../build/x/Data/model.ml" entry z_muladd z_to_dec.
