From Coq Require Import Extraction ExtrOcamlBasic.
From QV Require Import Sx Strs NumFmtEntry.
Definition entry := numfmt_entry.
Definition z_to_dec := Z_to_dec.
Extraction "../build/x/NumFmt/model.ml" entry z_muladd z_to_dec.
