From Coq Require Import Extraction ExtrOcamlBasic.
From QV Require Import Sx Strs MonitorEntry.
Definition entry := monitor_entry.
Definition z_to_dec := Z_to_dec.
Extraction "../build/x/Monitor/model.ml" entry z_muladd z_to_dec.
