From Coq Require Import Extraction ExtrOcamlBasic.
From QV Require Import Sx Strs MemEntry.
Definition entry := mem_entry.
Definition z_to_dec := Z_to_dec.
Extraction "../build/x/Mem/model.ml" entry z_muladd z_to_dec.
