From Coq Require Import Extraction ExtrOcamlBasic.
From QV Require Import Sx Strs DbgEvalEntry.
Definition entry := dbgeval_entry.
Definition z_to_dec := Z_to_dec.
Extraction "../build/x/DbgEval/model.ml" entry z_muladd z_to_dec.
