From Coq Require Import Extraction ExtrOcamlBasic.
From QV Require Import Sx Strs InputEntry.
Definition entry := input_entry.
Definition z_to_dec := Z_to_dec.
Extraction "../build/x/Input/model.ml" entry z_muladd z_to_dec.
