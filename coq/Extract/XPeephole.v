From Coq Require Import Extraction ExtrOcamlBasic.
From QV Require Import Sx Strs PeepholeEntry.
Definition entry := peephole_entry.
Definition z_to_dec := Z_to_dec.
Extraction "../build/x/Peephole/model.ml" entry z_muladd z_to_dec.
