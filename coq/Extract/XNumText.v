From Coq Require Import Extraction ExtrOcamlBasic.
From QV Require Import Sx Strs NumTextEntry.
Definition entry := numtext_entry.
Definition z_to_dec := Z_to_dec.
Extraction "../build/x/NumText/model.ml" entry z_muladd z_to_dec.
