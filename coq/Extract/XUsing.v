From Coq Require Import Extraction ExtrOcamlBasic.
From QV Require Import Sx Strs UsingEntry.
Definition entry := using_entry.
Definition z_to_dec := Z_to_dec.
Extraction "../build/x/Using/model.ml" entry z_muladd z_to_dec.
