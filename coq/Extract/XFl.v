From Coq Require Import Extraction ExtrOcamlBasic.
From QV Require Import Sx Strs FlEntry.
Definition entry := fl_entry.
Definition z_to_dec := Z_to_dec.
Extraction "../build/x/Fl/model.ml" entry z_muladd z_to_dec.
