From Coq Require Import Extraction ExtrOcamlBasic.
From QV Require Import Sx Strs MachineEntry.
Definition entry := machine_entry.
Definition z_to_dec := Z_to_dec.
Extraction "../build/x/Machine/model.ml" entry z_muladd z_to_dec.
