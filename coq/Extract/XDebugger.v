From Coq Require Import Extraction ExtrOcamlBasic.
From QV Require Import Sx Strs DebuggerEntry.
Definition entry := debugger_entry.
Definition z_to_dec := Z_to_dec.
Extraction "../build/x/Debugger/model.ml" entry z_muladd z_to_dec.
