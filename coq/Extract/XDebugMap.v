From Coq Require Import Extraction ExtrOcamlBasic.
From QV Require Import Sx Strs DebugMapEntry.
Definition entry := debugmap_entry.
Definition z_to_dec := Z_to_dec.
Extraction "../build/x/DebugMap/model.ml" entry z_muladd z_to_dec.
