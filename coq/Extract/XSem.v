From Coq Require Import Extraction ExtrOcamlBasic.
From QV Require Import Sx Strs SemEntry.
Definition entry := sem_entry.
Definition z_to_dec := Z_to_dec.
Extraction "../build/x/Sem/model.ml" entry z_muladd z_to_dec.
