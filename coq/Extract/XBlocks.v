From Coq Require Import Extraction ExtrOcamlBasic.
From QV Require Import Sx Strs BlocksEntry.
Definition entry := blocks_entry.
Definition z_to_dec := Z_to_dec.
Extraction "../build/x/Blocks/model.ml" entry z_muladd z_to_dec.
