"""Copies a confirmed seeded change from /tmp/mut into /verif/seeded/<id>/ with the
confirmation and detection records.  usage: mkseeded.py C17 1 [detected-by text]"""
import json, os, shutil, sys
P, n = sys.argv[1], sys.argv[2]
src = f'/tmp/mut/{P}-out/{n}'
dst = f'/verif/seeded/{P}-{n}'
os.makedirs(dst, exist_ok=True)
shutil.copy(f'{src}/patch.diff', f'{dst}/patch.diff')
shutil.copy(f'{src}/demo.py', f'{dst}/demo.py')
meta = json.load(open(f'{src}/meta.json'))
conf = {}
cf = f'/tmp/mut/confirm/{P}-{n}.txt'
if os.path.exists(cf):
    for l in open(cf):
        l = l.strip()
        if '=' in l and ' ' not in l:
            k, v = l.split('=', 1)
            conf[k] = v
        elif 'passed' in l or 'failed' in l:
            conf['test_suite_with_patch'] = l
meta['confirmed_by_me'] = conf
meta['what_i_ran'] = ('scratch worktree of /repo: demo.py on the pristine tree, git apply patch.diff, demo.py again, '
                      'full repository test suite with the patch (tools: /tmp/mut/confirm.sh); then the registered quick check '
                      'with QBEE_REPO pointing at a scratch worktree with the patch applied (equivalent to applying it in /repo, '
                      'which was in use by other builders at the time)')
det = {}
lf = f'/tmp/mut/apply/{P}-{n}.log'
if os.path.exists(lf):
    lines = open(lf).read().split('\n')
    det['violation_lines'] = [l for l in lines if l.startswith('VIOLATION')][:6]
    det['summary'] = [l for l in lines if ' tier=' in l][:1]
    det['exit'] = [l for l in lines if l.startswith('exit=')][:1]
meta['check_run'] = det
if len(sys.argv) > 3:
    meta['detection_note'] = sys.argv[3]
json.dump(meta, open(f'{dst}/meta.json', 'w'), indent=1)
print(dst, conf, det.get('summary'))
