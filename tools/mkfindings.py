"""Assembles KNOWN_FINDINGS.json from findings/*.json (run by hand, committed)."""
import glob, json, os
HERE = os.path.dirname(os.path.dirname(os.path.abspath(__file__)))
out = []
for f in sorted(glob.glob(os.path.join(HERE, 'findings', '*.json'))):
    out += json.load(open(f))
json.dump(out, open(os.path.join(HERE, 'KNOWN_FINDINGS.json'), 'w'), indent=1)
print(len(out), 'findings')
