"""Assembles KNOWN_FINDINGS.json from findings/*.json (run by hand, committed)."""
import glob, json, os
HERE = os.path.dirname(os.path.dirname(os.path.abspath(__file__)))
out = []
for f in sorted(glob.glob(os.path.join(HERE, 'findings', '*.json'))):
    out += json.load(open(f))
for e in out:
    if e.get('status') == 'fixed':
        # the record line asked for by the interface; a fixed entry suppresses nothing
        e['record'] = f"fixed: property={e['property']} {e.get('commit', '?')} {e['id']}: {e.get('description', '')[:200]}"
json.dump(out, open(os.path.join(HERE, 'KNOWN_FINDINGS.json'), 'w'), indent=1)
print(len(out), 'findings')
