"""The repository's own test programs (tests/test_cases/*.test) as a corpus."""
import glob, os, sys


def load(case=None):
    repo = os.environ.get('QBEE_REPO', '/repo')
    sys.path.insert(0, os.path.join(repo, 'tests'))
    import importlib
    qtp = importlib.import_module('qb_test_parser')
    out = []
    for f in sorted(glob.glob(os.path.join(repo, 'tests', 'test_cases', '*.test'))):
        tf = None
        try:
            for fn in ('parse_qb_test_file',):
                if hasattr(qtp, fn):
                    tf = getattr(qtp, fn)(f)
                    break
        except Exception as e:  # noqa
            out.append({'file': os.path.basename(f), 'error': repr(e)})
            continue
        cases = tf.cases if hasattr(tf, 'cases') else tf
        for c in cases:
            out.append({'file': os.path.basename(f), 'idx': c.idx, 'src': c.source_code,
                        'expected_result': str(c.expected_result),
                        'inkey': list(c.inkey_list), 'rnd': list(c.rnd_list),
                        'timer': list(c.timer_list), 'no_run': c.no_run})
    return out
