"""Driving the real compiler and machine: compile, build machines with a
recording/scripted peripherals object, run with a tick limit, canonical traces."""
import io
import struct
import sys
import contextlib

import qbee.qvm_codegen  # noqa: registers the code generator
from qbee.compiler import Compiler
from qbee.exceptions import SyntaxError as QSyntaxError, CompileError
from qvm.module import QModule
from qvm.machine import QvmMachine
from qvm.cell import CellType, CellValue, Reference
from qvm.trap import Trapped, TrapCode
from qvm.cpu import HaltReason


def fbits(x):
    if x != x:
        return 0x7ff8000000000000
    return struct.unpack('>Q', struct.pack('>d', float(x)))[0]


def bits2f(b):
    return struct.unpack('>d', struct.pack('>Q', b))[0]


def canon(v):
    if isinstance(v, bool):
        return ['b', int(v)]
    if isinstance(v, int):
        return v
    if isinstance(v, float):
        return ['f', fbits(v)]
    if isinstance(v, str):
        return [ord(c) for c in v] if True else v
    if v is None:
        return ['none']
    if isinstance(v, (list, tuple)):
        return [canon(x) for x in v]
    return ['obj', type(v).__name__]


class Script:
    """scripted device inputs: keyboard lines, rnd values, timer values, inkey values"""

    def __init__(self, lines=(), rnd=(), timer=(), inkey=()):
        self.lines = list(lines)
        self.rnd = list(rnd)
        self.timer = list(timer)
        self.inkey = list(inkey)


class InputExhausted(Exception):
    pass


class Periph:
    """records every call; answers input requests from the script"""

    def __init__(self, script=None):
        self.events = []
        self.script = script or Script()

    def __getattr__(self, attr):
        if attr.startswith('_'):
            raise AttributeError(attr)

        def rec(*args):
            self.events.append([attr] + [canon(a) for a in args])
        return rec

    def terminal_print(self, text):
        self.events.append(['terminal_print', canon(text)])

    def terminal_input(self, same_line):
        if not self.script.lines:
            raise InputExhausted()
        line = self.script.lines.pop(0)
        self.events.append(['terminal_input', canon(same_line), canon(line)])
        return line

    def rng_get_next(self):
        v = self.script.rnd.pop(0) if self.script.rnd else 0.5
        self.events.append(['rng_get_next'])
        return v

    def rng_get_with_seed(self, seed):
        self.events.append(['rng_get_with_seed', canon(seed)])
        return abs(seed / 100) % 1

    def time_get_time(self):
        v = self.script.timer.pop(0) if self.script.timer else 0.0
        self.events.append(['time_get_time'])
        return v

    def terminal_inkey(self):
        v = self.script.inkey.pop(0) if self.script.inkey else ''
        self.events.append(['terminal_inkey'])
        return v

    def memory_peek(self, offset):
        self.events.append(['memory_peek', canon(offset)])
        return 0


def compile_src(src, level=0, debug=False):
    """returns ('ok', code) | ('err', kind, code_name, line)"""
    c = Compiler('qvm', optimization_level=level, debug_info=debug)
    return c.compile(src)


def compile_verdict(src, level=0, debug=False):
    try:
        code = compile_src(src, level, debug)
        return {'ok': True}, code
    except QSyntaxError as e:
        return {'ok': False, 'kind': 'syntax', 'loc': getattr(e, 'loc_start', None)}, None
    except CompileError as e:
        return {'ok': False, 'kind': 'compile', 'code': e.code.name,
                'loc': getattr(e, 'loc_start', None)}, None


def make_machine(module, script=None):
    p = Periph(script)
    m = QvmMachine(module, impl=p)
    return m, p


def empty_module():
    code = compile_src('', 0, False)
    return QModule.parse(bytes(code))


def cell_from(c):
    """['I',z] ['L',z] ['S',bits] ['D',bits] ['$',str]"""
    t, v = c
    if t == 'I':
        return CellValue(CellType.INTEGER, v)
    if t == 'L':
        return CellValue(CellType.LONG, v)
    if t == 'S':
        return CellValue(CellType.SINGLE, bits2f(v))
    if t == 'D':
        return CellValue(CellType.DOUBLE, bits2f(v))
    if t == '$':
        return CellValue(CellType.STRING, v)
    raise ValueError(t)


def cell_canon(c):
    if c is None:
        return ['none']
    t = c.type
    if t == CellType.INTEGER:
        return [1, c.value]
    if t == CellType.LONG:
        return [2, c.value]
    if t == CellType.SINGLE:
        return [3, fbits(c.value)]
    if t == CellType.DOUBLE:
        return [4, fbits(c.value)]
    if t == CellType.STRING:
        return [5, [ord(ch) for ch in c.value]]
    return [7]


def run_machine(m, max_ticks=200000):
    """tick until halted or the limit; returns (status, ticks).  status:
    'halt' | 'limit' | {'exc':...}"""
    cpu = m.cpu
    n = 0
    while not cpu.halted and n < max_ticks:
        if cpu.pc >= len(cpu.module.code):
            break
        cpu.tick()
        n += 1
    return ('halt' if cpu.halted or cpu.pc >= len(cpu.module.code) else 'limit'), n


def outcome(cpu):
    r = cpu.halt_reason.name
    trap = cpu.last_trap.name if (cpu.halt_reason == HaltReason.TRAP and cpu.last_trap) else None
    return [r, trap]
