"""The real QvmCpu/QvmMachine on constructed states (T-isa) and on compiled
modules (T-run), with canonical state output matching Models/MachineEntry.v."""
import struct
from implfns.common import *
import qvm.cpu as qcpu
from qvm.cpu import MemorySegment, CallFrame, Array, QvmCpu
from qvm.debug_info import DebugInfo, DebugNodeRecord
from qbee.utils import Empty

EV = {
    'terminal_print': 1, 'terminal_input': 2, 'terminal_cls': 3, 'terminal_color': 4,
    'terminal_view_print': 5, 'terminal_set_mode': 6, 'terminal_width': 7,
    'terminal_locate': 8, 'terminal_inkey': 9, 'pcspkr_beep': 10, 'pcspkr_play': 11,
    'pcspkr_sound': 12, 'time_get_time': 13, 'rng_seed': 14, 'rng_get_next': 15,
    'rng_get_with_seed': 16, 'memory_set_segment': 17, 'memory_set_default_segment': 18,
    'memory_peek': 19, 'memory_poke': 20, 'memory_bsave': 21, 'memory_bload': 22, 'fs_kill': 23,
}

CRASH = {'IndexError': 1, 'TypeError': 2, 'NameError': 3, 'AttributeError': 4, 'KeyError': 5,
         'ValueError': 6, 'OverflowError': 7, 'RuntimeError': 8, 'RecursionError': 8,
         'AssertionError': 9, 'error': 10, 'Trapped': 11, 'UnboundLocalError': 12, 'SyntaxError': 13}

# ---- segment registry: creation order = model segment ids
_registry = []
_orig_init = MemorySegment.__init__


def _init(self, size):
    _orig_init(self, size)
    _registry.append(self)


MemorySegment.__init__ = _init


class MPeriph(Periph):
    """like Periph, but seeded rnd also comes from the script (model: take_rnd)"""

    def rng_get_with_seed(self, seed):
        v = self.script.rnd.pop(0) if self.script.rnd else None
        if v is None:
            raise InputExhausted()
        self.events.append(['rng_get_with_seed', canon(seed)])
        return v

    def rng_get_next(self):
        if not self.script.rnd:
            raise InputExhausted()
        self.events.append(['rng_get_next'])
        return self.script.rnd.pop(0)

    def time_get_time(self):
        if not self.script.timer:
            raise InputExhausted()
        self.events.append(['time_get_time'])
        return self.script.timer.pop(0)


def ev_canon(e):
    out = [EV.get(e[0], 0)]
    for a in e[1:]:
        if isinstance(a, list) and len(a) == 2 and a[0] == 'f':
            out.append([0, a[1]])
        else:
            out.append(a)
    return out


def cell_out(c, ids):
    if c is None:
        return []
    t = c.type
    if t == CellType.REFERENCE:
        r = c.value
        return [7, ids.get(id(r.segment), -1), r.index]
    return cell_canon(c)


def state_out(cpu, periph, data_dev):
    ids = {id(s): i for i, s in enumerate(_registry)}
    heap = []
    for s in _registry:
        if isinstance(s, CallFrame):
            prev = ids.get(id(s.prev_frame), -1) if s.prev_frame is not None else -1
            kind = [1, prev, s.code_start, s.ret_addr, s.original_size]
        elif s is cpu.globals_segment:
            kind = 0
        else:
            kind = 2
        heap.append([kind, [cell_out(c, ids) for c in s.cells]])
    tt = cpu.trap_target
    tt = -1 if tt is None else (-2 if tt == 'next' else tt)
    return [cpu.pc, [cell_out(c, ids) for c in cpu.stack], heap,
            ids.get(id(cpu.cur_frame), -1) if cpu.cur_frame is not None else -1,
            1 if cpu.halted else 0, cpu.halt_reason.value,
            cpu.last_trap.value if cpu.last_trap is not None else 0,
            tt, 1 if cpu.error_handler_active else 0, cpu.trapped_addr,
            data_dev.data_part, data_dev.data_idx,
            [ev_canon(e) for e in periph.events]]


class Rec:
    def __init__(self, a, b):
        self.start_offset = a
        self.end_offset = b


def build_module(md):
    """md: {code:[bytes], literals:[str], data:[[item|None]], nglobals, stmts: None|[[s,e]]}"""
    dbg = None
    if md.get('stmts') is not None:
        dbg = object.__new__(DebugInfo)
        dbg.stmts = [Rec(a, b) for a, b in md['stmts']]
    data = [[Empty.value if it is None else it for it in part] for part in md['data']]
    return QModule(md['literals'], md['nglobals'], data, bytes(md['code']), dbg)


def mk_cell(c, segs):
    if c is None or c == []:
        return None
    t = c[0]
    if t == 7:
        return CellValue(CellType.REFERENCE, Reference(segment=segs[c[1]], index=c[2]))
    ty = {1: CellType.INTEGER, 2: CellType.LONG, 3: CellType.SINGLE, 4: CellType.DOUBLE,
          5: CellType.STRING}[t]
    cv = object.__new__(CellValue)
    cv.type = ty
    if t in (3, 4):
        cv.value = bits2f(c[1])
    elif t == 5:
        cv.value = ''.join(chr(x) for x in c[1])
    else:
        cv.value = c[1]
    return cv


def build_state(md, sd):
    """sd: {pc, stack:[cells bottom->top], heap:[[kind, cells]], cur, halted, reason, last_trap,
    kw_ok, ttarget, active, trapped_addr, irq, dpart, didx, last_rnd, script}"""
    del _registry[:]
    module = build_module(md)
    sc = sd.get('script', {})
    p = MPeriph(Script(lines=[l for l in sc.get('lines', [])],
                       rnd=[bits2f(b) for b in sc.get('rnd', [])],
                       timer=[bits2f(b) for b in sc.get('timer', [])],
                       inkey=list(sc.get('inkey', []))))
    m = QvmMachine(module, impl=p)
    cpu = m.cpu
    segs = [cpu.globals_segment]
    # create the other segments (registered in order)
    for kind, cells in sd['heap'][1:]:
        if kind == 2:
            s = object.__new__(Array)
            _init(s, len(cells))
            # the attributes Array.__init__ sets besides the header cells (used by __repr__ in log messages)
            try:
                nd = cells[1][1]
                s.element_size = cells[2][1]
                s.bounds = [(cells[3 + 2 * k][1], cells[4 + 2 * k][1]) for k in range(nd)]
            except Exception:  # noqa  (a deliberately malformed header)
                s.element_size, s.bounds = 1, []
        else:
            _, prev, cstart, ra, orig = kind
            s = CallFrame(orig, None, cstart, ra)
            s.cells = [None] * len(cells)
            s.size = len(cells)
        segs.append(s)
    for (kind, cells), s in zip(sd['heap'], segs):
        if isinstance(kind, list) and kind[0] == 1:
            s.prev_frame = segs[kind[1]] if kind[1] >= 0 else None
        s.cells = [mk_cell(c, segs) for c in cells]
    cpu.pc = sd['pc']
    cpu.stack = [mk_cell(c, segs) for c in sd['stack']]
    cpu.cur_frame = segs[sd['cur']] if sd['cur'] >= 0 else None
    cpu.halted = bool(sd.get('halted', 0))
    cpu.halt_reason = HaltReason(sd.get('reason', 1))
    lt = sd.get('last_trap', 0)
    cpu.last_trap = TrapCode(lt) if lt else None
    if lt and not sd.get('kw_ok', 1):
        cpu.last_trap_kwargs = {}
    elif lt:
        cpu.last_trap_kwargs = _good_kwargs(TrapCode(lt))
    tt = sd.get('ttarget', -1)
    cpu.trap_target = None if tt == -1 else ('next' if tt == -2 else tt)
    cpu.error_handler_active = bool(sd.get('active', 0))
    cpu.trapped_addr = sd.get('trapped_addr', 0)
    cpu.received_keyboard_interrupt = bool(sd.get('irq', 0))
    dd = cpu.devices['data']
    dd.data_part = sd.get('dpart', 0)
    dd.data_idx = sd.get('didx', 0)
    lr = sd.get('last_rnd')
    cpu.devices['rng'].last_rnd = bits2f(lr[0]) if lr else None
    return m, p


def _good_kwargs(code):
    n = code.name
    if n == 'TYPE_MISMATCH':
        return {'expected': 'x', 'got': CellType.INTEGER}
    if n == 'DEVICE_ERROR':
        return {'device_id': 2, 'error_code': 1, 'error_msg': ''}
    if n == 'INVALID_OP_CODE':
        return {'op_code': 0}
    if n == 'DEVICE_NOT_AVAILABLE':
        return {'device_id': 0, 'device_name': ''}
    if n in ('INVALID_LOCAL_VAR_IDX', 'INVALID_GLOBAL_VAR_IDX'):
        return {'idx': 0}
    if n == 'NULL_REFERENCE':
        return {'scope': 'local', 'idx': 0}
    return {}


def tick_case(case):
    m, p = build_state(case['module'], case['state'])
    cpu = m.cpu
    dd = cpu.devices['data']
    try:
        cpu.tick()
    except InputExhausted:
        return [2, state_out(cpu, p, dd)]
    except BaseException as e:  # noqa
        k = CRASH.get(type(e).__name__, 98)
        return [1, k, state_out(cpu, p, dd), type(e).__name__, str(e)[:100]]
    return [0, state_out(cpu, p, dd)]


def module_desc(module):
    stmts = None
    if module.debug_info is not None:
        stmts = [[r.start_offset, r.end_offset] for r in module.debug_info.stmts]
    return {'code': list(module.code),
            'literals': module.literals,
            'data': [[None if it == Empty.value else it for it in part] for part in module.data],
            'nglobals': module.n_global_cells, 'stmts': stmts}


def run_case(case):
    """{src, level, debug, script:{lines,rnd(bits),timer(bits),inkey}, max_ticks}"""
    code = compile_src(case['src'], case.get('level', 0), case.get('debug', False))
    bc = bytes(code)
    del _registry[:]
    module = QModule.parse(bc)
    sc = case.get('script', {})
    p = MPeriph(Script(lines=list(sc.get('lines', [])),
                       rnd=[bits2f(b) for b in sc.get('rnd', [])],
                       timer=[bits2f(b) for b in sc.get('timer', [])],
                       inkey=list(sc.get('inkey', []))))
    m = QvmMachine(module, impl=p)
    cpu = m.cpu
    dd = cpu.devices['data']
    n = 0
    mx = case.get('max_ticks', 20000)
    stop = 0
    irq_at = case.get('irq_at')
    try:
        while n < mx:
            if cpu.halted or cpu.pc >= len(module.code):
                break
            if irq_at is not None and n == irq_at:
                cpu.received_keyboard_interrupt = True
            cpu.tick()
            n += 1
        else:
            stop = 1
    except InputExhausted:
        stop = 3
        n += 1
    except BaseException as e:  # noqa
        stop = [2, CRASH.get(type(e).__name__, 98)]
        n += 1
        return {'module': module_desc(module), 'result': [stop, n, state_out(cpu, p, dd)],
                'exc': [type(e).__name__, str(e)[:200]]}
    return {'module': module_desc(module), 'result': [stop, n, state_out(cpu, p, dd)]}


def instr_table(_):
    from qvm.instrs import instructions
    return {i.op: [i.op_code, [o.__name__ for o in i.operands]] for i in instructions}


# ---- layout certificate for the C03 monitor: declared type of every cell

def _flatten(ctx, ty, as_param=False):
    from qvm.memlayout import get_type_size
    n = get_type_size(ctx, ty)
    if as_param:
        # every parameter is passed as one reference; memlayout nevertheless
        # reserves get_type_size cells (D14): the extra cells are unconstrained
        return [7] + [0] * (n - 1)
    if ty.is_array:
        if not ty.is_static_array:
            return [7]
        elem = _flatten(ctx, ty.array_base_type)
        count = 1
        for d in ty.array_dims:
            count *= (d.static_ubound - d.static_lbound + 1)
        hdr = [0, 2, 2] + [2, 2] * len(ty.array_dims)
        out = hdr + elem * count
        assert len(out) == n, (len(out), n)
        return out
    if ty.is_builtin:
        return [ty.type_id]
    struct = ctx.user_types[ty.name]
    out = []
    for ft in struct.fields.values():
        out += _flatten(ctx, ft)
    return out


def build_cert(code, module):
    """declared cell types of the globals and of every routine frame, keyed by the
    address following the routine's `frame` instruction (CallFrame.code_start)"""
    from qvm.instrs import op_code_to_instr
    routines = list(code._routines.values())
    ctx = routines[0].context
    glob = []
    for name, ty in ctx.global_vars.items():
        glob += _flatten(ctx, ty)
    # frame instructions in code order
    bc = module.code
    idx = 0
    frames = []
    while idx < len(bc):
        ins = op_code_to_instr[bc[idx]]
        size = 1 + sum(o.size for o in ins.operands)
        if ins.op == 'frame':
            p, l = struct.unpack('>HH', bc[idx + 1:idx + 5])
            frames.append((idx + size, p, l))
        idx += size
    out = []
    problems = []
    if len(frames) != len(routines):
        problems.append(f'{len(frames)} frame instructions for {len(routines)} routines')
    for (cs, p, l), r in zip(frames, routines):
        cells = []
        for pn, pt in r.params.items():
            cells += _flatten(ctx, pt, as_param=True)
        np_ = len(cells)
        for vn, vt in r.local_vars.items():
            cells += _flatten(ctx, vt)
        if np_ != p or len(cells) - np_ != l:
            problems.append(f'routine {r.name}: frame {p},{l} but layout {np_},{len(cells) - np_}')
        out.append([cs, cells])
    return {'globals': glob, 'frames': out, 'problems': problems,
            'nglobals_match': len(glob) == module.n_global_cells}


def run_case_cert(case):
    """run_case + the layout certificate derived from the compiler's symbol tables"""
    code = compile_src(case['src'], case.get('level', 0), case.get('debug', False))
    module = QModule.parse(bytes(code))
    cert = build_cert(code, module)
    r = run_case(case)
    r['cert'] = cert
    return r


def stmt_lines(case):
    code = compile_src(case['src'], case.get('level', 0), True)
    module = QModule.parse(bytes(code))
    return [[r.start_offset, r.end_offset, r.source_start_line] for r in module.debug_info.stmts]
