"""Implementation side of the number <-> text correspondence."""
import struct
from qvm.utils import format_number
from qvm.cell import CellType
from implfns.fl import f, b

TY = {1: CellType.INTEGER, 2: CellType.LONG, 3: CellType.SINGLE, 4: CellType.DOUBLE}


def op(case):
    k = case[0]
    if k == 1:
        return format_number(case[1], CellType.LONG)
    if k == 2:
        return format_number(f(case[2]), CellType.SINGLE if case[1] else CellType.DOUBLE)
    if k == 3:
        return repr(f(case[1]))
    if k == 4:
        return b(round(f(case[1]), case[2]))
    if k == 5:
        try:
            return [int(case[1])]
        except ValueError:
            return []
    if k == 6:
        try:
            return [b(float(case[1]))]
        except ValueError:
            return []
