"""C16: number -> text -> number on the REAL code.

text   = qvm.utils.format_number (the function behind PRINT and STR$)
READ   = qvm.machine.DataDevice._exec_read on a module whose DATA is that text
INPUT  = qvm.machine.TerminalDevice._exec_input with that text as the typed line
VAL    = qvm.cpu.QvmCpu._exec_sdbl on that text
ntos   = qvm.cpu.QvmCpu._exec_ntos (STR$), print = TerminalDevice._exec_print
All through a real QvmMachine built on an empty module."""
from implfns.common import *
from qvm.utils import format_number

TY = {1: CellType.INTEGER, 2: CellType.LONG, 3: CellType.SINGLE, 4: CellType.DOUBLE}

_mod = None


def _module():
    global _mod
    if _mod is None:
        _mod = empty_module()
    return _mod


def _value(ty, v):
    return v if ty in (1, 2) else bits2f(v)


def _guard(f):
    """run one read-back path; host exceptions are observable behaviour"""
    try:
        return f()
    except Trapped as e:
        kw = e.trap_kwargs or {}
        ec = kw.get('error_code')
        return ['trap', e.trap_code.name, getattr(ec, 'name', None)]
    except InputExhausted:
        return ['reject']
    except Exception as e:  # noqa
        return ['exc', type(e).__name__, str(e)[:120]]


def do_read(ty, text):
    module = _module()
    m, p = make_machine(module)
    old = module.data
    module.data = [[text]]
    try:
        m.cpu.stack = [CellValue(CellType.INTEGER, ty)]
        m.cpu.devices['data'].execute('read')
        return ['ok', cell_canon(m.cpu.stack[-1]), len(m.cpu.stack)]
    finally:
        module.data = old


def do_input(ty, text):
    m, p = make_machine(_module(), Script(lines=[text]))
    I = CellType.INTEGER
    # same_line, prompt, prompt_question, var types..., nvars   (bottom -> top)
    m.cpu.stack = [CellValue(I, 0), CellValue(CellType.STRING, ''), CellValue(I, 0),
                   CellValue(I, ty), CellValue(I, 1)]
    m.cpu.devices['terminal'].execute('input')
    return ['ok', cell_canon(m.cpu.stack[-1]), len(m.cpu.stack)]


def do_val(text):
    m, p = make_machine(_module())
    m.cpu.stack = [CellValue(CellType.STRING, text)]
    m.cpu._exec_sdbl()
    return ['ok', cell_canon(m.cpu.stack[-1]), len(m.cpu.stack)]


def do_ntos(ty, v):
    m, p = make_machine(_module())
    m.cpu.stack = [CellValue(TY[ty], _value(ty, v))]
    m.cpu._exec_ntos()
    return m.cpu.stack[-1].value


def do_print(ty, v):
    m, p = make_machine(_module())
    I = CellType.INTEGER
    m.cpu.stack = [CellValue(I, 0), CellValue(TY[ty], _value(ty, v)), CellValue(I, 2)]
    m.cpu.devices['terminal'].execute('print')
    return ''.join(l2s(e[1]) for e in p.events if e[0] == 'terminal_print')


def l2s(l):
    return ''.join(chr(c) for c in l)


def fmt(case):
    """[ty, v] -> text of format_number (v: int, or float bit pattern)"""
    ty, v = case
    return format_number(_value(ty, v), TY[ty])


def roundtrip(case):
    """[ty, v] or [ty, v, 'full'] -> text and the three read-back results.
    'full' also runs the two call sites (ntos, print)."""
    ty, v = case[0], case[1]
    text = format_number(_value(ty, v), TY[ty])
    r = {'text': text,
         'read': _guard(lambda: do_read(ty, text)),
         'input': _guard(lambda: do_input(ty, text)),
         'val': _guard(lambda: do_val(text))}
    if len(case) > 2:
        r['ntos'] = _guard(lambda: do_ntos(ty, v))
        r['print'] = _guard(lambda: do_print(ty, v))
    return r


def val_text(case):
    """text -> result of the real _exec_sdbl"""
    return _guard(lambda: do_val(case))


def read_text(case):
    """[ty, text] -> READ and INPUT of an arbitrary text"""
    ty, text = case
    return {'read': _guard(lambda: do_read(ty, text)),
            'input': _guard(lambda: do_input(ty, text))}


def run_prog(case):
    """{src, level, debug, lines} -> printed chunks + outcome; a host
    exception escaping tick() is reported with what was printed before it"""
    code = compile_src(case['src'], case.get('level', 0), case.get('debug', False))
    module = QModule.parse(bytes(code))
    m, p = make_machine(module, Script(lines=case.get('lines', ())))
    exc = None
    try:
        st, n = run_machine(m, case.get('max_ticks', 100000))
    except InputExhausted:
        st, n = 'input-exhausted', -1
    except Exception as e:  # noqa
        import traceback
        tb = traceback.extract_tb(e.__traceback__)
        st, n = 'exc', -1
        exc = [type(e).__name__, tb[-1].name, str(e)[:120]]
    # the text printed by PRINT statements: the prompt INPUT writes ('' then '? ')
    # just before it asks for a line is left out
    chunks = []
    for e in p.events:
        if e[0] == 'terminal_print':
            chunks.append(l2s(e[1]))
        elif e[0] == 'terminal_input':
            n = 0
            while chunks and chunks[-1] in ('', '? ') and n < 2:
                chunks.pop()
                n += 1
    if st == 'input-exhausted':
        n = 0
        while chunks and chunks[-1] in ('', '? ') and n < 2:
            chunks.pop()
            n += 1
    return {'out': ''.join(chunks), 'outcome': outcome(m.cpu), 'status': st, 'exc': exc}
