"""PRINT USING: the real qvm.using.PrintUsingFormatter, the real
TerminalDevice._exec_print USING hand-over on constructed stacks, and compiled
PRINT USING statements run on the real machine."""
from implfns.common import *
from qvm.using import PrintUsingFormatter

_mod = None


def _module():
    global _mod
    if _mod is None:
        _mod = empty_module()
    return _mod


def pyval(c):
    """['I',z] ['L',z] -> int, ['S',bits] ['D',bits] -> float, ['$',s] -> str
    (the Python value a cell of that type carries)"""
    t, v = c
    if t in ('I', 'L'):
        return int(v)
    if t in ('S', 'D'):
        return bits2f(v)
    return v


def canon_part(p):
    if p[0] == 'non':
        return [0, [ord(ch) for ch in p[1]]]
    if p[0] == 'str':
        return [1, ord(p[1])]
    kind, sharps, o = p
    known = {'sign', 'comma', 'decimal_point', 'real_sharps'}
    sign = []
    if 'sign' in o:
        pos, ch = o['sign']
        sign = [[{'begin': 0, 'end': 1}.get(pos, 99), ord(ch)]]
    out = [2, len(sharps), sign, 1 if o.get('comma', False) else 0,
           [o['decimal_point']] if 'decimal_point' in o else [], o.get('real_sharps', -1)]
    # anything the model does not know about makes the result differ from it
    extra = sorted(set(o) - known)
    if extra or set(sharps) - {'#'}:
        out.append(['unmodelled', [ord(ch) for ch in ' '.join(extra)], [ord(ch) for ch in sharps]])
    return out


def fmt_values(case):
    """case: {'fmt': str, 'vals': [cells]} -> {'parts': ..., 'text': ...};
    parts = the scanner's result, text = format(values).  Exceptions of the
    constructor and of format() are reported separately."""
    out = {}
    try:
        f = PrintUsingFormatter(case['fmt'])
    except Exception as e:  # noqa: host exception of the scanner
        return {'ctor_exc': type(e).__name__}
    out['parts'] = [canon_part(p) for p in f.fmt_parts]
    try:
        out['text'] = f.format([pyval(c) for c in case['vals']])
    except Exception as e:  # noqa
        out['exc'] = type(e).__name__
        import traceback
        out['where'] = traceback.extract_tb(e.__traceback__)[-1].name
    return out


def exec_print(case):
    """case: list of cells bottom -> top (count on top)"""
    m, p = make_machine(_module())
    m.cpu.stack = [cell_from(c) for c in case]
    try:
        m.cpu.devices['terminal'].execute('print')
    except Trapped as e:
        return {'res': 'trap', 'code': e.trap_code.name}
    return {'res': 'ok', 'calls': [e[1] for e in p.events if e[0] == 'terminal_print'],
            'others': [e[0] for e in p.events if e[0] != 'terminal_print'],
            'stack': len(m.cpu.stack)}


def run_src(case):
    """case: {src, level, debug} -> events + outcome; a host exception escaping
    the machine is returned with the events printed before it"""
    code = compile_src(case['src'], case.get('level', 0), case.get('debug', False))
    module = QModule.parse(bytes(code))
    m, p = make_machine(module, Script(lines=case.get('lines', ())))
    try:
        st, n = run_machine(m, case.get('max_ticks', 100000))
    except Exception as e:  # noqa: host exception escaping QvmCpu.tick
        import traceback
        tb = traceback.extract_tb(e.__traceback__)
        return {'exc': type(e).__name__, 'where': tb[-1].name, 'msg': str(e)[:200],
                'events': p.events}
    return {'events': p.events, 'outcome': outcome(m.cpu), 'status': st, 'ticks': n,
            'stack': len(m.cpu.stack)}


def dispatch(case):
    """['fmt', case] | ['stack', cells] | ['src', case]: all suites of C19 in
    one worker pass"""
    kind, c = case
    if kind == 'fmt':
        return fmt_values(c)
    if kind == 'stack':
        return exec_print(c)
    if kind == 'src':
        return run_src(c)
    raise ValueError(kind)
