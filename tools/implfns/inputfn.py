"""INPUT: the real TerminalDevice._exec_input on a constructed operand stack
with scripted response lines, compiled INPUT statements run on the real
machine.  (Python's int()/float() for the numeral suite: implfns/numfmt.py.)"""
from implfns.common import *

_mach = None


def _machine():
    """one real QvmMachine over an empty module per worker process; every case
    gets a fresh operand stack and a fresh script (_exec_input touches nothing
    else: cpu.stack through push/pop and the peripherals object)"""
    global _mach
    if _mach is None:
        _mach = make_machine(empty_module())
    return _mach


def exec_input(case):
    """case: {'stack': [cells bottom -> top], 'lines': [str]}.  Every
    peripherals call, the final stack and how the call ended."""
    m, p = _machine()
    p.events = []
    p.script = Script(lines=case['lines'])
    m.cpu.stack = [cell_from(c) for c in case['stack']]
    try:
        m.cpu.devices['terminal'].execute('input')
        res = {'res': 'ok'}
    except Trapped as e:
        res = {'res': 'trap', 'code': e.trap_code.name}
    except InputExhausted:
        res = {'res': 'exhausted'}
    res['events'] = p.events
    res['stack'] = [cell_canon(c) for c in m.cpu.stack]
    return res


_compiled = {}


class DepthPeriph(Periph):
    """CLS is used by the generated programs as a probe: the operand stack
    depth is recorded whenever the program executes one."""

    cpu = None

    def terminal_cls(self):
        self.events.append(['terminal_cls', len(self.cpu.stack)])


def run_prog(case):
    """case: {src, level, debug, lines}.  Runs tick by tick; records the operand
    stack when 'io terminal,input' is about to execute."""
    key = (case['src'], case.get('level', 0), case.get('debug', False))
    if key not in _compiled:
        if len(_compiled) > 64:
            _compiled.clear()
        _compiled[key] = bytes(compile_src(*key))      # the real compiler; bytes are immutable
    module = QModule.parse(_compiled[key])
    p = DepthPeriph(Script(lines=case.get('lines', ())))
    m = QvmMachine(module, impl=p)
    p.cpu = m.cpu
    cpu = m.cpu
    at_io = []
    n = 0
    status = 'halt'
    exc = None
    try:
        while not cpu.halted and n < case.get('max_ticks', 100000):
            if cpu.pc >= len(cpu.module.code):
                break
            try:
                instr, operands, size = cpu.get_current_instruction()
            except Exception:
                instr = None          # let tick itself meet the problem
            if instr is not None and instr.op == 'io':
                from qvm.cpu import get_device_name_by_id, get_device_op_name_by_id
                dn = get_device_name_by_id(operands[0])
                if dn == 'terminal' and get_device_op_name_by_id(dn, operands[1]) == 'input':
                    at_io.append([cell_canon(c) for c in cpu.stack])
            cpu.tick()
            n += 1
        if not cpu.halted and cpu.pc < len(cpu.module.code):
            status = 'limit'
    except InputExhausted:
        status = 'exhausted'
    except Exception as e:   # a host exception out of the machine: part of the observed behaviour
        status = 'host-exception'
        exc = [type(e).__name__, str(e)[:120]]
    return {'events': p.events, 'outcome': outcome(cpu), 'status': status, 'ticks': n, 'host_exc': exc,
            'stack': [cell_canon(c) for c in cpu.stack], 'at_io': at_io}
