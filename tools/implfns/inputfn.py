"""INPUT: the real TerminalDevice._exec_input on a constructed operand stack
with scripted response lines, compiled INPUT statements run on the real
machine, and Python's int()/float() (reference of NumFmt.py_int / py_float)."""
from implfns.common import *

_mod = None


def _module():
    global _mod
    if _mod is None:
        _mod = empty_module()
    return _mod


def exec_input(case):
    """case: {'stack': [cells bottom -> top], 'lines': [str]}.  Every
    peripherals call, the final stack and how the call ended."""
    m, p = make_machine(_module(), Script(lines=case['lines']))
    m.cpu.stack = [cell_from(c) for c in case['stack']]
    try:
        m.cpu.devices['terminal'].execute('input')
        res = {'res': 'ok'}
    except Trapped as e:
        res = {'res': 'trap', 'code': e.trap_code.name}
    except InputExhausted:
        res = {'res': 'exhausted'}
    res['events'] = p.events
    res['stack'] = [cell_canon(c) for c in m.cpu.stack]
    return res


class DepthPeriph(Periph):
    """CLS is used by the generated programs as a probe: the operand stack
    depth is recorded whenever the program executes one."""

    cpu = None

    def terminal_cls(self):
        self.events.append(['terminal_cls', len(self.cpu.stack)])


def run_prog(case):
    """case: {src, level, debug, lines}.  Runs tick by tick; records the operand
    stack when 'io terminal,input' is about to execute."""
    code = compile_src(case['src'], case.get('level', 0), case.get('debug', False))
    module = QModule.parse(bytes(code))
    p = DepthPeriph(Script(lines=case.get('lines', ())))
    m = QvmMachine(module, impl=p)
    p.cpu = m.cpu
    cpu = m.cpu
    at_io = []
    n = 0
    status = 'halt'
    try:
        while not cpu.halted and n < case.get('max_ticks', 100000):
            if cpu.pc >= len(cpu.module.code):
                break
            instr, operands, size = cpu.get_current_instruction()
            if instr is not None and instr.op == 'io':
                from qvm.cpu import get_device_name_by_id, get_device_op_name_by_id
                dn = get_device_name_by_id(operands[0])
                if dn == 'terminal' and get_device_op_name_by_id(dn, operands[1]) == 'input':
                    at_io.append([cell_canon(c) for c in cpu.stack])
            cpu.tick()
            n += 1
        if not cpu.halted and cpu.pc < len(cpu.module.code):
            status = 'limit'
    except InputExhausted:
        status = 'exhausted'
    return {'events': p.events, 'outcome': outcome(cpu), 'status': status, 'ticks': n,
            'stack': [cell_canon(c) for c in cpu.stack], 'at_io': at_io}


def pynum(case):
    """[5, s] -> int(s);  [6, s] -> float(s) as bits;  [] = ValueError"""
    k, s = case
    try:
        if k == 5:
            return [int(s)]
        return [fbits(float(s))]
    except ValueError:
        return []
