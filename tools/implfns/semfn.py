"""C01 implementation side: compile a generated program with the REAL compiler
at one configuration, run it on the REAL machine with scripted inputs, return
the canonical behaviour: device events (consecutive prints merged), outcome
(normal end / trap name / host exception / input exhausted / tick limit) and,
with debug info, the source line of the statement containing the trap."""
import copy
import sys
from implfns.common import *
from implfns.machfn import MPeriph
import pyparsing
from qbee.parser import parse_string
from qbee.compiler import Pass1, Pass2, Pass3

# The repository's own test runner (tests/qb_test_parser.py) enables pyparsing's
# packrat memoisation process-wide; without it the expression grammar is
# exponential in the nesting depth of parentheses.  Same switch here.
pyparsing.ParserElement.enable_packrat()
sys.setrecursionlimit(20000)


def compile_tree(tree0, src, level, debug):
    """the steps of Compiler.compile after parsing, on a private copy of the tree
    (parsing once per program instead of six times; `check_compile` compares the
    result with the real Compiler.compile on a sample)"""
    tree = copy.deepcopy(tree0)
    c = Compiler('qvm', optimization_level=level, debug_info=debug)
    if debug:
        c._codegen.set_source_code(src)
    tree.bind(c._compilation)
    Pass1(c._compilation).process_tree(tree)
    Pass2(c._compilation).process_tree(tree)
    Pass3(c._compilation).process_tree(tree)
    if level > 0:
        tree.fold()
    code = c._codegen.gen_code(tree)
    if level > 1:
        code.optimize()
    return code


def module_key(module):
    dbg = None
    if module.debug_info is not None:
        dbg = [(r.start_offset, r.end_offset, r.source_start_line) for r in module.debug_info.stmts]
    return (bytes(module.code), list(module.literals), repr(module.data), module.n_global_cells, dbg)


def canon_events(events):
    out = []
    for e in events:
        k = e[0]
        if k == 'terminal_print':
            if out and out[-1][0] == 1:
                out[-1][1] = out[-1][1] + e[1]
            else:
                out.append([1, list(e[1])])
        elif k == 'terminal_input':
            sl = e[1]
            sl = sl[1] if isinstance(sl, list) else (1 if sl else 0)
            out.append([2, 1 if sl else 0, e[2]])
        elif k == 'rng_get_next':
            out.append([15])
        elif k == 'rng_get_with_seed':
            out.append([16, e[1][1]])
        elif k == 'rng_seed':
            out.append([14, e[1][1]])
        elif k == 'time_get_time':
            out.append([13])
        else:
            out.append([99, k])
    return out


def run_one(src, level, debug, script, max_ticks, tree0=None, check=False):
    if tree0 is None:
        code = compile_src(src, level, debug)
    else:
        code = compile_tree(tree0, src, level, debug)
    module = QModule.parse(bytes(code))
    if check and tree0 is not None:
        real = QModule.parse(bytes(compile_src(src, level, debug)))
        if module_key(real) != module_key(module):
            return {'harness-compile-mismatch': [level, debug]}
    p = MPeriph(Script(lines=list(script.get('lines', [])),
                       rnd=[bits2f(b) for b in script.get('rnd', [])],
                       timer=[bits2f(b) for b in script.get('timer', [])]))
    m = QvmMachine(module, impl=p)
    cpu = m.cpu
    n = 0
    out = None
    try:
        while n < max_ticks:
            if cpu.halted or cpu.pc >= len(module.code):
                break
            cpu.tick()
            n += 1
        else:
            out = ['limit']
    except InputExhausted:
        out = ['input-exhausted']
    except RecursionError:
        out = ['host', 'RecursionError']
    except Exception as e:  # noqa
        out = ['host', type(e).__name__]
    line = None
    if out is None:
        if cpu.halt_reason == HaltReason.TRAP:
            out = ['trap', cpu.last_trap.name]
            if module.debug_info is not None:
                try:
                    s = module.debug_info.find_stmt(cpu.trapped_addr, cpu)
                    line = s.source_start_line if s is not None else -1
                except Exception as e:  # noqa
                    line = -2
        else:
            out = ['end']
    return {'events': canon_events(p.events), 'outcome': out, 'line': line, 'ticks': n}


CONFIGS = [(0, False), (0, True), (1, False), (1, True), (2, False), (2, True)]


def run_prog(case):
    """{src, script, max_ticks, configs?} -> one result per configuration; a
    compile failure is reported per configuration"""
    res = []
    try:
        tree0 = parse_string(case['src'])
    except RecursionError:
        return [{'compile': 'RecursionError'}]
    except Exception as e:  # noqa
        return [{'compile': type(e).__name__, 'msg': str(e)[:200]}]
    cfgs = [tuple(c) for c in case.get('configs', CONFIGS)]
    chk = case.get('check_compile')
    for k, (level, debug) in enumerate(cfgs):
        try:
            res.append(run_one(case['src'], level, debug, case.get('script', {}),
                               case.get('max_ticks', 300000), tree0,
                               check=(chk is not None and chk % len(cfgs) == k)))
        except RecursionError:
            res.append({'compile': 'RecursionError'})
        except Exception as e:  # noqa
            res.append({'compile': type(e).__name__, 'msg': str(e)[:200]})
    return res
