"""C11 - debug map.  Everything here runs the REAL code of /repo:

* collector_case / finalize_case / find_case / linecol_case: the real
  DebugInfoCollector, DebugInfo.add_node, finalize, find_stmt and
  convert_index_to_line_col on constructed inputs (T-fn for Models/DebugMap.v)
* compile_case: the real compiler on a program; returns (a) the marker stream
  the compiler emitted (walk of code._instrs the way QvmCode.assembled does)
  and the real debug tables, for the model comparison, and (b) the verdicts of
  the PROPERTY oracle, which looks only at the real artefacts (decoded code
  section, debug_info of the parsed module, find_stmt, the machine run)."""
import types

from implfns.common import *
import qbee.stmt as qstmt
import qbee.expr as qexpr
from qbee.stmt import Stmt, Block, SubBlock, FunctionBlock
from qbee.utils import convert_index_to_line_col
from qvm.debug_info import DebugInfo, DebugInfoCollector, DebugNodeRecord
from qvm.instrs import op_code_to_instr, op_to_instr
from qvm.cpu import QVM_DEVICES

SRC = 'x' * 64


# --------------------------------------------------------------------------
# constructed inputs

def _fake_node(kind, ident, extra):
    """kind 0 Stmt, 1 Block, 2 SubBlock, 3 other Node; object.__new__ bypasses
    Node.__new__ (no parser needed); only the attributes debug_info.py reads"""
    if kind == 0:
        n = object.__new__(qstmt.PrintStmt)
    elif kind == 1:
        n = object.__new__(qstmt.WhileBlock)
    elif kind == 2:
        n = object.__new__(qstmt.SubBlock)
        n.name = f'r{ident}'
        n._context = types.SimpleNamespace(
            routines={n.name: types.SimpleNamespace(local_consts={})})
    else:
        n = object.__new__(qexpr.StringLiteral)
    n.loc_start = 0
    n.loc_end = 1
    n._vid = ident
    if kind in (1, 2):
        a, b = extra
        n.start_stmt = object.__new__(qstmt.WhileStmt)
        n.end_stmt = object.__new__(qstmt.WendStmt)
        for s, i in ((n.start_stmt, a), (n.end_stmt, b)):
            s.loc_start = 0
            s.loc_end = 1
            s._vid = i
    return n


class _Nodes:
    def __init__(self):
        self.cache = {}

    def get(self, enc):
        ident, kind, a, b = enc
        key = (ident, kind, a, b)
        # one Python object per identity: the model compares identities only
        if ident not in self.cache:
            self.cache[ident] = _fake_node(kind, ident, (a, b))
        n = self.cache[ident]
        return n


def _rec_out(r):
    return [r.node._vid, r.start_offset, r.end_offset]


def _fake_compilation():
    return types.SimpleNamespace(routines={'_main': None}, user_types={}, global_vars={},
                                 global_consts={})


def collector_case(items):
    """items: [0,size] | [1,node] | [2,node] | [3]; node = [id, kind, a, b].
    Drives the real DebugInfoCollector exactly like QvmCode.assembled does,
    then the real get_debug_info (add_node + finalize)."""
    nodes = _Nodes()
    col = DebugInfoCollector(SRC, _fake_compilation())
    off = 0
    for it in items:
        if it[0] == 0:
            off += it[1]
        elif it[0] == 1:
            col.start_node(nodes.get(it[1]), off)
        elif it[0] == 2:
            col.end_node(nodes.get(it[1]), off)
        else:
            col.mark_empty_block(off)
    di = col.get_debug_info()
    return {'routines': [[r.node._vid, r.start_offset, r.end_offset] for r in di.routines.values()],
            'stmts': [_rec_out(r) for r in di.stmts],
            'others': [_rec_out(r) for r in di.other_nodes],
            'size': off}


def _mk_record(node_id, s, e):
    n = object.__new__(qstmt.PrintStmt)
    n._vid = node_id
    n.loc_start = 0
    n.loc_end = 1
    return DebugNodeRecord(node=n, start_offset=s, end_offset=e, source_start_offset=0,
                           source_end_offset=1, source_start_line=1, source_start_col=0,
                           source_end_line=1, source_end_col=1)


def finalize_case(case):
    """{'empties': [...], 'blocks': [[node, s, e]...], 'stmts': [[id, s, e]...]}"""
    nodes = _Nodes()
    di = object.__new__(DebugInfo)
    di.source_code = SRC
    di.empty_blocks = list(case['empties'])
    di.routines = {}
    di.other_nodes = []
    di.blocks = [(nodes.get(b[0]), b[1], b[2]) for b in case['blocks']]
    di.stmts = [_mk_record(*r) for r in case['stmts']]
    di.finalize()
    return [_rec_out(r) for r in di.stmts]


class _Cpu0:
    def __init__(self, call):
        self.call = call

    def get_instruction_at(self, addr):
        if self.call is None:
            return types.SimpleNamespace(op='halt'), [], 1
        return types.SimpleNamespace(op='call'), [self.call], 5


def find_case(case):
    """{'stmts': [[id, s, e]...], 'addr': a, 'call': None|target}"""
    di = object.__new__(DebugInfo)
    di.stmts = [_mk_record(*r) for r in case['stmts']]
    r = di.find_stmt(case['addr'], _Cpu0(case.get('call')))
    return None if r is None else _rec_out(r)


def linecol_case(case):
    line, col = convert_index_to_line_col(case['text'], case['offset'])
    return [line, col]


# --------------------------------------------------------------------------
# the real compiler

def decode_code(code):
    """[(offset, op name, operands, size)] by the instruction table of qvm/instrs.py"""
    out = []
    off = 0
    n = len(code)
    while off < n:
        ins = op_code_to_instr.get(code[off])
        if ins is None:
            raise ValueError(f'unknown opcode {code[off]} at {off}')
        p = off + 1
        ops = []
        for cls in ins.operands:
            o = cls([], [], {})
            raw = bytes(code[p:p + o.size])
            if len(raw) != o.size:
                raise ValueError(f'truncated operand at {off}')
            ops.append(o._decode(raw) if cls.__name__ != 'StringLiteral'
                       else int.from_bytes(raw, 'big'))
            p += o.size
        out.append((off, ins.op, ops, p - off))
        off = p
    return out


def node_kind(n):
    if isinstance(n, (SubBlock, FunctionBlock)):
        return 2
    if isinstance(n, Block):
        return 1
    if isinstance(n, Stmt):
        return 0
    return 3


class IdMap:
    def __init__(self):
        self.ids = {}
        self.objs = []

    def of(self, n):
        k = id(n)
        if k not in self.ids:
            self.ids[k] = len(self.objs) + 1
            self.objs.append(n)
        return self.ids[k]

    def enc(self, n):
        kind = node_kind(n)
        i = self.of(n)
        if kind in (1, 2):
            return [i, kind, self.of(n.start_stmt), self.of(n.end_stmt)]
        return [i, kind, 0, 0]


def extract_stream(code_obj, decoded, idmap):
    """the walk of QvmCode.assembled over code._instrs: labels dropped, real
    instructions with the size found in the assembled bytes"""
    items = []
    k = 0
    for ins in code_obj._instrs:
        op, *args = ins.final
        if op == '_label':
            continue
        if op == '_dbg_info_start':
            items.append([1, idmap.enc(args[0])])
        elif op == '_dbg_info_end':
            items.append([2, idmap.enc(args[0])])
        elif op == '_empty_block':
            items.append([3])
        else:
            off, dop, _, size = decoded[k]
            if op_to_instr[op].op != dop:
                raise AssertionError(f'harness: instruction {k}: {op} vs decoded {dop}')
            items.append([0, size])
            k += 1
    if k != len(decoded):
        raise AssertionError('harness: instruction count differs from decoded code')
    return items


KEYWORDS = {
    'PrintStmt': ('PRINT', '?'), 'InputStmt': ('INPUT', 'LINE INPUT'), 'IfStmt': ('IF',),
    'IfBeginStmt': ('IF',), 'ElseIfStmt': ('ELSEIF',), 'ElseStmt': ('ELSE',),
    'EndIfStmt': ('END IF', 'ENDIF'), 'WhileStmt': ('WHILE',), 'WendStmt': ('WEND',),
    'ForStmt': ('FOR',), 'NextStmt': ('NEXT',), 'DoStmt': ('DO',), 'LoopStmt': ('LOOP',),
    'SelectStmt': ('SELECT CASE',), 'CaseStmt': ('CASE',), 'CaseElseStmt': ('CASE ELSE',),
    'EndSelectStmt': ('END SELECT',), 'SubStmt': ('SUB',), 'EndSubStmt': ('END SUB',),
    'FunctionStmt': ('FUNCTION',), 'EndFunctionStmt': ('END FUNCTION',), 'GotoStmt': ('GOTO',),
    'GosubStmt': ('GOSUB',), 'ReturnStmt': ('RETURN',), 'DimStmt': ('DIM', 'REDIM', 'STATIC', 'SHARED'),
    'ConstStmt': ('CONST',), 'DataStmt': ('DATA',), 'ReadStmt': ('READ',),
    'RestoreStmt': ('RESTORE',), 'EndStmt': ('END', 'SYSTEM'), 'ExitSubStmt': ('EXIT SUB',),
    'ExitFunctionStmt': ('EXIT FUNCTION',), 'ExitForStmt': ('EXIT FOR',), 'ExitDoStmt': ('EXIT DO',),
    'OnErrorStmt': ('ON ERROR',), 'ResumeStmt': ('RESUME',), 'ClsStmt': ('CLS',),
    'RandomizeStmt': ('RANDOMIZE',), 'LocateStmt': ('LOCATE',), 'ColorStmt': ('COLOR',),
    'BeepStmt': ('BEEP',), 'DeclareStmt': ('DECLARE',), 'DefTypeStmt': ('DEF',),
}
BLOCK_END = ('WendStmt', 'NextStmt', 'LoopStmt', 'EndIfStmt', 'EndSubStmt', 'EndFunctionStmt',
             'EndSelectStmt')
IO_CLASS = {('terminal', 'print'): 'PrintStmt', ('terminal', 'input'): 'InputStmt',
            ('data', 'read'): 'ReadStmt', ('data', 'restore'): 'RestoreStmt'}
DEV_BY_ID = {v['id']: (k, {i: n for n, i in v['ops'].items()}) for k, v in QVM_DEVICES.items()}


def cname(n):
    return type(n).__name__


def norm_kw(text):
    return ' '.join(text.strip().upper().split())


class Stream:
    """ground truth of the generators: which node was the innermost open one
    when each instruction was emitted, and where the instruction sits in it"""

    def __init__(self, code_obj, decoded):
        self.frames = []          # closed nodes
        self.outside = []         # (offset, op) of instructions outside every node
        self.shape_errors = []
        stack = []
        k = 0
        for ins in code_obj._instrs:
            op, *args = ins.final
            if op == '_label':
                continue
            if op == '_dbg_info_start':
                fr = {'node': args[0], 'children': 0, 'marker': False, 'own': [], 'kids': [],
                      'code': 0, 'code_at_marker': None}
                if stack:
                    stack[-1]['children'] += 1
                    stack[-1]['kids'].append(fr)
                stack.append(fr)
            elif op == '_dbg_info_end':
                if not stack:
                    self.shape_errors.append('end-without-start')
                    continue
                top = stack.pop()
                if top['node'] is not args[0]:
                    self.shape_errors.append('end-does-not-match-start')
                self.frames.append(top)
                if stack:
                    stack[-1]['code'] += top['code']
            elif op == '_empty_block':
                if stack:
                    stack[-1]['marker'] = True
                    if stack[-1]['code_at_marker'] is None:
                        stack[-1]['code_at_marker'] = stack[-1]['code']
            else:
                off, dop, ops, size = decoded[k]
                k += 1
                if stack:
                    top = stack[-1]
                    top['code'] += size
                    top['own'].append((off, dop, top['children'], top['marker']))
                else:
                    self.outside.append((off, dop))
        if stack:
            self.shape_errors.append('start-without-end')


def has_records(fr):
    """does the table hold a non-empty record that lies inside this node's range
    and stems from it: the node itself (non-block statement with code), a
    descendant, or the start/end records made from an own _empty_block marker
    that has code of the block after it"""
    if not isinstance(fr['node'], Block):
        return fr['code'] > 0
    if fr['code_at_marker'] is not None and fr['code'] > fr['code_at_marker']:
        return True
    return any(has_records(k) for k in fr['kids'])


def reason_of(fr):
    if fr['children'] == 0:
        return 'marker-at-end' if fr['marker'] else 'no-child-no-marker'
    if all(k['code'] == 0 for k in fr['kids']):
        return 'children-emit-no-code'
    return 'children-without-records'


def oracle(src, code_obj, module, dbg_mem, idmap, decoded, do_run, script, max_ticks, tags,
           src2=None, di2=None):
    """property checks on the real artefacts.  Returns a list of failures
    {'sig': signature, ...detail}.  [module] is the parsed module (debug info
    went through pickle), [dbg_mem] the in-memory DebugInfo with node identity."""
    fails = []
    stats = {}

    def fail(sig, **kw):
        if len(fails) < 40:
            kw['sig'] = sig
            fails.append(kw)

    code = module.code
    di = module.debug_info
    B = {d[0] for d in decoded} | {len(code)}
    by_off = {d[0]: d for d in decoded}
    recs = list(di.stmts)
    stats['records'] = len(recs)
    stats['instructions'] = len(decoded)

    # pickled table = in-memory table
    a = [(r.start_offset, r.end_offset, r.source_start_offset, r.source_end_offset,
          r.source_start_line, cname(r.node)) for r in di.stmts]
    b = [(r.start_offset, r.end_offset, r.source_start_offset, r.source_end_offset,
          r.source_start_line, cname(r.node)) for r in dbg_mem.stmts]
    if a != b:
        fail('C11/serialized-table-differs')

    # O1 offsets on instruction boundaries, ranges well formed
    for r in recs:
        if r.start_offset not in B or r.end_offset not in B:
            fail(f'C11/offset-not-on-boundary(stmt,{cname(r.node)})', rec=[r.start_offset, r.end_offset])
        if r.start_offset > r.end_offset:
            fail(f'C11/negative-range({cname(r.node)})', rec=[r.start_offset, r.end_offset])
    for name, r in di.routines.items():
        if r.start_offset not in B or r.end_offset not in B:
            fail('C11/offset-not-on-boundary(routine)', rec=[r.start_offset, r.end_offset])
    if [r.start_offset for r in recs] != sorted(r.start_offset for r in recs):
        fail('C11/table-not-sorted')

    # O2 laminar
    ne = [r for r in recs if r.end_offset > r.start_offset]
    srt = sorted(ne, key=lambda r: (r.start_offset, -(r.end_offset - r.start_offset)))
    stack = []
    seen_pairs = set()
    for r in srt:
        while stack and stack[-1].end_offset <= r.start_offset:
            stack.pop()
        if stack and r.end_offset > stack[-1].end_offset:
            o = stack[-1]
            key = (cname(o.node), cname(r.node))
            if key not in seen_pairs:
                seen_pairs.add(key)
                fail(f'C11/not-laminar({key[0]},{key[1]})',
                     recs=[[o.start_offset, o.end_offset], [r.start_offset, r.end_offset]],
                     lines=[o.source_start_line, r.source_start_line])
            continue
        stack.append(r)

    # O3 routine records: from the frame instruction of the routine to the byte
    # after its last instruction, which is ret (SUB) / retv (FUNCTION); the next
    # routine (or the end of the code) starts there
    frames = [d[0] for d in decoded if d[1] == 'frame']
    main_frame = None
    if decoded and decoded[0][1] == 'call':
        main_frame = decoded[0][2][0]
    else:
        fail('C11/no-initial-call')
    sub_frames = [f for f in frames if f != main_frame]
    rr = sorted((r.start_offset, r.end_offset, r.type.name) for r in di.routines.values())
    exp = []
    for i, f in enumerate(sub_frames):
        end = sub_frames[i + 1] if i + 1 < len(sub_frames) else len(code)
        exp.append((f, end))
    if [(s, e) for s, e, _ in rr] != exp:
        fail('C11/routine-records-not-exact', real=rr, expected=exp)
    else:
        ends = {}
        for d in decoded:
            ends[d[0] + d[3]] = d
        for s, e, t in rr:
            last = ends[e][1]
            if last != ('ret' if t == 'SUB' else 'retv'):
                fail(f'C11/routine-last-instruction({t},{last})')
    main_end = sub_frames[0] if sub_frames else len(code)

    # body instructions: everything from the main frame on, except the main
    # frame itself and the final ret of the main routine
    body = []
    main_instrs = [d for d in decoded if main_frame is not None and main_frame <= d[0] < main_end]
    for d in main_instrs[1:-1]:
        body.append(d)
    if main_instrs and main_instrs[-1][1] != 'ret':
        fail('C11/main-does-not-end-in-ret')
    for d in decoded:
        if d[0] >= main_end:
            body.append(d)
    stats['body_instructions'] = len(body)

    # O5 find_stmt = innermost (brute force), for every instruction offset
    m, p = make_machine(module, Script(lines=list(script)))
    cpu = m.cpu

    def brute(off):
        best = None
        ties = []
        for r in recs:
            if r.start_offset <= off < r.end_offset:
                sz = r.end_offset - r.start_offset
                if best is None or sz < best:
                    best = sz
                    ties = [r]
                elif sz == best:
                    ties.append(r)
        return ties

    found = {}
    for d in decoded:
        off = d[0]
        if off == 0:
            continue
        r = di.find_stmt(off, cpu)
        found[off] = r
        ties = brute(off)
        if r is None:
            if ties:
                fail('C11/find_stmt-misses-containing-record', off=off)
        else:
            if not ties or r is not ties[0]:
                fail('C11/find_stmt-not-innermost', off=off)
            # several records of the same least size: fine when they are the same
            # statement text or a part of it (CASE clause inside its CASE)
            for t in ties[1:]:
                a0, a1 = ties[0].source_start_offset, ties[0].source_end_offset
                b0, b1 = t.source_start_offset, t.source_end_offset
                if not ((a0 <= b0 and b1 <= a1) or (b0 <= a0 and a1 <= b1)):
                    fail(f'C11/ambiguous-innermost({cname(ties[0].node)},{cname(t.node)})', off=off)
    if main_frame not in (None, 0):
        r0 = di.find_stmt(0, cpu)
        if r0 is not found.get(main_frame):
            fail('C11/find_stmt-at-0-differs-from-call-target')

    # T tabs.  pyparsing expands tabs before parsing a line, so on a line that
    # holds a tab the unchanged code records locations in tab-expanded
    # coordinates.  [src2] is the same program with every line tab-expanded:
    # if every record of the tabbed program sits at the same in-line position as
    # the corresponding record of src2, the location failures are that one
    # defect (one signature), and lines / extracts are judged on src2.
    view = {}
    tabmode = False
    if src2 is not None:
        def starts(text):
            out = [0]
            for i, ch in enumerate(text):
                if ch == '\n':
                    out.append(i + 1)
            return out
        st1, st2 = starts(src), starts(src2)
        recs2 = list(di2.stmts)
        pairs = list(zip(recs, recs2))
        ok = len(recs) == len(recs2) and sorted(di.routines) == sorted(di2.routines)
        if ok:
            pairs += [(di.routines[k], di2.routines[k]) for k in di.routines]
            for r, q in pairs:
                if q.source_start_offset is None or r.source_start_offset is None or \
                        cname(r.node) != cname(q.node):
                    ok = False
                    break
                i = src2.count('\n', 0, q.source_start_offset)
                ie = src2.count('\n', 0, max(q.source_end_offset - 1, q.source_start_offset))
                if r.source_start_offset - st1[i] != q.source_start_offset - st2[i] or \
                        r.source_end_offset - st1[ie] != q.source_end_offset - st2[ie]:
                    ok = False
                    break
        if ok:
            tabmode = True
            bad_line = bad_text = False
            for r, q in pairs:
                view[id(r)] = (q.source_start_line, src2[q.source_start_offset:q.source_end_offset])
                if r.source_start_line != q.source_start_line:
                    bad_line = True
                a_ = ' '.join(src[r.source_start_offset:r.source_end_offset].split())
                b_ = ' '.join(src2[q.source_start_offset:q.source_end_offset].split())
                if a_ != b_:
                    bad_text = True
            if bad_line:
                fail('C11/locations-in-tab-expanded-coordinates(line)')
            elif bad_text:
                fail('C11/locations-in-tab-expanded-coordinates(extract)')

    def line_of(r):
        return view[id(r)][0] if id(r) in view else r.source_start_line

    def text_of(r):
        return view[id(r)][1] if id(r) in view else src[r.source_start_offset:r.source_end_offset]

    # O6 recorded line / extract of every record, against the source text
    o6_src = src2 if tabmode else src
    o6_recs = (list(di2.stmts) + list(di2.routines.values())) if tabmode else \
        (recs + list(di.routines.values()))
    for r in o6_recs:
        s, e = r.source_start_offset, r.source_end_offset
        if s is None or e is None or not (0 <= s < e <= len(o6_src)):
            fail(f'C11/source-offsets-invalid({cname(r.node)})', rec=[s, e])
            continue
        line = o6_src.count('\n', 0, s) + 1
        if r.source_start_line != line:
            fail(f'C11/recorded-line-wrong({cname(r.node)})', recorded=r.source_start_line, real=line)
        text = o6_src[s:e]
        if isinstance(r.node, Block):
            continue          # routine records span the whole SUB ... END SUB text
        if '\n' in text:
            fail(f'C11/extract-spans-lines({cname(r.node)})', text=text[:60])
        kws = KEYWORDS.get(cname(r.node))
        if kws is not None:
            t = norm_kw(text)
            if not any(t.startswith(k) for k in kws):
                fail(f'C11/extract-not-the-statement({cname(r.node)})', text=text[:60])
            stats['kw_checked'] = stats.get('kw_checked', 0) + 1
        elif cname(r.node) == 'AssignmentStmt':
            if '=' not in text:
                fail('C11/extract-not-the-statement(AssignmentStmt)', text=text[:60])

    # O7 one statement = one range: two records of the same node must be nested
    by_node = {}
    for r in dbg_mem.stmts:
        by_node.setdefault(id(r.node), []).append(r)
    for rs in by_node.values():
        for i in range(len(rs)):
            for j in range(i + 1, len(rs)):
                x, y = rs[i], rs[j]
                nested = (x.start_offset <= y.start_offset and y.end_offset <= x.end_offset) or \
                         (y.start_offset <= x.start_offset and x.end_offset <= y.end_offset)
                if not nested:
                    fail(f'C11/split-statement({cname(x.node)})',
                         recs=[[x.start_offset, x.end_offset], [y.start_offset, y.end_offset]])

    # A attribution against the generators' own markers (in-memory table: identity)
    st = Stream(code_obj, decoded)
    for e in st.shape_errors:
        fail(f'C11/marker-stream({e})')
    body_offs = {d[0] for d in body}
    uncovered = set()

    def mem_find(off):
        r = dbg_mem.find_stmt(off, cpu)
        q = found.get(off)
        if (r is None) != (q is None) or (r is not None and
                                          (r.start_offset, r.end_offset, r.source_start_offset) !=
                                          (q.start_offset, q.end_offset, q.source_start_offset)):
            fail('C11/serialized-table-differs(find_stmt)', off=off)
        return r

    for off, dop in st.outside:
        if off == 0:
            continue
        got = mem_find(off)
        if off in body_offs:
            fail('C11/body-instruction-outside-any-statement', off=off, op=dop)
        elif got is not None:
            fail(f'C11/misattributed(none->{cname(got.node)})', off=off)
    for fr in st.frames:
        n = fr['node']
        blk = isinstance(n, Block)
        for off, dop, k, mk in fr['own']:
            if not blk:
                expected = [n]
            elif fr['children'] == 0:
                if not fr['marker']:
                    expected = [n.start_stmt, n.end_stmt]   # no way to tell start from end
                else:
                    expected = [n.end_stmt] if mk else [n.start_stmt]
            elif k == 0:
                expected = [n.start_stmt]
            elif k == fr['children']:
                expected = [n.end_stmt]
            else:
                fail(f'C11/bare-instruction-between-children({cname(n)})', off=off, op=dop)
                continue
            got = mem_find(off)
            explained = blk and not has_records(fr)
            if got is None:
                uncovered.add(off)
                if explained:
                    fail(f'C11/uncovered({cname(n)},{reason_of(fr)})', off=off, op=dop,
                         line=src.count(chr(10), 0, n.loc_start) + 1)
                else:
                    fail(f'C11/uncovered({cname(n)},unexpected)', off=off, op=dop)
                continue
            if not any(got.node is x for x in expected):
                exp_name = cname(expected[0])
                if explained:
                    # the block has no record of its own: its code falls to an
                    # enclosing record, or to records made from a foreign
                    # _empty_block marker lying in its range
                    fail(f'C11/misattributed-block-without-records({cname(n)},{reason_of(fr)})',
                         off=off, op=dop, got=cname(got.node))
                else:
                    fail(f'C11/misattributed({exp_name}->{cname(got.node)},{dop})', off=off, op=dop,
                         line=got.source_start_line)

    # O4 coverage, from the decoded code and the table alone
    unc2 = {d[0] for d in body
            if not any(r.start_offset <= d[0] < r.end_offset for r in ne)}
    if unc2 != (uncovered & body_offs):
        fail('C11/uncovered-body-instruction(coverage-and-markers-disagree)',
             offs=sorted(unc2 ^ (uncovered & body_offs))[:5])
    stats['uncovered'] = len(unc2)

    # I static: instruction kinds that can only come from one statement kind
    for d in decoded:
        if d[1] == 'io':
            dev, opn = DEV_BY_ID[d[2][0]][0], DEV_BY_ID[d[2][0]][1][d[2][1]]
            want = IO_CLASS.get((dev, opn))
            r = found.get(d[0])
            if want and r is not None and cname(r.node) != want:
                fail(f'C11/io-attributed-to-wrong-statement({dev}.{opn}->{cname(r.node)})', off=d[0])
            stats['io_checked'] = stats.get('io_checked', 0) + 1

    # L literals: every push of a number 90000..99999 (the generators' tags),
    # with the statement the lookup gives for it
    lits = []
    for d in decoded:
        if d[1].startswith('push') and d[2] and isinstance(d[2][0], int) and 90000 <= d[2][0] <= 99999:
            r = found.get(d[0])
            lits.append({'off': d[0], 'val': d[2][0],
                         'line': None if r is None else line_of(r),
                         'extract': None if r is None else text_of(r),
                         'cls': None if r is None else cname(r.node)})

    # R run: find_stmt(pc) at every io instruction and at trapped_addr
    obs = []
    trap = None
    if do_run:
        n = 0
        status = 'limit'
        try:
            while n < max_ticks:
                if cpu.halted or cpu.pc >= len(code):
                    status = 'halt'
                    break
                pc = cpu.pc
                d = by_off.get(pc)
                nev = len(p.events)
                cpu.tick()
                n += 1
                if d is not None and d[1] == 'io':
                    dev, opn = DEV_BY_ID[d[2][0]][0], DEV_BY_ID[d[2][0]][1][d[2][1]]
                    r = found.get(pc)
                    ev = p.events[nev:]
                    text = None
                    for e in ev:
                        if e[0] == 'terminal_print':
                            text = (text or '') + ''.join(chr(c) for c in e[1])
                    obs.append({'pc': pc, 'dev': dev, 'op': opn, 'text': text,
                                'line': None if r is None else line_of(r),
                                'extract': None if r is None else text_of(r),
                                'cls': None if r is None else cname(r.node)})
                    if r is None:
                        fail(f'C11/io-without-statement({dev}.{opn})', pc=pc)
        except InputExhausted:
            status = 'input-exhausted'
        stats['ticks'] = n
        stats['status'] = status
        if cpu.halted and cpu.halt_reason == HaltReason.TRAP:
            # trapped_addr is what RESUME / the debugger look up; prev_pc is the
            # address of the instruction that actually trapped
            ta = cpu.trapped_addr
            fa = cpu.prev_pc
            rt = di.find_stmt(ta, cpu)
            rf = found.get(fa)

            def desc(r):
                if r is None:
                    return {'line': None, 'extract': None, 'cls': None}
                return {'line': line_of(r), 'cls': cname(r.node), 'extract': text_of(r)}
            trap = {'trapped_addr': ta, 'fault_addr': fa,
                    'trap': cpu.last_trap.name if cpu.last_trap else None,
                    'at_trapped_addr': desc(rt), 'at_fault_addr': desc(rf)}
            if rf is None and fa in body_offs and fa not in uncovered:
                fail('C11/trap-without-statement', addr=fa)
    return fails, stats, obs, trap, lits, tabmode


def compile_case(case):
    """{'src', 'level', 'run': bool, 'script': [lines], 'max_ticks'}"""
    src = case['src']
    try:
        code_obj = compile_src(src, case.get('level', 0), True)
    except (QSyntaxError, CompileError) as e:
        return {'skip': type(e).__name__}
    bc = bytes(code_obj)
    module = QModule.parse(bc)
    codeb, dbg_mem = code_obj.assembled
    if bytes(codeb) != bytes(module.code):
        raise AssertionError('harness: assembled twice gives different code')
    decoded = decode_code(module.code)
    idmap = IdMap()
    items = extract_stream(code_obj, decoded, idmap)
    real = {
        'routines': [[idmap.of(r.node), r.start_offset, r.end_offset]
                     for r in dbg_mem.routines.values()],
        'stmts': [[idmap.of(r.node), r.start_offset, r.end_offset] for r in dbg_mem.stmts],
        'others': [[idmap.of(r.node), r.start_offset, r.end_offset] for r in dbg_mem.other_nodes],
        'size': len(module.code),
    }
    src2 = di2 = None
    if '\t' in src:
        src2 = '\n'.join(l.expandtabs(8) for l in src.split('\n'))
        di2 = QModule.parse(bytes(compile_src(src2, case.get('level', 0), True))).debug_info
    fails, stats, obs, trap, lits, tabmode = oracle(
        src, code_obj, module, dbg_mem, idmap, decoded, case.get('run', False),
        case.get('script', ()), case.get('max_ticks', 20000), case.get('tags'), src2, di2)
    kinds = sorted({cname(r.node) for r in dbg_mem.stmts})
    return {'items': items, 'real': real, 'fails': fails, 'stats': stats, 'obs': obs,
            'trap': trap, 'kinds': kinds, 'lits': lits,
            'src_view': src2 if tabmode else src}


def any_case(case):
    """one entry point, so that a check needs a single set of workers"""
    k = case['k']
    c = case['case']
    if k == 'collector':
        return collector_case(c)
    if k == 'finalize':
        return finalize_case(c)
    if k == 'find':
        return find_case(c)
    if k == 'linecol':
        return linecol_case(c)
    if k == 'compile':
        return compile_case(c)
    raise ValueError(k)
