"""PRINT: the real TerminalDevice._exec_print on a constructed operand stack,
and compiled PRINT statements run on the real machine."""
from implfns.common import *

_mod = None


def _module():
    global _mod
    if _mod is None:
        _mod = empty_module()
    return _mod


def exec_print(case):
    """case: list of cells bottom -> top (count on top)"""
    m, p = make_machine(_module())
    m.cpu.stack = [cell_from(c) for c in case]
    try:
        m.cpu.devices['terminal'].execute('print')
    except Trapped as e:
        return {'res': 'trap', 'code': e.trap_code.name}
    return {'res': 'ok', 'calls': [e[1] for e in p.events if e[0] == 'terminal_print'],
            'others': [e[0] for e in p.events if e[0] != 'terminal_print'],
            'stack': len(m.cpu.stack)}


def run_src(case):
    """case: {src, level, debug, lines?} -> events + outcome"""
    code = compile_src(case['src'], case.get('level', 0), case.get('debug', False))
    module = QModule.parse(bytes(code))
    m, p = make_machine(module, Script(lines=case.get('lines', ())))
    st, n = run_machine(m, case.get('max_ticks', 100000))
    return {'events': p.events, 'outcome': outcome(m.cpu), 'status': st, 'ticks': n,
            'stack': len(m.cpu.stack)}
