"""Observational comparison of two machine outcomes produced by
peepfn.run_body (no repository imports: used by the worker and by the harness).

outcome = ['end', stack, heap, cur, halted, reason, last_trap, ttarget, active, dpart, didx, events]
        | ['limit', events] | ['asm-exc', ExcType] | ['host-exc', ExcType]"""

NEGZERO = 0x8000000000000000
DEFAULTS = ([1, 0], [2, 0], [3, 0], [4, 0], [5, []])


def short(o):
    if o[0] == 'end':
        reason, trap = o[5], o[6]
        return f'trap({trap})' if reason == 3 else 'ok'
    if o[0] in ('asm-exc', 'host-exc'):
        return f'{o[0]}({o[1]})'
    return o[0]


def unsign(x):
    if isinstance(x, list):
        if len(x) == 2 and x[0] in (3, 4) and x[1] == NEGZERO:
            return [x[0], 0]
        return [unsign(y) for y in x]
    return x


def obs_cells(a, b):
    """cell lists equal up to: an unset cell = the default a read materialises"""
    if len(a) != len(b):
        return False
    for x, y in zip(a, b):
        if x == y:
            continue
        if (x == [] and y in DEFAULTS) or (y == [] and x in DEFAULTS):
            continue
        return False
    return True


def obs_heap(ha, hb):
    if len(ha) != len(hb):
        return False
    return all(ka == kb and obs_cells(ca, cb) for (ka, ca), (kb, cb) in zip(ha, hb))


def diffkind(b, a):
    """None when the two outcomes are observably equal, else a short class"""
    if b[0] != a[0]:
        return f'{short(b)}->{short(a)}'
    if b[0] == 'limit':
        return None if b[1] == a[1] else 'events'
    if b[0] != 'end':
        return None if b == a else f'{short(b)}->{short(a)}'
    if b[4:9] != a[4:9]:
        return f'{short(b)}->{short(a)}'
    if b[11] != a[11]:
        return 'events'
    if b[1] != a[1]:
        if unsign(b[1]) == unsign(a[1]):
            return 'zero-sign'
        if b[1] and a[1] and b[1][-1] != a[1][-1] and b[1][:-1] == a[1][:-1]:
            return 'path'
        return 'stack'
    if b[3] != a[3] or b[9:11] != a[9:11]:
        return 'control'
    if not obs_heap(b[2], a[2]):
        return 'zero-sign' if obs_heap(unsign(b[2]), unsign(a[2])) else 'vars'
    return None
