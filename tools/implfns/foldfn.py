"""C02 (constant folder half): the REAL qbee.expr classes built directly from a
JSON description of a constant expression, the real code generator +
assembler + cpu on that expression, and whole programs compiled at several
optimisation levels.

Expression JSON (same shape as the sx job of Models/FoldEntry.v):
  [0, ty, [0, int] | [1, bits64]]   NumericLiteral(value, type)   ty 1..4
  [1, [code points]]                 StringLiteral
  [2, op, l, r]                      BinaryOp     op = Operator enum value
  [3, op, a]                         UnaryOp
  [4, e]                             ParenthesizedExpr
"""
import io
import contextlib
import struct as _struct
from implfns.common import *
from qbee import expr as E
from qbee.qvm_codegen import QvmCodeGen, QvmCode
from qbee.stmt import ArrayDimRange

TYPES = {1: E.Type.INTEGER, 2: E.Type.LONG, 3: E.Type.SINGLE, 4: E.Type.DOUBLE}
TYID = {'integer': 1, 'long': 2, 'single': 3, 'double': 4, 'string': 5}
KIND = {'ValueError': 1, 'TypeError': 2, 'EvalError': 3, 'error': 4, 'OverflowError': 5,
        'AssertionError': 6, 'KeyError': 7, 'ZeroDivisionError': 8}
CRASH = {'IndexError': 1, 'TypeError': 2, 'NameError': 3, 'AttributeError': 4, 'KeyError': 5,
         'ValueError': 6, 'OverflowError': 7, 'RuntimeError': 8, 'RecursionError': 8,
         'AssertionError': 9, 'error': 10, 'Trapped': 11, 'UnboundLocalError': 12}
OPCODE = {'add': 2, 'sub': 93, 'mul': 33, 'div': 19, 'mod': 32, 'idiv': 25, 'exp': 22,
          'cmp': 105, 'eq': 20, 'ne': 34, 'lt': 31, 'gt': 102, 'le': 30, 'ge': 24,
          'and': 3, 'or': 38, 'xor': 99, 'eqv': 21, 'imp': 26, 'neg': 35, 'not': 37}
TCH = {'%': 1, '&': 2, '!': 3, '#': 4, '$': 5}


def build(j):
    k = j[0]
    if k == 0:
        v = j[2][1] if j[2][0] == 0 else bits2f(j[2][1])
        return E.NumericLiteral(v, TYPES[j[1]])
    if k == 1:
        return E.StringLiteral(''.join(chr(c) for c in j[1]))
    if k == 2:
        return E.BinaryOp(build(j[2]), build(j[3]), E.Operator(j[1]))
    if k == 3:
        return E.UnaryOp(build(j[2]), E.Operator(j[1]))
    if k == 4:
        return E.ParenthesizedExpr(build(j[1]))
    raise ValueError(j)


def tyid(t):
    if t._type == E.BuiltinType.UNKNOWN:
        return 0
    return TYID.get(t.name, -1)


def pv(v):
    if isinstance(v, bool):
        return [0, int(v)]
    if isinstance(v, int):
        return [0, v]
    if isinstance(v, float):
        return [1, fbits(v)]
    if isinstance(v, str):
        return [2, [ord(c) for c in v]]
    return ['other', type(v).__name__]


def fold_case(j):
    """-> [static type id, fold result, static bound] in the model's output format"""
    e = build(j)
    ty = tyid(e.type)
    try:
        r = e.fold()
        if r is e:
            fr = [1]
        elif isinstance(r, E.NumericLiteral):
            fr = [0, tyid(r.type), pv(r.value)]
        elif isinstance(r, E.StringLiteral):
            fr = [0, 5, pv(r.value)]
        else:
            fr = ['other', type(r).__name__]
    except BaseException as ex:  # noqa
        fr = [2, KIND.get(type(ex).__name__, 99), type(ex).__name__]
    e2 = build(j)
    try:
        b = [0, ArrayDimRange(e2, e2).static_lbound]
    except BaseException as ex:  # noqa
        b = [2, KIND.get(type(ex).__name__, 99), type(ex).__name__]
    ct = [tyid(ch.type) for ch in inner(e).children]
    return [ty, fr, b, ct]


def inner(e):
    while isinstance(e, E.ParenthesizedExpr):
        e = e.child
    return e


def instr_out(final):
    op, *args = final
    if op.startswith('push'):
        body, tc = op[4:-1], op[-1]
        ty = TCH[tc]
        if body == '':
            v = args[0]
            if ty == 5:
                return [43, v]
            if ty in (1, 2):
                return [38 + ty, v]
            return [38 + ty, fbits(v)]
        c = {'m2': -2, 'm1': -1, '0': 0, '1': 1, '2': 2}[body]
        return [44, ty, c]
    if op.startswith('conv'):
        return [6, TCH[op[4]], TCH[op[5]]]
    return [OPCODE.get(op, 0)]


def rt_case(j):
    """the real gen_* on the expression, the real assembler, the real cpu from an
    empty stack -> [cg, rt, literals] in the model's output format"""
    return _rt(build(j), False)


def bound_case(j):
    return _rt(build(j), True)


def _rt(e, to_long):
    code = QvmCode()
    cg = QvmCodeGen(None)
    try:
        cg.gen_code_for_node(e, code)
        if to_long:
            from qbee.qvm_codegen import gen_code_for_conv
            gen_code_for_conv(E.Type.LONG, e, code, cg)
    except BaseException as ex:  # noqa
        return [['gen-exc', type(ex).__name__], ['gen-exc', type(ex).__name__], []]
    lits = [[ord(c) for c in s] for s in code._string_literals]
    try:
        bc, _ = code.assembled
    except BaseException as ex:  # noqa
        k = [3, KIND.get(type(ex).__name__, 99)]
        return [k, k, lits]
    module = QModule(list(code._string_literals), 0, [], bc, None)
    m, p = make_machine(module, Script())
    cpu = m.cpu
    # operands as the machine will load them
    listing = []
    pos = 0
    while pos < len(bc):
        ins, ops, size = cpu.get_instruction_at(pos)
        listing.append(ins_out_decoded(ins, ops, module))
        pos += size
    n = 0
    res = None
    try:
        while not cpu.halted and cpu.pc < len(bc) and n < 10000:
            cpu.tick()
            n += 1
    except BaseException as ex:  # noqa
        res = [2, CRASH.get(type(ex).__name__, 98)]
    if res is None:
        if cpu.halted and cpu.halt_reason == HaltReason.TRAP:
            res = [1, cpu.last_trap.value if cpu.last_trap is not None else 0]
        elif len(cpu.stack) == 1:
            res = [0, cell_canon(cpu.stack[0])]
        else:
            res = [7]
    return [[0, listing], res, lits]


def ins_out_decoded(instr, operands, module):
    op = instr.op
    if op.startswith('push') and op[-1] in TCH:
        body, tc = op[4:-1], op[-1]
        ty = TCH[tc]
        if body == '':
            v = operands[0]
            if ty == 5:
                return [43, v if isinstance(v, int) else module.literals.index(v)]
            if ty in (1, 2):
                return [38 + ty, v]
            return [38 + ty, fbits(v)]
        c = {'m2': -2, 'm1': -1, '0': 0, '1': 1, '2': 2}[body]
        return [44, ty, c]
    if op.startswith('conv'):
        return [6, TCH[op[4]], TCH[op[5]]]
    return [OPCODE.get(op, 0)]


def accepted(e):
    """would the compiler let this expression reach the folder / code generator?
    The real Pass2 hooks on every node (they only look at the node), and no
    node of UNKNOWN type (every statement that holds an expression rejects it;
    the fold_levels suite checks that on whole programs)."""
    from qbee.compiler import Pass2
    try:
        if e.type._type == E.BuiltinType.UNKNOWN:
            return False
        if isinstance(e, E.BinaryOp):
            Pass2.process_binary_op_pre(None, e)
        elif isinstance(e, E.UnaryOp):
            Pass2.process_unary_op_pre(None, e)
    except CompileError:
        return False
    return all(accepted(ch) for ch in e.children)


def all_case(j):
    """everything about one constant expression, all from the real code:
    [type, fold, bound] + [cg, rt, lits] of the expression + rt of what fold() returned
    + rt of the bound conversion"""
    a = fold_case(j)
    b = _rt(build(j), False)
    e = build(j)
    try:
        f = e.fold()
        c = _rt(f, False)[1] if f is not e else ['same']
    except BaseException as ex:  # noqa
        c = ['fold-exc', type(ex).__name__]
    d = _rt(build(j), True)[1]
    return {'fold': a, 'rt': b, 'folded_rt': c, 'bound_rt': d, 'accepted': accepted(build(j))}


# ---------------------------------------------------------------- programs

def run_levels(case):
    """{src, levels:[..]} -> per level: acceptance / printed text / outcome / frame size"""
    out = []
    for lv in case.get('levels', [0, 1, 2, 3]):
        out.append(run_one(case['src'], lv))
    return out


def run_one(src, level):
    try:
        code = compile_src(src, level, False)
        frame = None
        for i in code._instrs:
            f = i.final
            if f[0] == 'frame':
                frame = [f[1], f[2]]
                break
        bc = bytes(code)
    except (QSyntaxError, CompileError) as ex:
        return {'accept': False, 'kind': type(ex).__name__,
                'code': getattr(getattr(ex, 'code', None), 'name', None)}
    except BaseException as ex:  # noqa
        return {'accept': False, 'kind': 'crash', 'exc': type(ex).__name__, 'msg': str(ex)[:120]}
    module = QModule.parse(bc)
    m, p = make_machine(module, Script())
    buf = io.StringIO()
    exc = None
    try:
        with contextlib.redirect_stdout(buf):
            st, n = run_machine(m, 200000)
    except BaseException as ex:  # noqa
        exc = type(ex).__name__
        st = 'exc'
    text = ''.join(''.join(chr(c) for c in e[1]) for e in p.events if e[0] == 'terminal_print')
    others = [e for e in p.events if e[0] != 'terminal_print']
    return {'accept': True, 'text': text, 'outcome': outcome(m.cpu) if exc is None else ['EXC', exc],
            'status': st, 'others': len(others), 'frame': frame,
            'nglobals': module.n_global_cells}
