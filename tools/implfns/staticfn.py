"""C05 implementation side: the REAL compiler's verdict on a source text at
given configurations, the real grammar's statement classification of a text
(the input of Models/Blocks.v), and the real parse tree in the model's format."""
import re

import qbee.qvm_codegen  # noqa: registers the code generator
from qbee.compiler import Compiler
from qbee.exceptions import SyntaxError as QSyntaxError, CompileError
from qbee.utils import convert_index_to_line_col
from qbee.grammar import line as line_rule
from qbee.parser import parse_string
from qbee import stmt as S
from qbee.stmt import Block
from pyparsing import ParseException, ParseSyntaxException

import os
import traceback

REPO = os.environ.get('QBEE_REPO', '/repo')


def _where(e):
    tb = traceback.extract_tb(e.__traceback__)
    for fr in reversed(tb):
        if fr.filename.startswith(REPO + os.sep):
            return f'{os.path.relpath(fr.filename, REPO)}:{fr.name}'
    return None


def loc_line(src, loc):
    """1-based line of a character offset, by the repository's own converter;
    an offset at/after the end of the text (converter answers None) is placed
    by counting newlines."""
    if loc is None:
        return None
    line, col = convert_index_to_line_col(src, loc)
    if line is None:
        line = src[:loc].count('\n') + 1
    return line


def verdict(src, level, debug):
    """What a user of the compiler sees (qbee/main.py): Compiler.compile, then the
    module is assembled with bytes(code).  An exception of the assembling step is
    reported with stage='assemble' (compile() itself had accepted the text)."""
    try:
        code = Compiler('qvm', optimization_level=level, debug_info=debug).compile(src)
    except QSyntaxError as e:
        return {'v': 'syntax', 'msg': e.msg, 'loc': e.loc_start, 'line': loc_line(src, e.loc_start)}
    except CompileError as e:
        return {'v': 'compile', 'code': e.code.name, 'msg': e.msg, 'loc': e.loc_start,
                'line': loc_line(src, e.loc_start)}
    except RecursionError:
        return {'v': 'exc', 'exc': 'RecursionError', 'where': None, 'msg': '', 'stage': 'compile'}
    except Exception as e:  # noqa: internal exception of the compiler = observable behaviour
        return {'v': 'exc', 'exc': type(e).__name__, 'where': _where(e), 'msg': str(e)[:160],
                'stage': 'compile'}
    try:
        bytes(code)
        return {'v': 'ok'}
    except Exception as e:  # noqa
        return {'v': 'exc', 'exc': type(e).__name__, 'where': _where(e), 'msg': str(e)[:160],
                'stage': 'assemble'}


def compile_cfgs(case):
    """case: {'src': text, 'cfgs': [[level, debug], ...]} -> list of verdicts"""
    return [verdict(case['src'], lv, bool(dbg)) for lv, dbg in case['cfgs']]


# ---------------------------------------------------------------------------
# the statement stream of a text, by the real per-line grammar

_CODES = [
    (S.IfBeginStmt, 1), (S.ElseIfStmt, 2), (S.ElseStmt, 3), (S.EndIfStmt, 4), (S.ForStmt, 5),
    (S.NextStmt, 6), (S.DoStmt, 7), (S.LoopStmt, 8), (S.WhileStmt, 9), (S.WendStmt, 10),
    (S.SelectStmt, 11), (S.CaseStmt, 12), (S.CaseElseStmt, 13), (S.EndSelectStmt, 14),
    (S.SubStmt, 15), (S.EndSubStmt, 16), (S.FunctionStmt, 17), (S.EndFunctionStmt, 18),
    (S.TypeStmt, 19), (S.VarDeclClause, 20), (S.EndTypeStmt, 21),
]

_BK = {S.IfBlock: 1, S.ForBlock: 2, S.LoopBlock: 3, S.WhileBlock: 4, S.SelectBlock: 5,
       S.SubBlock: 6, S.FunctionBlock: 7, S.TypeBlock: 8}


def _tables():
    """block kind by the node_name of its start / end statement, read from the
    real Block.known_blocks registry"""
    start, end = {}, {}
    for st, blk in Block.known_blocks.items():
        start[st.node_name()] = _BK[blk]
        end[blk.end_stmt.node_name()] = _BK[blk]
    return start, end


def _code(node, ids):
    for cls, c in _CODES:
        if type(node) is cls:
            arg = 0
            if c == 5:
                arg = ids.setdefault(node.var.base_var, len(ids))
            elif c == 6:
                arg = -1 if node.var is None else ids.setdefault(node.var.base_var, len(ids))
            elif c in (7, 8):
                arg = 1 if node.cond else 0
            elif c == 20:
                arg = ids.setdefault('.' + node.name, len(ids))
            return c, arg
    return 0, 0


def stream_of(src):
    """-> ('ok', [[code, arg, line], ...]) | ('syntax', line)"""
    ids = {}
    out = []
    for n, text in enumerate(src.split('\n')):
        try:
            ln = line_rule.parse_string(text, parse_all=True)[0]
        except (ParseException, ParseSyntaxException, QSyntaxError):
            return 'syntax', n + 1
        for node in ln.nodes:
            c, a = _code(node, ids)
            out.append([c, a, n + 1])
    return 'ok', out


def _shape(node, src):
    ln = lambda x: loc_line(src, x.loc_start)  # noqa
    if isinstance(node, Block):
        k = _BK[type(node)]
        if k == 1:
            bodies = [b for (_c, b) in node.if_blocks]
            kids = list(bodies[0]) if bodies else []
            for i, es in enumerate(node.elseif_stmts):
                kids.append(es)
                kids += bodies[i + 1]
            if node.else_stmt is not None:
                kids.append(node.else_stmt)
                kids += node.else_body
        elif k == 5:
            kids = []
            for case, body in node.case_blocks:
                kids.append(case)
                kids += body
        elif k in (6, 7):
            kids = node.block
        elif k == 8:
            kids = node.decls
        else:
            kids = node.body
        return [1, k, ln(node.start_stmt), [_shape(x, src) for x in kids], ln(node.end_stmt)]
    c, _a = _code(node, {})
    return [0, c, ln(node)]


def _err_of(e, src):
    """real diagnostic -> the model's (errcode, bkind, line)"""
    start, end = _tables()
    if isinstance(e, QSyntaxError):
        m = re.fullmatch(r'(.+) without (.+)', e.msg)
        if m and m.group(1) in end:
            return [1, 1, end[m.group(1)], loc_line(src, e.loc_start)]
        m = re.fullmatch(r'Expected (.+)', e.msg)
        if m and m.group(1) in end:
            return [1, 2, end[m.group(1)], loc_line(src, e.loc_start)]
        m = re.fullmatch(r'(.+) block not closed', e.msg)
        if m and m.group(1) in start:
            return [1, 3, start[m.group(1)], loc_line(src, e.loc_start)]
        code = {'Statements illegal between SELECT CASE and CASE': 6,
                'Statement illegal in TYPE block': 7,
                'Duplicate definition': 8}.get(e.msg)
        if code:
            return [1, code, 0, loc_line(src, e.loc_start)]
        return ['syntax-other', e.msg, loc_line(src, e.loc_start)]
    if isinstance(e, CompileError):
        code = None
        if e.code.name == 'BLOCK_MISMATCH':
            code = 4 if 'NEXT' in e.msg else 5
        elif e.code.name == 'ELSE_WITHOUT_IF':
            code = 9
        elif e.code.name == 'ILLEGAL_IN_SUB':
            code = 10
        elif e.code.name == 'ELEMENT_NOT_DEFINED' and 'no elements' in e.msg:
            code = 11
        if code:
            return [1, code, 0, loc_line(src, e.loc_start)]
        return ['compile-other', e.code.name, loc_line(src, e.loc_start)]
    if isinstance(e, AssertionError):
        return [2, 1]
    return [2, 2, type(e).__name__]


def blocks_case(case):
    """case: {'src': text} -> {'stream':..., 'parse': model-format result of
    parse_string, 'front': model-format verdict of the whole compiler at -O0}"""
    src = case['src']
    kind, stream = stream_of(src)
    out = {'stream_kind': kind, 'stream': stream}
    try:
        prog = parse_string(src)
        out['parse'] = [0, [_shape(x, src) for x in prog.nodes]]
    except Exception as e:  # noqa
        out['parse'] = _err_of(e, src)
    try:
        code = Compiler('qvm', optimization_level=case.get('level', 0),
                        debug_info=bool(case.get('debug', False))).compile(src)
        bytes(code)
        out['front'] = [0]
    except Exception as e:  # noqa
        out['front'] = _err_of(e, src)
        out['front_exc'] = type(e).__name__
        out['front_msg'] = str(e)[:120]
    return out


# ---------------------------------------------------------------------------
# translator tie: the operator typing decision of the code as a finite table

def type_table(case=None):
    """BinaryOp(...).type, UnaryOp(...).type and the Pass2 operator checks
    (process_binary_op_pre / process_unary_op_pre) evaluated on every operator x
    every pair of type kinds; Type.is_coercible_to on every pair.  Fail-closed:
    an unknown operator / type / exception class aborts."""
    from qbee.expr import Type, Operator, BinaryOp, UnaryOp, Expr
    from qbee.compiler import Pass2, CompilationUnit
    from qbee.exceptions import ErrorCode

    class K(Expr):
        child_fields = []
        is_literal = False
        is_const = False

        def __init__(self, t):
            self._t = t

        @property
        def type(self):
            return self._t

    kinds = [Type.INTEGER, Type.LONG, Type.SINGLE, Type.DOUBLE, Type.STRING,
             Type.from_name('verifu'), Type.from_name('verifv')]
    names = ['INTEGER', 'LONG', 'SINGLE', 'DOUBLE', 'STRING', 'USER:verifu', 'USER:verifv']

    def code_of(t):
        if t._type.name == 'UNKNOWN':
            return 0
        for i, k in enumerate(kinds):
            if t == k:
                return i + 1
        raise RuntimeError(f'type outside the table domain: {t!r}')

    p2 = Pass2(CompilationUnit())

    def checked(fn, node):
        try:
            fn(node)
            return 0
        except CompileError as e:
            if e.code != ErrorCode.TYPE_MISMATCH:
                raise RuntimeError(f'unexpected error code {e.code}')
            return 1

    def typ(node):
        try:
            t = node.type
        except (ValueError, AssertionError, AttributeError, KeyError, TypeError):
            return -1
        return code_of(t)

    ops = sorted(Operator, key=lambda o: o.value)
    binops, unops = [], []
    for op in ops:
        if op.is_unary:
            for i, a in enumerate(kinds):
                n = UnaryOp(K(a), op)
                unops.append([op.value, i + 1, typ(n), checked(p2.process_unary_op_pre, n)])
        else:
            for i, a in enumerate(kinds):
                for j, b in enumerate(kinds):
                    n = BinaryOp(K(a), K(b), op)
                    binops.append([op.value, i + 1, j + 1, typ(n),
                                   checked(p2.process_binary_op_pre, n)])
    coerce = []
    for i, a in enumerate(kinds):
        for j, b in enumerate(kinds):
            coerce.append([i + 1, j + 1, 1 if a.is_coercible_to(b) else 0])
    tokens = {}
    for tok in ['+', '-', '*', '/', 'mod', '\\', '^', '=', '<>', '<', '>', '<=', '>=',
                'and', 'or', 'xor', 'eqv', 'imp']:
        tokens[str(Operator.binary_op_from_token(tok).value)] = tok
    utokens = {}
    for tok in ['not', '-', '+']:
        utokens[str(Operator.unary_op_from_token(tok).value)] = tok
    return {'ops': [[o.value, o.name, 1 if o.is_unary else 0, 1 if o.is_comparison else 0,
                     1 if o.is_logical else 0] for o in ops],
            'kinds': names, 'binops': binops, 'unops': unops, 'coerce': coerce,
            'tokens': tokens, 'utokens': utokens}
