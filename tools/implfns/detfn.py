"""C20 - observations of the real compiler and machine under perturbed
environments.  One *observation* of a target {src, level, debug, script,
max_ticks} is: the compile verdict; sections 1-4 cut from bytes(code) (section
id byte + u32 big-endian length; section 5 = debug info is left out); the
listing str(code); the statement offsets of the debug map (they steer RESUME,
so they are behaviour, not bytes); and the run of the module with the scripted
device inputs: stop kind, tick count, events, halt reason, trap, pc, operand
stack.  An observation is compared through the sha256 of its canonical JSON:
workers get the reference digest and answer {'same': True} or the whole
observation."""
import ctypes
import enum
import hashlib
import json
import os
import signal
import struct
import threading
import time

from implfns.common import *
from implfns import machfn
from implfns.machfn import MPeriph, ev_canon, CRASH, InputExhausted

_ncompiled = 0      # compilations attempted in this process so far


# --------------------------------------------------------------------------
# pieces of one observation

def cut_sections(bc):
    out = {}
    idx = 0
    order = []
    while idx < len(bc):
        sid = bc[idx]
        n, = struct.unpack('>I', bc[idx + 1:idx + 5])
        body = bc[idx + 5:idx + 5 + n]
        order.append(sid)
        if sid != 5:
            out[str(sid)] = body.hex()
        idx += 5 + n
    out['order'] = order
    return out


def stage_compile(t):
    """-> (verdict, code|None, compiler).  Only the located diagnostics are part
    of the verdict of a failing compilation (kind, code, position); internal
    exceptions are reduced to their type and innermost repository function."""
    global _ncompiled
    _ncompiled += 1
    c = Compiler('qvm', optimization_level=t.get('level', 0), debug_info=t.get('debug', False))
    try:
        code = c.compile(t['src'])
        return {'ok': True}, code, c
    except QSyntaxError as e:
        return {'ok': False, 'kind': 'syntax', 'loc': getattr(e, 'loc_start', None)}, None, c
    except CompileError as e:
        return {'ok': False, 'kind': 'compile', 'code': e.code.name,
                'loc': getattr(e, 'loc_start', None)}, None, c
    except RecursionError:
        return {'ok': False, 'kind': 'internal', 'exc': 'RecursionError'}, None, c
    except Exception as e:  # noqa: internal error of the compiler (C06's subject)
        return {'ok': False, 'kind': 'internal', 'exc': type(e).__name__}, None, c


def stage_emit(code):
    """bytes(code), str(code) -> dict or an 'internal' verdict"""
    try:
        bc = bytes(code)
        listing = str(code)
    except Exception as e:  # noqa
        return None, {'ok': False, 'kind': 'internal-emit', 'exc': type(e).__name__}
    return (bc, listing), None


def mk_script(sc):
    return Script(lines=list(sc.get('lines', [])),
                  rnd=[bits2f(b) for b in sc.get('rnd', [])],
                  timer=[bits2f(b) for b in sc.get('timer', [])],
                  inkey=list(sc.get('inkey', [])))


def cell_flat(c):
    if c is None:
        return []
    if c.type == CellType.REFERENCE:
        return [7]
    return cell_canon(c)


class Runner:
    """one machine on one module; tick() advances it by one instruction"""

    def __init__(self, module, sc, max_ticks):
        self.p = MPeriph(mk_script(sc))
        self.m = QvmMachine(module, impl=self.p)
        self.cpu = self.m.cpu
        self.module = module
        self.n = 0
        self.mx = max_ticks
        self.stop = None

    def done(self):
        return self.stop is not None

    def tick(self):
        if self.stop is not None:
            return
        cpu = self.cpu
        if cpu.halted or cpu.pc >= len(self.module.code):
            self.stop = 0
            return
        if self.n >= self.mx:
            self.stop = 1
            return
        try:
            cpu.tick()
            self.n += 1
        except InputExhausted:
            self.stop = 3
            self.n += 1
        except BaseException as e:  # noqa
            self.stop = [2, CRASH.get(type(e).__name__, 98)]
            self.n += 1

    def obs(self):
        cpu = self.cpu
        return {'stop': self.stop, 'ticks': self.n,
                'events': [ev_canon(e) for e in self.p.events],
                'halted': 1 if cpu.halted else 0, 'reason': cpu.halt_reason.value,
                'trap': cpu.last_trap.value if cpu.last_trap is not None else 0,
                'pc': cpu.pc, 'stack': [cell_flat(c) for c in cpu.stack]}


def run_alone(module, sc, max_ticks, full=False):
    del machfn._registry[:]
    r = Runner(module, sc, max_ticks)
    while not r.done():
        r.tick()
    o = r.obs()
    if full:
        st = machfn.state_out(r.cpu, r.p, r.cpu.devices['data'])
        return o, [r.stop, r.n, st]
    return o, None


def stmts_of(module):
    if module.debug_info is None:
        return None
    return [[r.start_offset, r.end_offset] for r in module.debug_info.stmts]


def finish_obs(t, verdict, code, full=False):
    """the observation of a target whose compilation produced `code`"""
    if code is None:
        return {'verdict': verdict}
    emitted, bad = stage_emit(code)
    if emitted is None:
        return {'verdict': bad}
    bc, listing = emitted
    o = {'verdict': verdict, 'sections': cut_sections(bc), 'listing': listing}
    module = QModule.parse(bc)
    o['stmts'] = stmts_of(module)
    run, fullres = run_alone(module, t.get('script', {}), t.get('max_ticks', 20000), full)
    o['run'] = run
    if full:
        o['_full'] = fullres
        o['_module'] = machfn.module_desc(module)
        o['_bytes'] = bc.hex()
    return o


def observe(t, full=False):
    verdict, code, _ = stage_compile(t)
    return finish_obs(t, verdict, code, full)


def digest(o):
    pub = {k: v for k, v in o.items() if not k.startswith('_')}
    return hashlib.sha256(json.dumps(pub, sort_keys=True).encode()).hexdigest()


def answer(o, ref):
    d = digest(o)
    if ref is not None and d == ref:
        return {'same': True, 'digest': d}
    o = dict(o)
    o['digest'] = d
    return o


# --------------------------------------------------------------------------
# environments

def _die_with_parent():
    try:
        ctypes.CDLL('libc.so.6').prctl(1, signal.SIGKILL)     # PR_SET_PDEATHSIG
    except Exception:  # noqa
        pass


def _in_child(work):
    """run work() in a child forked from this (pristine) process; JSON result"""
    assert _ncompiled == 0
    rfd, wfd = os.pipe()
    pid = os.fork()
    if pid == 0:
        try:
            _die_with_parent()
            os.close(rfd)
            try:
                r = work()
            except BaseException as e:  # noqa
                r = {'harness': 'child-failed', 'stderr': f'{type(e).__name__}: {e}'}
            with os.fdopen(wfd, 'w') as f:
                f.write(json.dumps(r))
        finally:
            os._exit(0)
    os.close(wfd)
    with os.fdopen(rfd) as f:
        data = f.read()
    os.waitpid(pid, 0)
    if not data:
        return {'harness': 'child-died', 'stderr': ''}
    return json.loads(data)


def observe_case(case):
    """{t, ref, full, sleep}"""
    if case.get('sleep'):
        time.sleep(case['sleep'])
    r = answer(observe(case['t'], case.get('full', False)), case.get('ref'))
    r['cwd'] = os.getcwd()
    r['hashseed'] = os.environ.get('PYTHONHASHSEED')
    return r


def pristine(case):
    """{t, ref, full, sleep}: observe in a child forked from this process, which
    has imported the compiler and never compiled anything (so every target sees
    the state of a fresh interpreter; the hash seed and cwd are the worker's)."""
    return _in_child(lambda: observe_case(case))


def fanout(case):
    """{fn, cases, par}: one interpreter (one import of the grammar, one hash
    seed) serves a whole environment: `par` forked children share the cases;
    `fn` (pristine / isolated) forks again per case, so every case still starts
    from the just-imported state."""
    fn = globals()[case['fn']]
    cases = case['cases']
    par = max(1, min(case.get('par', 16), len(cases)))
    kids = []
    for k in range(par):
        idxs = list(range(k, len(cases), par))
        rfd, wfd = os.pipe()
        pid = os.fork()
        if pid == 0:
            try:
                _die_with_parent()
                os.close(rfd)
                out = []
                for i in idxs:
                    try:
                        out.append(fn(cases[i]))
                    except BaseException as e:  # noqa
                        out.append({'harness': 'case-failed', 'stderr': f'{type(e).__name__}: {e}'})
                with os.fdopen(wfd, 'w') as f:
                    f.write(json.dumps(out))
            finally:
                os._exit(0)
        os.close(wfd)
        kids.append((pid, rfd, idxs))
    res = [None] * len(cases)
    for pid, rfd, idxs in kids:
        with os.fdopen(rfd) as f:
            data = f.read()
        os.waitpid(pid, 0)
        out = json.loads(data) if data else []
        out += [{'harness': 'child-died', 'stderr': ''}] * (len(idxs) - len(out))
        for i, r in zip(idxs, out):
            res[i] = r
    return res


def isolated(case):
    """{fn, case}: any of the functions below in its own forked child, so that
    the only history a case sees is the one it builds itself"""
    fn = globals()[case['fn']]
    return _in_child(lambda: fn(case['case']))


def fresh(case):
    """{t, ref}: observe directly; the harness starts one interpreter per case"""
    r = answer(observe(case['t']), case.get('ref'))
    r['ncompiled_before'] = _ncompiled - 1
    return r


def sequence(case):
    """{steps: [{t, ref|None, run_pre}]}: compile the steps one after the other in
    this process.  Steps without 'ref' are history (their result is dropped;
    failing ones included on purpose)."""
    out = []
    for st in case['steps']:
        before = _ncompiled
        if 'ref' not in st:
            try:
                if st.get('run_pre'):
                    observe(st['t'])
                else:
                    v, code, _ = stage_compile(st['t'])
                    if code is not None:
                        stage_emit(code)
            except BaseException:  # noqa
                pass
            out.append({'history': True})
            continue
        r = answer(observe(st['t']), st['ref'])
        r['ncompiled_before'] = before
        out.append(r)
    return out


def two_alive(case):
    """{a, b, ref, order}: two Compiler instances (and their code objects) alive
    at once; b is the target"""
    a, b = case['a'], case['b']
    order = case.get('order', 0)
    global _ncompiled
    _ncompiled += 2
    ca = Compiler('qvm', optimization_level=a.get('level', 0), debug_info=a.get('debug', False))
    cb = Compiler('qvm', optimization_level=b.get('level', 0), debug_info=b.get('debug', False))

    def comp(c, t):
        try:
            return {'ok': True}, c.compile(t['src'])
        except QSyntaxError as e:
            return {'ok': False, 'kind': 'syntax', 'loc': getattr(e, 'loc_start', None)}, None
        except CompileError as e:
            return {'ok': False, 'kind': 'compile', 'code': e.code.name,
                    'loc': getattr(e, 'loc_start', None)}, None
        except RecursionError:
            return {'ok': False, 'kind': 'internal', 'exc': 'RecursionError'}, None
        except Exception as e:  # noqa
            return {'ok': False, 'kind': 'internal', 'exc': type(e).__name__}, None
    if order == 0:
        vb, codeb = comp(cb, b)
        va, codea = comp(ca, a)
        if codea is not None:
            stage_emit(codea)
    elif order == 1:
        va, codea = comp(ca, a)
        vb, codeb = comp(cb, b)
        if codea is not None:
            stage_emit(codea)
    else:
        va, codea = comp(ca, a)
        if codea is not None:
            stage_emit(codea)
        vb, codeb = comp(cb, b)
    r = answer(finish_obs(b, vb, codeb), case.get('ref'))
    # the other compilation must still be usable afterwards
    if codea is not None:
        stage_emit(codea)
    return r


def threaded(case):
    """{t, ref}: compile, assemble and list in a thread; run in the main thread
    (QvmCpu.__init__ calls signal.signal, which Python allows in the main thread only)"""
    box = {}

    def work():
        try:
            v, code, _ = stage_compile(case['t'])
            box['v'], box['code'] = v, code
            if code is not None:
                box['emit'] = stage_emit(code)
        except BaseException as e:  # noqa
            box['err'] = f'{type(e).__name__}: {e}'
    th = threading.Thread(target=work)
    th.start()
    th.join()
    if 'err' in box:
        return {'harness': 'thread-failed', 'stderr': box['err']}
    return answer(finish_obs(case['t'], box['v'], box['code']), case.get('ref'))


def machine_in_thread(case):
    """what happens when a machine is built off the main thread (informational)"""
    bc = bytes.fromhex(case['bytes'])
    box = {}

    def work():
        try:
            module = QModule.parse(bc)
            Runner(module, {}, 10)
            box['r'] = 'ok'
        except BaseException as e:  # noqa
            box['r'] = f'{type(e).__name__}: {e}'
    th = threading.Thread(target=work)
    th.start()
    th.join()
    return box['r']


def class_state():
    """class-level (shared) state of the machine classes: anything mutable that
    is not a function/descriptor/constant"""
    import qvm.machine as qm
    import qvm.cpu as qc
    out = {}
    for mod in (qm, qc):
        for name, cls in sorted(vars(mod).items()):
            if not isinstance(cls, type) or cls.__module__ != mod.__name__:
                continue
            if issubclass(cls, enum.Enum):
                continue
            for an, av in sorted(vars(cls).items()):
                if an.startswith('__'):
                    continue
                if isinstance(av, (list, dict, set, bytearray)):
                    out[f'{mod.__name__}.{name}.{an}'] = repr(av)[:200]
    return out


def machines(case):
    """{bytes(hex), script, max_ticks, other_bytes(hex), other_script}: the same
    module run (1) alone, (2) alone again in the same process, (3) tick by tick
    alternately with a machine on another module, (4) alternately with a second
    machine on the SAME QModule object, (5) alone again afterwards."""
    bc = bytes.fromhex(case['bytes'])
    sc = case.get('script', {})
    mx = case.get('max_ticks', 20000)
    before = class_state()
    sig0 = signal.getsignal(signal.SIGINT)
    module = QModule.parse(bc)
    runs = {}
    runs['alone-1'] = run_alone(module, sc, mx)[0]
    runs['alone-2'] = run_alone(QModule.parse(bc), sc, mx)[0]
    runs['alone-same-module-object'] = run_alone(module, sc, mx)[0]
    # (3) interleaved with another program
    other = QModule.parse(bytes.fromhex(case['other_bytes']))
    x = Runner(QModule.parse(bc), sc, mx)
    y = Runner(other, case.get('other_script', {}), mx)
    while not (x.done() and y.done()):
        x.tick()
        y.tick()
    runs['interleaved-x'] = x.obs()
    runs['_other-interleaved'] = y.obs()
    runs['_other-alone'] = run_alone(QModule.parse(bytes.fromhex(case['other_bytes'])),
                                     case.get('other_script', {}), mx)[0]
    # (4) two machines sharing one QModule object, y one tick ahead
    shared = QModule.parse(bc)
    x = Runner(shared, sc, mx)
    y = Runner(shared, sc, mx)
    y.tick()
    while not (x.done() and y.done()):
        x.tick()
        y.tick()
        y.tick()
    runs['shared-x'] = x.obs()
    runs['shared-y'] = y.obs()
    runs['alone-3'] = run_alone(module, sc, mx)[0]
    after = class_state()
    sig1 = signal.getsignal(signal.SIGINT)
    return {'runs': runs, 'class_state_changed': before != after,
            'class_state': after,
            'sigint_handler_owner_changes': sig0 is not sig1}


# --------------------------------------------------------------------------
# compiler-side pieces for the T-fn tie (Models/Determinism.v)

def pieces(case):
    """{src, level}: what the real compiler built: DEFtype letter iteration
    orders (as this process enumerates the sets), the final letter->type
    lookups a..z, the data parts in order, the literal table, the verdict"""
    from qbee.parser import parse_string
    from qbee.stmt import DefTypeStmt
    src = case['src']
    tid = {'integer': 1, 'long': 2, 'single': 3, 'double': 4, 'string': 5}
    out = {'hashseed': os.environ.get('PYTHONHASHSEED')}
    stmts = []
    try:
        tree = parse_string(src)

        def walk(n):
            if isinstance(n, DefTypeStmt):
                stmts.append([tid[n.type.name], [ord(ch) for ch in n.letters]])
            for ch in n.children:
                walk(ch)
        walk(tree)
    except QSyntaxError:
        pass
    out['deftypes'] = stmts
    v, code, c = stage_compile({'src': src, 'level': case.get('level', 0), 'debug': False})
    out['verdict'] = v
    comp = c._compilation
    tab = comp.def_letter_types
    out['lookups'] = [tid[tab[chr(ch)].name] if chr(ch) in tab else -1 for ch in range(97, 123)]
    out['table_order'] = [ord(k) for k in tab.keys()]
    if code is not None:
        out['data'] = [[k, [None if it == Empty.value else it for it in items]]
                       for k, items in code._data.items()]
        emitted, bad = stage_emit(code)
        if emitted is not None:
            module = QModule.parse(emitted[0])
            out['literals'] = list(module.literals)
            out['module_data'] = [[None if it == Empty.value else it for it in part]
                                  for part in module.data]
    return out


from qbee.utils import Empty  # noqa: E402
