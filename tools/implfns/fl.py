"""Python float operations, on IEEE bit patterns (reference for Base/Fl.v)."""
import struct, math


def f(b):
    return struct.unpack('>d', struct.pack('>Q', b))[0]


def b(x):
    if x != x:
        return 0x7ff8000000000000
    return struct.unpack('>Q', struct.pack('>d', x))[0]


def optz(fn, x):
    try:
        return [int(fn(x))]
    except (OverflowError, ValueError):
        return []


def op(case):
    k = case[0]
    if k in (1, 2, 3, 4, 5):
        x, y = f(case[1]), f(case[2])
        if k == 1: return b(x + y)
        if k == 2: return b(x - y)
        if k == 3: return b(x * y)
        if k == 4:
            if y == 0: return 'zerodiv'
            return b(x / y)
        if k == 5:
            if x != x or y != y: return 2
            return 0 if x == y else (-1 if x < y else 1)
    if k == 6:
        try:
            return b(float(case[1]))
        except OverflowError:
            return 'overflow'
    x = f(case[1]) if k != 12 else None
    if k == 7: return optz(math.floor, x)
    if k == 8: return optz(int, x)
    if k == 9: return optz(round, x)
    if k == 10:
        try:
            return [b(struct.unpack('>f', struct.pack('>f', x))[0])]
        except OverflowError:
            return []
    if k == 11:
        try:
            v = struct.unpack('>I', struct.pack('>f', x))[0]
            if x != x: v = 0x7fc00000
            return [v]
        except OverflowError:
            return []
    if k == 12:
        return b(struct.unpack('>f', struct.pack('>I', case[1]))[0])
    if k == 13:
        return b(x)
