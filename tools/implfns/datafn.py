"""DATA / READ / RESTORE against the real code:
  text     - qbee.utils.parse_data, the grammar rule data_stmt (with its parse
             action) and the whole-line rule on 'DATA ' + text
  device   - qvm.machine.DataDevice._exec_read/_exec_restore on a module whose
             data section is given
  program  - the real compiler + the real machine on a whole program"""
import pyparsing

from implfns.common import *
from qbee import grammar
from qbee.utils import parse_data as real_parse_data, Empty
from qbee.stmt import DataStmt

_mod = None


def _module():
    global _mod
    if _mod is None:
        _mod = empty_module()
    return _mod


def enc_item(it):
    if it is Empty.value:
        return [0]
    if isinstance(it, str):
        return [1, [ord(c) for c in it]]
    return ['?', repr(it)]


def enc_items(items):
    return [0] if items is None else [1, [enc_item(i) for i in items]]


def dec_item(x):
    return Empty.value if x[0] == 0 else ''.join(chr(c) for c in x[1])


def text(case):
    """case: the text after the DATA keyword (a str), or [text, with_line_rule]"""
    t, with_line = (case if isinstance(case, list) else (case, True))
    out = {'pd': enc_items(real_parse_data(t))}
    src = 'DATA ' + t
    # the rule data_stmt: items and how far it consumed
    try:
        hits = list(grammar.data_stmt.scan_string(src, max_matches=1))
        if not hits or hits[0][1] != 0:
            out['ds'] = ['nomatch']
        else:
            toks, start, end = hits[0]
            node = toks[0]
            rest = src[end:].lstrip(' \t')
            out['ds'] = ['ok', enc_items(node.items), [ord(c) for c in rest],
                         [ord(c) for c in node.string]]
    except QSyntaxError as e:
        out['ds'] = ['syntax']
    # the whole line
    if not with_line:
        return out
    try:
        r = grammar.line.parse_string(src, parse_all=True)
        nodes = r[0].nodes
        first = nodes[0] if nodes else None
        out['line'] = ['ok', len(nodes),
                       enc_items(first.items) if isinstance(first, DataStmt) else ['notdata']]
    except QSyntaxError as e:
        out['line'] = ['syntax', 'action']
    except (pyparsing.ParseException, pyparsing.ParseSyntaxException) as e:
        out['line'] = ['syntax', 'parse']
    return out


def device(case):
    """case: {'parts': [[item]], 'cur': [p, i], 'seqs': [[[1,ty]|[2,idx], ...], ...]}
    -> for every sequence [results, [part, idx]]; every op is executed, also after a trap"""
    base = _module()
    data = [[dec_item(x) for x in part] for part in case['parts']]
    module = QModule(base.literals, base.n_global_cells, data, base.code, base.debug_info)
    m, p = make_machine(module)
    dev = m.cpu.devices['data']
    outs = []
    for seq in case['seqs']:
        dev.data_part, dev.data_idx = case['cur']
        res = []
        for op in seq:
            if op[0] == 1:
                m.cpu.stack = [CellValue(CellType.INTEGER, op[1])]
                try:
                    dev.execute('read')
                    if len(m.cpu.stack) != 1:
                        res.append(['stack', len(m.cpu.stack)])
                    else:
                        res.append([0, cell_canon(m.cpu.stack[-1])])
                except Trapped as e:
                    if e.trap_code == TrapCode.DEVICE_ERROR:
                        res.append([1, e.trap_kwargs['error_code'].value])
                    elif e.trap_code == TrapCode.INVALID_CELL_VALUE:
                        res.append([2])
                    else:
                        res.append(['trap', e.trap_code.name])
                except AssertionError:
                    res.append([3])
            else:
                m.cpu.stack = [CellValue(CellType.INTEGER, op[1])]
                dev.execute('restore')
                if m.cpu.stack:
                    res.append(['stack', len(m.cpu.stack)])
        outs.append([res, [dev.data_part, dev.data_idx]])
    if p.events:
        return {'unexpected_events': p.events[:5]}
    return outs


def program(case):
    """case: {src, level, debug} -> compile verdict, data section, cells pushed by
    every READ, printed text, outcome"""
    try:
        code = compile_src(case['src'], case.get('level', 0), case.get('debug', False))
    except CompileError as e:
        return {'compile_error': e.code.name}
    except QSyntaxError as e:
        return {'syntax_error': e.loc_start}
    module = QModule.parse(bytes(code))
    m, p = make_machine(module)
    dev = m.cpu.devices['data']
    reads = []
    orig = dev._exec_read

    def spy():
        orig()
        reads.append(cell_canon(m.cpu.stack[-1]))
    dev._exec_read = spy
    st, n = run_machine(m, case.get('max_ticks', 100000))
    ec = None
    if m.cpu.halt_reason == HaltReason.TRAP and m.cpu.last_trap == TrapCode.DEVICE_ERROR:
        ec = m.cpu.last_trap_kwargs.get('error_code')
        ec = ec.value if ec is not None else None
    return {'data': [[enc_item(x) for x in part] for part in module.data], 'error_code': ec,
            'reads': reads,
            'prints': [e[1] for e in p.events if e[0] == 'terminal_print'],
            'others': [e[0] for e in p.events if e[0] != 'terminal_print'],
            'outcome': outcome(m.cpu), 'status': st, 'stack': len(m.cpu.stack)}
