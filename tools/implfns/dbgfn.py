"""T-dbg: the real qvm.dbg.Cmd over a real QvmMachine with a recording
peripherals object, driven by command histories; canonical snapshots matching
Models/DebuggerEntry.v.  Instrumentation is on the *instances* only (a counting
wrapper around cpu.tick / cpu.run), never on repository files."""
import contextlib
import io
import re

from implfns.common import *
from implfns import machfn
from implfns.machfn import MPeriph, CRASH, state_out, module_desc
from qvm.dbg import Cmd, Breakpoint
from qvm.cpu import CallFrame

_cache = {}


class TickLimit(Exception):
    pass


def compiled(src, level):
    k = (src, level)
    if k not in _cache:
        _cache[k] = bytes(compile_src(src, level, True))
    return _cache[k]


def dbginfo_desc(module):
    """[[start, end, line, source offset, identity]]: identity = index of the
    first record that is == (dataclass equality, what the debugger compares)"""
    st = module.debug_info.stmts
    out = []
    for i, r in enumerate(st):
        eq = next(j for j in range(len(st)) if st[j] == r)
        assert isinstance(r.source_start_offset, int) and isinstance(r.source_start_line, int)
        out.append([r.start_offset, r.end_offset, r.source_start_line, r.source_start_offset, eq])
    return out


MSG = [
    (re.compile(r'^Machine is halted\.$'), lambda g: 1),
    (re.compile(r'^Hit breakpoint$'), lambda g: 2),
    (re.compile(r'^Empty program finished running already\.$'), lambda g: 3),
    (re.compile(r'^Setting a breakpoint at line (\d+) \(address 0x([0-9a-f]+)\)$'),
     lambda g: [4, int(g[1], 16), int(g[0])]),
    (re.compile(r'^Could not set a breakpoint at that precise line; set at line (\d+)$'),
     lambda g: [5, int(g[0])]),
    (re.compile(r'^Cannot set breakpoint: No such line number$'), lambda g: 6),
    (re.compile(r'^Cannot set breakpoint: no such routine$'), lambda g: 7),
    (re.compile(r'^Deleting breakpoint at line (\d+) \(address 0x([0-9a-f]+)\)$'),
     lambda g: [8, int(g[1], 16), int(g[0])]),
    (re.compile(r'^No such breakpoint$'), lambda g: 9),
    (re.compile(r'^Error: No such line number$'), lambda g: 10),
    (re.compile(r'^Error: no such routine$'), lambda g: 11),
]


def parse_msgs(text):
    out, other = [], []
    for line in text.split('\n'):
        if line == '':
            continue
        for rx, f in MSG:
            mo = rx.match(line)
            if mo:
                out.append(f(mo.groups()))
                break
        else:
            other.append(line)
    return out, other


CMDS = {1: 'step', 2: 'next', 3: 'stepi', 4: 'nexti', 5: 'continue'}


def cmd_text(c):
    if isinstance(c, int):
        return CMDS[c]
    return ('break ' if c[0] == 6 else 'delbr ') + str(c[1])


class Session:
    def __init__(self, bc, script, max_ticks):
        del machfn._registry[:]
        self.module = QModule.parse(bc)
        sc = script or {}
        self.p = MPeriph(Script(lines=list(sc.get('lines', [])),
                                rnd=[bits2f(b) for b in sc.get('rnd', [])],
                                timer=[bits2f(b) for b in sc.get('timer', [])],
                                inkey=list(sc.get('inkey', []))))
        self.m = QvmMachine(self.module, impl=self.p)
        cpu = self.cpu = self.m.cpu
        self.n = 0
        self.resumed = False
        self.max_ticks = max_ticks
        self.true_halt = None     # halt reason set by the first halting tick
        self.status = 0
        orig_tick, orig_run = cpu.tick, cpu.run

        def tick():
            if self.n >= self.max_ticks:
                raise TickLimit()
            if cpu.halted or cpu.pc >= len(self.module.code):
                self.resumed = True
            self.n += 1
            orig_tick()
            if cpu.halted and self.true_halt is None:
                self.true_halt = cpu.halt_reason.value

        def run(*a, **k):
            if cpu.halted:
                self.resumed = True
            return orig_run(*a, **k)
        cpu.tick = tick
        cpu.run = run
        self.cmd = None
        text = self.guard(self._start)
        self.start_msgs = parse_msgs(text)[0]

    def _start(self):
        self.cmd = Cmd(self.m, self.module)
        self.cmd.auto_status = 'off'

    def guard(self, f):
        buf = io.StringIO()
        try:
            with contextlib.redirect_stdout(buf):
                f()
        except InputExhausted:
            self.status = 2
        except TickLimit:
            self.status = 3
        except RecursionError:
            self.status = [1, 8]
        except BaseException as e:  # noqa
            self.status = [1, CRASH.get(type(e).__name__, 98)]
            self.exc = [type(e).__name__, str(e)[:120]]
        return buf.getvalue()

    def stmt(self):
        """the non-empty statement record at pc (None if none / not computable)"""
        if self.cmd is None:
            return None
        try:
            with contextlib.redirect_stdout(io.StringIO()):
                return self.cmd.find_nonempty_stmt(self.cpu.pc)
        except BaseException:  # noqa
            return None

    def stmt_index(self):
        r = self.stmt()
        if r is None:
            return -1
        st = self.module.debug_info.stmts
        return next(j for j in range(len(st)) if st[j] is r)

    def depth(self):
        d, f = 0, self.cpu.cur_frame
        while f is not None and d < 100000:
            d += 1
            f = f.prev_frame
        return d

    def at_frame(self):
        """1 if the instruction at pc is the callee's 'frame' (the call has been
        made, the activation record not yet created)"""
        code = self.module.code
        from qvm.instrs import op_code_to_instr
        if 0 <= self.cpu.pc < len(code):
            ins = op_code_to_instr.get(code[self.cpu.pc])
            return 1 if ins is not None and ins.op == 'frame' else 0
        return 0

    def snapshot(self, msgs):
        cpu = self.cpu
        r = self.stmt()
        lb = cpu.last_breakpoint
        last = 0 if lb is None else ([2, lb.start_addr] if isinstance(lb, Breakpoint) else 1)
        bps = [bp.start_addr if isinstance(bp, Breakpoint) else -1 for bp in cpu.breakpoints]
        return [self.status, cpu.pc, 1 if cpu.halted else 0, cpu.halt_reason.value,
                r.source_start_line if r is not None else -1,
                len(self.p.events), self.n, 1 if self.resumed else 0, last, self.depth(), bps, msgs]

    def do(self, c):
        """one command; returns (snapshot, extra) - extra is for the property judges"""
        before = {'stmt': self.stmt_index(), 'depth': self.depth(), 'halted': bool(self.cpu.halted),
                  'reason': self.cpu.halt_reason.value, 'n': self.n, 'true_halt': self.true_halt,
                  'cstart': self.cpu.cur_frame.code_start if self.cpu.cur_frame is not None else -1,
                  'at_frame': self.at_frame()}
        text = self.guard(lambda: self.cmd.onecmd(cmd_text(c)))
        msgs, other = parse_msgs(text)
        after = {'stmt': self.stmt_index(),
                 'cstart': self.cpu.cur_frame.code_start if self.cpu.cur_frame is not None else -1}
        return self.snapshot(msgs), {'before': before, 'after': after, 'other': other}

    def final_state(self):
        return state_out(self.cpu, self.p, self.cpu.devices['data'])


def done(cpu):
    return cpu.halted


def history(case):
    """{src, level, script?, max_ticks?, final?, histories: [[cmd...]]} ->
    {module, dbginfo, runs: [{start, snaps, extras, ncont, final}]}
    with final: after the history, 'continue' is repeated until the machine is
    halted (at most 60 times); ncont = number of continues appended."""
    bc = compiled(case['src'], case.get('level', 0))
    mx = case.get('max_ticks', 20000)
    runs = []
    module = None
    for h in case['histories']:
        s = Session(bc, case.get('script'), mx)
        module = s.module
        start = s.snapshot(s.start_msgs)
        snaps, extras = [], []
        for c in h:
            if s.status != 0:
                break
            sn, ex = s.do(c)
            snaps.append(sn)
            extras.append(ex)
        ncont = 0
        if case.get('final'):
            while s.status == 0 and not s.cpu.halted and ncont < 60:
                sn, ex = s.do(5)
                snaps.append(sn)
                extras.append(ex)
                ncont += 1
        runs.append({'start': start, 'snaps': snaps, 'extras': extras, 'ncont': ncont,
                     'final': s.final_state(), 'exc': getattr(s, 'exc', None)})
    return {'module': module_desc(module), 'dbginfo': dbginfo_desc(module), 'runs': runs}


def free(case):
    """free run of the program (no debugger): events, outcome, pc after every
    tick, and the statement trace: (tick, pc, statement index) each time
    debug_info.find_stmt(pc) becomes a different statement (None ignored)."""
    bc = compiled(case['src'], case.get('level', 0))
    del machfn._registry[:]
    module = QModule.parse(bc)
    sc = case.get('script') or {}
    p = MPeriph(Script(lines=list(sc.get('lines', [])),
                       rnd=[bits2f(b) for b in sc.get('rnd', [])],
                       timer=[bits2f(b) for b in sc.get('timer', [])],
                       inkey=list(sc.get('inkey', []))))
    m = QvmMachine(module, impl=p)
    cpu = m.cpu
    st = module.debug_info.stmts
    mx = case.get('max_ticks', 20000)
    pcs = []
    nev = []
    trace = []
    cur = None
    n = 0
    status = 0

    def look():
        r = module.debug_info.find_stmt(cpu.pc, cpu)
        return r
    try:
        while n < mx and not cpu.halted and cpu.pc < len(module.code):
            r = look()
            if r is not None and r is not cur:
                trace.append([n, cpu.pc, next(j for j in range(len(st)) if st[j] is r)])
                cur = r
            cpu.tick()
            n += 1
            pcs.append(cpu.pc)
            nev.append(len(p.events))
        if n >= mx:
            status = 3
    except InputExhausted:
        status = 2
    except BaseException as e:  # noqa
        status = [1, CRASH.get(type(e).__name__, 98)]
    lines = [[r.source_start_line, r.source_start_col, r.start_offset, r.end_offset] for r in st]
    return {'status': status, 'n': n, 'pcs': pcs, 'nev': nev, 'trace': trace, 'nevents': len(p.events),
            'final': state_out(cpu, p, cpu.devices['data']),
            'outcome': [cpu.halt_reason.value, cpu.last_trap.value if cpu.last_trap is not None else 0,
                        1 if cpu.halted else 0],
            'records': lines, 'module': module_desc(module), 'dbginfo': dbginfo_desc(module),
            'nlines': len(src_lines(case['src']))}


def src_lines(src):
    return src.split('\n')
