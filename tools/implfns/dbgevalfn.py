"""T-dbg for C13: the real qvm.dbg.Cmd ('print <expr>') over a real QvmMachine
running a program compiled with debug info.  The program itself PRINTs every
probe expression on its own source line; the debugger is stopped at that line
(break + continue), evaluates the probes BEFORE the program's PRINT runs, the
complete machine state is compared before/after every 'print', and the typed
cell the program then hands to `io terminal, print` is the reference value.

Instrumentation is in-process only (never on repository files): a counting
wrapper around the terminal device's _exec_print (to see the typed cell), and a
proxy for the name `grammar` in qvm.dbg that records the tree do_print parsed
(so that the model is given exactly the tree the debugger evaluated)."""
import contextlib
import io

from implfns.common import *
from implfns import machfn
from implfns.machfn import MPeriph, state_out
import qvm.dbg as qdbg
from qvm.dbg import Cmd
from qbee import expr as qexpr

_cache = {}


def compiled(src, level):
    k = (src, level)
    if k not in _cache:
        _cache[k] = bytes(compile_src(src, level, True))
    return _cache[k]


# ---- the debug section as the debugger uses it (Models/DbgEvalEntry.v encoding)

def ty_desc(t):
    if t.is_array:
        if not t.is_static_array:
            return [4, ty_desc(t.array_base_type)]
        return [3, [[d.static_lbound, d.static_ubound] for d in t.array_dims],
                ty_desc(t.array_base_type)]
    if t.is_user_defined:
        return [2, t.user_type_name]
    return [1, t.type_id]


def pyval_desc(v):
    if isinstance(v, bool):
        return None
    if isinstance(v, int):
        return [1, v]
    if isinstance(v, float):
        return [2, fbits(v)]
    if isinstance(v, str):
        return [3, v]
    return None


def cval(f):
    try:
        v = pyval_desc(f())
    except Exception:  # noqa
        v = None
    return [] if v is None else [v]


def routine_desc(r, a, b):
    return [a, b,
            [[n, ty_desc(t)] for n, t in r.params.items()],
            [[n, ty_desc(t)] for n, t in r.local_vars.items()],
            [[n, cval(c.eval)] for n, c in r.local_consts.items()]]


def di_desc(module):
    d = module.debug_info
    types = [[n, [[fn, ty_desc(ft)] for fn, ft in tb.fields.items()]]
             for n, tb in d.user_types.items()]
    types.reverse()           # Layout.renv: latest definition first
    return [types,
            [[n, ty_desc(t)] for n, t in d.global_vars.items()],
            [[n, cval(lambda tv=tv: tv[1])] for n, tv in d.global_consts.items()],
            routine_desc(d.main_routine, 0, 0),
            [routine_desc(rec.node.routine, rec.start_offset, rec.end_offset)
             for rec in d.routines.values()]]


def tree_desc(t):
    """the parsed expression tree -> expr of DbgEvalEntry.v; None = a node the model does not have"""
    if isinstance(t, qexpr.NumericLiteral):
        v = pyval_desc(t.value)
        return None if v is None else [1, t.type.type_id, v]
    if isinstance(t, qexpr.StringLiteral):
        return [2, t.value]
    if isinstance(t, qexpr.Lvalue):
        idx = [tree_desc(i) for i in t.array_indices]
        if any(i is None for i in idx):
            return None
        return [3, t.base_var, idx, list(t.dotted_vars)]
    if isinstance(t, qexpr.BinaryOp):
        l, r = tree_desc(t.left), tree_desc(t.right)
        return None if l is None or r is None else [4, t.op.value, l, r]
    if isinstance(t, qexpr.UnaryOp):
        a = tree_desc(t.arg)
        return None if a is None else [5, t.op.value, a]
    if isinstance(t, qexpr.ParenthesizedExpr):
        a = tree_desc(t.child)
        return None if a is None else [6, a]
    return None


class _ExprProxy:
    def __init__(self, real, log):
        self._real = real
        self._log = log

    def parse_string(self, *a, **k):
        r = self._real.parse_string(*a, **k)
        self._log.append(r[0])
        return r


class _GrammarProxy:
    """stands for the module qbee.grammar inside qvm.dbg: only `expr` is wrapped"""

    def __init__(self, real, log):
        self._real = real
        self.expr = _ExprProxy(real.expr, log)

    def __getattr__(self, a):
        return getattr(self._real, a)


def text_value(text):
    """what the printed text denotes if it is a Python int / float repr"""
    t = text.strip()
    try:
        return ['i', int(t, 10)]
    except ValueError:
        pass
    try:
        if t and (t[0].isdigit() or t[0] in '-+.ni'):
            return ['f', fbits(float(t))]
    except ValueError:
        pass
    return None


class Session:
    def __init__(self, bc, max_ticks):
        del machfn._registry[:]
        self.module = QModule.parse(bc)
        self.p = MPeriph(Script())
        self.m = QvmMachine(self.module, impl=self.p)
        cpu = self.cpu = self.m.cpu
        self.n = 0
        self.max_ticks = max_ticks
        self.prints = []          # typed arguments of every terminal print executed
        orig_tick = cpu.tick

        def tick():
            if self.n >= self.max_ticks:
                raise TickLimit()
            self.n += 1
            orig_tick()
        cpu.tick = tick
        term = cpu.devices['terminal']
        orig_print = term._exec_print

        def exec_print():
            try:
                st = cpu.stack
                nargs = st[-1].value
                args = st[len(st) - 1 - nargs:len(st) - 1]
                vals = []
                i = 0
                while i < len(args):
                    code = args[i].value
                    if code == 0:
                        vals.append(cell_canon(args[i + 1]))
                        i += 2
                    elif code == 3:
                        i += 2
                    else:
                        i += 1
                self.prints.append(vals)
            except Exception:  # noqa
                self.prints.append(None)
            orig_print()
        term._exec_print = exec_print
        self.trees = []
        buf = io.StringIO()
        with contextlib.redirect_stdout(buf):
            self.cmd = Cmd(self.m, self.module)
        self.cmd.auto_status = 'off'

    def state(self):
        return state_out(self.cpu, self.p, self.cpu.devices['data'])

    def command(self, line):
        """-> (class, payload): ['text', s] | ['evalerr', msg] | ['parseerr', msg] | ['crash', exc, msg, where]"""
        buf = io.StringIO()
        real = qdbg.grammar
        del self.trees[:]
        qdbg.grammar = _GrammarProxy(real, self.trees)
        try:
            with contextlib.redirect_stdout(buf):
                self.cmd.onecmd(line)
        except TickLimit:
            raise
        except BaseException as e:  # noqa
            import traceback
            import os
            where = None
            repo = os.environ.get('QBEE_REPO', '/repo')
            for fr in reversed(traceback.extract_tb(e.__traceback__)):
                if fr.filename.startswith(repo + os.sep):
                    where = f'{os.path.relpath(fr.filename, repo)}:{fr.name}'
                    break
            return ['crash', type(e).__name__, str(e)[:100], where]
        finally:
            qdbg.grammar = real
        text = buf.getvalue()
        if text.endswith('\n'):
            text = text[:-1]
        if text.startswith('Eval error:'):
            return ['evalerr', text[len('Eval error:'):].strip()]
        if text.startswith('Error parsing expression:'):
            return ['parseerr', text[len('Error parsing expression:'):].strip()[:100]]
        return ['text', text, text_value(text)]

    def line(self):
        try:
            with contextlib.redirect_stdout(io.StringIO()):
                r = self.cmd.find_nonempty_stmt(self.cpu.pc)
        except BaseException:  # noqa
            return -1
        return r.source_start_line if r is not None else -1

    def depth(self):
        d, f = 0, self.cpu.cur_frame
        while f is not None and d < 1000:
            d += 1
            f = f.prev_frame
        return d


class TickLimit(Exception):
    pass


def probe_all(s, texts, want_state):
    """evaluate every text with the debugger; the machine state must be the same
    before and after each command"""
    before = s.state()
    out = []
    for t in texts:
        r = s.command('print ' + t)
        tree = tree_desc(s.trees[0]) if len(s.trees) == 1 else None
        after = s.state()
        same = after == before
        ent = {'text': t, 'out': r, 'ast': tree, 'same': same}
        if not same:
            ent['diff'] = [i for i, (a, b) in enumerate(zip(before, after)) if a != b]
            before = after
        out.append(ent)
    st = None
    if want_state:
        st = [before[2], before[3]]        # heap, current frame
    return out, st


def session(case):
    """{src, level, stops: {line: [text...]}, halted: [text...], max_ticks?, max_visits?}
    -> {di, visits: [{line, depth, cstart, probes, state, own}], end, halted: [...]}
    A visit = one stop of `continue` at a line that has probes; `own` = the typed
    values of the first PRINT executed after the probes (the line's own PRINT),
    or the trap that ended the program."""
    bc = compiled(case['src'], case.get('level', 0))
    s = Session(bc, case.get('max_ticks', 200000))
    cpu = s.cpu
    stops = {int(k): v for k, v in case['stops'].items()}
    res = {'di': di_desc(s.module), 'visits': [], 'notes': []}
    for ln in sorted(stops):
        r = s.command(f'break {ln}')
        if r[0] != 'text' or 'Setting a breakpoint at line %d ' % ln not in r[1] or 'Could not' in r[1]:
            res['notes'].append(['break', ln, r])
    max_visits = case.get('max_visits', 400)
    end = None
    pending = None         # the visit whose own PRINT has not run yet
    while len(res['visits']) < max_visits:
        nprints = len(s.prints)
        try:
            r = s.command('continue')
        except TickLimit:
            end = ['ticklimit']
            break
        if pending is not None:
            if len(s.prints) > nprints:
                pending['own'] = ['vals', s.prints[nprints]]
            elif cpu.halted and cpu.halt_reason == HaltReason.TRAP:
                pending['own'] = ['trap', cpu.last_trap.name if cpu.last_trap else None]
            else:
                pending['own'] = ['none']
            pending = None
        if r[0] == 'crash':
            end = ['continue-crashed', r]
            break
        if cpu.halted and cpu.halt_reason != HaltReason.BREAKPOINT:
            end = ['halt', cpu.halt_reason.name, cpu.last_trap.name if cpu.last_trap else None]
            break
        ln = s.line()
        if ln not in stops:
            res['notes'].append(['stop-at-unexpected-line', ln])
            continue
        probes, st = probe_all(s, stops[ln], True)
        v = {'line': ln, 'depth': s.depth(),
             'cstart': cpu.cur_frame.code_start if cpu.cur_frame is not None else -1,
             'probes': probes, 'state': st, 'own': ['pending']}
        res['visits'].append(v)
        pending = v
    res['end'] = end
    # after the program has finished
    hl = []
    if end is not None and end[0] == 'halt' and case.get('halted'):
        hl, st = probe_all(s, case['halted'], True)
        res['halted_state'] = st
    res['halted'] = hl
    res['events'] = len(s.p.events)
    return res
