"""C14: the real compiler on a text and on a respelling of it.  Sections 1-4
(literals, data, globals, code) are cut out of bytes(code); when they differ the
two modules are run on the real machine and device traces + outcome compared."""
import struct
from implfns.common import *
from qbee.utils import parse_data as real_parse_data, Empty


def cut_sections(b):
    """module bytes -> {id: bytes}; layout = QvmCode.__bytes__ / QModule.parse:
    section id byte, u32 big-endian length, payload"""
    out = {}
    i = 0
    while i < len(b):
        sid = b[i]
        n, = struct.unpack('>I', b[i + 1:i + 5])
        out[sid] = b[i + 5:i + 5 + n]
        i += 5 + n
    if i != len(b):
        raise ValueError('module bytes do not split into sections')
    return out


def verdict(src, level, debug=False):
    """-> ({'ok':..}, module bytes | None).  Exceptions that are not the
    compiler's own diagnostics are part of the verdict (kind 'internal')."""
    try:
        code = compile_src(src, level, debug)
        return {'ok': True}, bytes(code)
    except QSyntaxError as e:
        return {'ok': False, 'kind': 'syntax', 'msg': str(getattr(e, 'msg', ''))[:80]}, None
    except CompileError as e:
        return {'ok': False, 'kind': 'compile', 'code': e.code.name}, None
    except RecursionError:
        return {'ok': False, 'kind': 'internal', 'exc': 'RecursionError'}, None
    except Exception as e:  # noqa
        return {'ok': False, 'kind': 'internal', 'exc': type(e).__name__}, None


def vkey(v):
    if v['ok']:
        return 'ok'
    return v['kind'] + ':' + str(v.get('code') or v.get('exc') or '')


def trace(b, script, max_ticks):
    module = QModule.parse(b)
    sc = script or {}
    m, p = make_machine(module, Script(lines=list(sc.get('lines', [])),
                                       rnd=list(sc.get('rnd', [])),
                                       timer=list(sc.get('timer', [])),
                                       inkey=list(sc.get('inkey', []))))
    try:
        st, n = run_machine(m, max_ticks)
    except InputExhausted:
        st, n = 'input-exhausted', -1
    except Exception as e:  # noqa
        st, n = 'exc:' + type(e).__name__, -1
    return {'events': p.events, 'outcome': outcome(m.cpu), 'status': st,
            'stack': len(m.cpu.stack)}


def compare(case):
    """{a, b, levels, script?, max_ticks?, want_trace?, debug?}: compile both texts at
    each level (with debug info when debug is set: RESUME needs the statement map).  Result per level: verdict keys, names of differing sections,
    and - when sections differ (or want_trace) and both compiled - whether the
    traces agree."""
    out = []
    for level in case.get('levels', [0, 2]):
        va, ba = verdict(case['a'], level, bool(case.get('debug')))
        vb, bb = verdict(case['b'], level, bool(case.get('debug')))
        r = {'level': level, 'va': vkey(va), 'vb': vkey(vb), 'diff': [], 'trace_same': None}
        if va['ok'] and vb['ok']:
            sa, sb = cut_sections(ba), cut_sections(bb)
            r['diff'] = [k for k in (1, 2, 3, 4) if sa.get(k) != sb.get(k)]
            if r['diff'] or case.get('want_trace'):
                ta = trace(ba, case.get('script'), case.get('max_ticks', 20000))
                tb = trace(bb, case.get('script'), case.get('max_ticks', 20000))
                r['trace_same'] = (ta == tb)
                r['nevents'] = len(ta['events'])
                if ta != tb:
                    r['ta'] = {'events': ta['events'][:6], 'outcome': ta['outcome'], 'status': ta['status']}
                    r['tb'] = {'events': tb['events'][:6], 'outcome': tb['outcome'], 'status': tb['status']}
        out.append(r)
    return out


def accepts(case):
    """{src, level?} -> verdict key"""
    v, _ = verdict(case['src'], case.get('level', 0))
    return vkey(v)


def data_items(case):
    """{src: 'DATA ...' program, payload: verbatim payload text}: the data
    section the real compiler builds, and the real parse_data on the verbatim
    payload"""
    v, b = verdict(case['src'], 0)
    if not v['ok']:
        comp = {'err': vkey(v)}
    else:
        m = QModule.parse(b)
        comp = {'items': [[None if it == Empty.value else it for it in part] for part in m.data]}
    items = real_parse_data(case['payload'])
    if items is not None:
        items = [None if it == Empty.value else it for it in items]
    return {'compiled': comp, 'verbatim': items}


def observe(case):
    """{texts: [t0, t1, ...], levels, debug?, max_ticks?}: the texts are compiled and run ONE AFTER THE
    OTHER in this process, in the given order (so state the compiler keeps between compilations is
    exercised).  Per level, per text: verdict key, digest of sections 1-4, the printed text, the
    digest of the whole device trace, the outcome."""
    import hashlib
    out = []
    for level in case.get('levels', [0, 2]):
        row = []
        for t in case['texts']:
            v, b = verdict(t, level, bool(case.get('debug')))
            r = {'v': vkey(v)}
            if v['ok']:
                s = cut_sections(b)
                r['sec'] = [hashlib.sha1(s.get(k, b'')).hexdigest()[:16] for k in (1, 2, 3, 4)]
                tr = trace(b, None, case.get('max_ticks', 20000))
                r['out'] = ''.join(''.join(map(chr, e[1])) for e in tr['events'] if e[0] == 'terminal_print')
                r['trace'] = hashlib.sha1(repr(tr).encode()).hexdigest()[:16]
                r['outcome'] = tr['outcome']
                r['status'] = tr['status']
            row.append(r)
        out.append({'level': level, 'texts': row})
    return out
