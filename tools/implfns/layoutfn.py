"""C04: the real qvm/memlayout.py functions on declaration shapes compiled
from source, the real Array constructor, multi-tick runs on constructed
machine states, and sentinel programs on the real machine."""
from implfns.common import *
from qvm import memlayout
from qvm.cpu import Array


def ty_desc(t):
    """qbee.expr.Type -> abstract type of Models/Layout.v"""
    if t.is_array:
        if not t.is_static_array:
            return [4, ty_desc(t.array_base_type)]
        base = t.array_base_type
        return [3, [[d.static_lbound, d.static_ubound] for d in t.array_dims], ty_desc(base)]
    if t.is_user_defined:
        return [2, t.user_type_name]
    return [1, t.type_id]


def _try(f):
    """value | {'exc': name} for the exceptions memlayout raises by design"""
    try:
        return [0, f()]
    except (KeyError, ValueError) as e:
        return [1, type(e).__name__]


def layout_report(case):
    """case: {src, queries?: [[routine, var, path]], level?, debug?}
    Everything memlayout says about the compiled declarations."""
    code = compile_src(case['src'], case.get('level', 0), case.get('debug', False))
    comp = code.compilation
    out = {}
    out['types'] = [[n, [[fn, ty_desc(ft)] for fn, ft in tb.fields.items()]]
                    for n, tb in comp.user_types.items()]
    globs = list(code._globals.items())
    out['globals'] = [[n, ty_desc(t), _try(lambda n=n: memlayout.get_global_var_idx(comp, n)),
                       _try(lambda t=t: memlayout.get_type_size(comp, t))] for n, t in globs]
    routines = []
    for rname, r in code._routines.items():
        ent = {'name': rname, 'kind': r.kind}
        ent['params'] = [[n, ty_desc(t), _try(lambda n=n: memlayout.get_local_var_idx(r, n)),
                          _try(lambda t=t: memlayout.get_type_size(comp, t))]
                         for n, t in r.params.items()]
        ent['locals'] = [[n, ty_desc(t), _try(lambda n=n: memlayout.get_local_var_idx(r, n)),
                          _try(lambda t=t: memlayout.get_type_size(comp, t))]
                         for n, t in r.local_vars.items()]
        ent['statics'] = [[n, ty_desc(t), r.get_variable(n).full_name] for n, t in r.static_vars.items()]
        ent['psize'] = _try(lambda: memlayout.get_params_size(r))
        ent['lsize'] = _try(lambda: memlayout.get_local_vars_size(r))
        routines.append(ent)
    out['routines'] = routines
    # the operands the assembler wrote into every `frame`
    frames = []
    cur = None
    for ins in code._instrs:
        op, *args = ins.final
        if op == '_label' and (args[0].startswith('_sub_') or args[0].startswith('_func_')):
            cur = args[0].split('_', 2)[2]
        if op == 'frame':
            frames.append([cur, args[0], args[1]])
    out['frames'] = frames
    module = QModule.parse(bytes(code))
    out['nglobals'] = module.n_global_cells
    # dotted indices
    dotted = []
    for q in case.get('queries', []):
        rname, var, path = q
        r = code._routines.get(rname)
        if r is None:
            dotted.append([1, 'noroutine'])
            continue
        v = r.get_variable(var)
        dotted.append(_try(lambda: memlayout.get_dotted_index(v.type, path, comp)))
    out['dotted'] = dotted
    out['varq'] = [_try(lambda q=q: memlayout.get_local_var_idx(code._routines[q[0]], q[1]))
                   for q in case.get('var_queries', [])]
    out['gvarq'] = [_try(lambda q=q: memlayout.get_global_var_idx(comp, q))
                    for q in case.get('gvar_queries', [])]
    return out


def array_init(case):
    """{es, bounds} -> the real Array segment: total cells, header cells"""
    a = Array(case['es'], [tuple(b) for b in case['bounds']])
    n = 3 + 2 * len(case['bounds'])
    return {'size': a.size, 'ncells': len(a.cells),
            'header': [cell_canon(c) for c in a.cells[:n]],
            'rest_unset': all(c is None for c in a.cells[n:])}


def assemble(case):
    """[[op, operand...]] -> code bytes with the real instruction table (numeric operands only)"""
    from qvm.instrs import op_to_instr
    out = []
    for op, *args in case:
        ins = op_to_instr[op]
        b = bytes([ins.op_code])
        for cls, a in zip(ins.operands, args):
            b += bytes(cls(None, None, None)._encode(a))
        assert len(args) == len(ins.operands)
        out += list(b)
    return out


def ticks_case(case):
    """{module, state, n}: n ticks of the real cpu from a constructed state
    (machfn encoding); stops early on a halt or a host exception"""
    from implfns import machfn
    m, p = machfn.build_state(case['module'], case['state'])
    cpu = m.cpu
    dd = cpu.devices['data']
    for s in machfn._registry:
        # build_state creates Array segments without running Array.__init__;
        # deref* formats the reference for its log line and Array.__repr__ reads .bounds
        if isinstance(s, Array) and not hasattr(s, 'bounds'):
            s.bounds = []
            s.element_size = 1
    k = 0
    try:
        while k < case['n'] and not cpu.halted and cpu.pc < len(cpu.module.code):
            cpu.tick()
            k += 1
    except machfn.InputExhausted:
        return [2, k, machfn.state_out(cpu, p, dd)]
    except BaseException as e:  # noqa
        return [1, k, machfn.CRASH.get(type(e).__name__, 98), machfn.state_out(cpu, p, dd),
                type(e).__name__, str(e)[:100]]
    return [0, k, machfn.state_out(cpu, p, dd)]


def run_sentinel(case):
    """{src, level, debug, max_ticks}: compile with the real compiler, run on the
    real machine; the printed text, the way it stopped, and whether the operand
    stack is empty at the end"""
    code = compile_src(case['src'], case.get('level', 0), case.get('debug', False))
    module = QModule.parse(bytes(code))
    m, p = make_machine(module, Script())
    cpu = m.cpu
    n = 0
    mx = case.get('max_ticks', 400000)
    exc = None
    try:
        while not cpu.halted and cpu.pc < len(module.code) and n < mx:
            cpu.tick()
            n += 1
    except BaseException as e:  # noqa
        import traceback
        tb = traceback.extract_tb(e.__traceback__)
        exc = [type(e).__name__, tb[-1].name, str(e)[:120]]
    text = ''.join(''.join(chr(c) for c in e[1]) for e in p.events if e[0] == 'terminal_print')
    return {'text': text, 'outcome': outcome(cpu), 'ticks': n, 'exc': exc,
            'limit': n >= mx, 'stack': len(cpu.stack)}


def run_sentinel_configs(case):
    """{src, configs: [[level, debug]], max_ticks}: one result per configuration"""
    out = []
    for level, debug in case['configs']:
        try:
            out.append(run_sentinel({'src': case['src'], 'level': level, 'debug': debug,
                                     'max_ticks': case.get('max_ticks', 400000)}))
        except BaseException as e:  # noqa: compile-time failures are results too
            import traceback
            tb = traceback.extract_tb(e.__traceback__)
            out.append({'compile_exc': [type(e).__name__, tb[-1].name, str(e)[:160]]})
    return out


# ---- T-fn without the parser: the real memlayout functions on symbol tables
# built directly from an abstract shape (fast; the compiled route above ties
# the front end on a sub-sample)

def _mk_type(d):
    from qbee.expr import Type, NumericLiteral
    from qbee.stmt import ArrayDimRange
    if d[0] == 1:
        return [Type.INTEGER, Type.LONG, Type.SINGLE, Type.DOUBLE, Type.STRING][d[1] - 1]
    if d[0] == 2:
        return Type.from_name(d[1])
    base = _mk_type(d[-1])
    if d[0] == 3:
        dims = [ArrayDimRange(NumericLiteral(lb, Type.INTEGER), NumericLiteral(ub, Type.INTEGER))
                for lb, ub in d[1]]
        return base.modified(is_array=True, array_dims=dims, is_nodim_array=False)
    return base.modified(is_array=True, array_dims=[], is_nodim_array=True)


def layout_direct(case):
    """case: {recs: [[name, [[field, ty]]]] (definition order), shared: [[name, ty]],
    routines: [[name, params, locals, statics]], queries, var_queries, gvar_queries}"""
    from qbee.compiler import CompilationUnit
    from qbee.evalctx import Routine
    from qbee.expr import Type
    from qbee.stmt import TypeBlock, VarDeclClause
    comp = CompilationUnit()
    for n, fs in case['recs']:
        decls = []
        for fn, ft in fs:
            assert ft[0] in (1, 2)
            nm = Type.builtin_types[ft[1] - 1].name if ft[0] == 1 else ft[1]
            decls.append(VarDeclClause(fn, nm))
        comp.user_types[n] = TypeBlock(n, decls)
    for n, t in case['shared']:
        comp.global_vars[n] = _mk_type(t)
    rts = {}
    for rn, ps, ls, st in case['routines']:
        if rn == '_main':
            r = comp.main_routine
        else:
            r = Routine(rn, 'sub', comp, [(n, _mk_type(t)) for n, t in ps])
            comp.routines[rn] = r
        for n, t in ls:
            r.local_vars[n] = _mk_type(t)
        for n, t in st:
            r.static_vars[n] = _mk_type(t)
        rts[rn] = r
    # QvmCodeGen.init_code
    for r in comp.routines.values():
        comp.global_vars.update({r.get_variable(sv).full_name: stype
                                 for sv, stype in r.static_vars.items()})
    out = {}
    out['types'] = [[n, [[fn, ty_desc(ft)] for fn, ft in tb.fields.items()]]
                    for n, tb in comp.user_types.items()]
    out['globals'] = [[n, ty_desc(t), _try(lambda n=n: memlayout.get_global_var_idx(comp, n)),
                       _try(lambda t=t: memlayout.get_type_size(comp, t))]
                      for n, t in comp.global_vars.items()]
    routines = []
    for rname, r in comp.routines.items():
        ent = {'name': rname, 'kind': r.kind}
        ent['params'] = [[n, ty_desc(t), _try(lambda n=n: memlayout.get_local_var_idx(r, n)),
                          _try(lambda t=t: memlayout.get_type_size(comp, t))]
                         for n, t in r.params.items()]
        ent['locals'] = [[n, ty_desc(t), _try(lambda n=n: memlayout.get_local_var_idx(r, n)),
                          _try(lambda t=t: memlayout.get_type_size(comp, t))]
                         for n, t in r.local_vars.items()]
        ent['statics'] = [[n, ty_desc(t), r.get_variable(n).full_name]
                          for n, t in r.static_vars.items()]
        ent['psize'] = _try(lambda: memlayout.get_params_size(r))
        ent['lsize'] = _try(lambda: memlayout.get_local_vars_size(r))
        routines.append(ent)
    out['routines'] = routines
    out['frames'] = None
    out['nglobals'] = sum(memlayout.get_type_size(comp, t) for t in comp.global_vars.values())
    dotted = []
    for rname, var, path in case.get('queries', []):
        v = rts[rname].get_variable(var)
        dotted.append(_try(lambda: memlayout.get_dotted_index(v.type, path, comp)))
    out['dotted'] = dotted
    out['varq'] = [_try(lambda q=q: memlayout.get_local_var_idx(rts[q[0]], q[1]))
                   for q in case.get('var_queries', [])]
    out['gvarq'] = [_try(lambda q=q: memlayout.get_global_var_idx(comp, q))
                    for q in case.get('gvar_queries', [])]
    return out
