"""C04: the real qvm/memlayout.py functions on declaration shapes compiled
from source, the real Array constructor, multi-tick runs on constructed
machine states, and sentinel programs on the real machine."""
from implfns.common import *
from qvm import memlayout
from qvm.cpu import Array


def ty_desc(t):
    """qbee.expr.Type -> abstract type of Models/Layout.v"""
    if t.is_array:
        if not t.is_static_array:
            return [4, ty_desc(t.array_base_type)]
        base = t.array_base_type
        return [3, [[d.static_lbound, d.static_ubound] for d in t.array_dims], ty_desc(base)]
    if t.is_user_defined:
        return [2, t.user_type_name]
    return [1, t.type_id]


def _try(f):
    """value | {'exc': name} for the exceptions memlayout raises by design"""
    try:
        return [0, f()]
    except (KeyError, ValueError) as e:
        return [1, type(e).__name__]


def layout_report(case):
    """case: {src, queries?: [[routine, var, path]], level?, debug?}
    Everything memlayout says about the compiled declarations."""
    code = compile_src(case['src'], case.get('level', 0), case.get('debug', False))
    comp = code.compilation
    out = {}
    out['types'] = [[n, [[fn, ty_desc(ft)] for fn, ft in tb.fields.items()]]
                    for n, tb in comp.user_types.items()]
    globs = list(code._globals.items())
    out['globals'] = [[n, ty_desc(t), _try(lambda n=n: memlayout.get_global_var_idx(comp, n)),
                       _try(lambda t=t: memlayout.get_type_size(comp, t))] for n, t in globs]
    routines = []
    for rname, r in code._routines.items():
        ent = {'name': rname, 'kind': r.kind}
        ent['params'] = [[n, ty_desc(t), _try(lambda n=n: memlayout.get_local_var_idx(r, n)),
                          _try(lambda t=t: memlayout.get_type_size(comp, t))]
                         for n, t in r.params.items()]
        ent['locals'] = [[n, ty_desc(t), _try(lambda n=n: memlayout.get_local_var_idx(r, n)),
                          _try(lambda t=t: memlayout.get_type_size(comp, t))]
                         for n, t in r.local_vars.items()]
        ent['statics'] = [[n, ty_desc(t), r.get_variable(n).full_name] for n, t in r.static_vars.items()]
        ent['psize'] = _try(lambda: memlayout.get_params_size(r))
        ent['lsize'] = _try(lambda: memlayout.get_local_vars_size(r))
        routines.append(ent)
    out['routines'] = routines
    # the operands the assembler wrote into every `frame`
    frames = []
    cur = None
    for ins in code._instrs:
        op, *args = ins.final
        if op == '_label' and (args[0].startswith('_sub_') or args[0].startswith('_func_')):
            cur = args[0].split('_', 2)[2]
        if op == 'frame':
            frames.append([cur, args[0], args[1]])
    out['frames'] = frames
    module = QModule.parse(bytes(code))
    out['nglobals'] = module.n_global_cells
    # dotted indices
    dotted = []
    for q in case.get('queries', []):
        rname, var, path = q
        r = code._routines.get(rname)
        if r is None:
            dotted.append([1, 'noroutine'])
            continue
        v = r.get_variable(var)
        dotted.append(_try(lambda: memlayout.get_dotted_index(v.type, path, comp)))
    out['dotted'] = dotted
    out['varq'] = [_try(lambda q=q: memlayout.get_local_var_idx(code._routines[q[0]], q[1]))
                   for q in case.get('var_queries', [])]
    out['gvarq'] = [_try(lambda q=q: memlayout.get_global_var_idx(comp, q))
                    for q in case.get('gvar_queries', [])]
    return out


def array_init(case):
    """{es, bounds} -> the real Array segment: total cells, header cells"""
    a = Array(case['es'], [tuple(b) for b in case['bounds']])
    n = 3 + 2 * len(case['bounds'])
    return {'size': a.size, 'ncells': len(a.cells),
            'header': [cell_canon(c) for c in a.cells[:n]],
            'rest_unset': all(c is None for c in a.cells[n:])}


def ticks_case(case):
    """{module, state, n}: n ticks of the real cpu from a constructed state
    (machfn encoding); stops early on a halt or a host exception"""
    from implfns import machfn
    m, p = machfn.build_state(case['module'], case['state'])
    cpu = m.cpu
    dd = cpu.devices['data']
    k = 0
    try:
        while k < case['n'] and not cpu.halted and cpu.pc < len(cpu.module.code):
            cpu.tick()
            k += 1
    except machfn.InputExhausted:
        return [2, k, machfn.state_out(cpu, p, dd)]
    except BaseException as e:  # noqa
        return [1, k, machfn.CRASH.get(type(e).__name__, 98), machfn.state_out(cpu, p, dd),
                type(e).__name__, str(e)[:100]]
    return [0, k, machfn.state_out(cpu, p, dd)]


def run_sentinel(case):
    """{src, level, debug, max_ticks}: compile with the real compiler, run on the
    real machine; the printed text, the way it stopped, and whether the operand
    stack is empty at the end"""
    code = compile_src(case['src'], case.get('level', 0), case.get('debug', False))
    module = QModule.parse(bytes(code))
    m, p = make_machine(module, Script())
    cpu = m.cpu
    n = 0
    mx = case.get('max_ticks', 400000)
    exc = None
    try:
        while not cpu.halted and cpu.pc < len(module.code) and n < mx:
            cpu.tick()
            n += 1
    except BaseException as e:  # noqa
        import traceback
        tb = traceback.extract_tb(e.__traceback__)
        exc = [type(e).__name__, tb[-1].name, str(e)[:120]]
    text = ''.join(''.join(chr(c) for c in e[1]) for e in p.events if e[0] == 'terminal_print')
    return {'text': text, 'outcome': outcome(cpu), 'ticks': n, 'exc': exc,
            'limit': n >= mx, 'stack': len(cpu.stack)}
