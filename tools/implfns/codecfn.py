"""C09: everything the real code says about one module: bytes(code), QModule.parse,
disassemble(), str(code), the assembly items (QvmInstr.final) with the variable
indices the real memlayout gives them, the machine's own instruction decoder
walked over the code section, the routines' storage, and the values the compiler
handed to the writer."""
import struct
from collections import defaultdict

from implfns.common import *
from qbee.qvm_codegen import QvmCode, QvmInstr
from qbee.utils import Empty
from qvm.memlayout import (get_type_size, get_local_var_idx, get_global_var_idx,
                           get_params_size, get_local_vars_size)
from qvm.instrs import op_code_to_instr

CODE_MARK = ';;;;;;;;;;;;;;;;;;;;;;;;;;;;;;\n.code\n\n'
SEP = '\n;;;;;;;;;;;;;;;;;;;;;;;;;;;;;;\n'


def _arg(a):
    if isinstance(a, bool):
        return [0, int(a)]
    if isinstance(a, int):
        return [0, a]
    if isinstance(a, float):
        return [1, fbits(a)]
    if isinstance(a, str):
        return [2, a]
    return [9, type(a).__name__]


def items_of(code):
    """assembly items in the model's job format; variable operands carry the
    index the real memlayout functions give them (the resolution QvmCode.assembled does)"""
    out = []
    cur = code._main_routine
    for instr in code._instrs:
        op, *args = instr.final
        if op == '_label':
            name = args[0]
            out.append([0, name])
            if name.startswith('_sub_'):
                cur = code._routines[name[len('_sub_'):]]
            elif name.startswith('_func_'):
                cur = code._routines[name[len('_func_'):]]
            continue
        if op.startswith('_dbg_') or op == '_empty_block':
            out.append([1])
            continue
        conv = [_arg(a) for a in args]

        def lvar(v):
            return [3, v, get_local_var_idx(cur, v)]

        def gvar(v):
            full = cur.get_variable(v).full_name
            return [3, v, get_global_var_idx(code.compilation, full)]
        if op == 'initarrl' or op[:-1] == 'readl' or op == 'storel' or op == 'pushrefl' \
                or op[:-1] == 'readidxl' or op == 'storeidxl':
            if args and isinstance(args[0], str):
                conv[0] = lvar(args[0])
        elif op == 'initarrg' or op[:-1] == 'readg' or op == 'storeg' or op == 'pushrefg' \
                or op[:-1] == 'readidxg' or op == 'storeidxg':
            if args and isinstance(args[0], str):
                conv[0] = gvar(args[0])
        out.append([2, op, conv])
    return out


def type_kind(t):
    if t.is_array:
        return 'array'
    if t.is_user_defined:
        return 'record'
    return 'scalar'


def routines_of(code):
    out = []
    for name, r in code._routines.items():
        ctx = r.context
        if code._main_routine is not None and r is code._main_routine:
            label = '_sub_' + name
        elif r.kind == 'function':
            label = '_func_' + name
        else:
            label = '_sub_' + name
        out.append({
            'name': name, 'label': label, 'kind': r.kind,
            'param_sizes': [get_type_size(ctx, t) for t in r.params.values()],
            'param_kinds': [type_kind(t) for t in r.params.values()],
            'local_sizes': [get_type_size(ctx, t) for t in r.local_vars.values()],
            'params_size': get_params_size(r),
            'locals_size': get_local_vars_size(r),
        })
    return out


def data_out(parts):
    return [[[0] if it == Empty.value else [1, it] for it in part] for part in parts]


def cpu_walk(module):
    """the machine's instruction decoder (QvmCpu.get_instruction_at) over the whole code"""
    m, _ = make_machine(module)
    cpu = m.cpu
    out = []
    addr = 0
    n = len(module.code)
    while addr < n:
        instr, operands, size = cpu.get_instruction_at(addr)
        if instr is None:
            out.append([addr, None, [], size])
            break
        ops = []
        for o in operands:
            if isinstance(o, float):
                ops.append([1, fbits(o)])
            elif isinstance(o, str):
                ops.append([2, o])
            else:
                ops.append([0, o])
        out.append([addr, instr.op, ops, size])
        addr += size
    return out


def split_sections(bc):
    """section framing as written: [(id, body)]; only used to cut the debug section off"""
    out = []
    idx = 0
    while idx < len(bc):
        sid = bc[idx]
        ln, = struct.unpack('>I', bc[idx + 1:idx + 5])
        out.append((sid, idx, idx + 5 + ln))
        idx += 5 + ln
    return out


def analyse(code, want_cpu=True, big=False):
    res = {}
    emitted_data = list(code._data.values())
    listing = str(code)
    res['listing_ok'] = True
    k = listing.rfind(CODE_MARK)
    res['listing_code'] = listing[k + len(CODE_MARK):] if k >= 0 else None
    # the .data part of the listing
    dk = listing.find('.data\n\n')
    if code._data and dk >= 0:
        end = listing.find(SEP, dk)
        res['listing_data'] = listing[dk + len('.data\n\n'):end]
    else:
        res['listing_data'] = None
    res['data_labels'] = [str(k_) for k_ in code._data.keys()]
    res['items'] = items_of(code)
    res['routines'] = routines_of(code)
    try:
        bc = bytes(code)
    except BaseException as e:  # noqa: the writer's failure is the observation
        res['bytes_exc'] = [type(e).__name__, str(e)[:200]]
        res['emitted'] = {'literals': list(code._string_literals), 'data': data_out(emitted_data)}
        return res
    secs = split_sections(bc)
    cut = len(bc)
    for sid, a, b in secs:
        if sid == 5:
            cut = a
    res['bytes14'] = list(bc[:cut])
    res['has_debug_section'] = cut != len(bc)
    res['section_ids'] = [s for s, _, _ in secs]
    code_bytes, _ = code.assembled
    ng = sum(get_type_size(code.compilation, t) for _, t in code._globals.items())
    res['emitted'] = {'literals': list(code._string_literals), 'data': data_out(emitted_data),
                      'nglobals': ng, 'code': list(code_bytes)}
    try:
        module = QModule.parse(bc)
    except BaseException as e:  # noqa: the loader refusing a compiler-made module is the observation
        res['parse_exc'] = [type(e).__name__, str(e)[:200]]
        return res
    res['parse'] = {'literals': list(module.literals), 'data': data_out(module.data),
                    'nglobals': module.n_global_cells, 'code': list(module.code)}
    try:
        res['disasm'] = module.disassemble()
    except BaseException as e:  # noqa
        res['disasm_exc'] = [type(e).__name__, str(e)[:200]]
    if want_cpu:
        try:
            res['cpu'] = cpu_walk(module)
        except BaseException as e:  # noqa
            res['cpu_exc'] = [type(e).__name__, str(e)[:200]]
    return res


def compiled(case):
    """{src, level, debug}"""
    code = compile_src(case['src'], case.get('level', 0), case.get('debug', False))
    return analyse(code)


# ---------------------------------------------------------------- synthetic

def _text(spec):
    k = spec[0]
    if k == 'cps':
        return ''.join(chr(c) for c in spec[1])
    if k == 'rep':
        return ''.join(chr(c) for c in spec[2]) * spec[1]
    if k == 'bytes437':                       # the cp437 characters of a byte range
        return bytes(range(spec[1], spec[2])).decode('cp437')
    raise ValueError(k)


def _literals(specs):
    out = []
    for s in specs:
        if s[0] == 'range':
            out += [f'L{i}' for i in range(s[1], s[2])]
        else:
            out.append(_text(s))
    return out


def _part(specs):
    out = []
    for s in specs:
        if s[0] == 'empty':
            out += [Empty.value] * s[1]
        elif s[0] == 'items':
            out += [f'{i}' for i in range(s[1])]
        else:
            out.append(_text(s))
    return out


_base = None


def base_code():
    """a QvmCode produced by the real compiler for an empty program; synthetic
    modules replace its instruction list, literals and data"""
    return compile_src('', 0, False)


def synth(case):
    """{literals: [...], data: [[...]...], instrs: [[op, args...]...], want_cpu}
    built through the real QvmCode / QvmInstr classes"""
    code = base_code()
    code._string_literals = _literals(case.get('literals', []))
    code._data = defaultdict(list)
    for i, p in enumerate(case.get('data', [])):
        code._data[f'_part{i}'] = _part(p)
    if 'instrs' in case:
        instrs = []
        for t in case['instrs']:
            args = []
            for a in t[1:]:
                if isinstance(a, list) and a and a[0] == 'f':
                    args.append(bits2f(a[1]))
                elif isinstance(a, list) and a and a[0] == 'lit':
                    args.append('"' + _text(a[1]) + '"')
                else:
                    args.append(a)
            instrs.append(QvmInstr(t[0], *args))
        code._instrs = instrs
    return analyse(code, want_cpu=case.get('want_cpu', True))


def parse_bytes(case):
    """real loader on raw bytes (malformed stream): {'bytes': [...]}"""
    bc = bytes(case['bytes'])
    module = QModule.parse(bc)
    return {'literals': list(module.literals), 'data': data_out(module.data),
            'nglobals': module.n_global_cells, 'code': list(module.code),
            'debug': module.debug_info is not None}


def disasm_bytes(case):
    """real disassembler on a hand-made module: {'literals': [...], 'code': [...]}"""
    m = QModule(case['literals'], 0, [], bytes(case['code']), None)
    return {'text': m.disassemble()}


def cpu_decode(case):
    """the machine's decoder on a hand-made module: {'literals': [...], 'code': [...]}"""
    m = QModule(case['literals'], 0, [], bytes(case['code']), None)
    return {'cpu': cpu_walk(m)}
