"""C06 - the compiler is total.  Runs the REAL Compiler.compile / bytes(code) /
str(code) on one text under a per-input time limit and classifies whatever
escapes.  Also: direct calls of the two grammar parse actions modelled in
coq/Models/Tokens.v and of qbee.utils.convert_index_to_line_col /
display_with_context (Models/Tokens.v position model)."""
import contextlib
import io
import linecache
import os
import re
import signal
import sys
import traceback

import qbee.qvm_codegen  # noqa: registers the code generator
from qbee.compiler import Compiler
from qbee.exceptions import SyntaxError as QSyntaxError, CompileError
from qbee import utils as qutils

REPO = os.environ.get('QBEE_REPO', '/repo')
CONFIGS = [(0, False), (0, True), (1, False), (1, True), (2, False), (2, True)]


class _Timeout(BaseException):
    pass


def _alarm(signum, frame):
    raise _Timeout()


def _slug(s, n=48):
    s = re.sub(r'[^A-Za-z0-9_$%&!#.]+', '-', s.strip()).strip('-')
    return s[:n]


def _msg_class(exc):
    """the part of the message that discriminates failure classes; names and
    numbers chosen by the input are abstracted"""
    m = str(exc)
    if isinstance(exc, KeyError):
        m = m.strip('\'"')
    # a node repr <ClassName ...nested...> keeps only its class name
    out, depth, i = [], 0, 0
    while i < len(m):
        ch = m[i]
        if ch == '<' and re.match(r'<[A-Z][A-Za-z]+', m[i:]):
            if depth == 0:
                out.append(re.match(r'<([A-Z][A-Za-z]+)', m[i:]).group(1))
            depth += 1
        elif ch == '>' and depth > 0:
            depth -= 1
        elif depth == 0:
            out.append(ch)
        i += 1
    m = ''.join(out)
    m = re.sub(r'USER_DEFINED\([^)]*\)', 'USER_DEFINED', m)   # the record type's name
    m = re.sub(r'\d+', 'N', m)
    if isinstance(exc, (AttributeError, TypeError)):
        # quoted words are class / attribute names of the implementation
        m = re.sub(r"'([A-Za-z_]+)'", r'\1', m)
    m = re.sub(r"'[^']*'", 'Q', m)
    m = re.sub(r'"[^"]*"', 'Q', m)
    return _slug(m, 48)


def compile_step(tb):
    """which step of Compiler.compile (or bytes / str) a traceback is in: the
    name of the function called directly from compile()"""
    for i, fr in enumerate(tb):
        if fr.filename == os.path.join(REPO, 'qbee', 'compiler.py') and fr.name == 'compile' \
                and i + 1 < len(tb):
            return tb[i + 1].name
    for fr in tb:
        if fr.filename.startswith(REPO + os.sep) and fr.name in ('__bytes__', '__str__'):
            return fr.name.strip('_')
    return 'unknown'


def exc_class(e):
    """(type name, 'file:function' of the innermost /repo frame, construct
    class = slug of the raising source line [+ ':' + message class], stage)"""
    tb = traceback.extract_tb(e.__traceback__)
    where, line = None, ''
    for frame, lineno in reversed(list(traceback.walk_tb(e.__traceback__))):
        fn = frame.f_code.co_filename
        if fn.startswith(REPO + os.sep):
            # qualified name: IfBlock.__init__ and SelectBlock.__init__ differ
            qn = getattr(frame.f_code, 'co_qualname', frame.f_code.co_name)
            qn = qn.replace('.<locals>', '')
            where = f'{os.path.relpath(fn, REPO)}:{qn}'
            line = (linecache.getline(fn, lineno) or '').strip()
            break
    # the steps before folding / code generation do not depend on the level
    # or the debug flag
    step = compile_step(tb)
    stage = 'post'
    if step == 'parse_string':
        stage = 'parse'
    elif step in ('bind', 'process_tree', '__init__'):
        stage = 'pass'
    cls = _slug(line)
    if isinstance(e, UnicodeError):
        mc = _slug(f'{getattr(e, "encoding", "")}-{getattr(e, "reason", "")}', 40)
    else:
        mc = _msg_class(e)
    if mc and not isinstance(e, AssertionError):
        cls = cls + ':' + mc
    return type(e).__name__, where, cls, stage


def _loc_ok(loc, text):
    return isinstance(loc, int) and not isinstance(loc, bool) and 0 <= loc <= len(text)


def _display(text, loc, msg):
    """what main.py does with a diagnostic; returns None or the exception class"""
    err = io.StringIO()
    try:
        with contextlib.redirect_stderr(err):
            qutils.display_with_context(text, loc_start=loc, msg=msg)
    except _Timeout:
        raise
    except BaseException as e:  # noqa
        t, w, c, _ = exc_class(e)
        return [t, w, c]
    return None


def one_config(src, level, debug):
    """-> dict(v=verdict, stage=...)
    verdict: ['ok', nbytes, nlisting] | ['syntax', loc, loc_ok, display] |
             ['compile', code, loc, loc_ok, display] |
             ['exc', type, where, class, phase, msg]"""
    phase = 'compile'
    try:
        c = Compiler('qvm', optimization_level=level, debug_info=debug)
        code = c.compile(src)
        phase = 'bytes'
        b = bytes(code)
        phase = 'str'
        s = str(code)
        return {'v': ['ok', len(b), len(s)], 'stage': 'post'}
    except _Timeout:
        raise
    except QSyntaxError as e:
        loc = getattr(e, 'loc_start', None)
        _, _, _, stage = exc_class(e)
        if phase != 'compile':
            t, w, cl, _ = exc_class(e)
            return {'v': ['exc', t, w, cl, phase, str(e)[:160]], 'stage': 'post'}
        ok = _loc_ok(loc, src)
        return {'v': ['syntax', loc if isinstance(loc, int) else repr(loc), ok,
                      _display(src, loc, str(e)) if ok else None, str(e)[:80]],
                'stage': stage}
    except CompileError as e:
        loc = getattr(e, 'loc_start', None)
        if phase != 'compile':
            t, w, cl, _ = exc_class(e)
            return {'v': ['exc', t, w, cl, phase, str(e)[:160]], 'stage': 'post'}
        ok = _loc_ok(loc, src)
        t, w, cl, stage = exc_class(e)
        return {'v': ['compile', e.code.name, loc if isinstance(loc, int) else repr(loc), ok,
                      _display(src, loc, str(e)) if ok else None, w],
                'stage': stage}
    except RecursionError as e:
        t, w, cl, stage = exc_class(e)
        return {'v': ['exc', 'RecursionError', w, 'recursion', phase, ''], 'stage': stage}
    except BaseException as e:  # noqa
        t, w, cl, stage = exc_class(e)
        return {'v': ['exc', t, w, cl, phase, str(e)[:160]], 'stage': stage}


_MEM_SET = [False]


def _limit_memory():
    """constant folding of a power tower can ask for unbounded memory: cap
    the address space of this worker process (MemoryError instead of
    exhausting the host)"""
    if not _MEM_SET[0]:
        import resource
        lim = 3 * 1024 ** 3
        try:
            resource.setrlimit(resource.RLIMIT_AS, (lim, lim))
        except (ValueError, OSError):
            pass
        _MEM_SET[0] = True


def check(case):
    """case: {'src': text, 'full': bool, 'tl': seconds per configuration,
    'warm': [texts compiled before (at -O0) in this process, outcome ignored]}
    -> {'res': [[level, debug, verdict], ...], 'parsed': bool}
    The text is compiled at (-O0, no -g) first; when the failure (if any) did
    not happen inside parse_string / tree.bind / Pass1-3 (steps that do not
    read the level or the debug flag) the other five configurations follow."""
    src = case['src']
    _limit_memory()
    # CPU seconds per configuration: a base plus an allowance per character
    tl = float(case.get('tl', 20)) + len(src) / 200.0
    out = []
    parsed = True
    front = 'ok'
    # CPU time of this process (user+sys), so that a loaded host cannot cause
    # a spurious timeout
    old = signal.signal(signal.SIGPROF, _alarm)
    try:
        for w in case.get('warm') or []:
            # an earlier compilation in the same process (module-level state
            # of the compiler must not leak into the next text)
            signal.setitimer(signal.ITIMER_PROF, tl, 1.0)
            try:
                one_config(w, 0, False)
            except _Timeout:
                pass
            finally:
                signal.setitimer(signal.ITIMER_PROF, 0)
        for i, (level, debug) in enumerate(CONFIGS):
            if i > 0 and (not parsed or not case.get('full', True)):
                break
            signal.setitimer(signal.ITIMER_PROF, tl, 1.0)
            try:
                r = one_config(src, level, debug)
            except _Timeout as e:
                step = compile_step(traceback.extract_tb(e.__traceback__))
                r = {'v': ['timeout', step, tl], 'stage': 'unknown'}
            finally:
                signal.setitimer(signal.ITIMER_PROF, 0)
            out.append([level, int(debug), r['v']])
            if i == 0 and r['stage'] in ('parse', 'pass'):
                parsed = False
                front = r['stage']
            if r['v'][0] == 'timeout':
                break
    finally:
        signal.signal(signal.SIGPROF, old)
    return {'res': out, 'parsed': parsed, 'front': front}


def timed(case):
    """CPU seconds of one compile at -O0 without -g (growth measurements for
    the timeout findings); 60 s cap"""
    import time
    _limit_memory()
    old = signal.signal(signal.SIGPROF, _alarm)
    t0 = time.process_time()
    signal.setitimer(signal.ITIMER_PROF, 60, 1.0)
    try:
        try:
            r = one_config(case['src'], case.get('level', 0), False)['v'][0]
        except _Timeout:
            r = 'timeout'
    finally:
        signal.setitimer(signal.ITIMER_PROF, 0)
        signal.signal(signal.SIGPROF, old)
    return [r, round(time.process_time() - t0, 2)]


# ---------------------------------------------------------------------------
# T-fn: the two arity-assuming parse actions on constructed token lists

def _tok_py(t):
    # token alphabet of the model: ['a', n] operand atom n ; ['o', k] operator k
    from qbee.expr import NumericLiteral, BinaryOp, Operator
    if t[0] == 'a':
        return NumericLiteral(t[1])
    if t[0] == 'b':
        return BinaryOp(NumericLiteral(7), NumericLiteral(8), Operator.ADD)
    return OPS[t[1]]


OPS = ['^', '+', '-', '*', '/', '\\', 'mod', 'and', 'or', 'xor', 'eqv', 'imp',
       '=', '<>', '<', '>', '<=', '>=', '><', '=<', '=>', 'not', '?']


def _tree(n):
    from qbee.expr import NumericLiteral, BinaryOp
    if isinstance(n, BinaryOp):
        return ['b', n.op.name, _tree(n.left), _tree(n.right)]
    if isinstance(n, NumericLiteral):
        return ['a', int(n.value)]
    if isinstance(n, str):
        return ['s', n]
    return ['other', type(n).__name__]


def assoc_action(case):
    """case: {'which': 'left'|'right', 'toks': [...]} -> ['tree', t] | ['crash', type]"""
    from qbee import grammar
    toks = [_tok_py(t) for t in case['toks']]
    fn = (grammar.parse_left_assoc_binary_expr if case['which'] == 'left'
          else grammar.parse_right_assoc_binary_expr)
    try:
        node = fn([0, toks, 1])
    except Exception as e:  # noqa
        return ['crash', type(e).__name__]
    return ['tree', _tree(node)]


def expr_shapes(case):
    """parse `case['src']` (one line) with a copy of the parse actions
    instrumented to record the token lists handed to the two actions"""
    from qbee import grammar
    rec = []

    def shape(toks):
        from qbee.expr import Expr
        out = []
        for t in toks:
            if isinstance(t, str):
                out.append(['o', str(t)])
            else:
                out.append(['a', str(type(t).__name__)])
        return out
    saved = {}
    for rule_name, which in (('exponent_expr', 'right'), ('muldiv_expr', 'left'),
                             ('intdiv_expr', 'left'), ('mod_expr', 'left'),
                             ('addsub_expr', 'left'), ('compare_expr', 'left'),
                             ('and_expr', 'left'), ('or_expr', 'left'), ('xor_expr', 'left'),
                             ('eqv_expr', 'left'), ('imp_expr', 'left')):
        rule = getattr(grammar, rule_name)
        target = rule
        saved[rule_name] = (target, list(target.parseAction))

        def mk(w, r):
            def spy(toks):
                rec.append([w, r, shape(toks[1])])
            return spy
        from pyparsing.core import _trim_arity
        target.parseAction.insert(0, _trim_arity(mk(which, rule_name)))
    try:
        try:
            grammar.line.parse_string(case['src'], parse_all=True)
            res = 'ok'
        except BaseException as e:  # noqa
            res = type(e).__name__
    finally:
        for rule_name, (target, acts) in saved.items():
            target.parseAction[:] = acts
    return {'res': res, 'calls': rec}


# ---------------------------------------------------------------------------
# T-fn: positions

def line_col(case):
    """case: {'text': str, 'off': int} -> [line, col] | ['none']"""
    l, c = qutils.convert_index_to_line_col(case['text'], case['off'])
    if l is None:
        return ['none']
    return [l, c]


def display(case):
    """case: {'text', 'loc'} -> ['ok', target_line, caret_col] | ['crash', type]"""
    err = io.StringIO()
    try:
        with contextlib.redirect_stderr(err):
            qutils.display_with_context(case['text'], loc_start=case['loc'], msg='M')
    except BaseException as e:  # noqa
        return ['crash', type(e).__name__]
    tl, col = None, None
    for ln in err.getvalue().split('\n'):
        m = re.match(r'^\s*(\d+) >> ', ln)
        if m:
            tl = int(m.group(1))
        m = re.match(r'^\s*:: ( *)\^$', ln)
        if m:
            col = len(m.group(1))
    return ['ok', tl, col]
