"""The real QvmCode / QvmInstr / optimize() / assembler on instruction lists
(T-fn of C02), windows executed on the real machine before and after the real
optimize() (property oracle of C02), and with/without-debug-info artefacts of
whole programs (C08)."""
import struct
from implfns.common import *
from implfns import machfn, peepobs
from implfns.machfn import MPeriph, state_out, CRASH
from qbee.qvm_codegen import QvmCode, QvmInstr
from qvm.instrs import op_to_instr


# ---------------------------------------------------------------- encoding

class Node:
    """stands in for the statement node carried by _dbg_info_start/_end"""

    def __init__(self, k):
        self.k = k

    def __repr__(self):
        return f'<node {self.k}>'


def dec_arg(a, nodes):
    if isinstance(a, list):
        if a[0] == 'f':
            return bits2f(a[1])
        if a[0] == 'node':
            return nodes.setdefault(a[1], Node(a[1]))
        raise ValueError(a)
    return a


def dec_instrs(l):
    nodes = {}
    return [tuple([i[0]] + [dec_arg(a, nodes) for a in i[1:]]) for i in l]


def enc_arg(a, nodeids):
    if isinstance(a, bool):
        return ['b', int(a)]
    if isinstance(a, int):
        return a
    if isinstance(a, float):
        return ['f', fbits(a)]
    if isinstance(a, str):
        return ['s', a]
    if isinstance(a, Node):
        return ['node', a.k]
    if isinstance(a, complex):
        return ['complex']
    if callable(a):
        return enc_arg(a(), nodeids)
    # a statement node of a real compilation: numbered by first appearance
    k = nodeids.setdefault(id(a), len(nodeids))
    return ['node', k]


def parsed(instrs, nodeids=None):
    """what optimize() looks at, per instruction: canonical op name, type_char,
    src_type_char, scope, args (Python type kept)"""
    if nodeids is None:
        nodeids = {}
    out = []
    for i in instrs:
        out.append([i.op.name.lower(), i.type_char, i.src_type_char, i.scope or '',
                    [enc_arg(a, nodeids) for a in i.args]])
    return out


def finals(instrs):
    out = []
    for i in instrs:
        op, *args = i.final
        out.append([op] + [enc_arg(a, {}) if not isinstance(a, (int, str)) or isinstance(a, bool)
                           else a for a in args])
    return out


# ---------------------------------------------------------------- T-fn

def minimal_crash(instrs, exc):
    """shortest contiguous sub-list on which optimize() raises the same exception"""
    n = len(instrs)
    for k in range(1, n + 1):
        for a in range(0, n - k + 1):
            sub = instrs[a:a + k]
            c = QvmCode()
            try:
                c.add(*dec_instrs(sub))
                c.optimize()
            except BaseException as e:  # noqa
                if type(e).__name__ == exc:
                    return sub
    return instrs


def opt_list(case):
    """{'instrs': [[op, args...]...]} -> {'in': parsed, 'out': parsed, 'final': [...]}
    | {'in': parsed, 'exc': ...}"""
    code = QvmCode()
    code.add(*dec_instrs(case['instrs']))
    pin = parsed(code._instrs)
    try:
        code.optimize()
    except BaseException as e:  # noqa
        return {'in': pin, 'exc': type(e).__name__, 'msg': str(e)[:120],
                'minimal': minimal_crash(case['instrs'], type(e).__name__)}
    try:
        fin = finals(code._instrs)
    except BaseException as e:  # noqa
        fin = {'exc': type(e).__name__}
    return {'in': pin, 'out': parsed(code._instrs), 'final': fin}


# ---------------------------------------------------------------- property oracle on windows

BASE_SRC = ('DIM SHARED g%\nDIM SHARED h&\n'
            'x% = 1\ny& = 2\nz! = 1.5\nw# = 2.5\ns$ = "lit"\nt$ = "a"\ng% = 3\nh& = 4\n')
_base = None


def base_code():
    """a real, fully set-up QvmCode (routines, globals, literals) whose main
    body is replaced by the instructions under test"""
    global _base
    if _base is None:
        code = compile_src(BASE_SRC, 0, False)
        ins = code._instrs
        k = [j for j, i in enumerate(ins) if i.op.name == 'FRAME'][0]
        _base = (code, ins[:k + 1])
    return _base


def is_dbg(i):
    return i.op.name in ('_DBG_INFO_START', '_DBG_INFO_END', '_EMPTY_BLOCK')


def run_body(body, defines_wl, max_ticks=400):
    code, prologue = base_code()
    t = lambda *x: QvmInstr(*x)
    frame = [t('jmp', '_start'),
             t('_label', '_t1'), t('push%', 111), t('halt'),
             t('_label', '_t2'), t('push%', 222), t('halt')]
    if not defines_wl:
        frame += [t('_label', 'wl'), t('push%', 444), t('halt')]
    frame += [t('_label', '_start')]
    tail = [t('_label', '_fall'), t('push%', 333), t('halt')]
    code._instrs = prologue + frame + [i for i in body if not is_dbg(i)] + tail
    try:
        bc = bytes(code)
    except BaseException as e:  # noqa
        return ['asm-exc', type(e).__name__]
    del machfn._registry[:]
    module = QModule.parse(bc)
    p = MPeriph(Script())
    m = QvmMachine(module, impl=p)
    cpu = m.cpu
    dd = cpu.devices['data']
    n = 0
    # ijmp / ret / retv take their target from the stack.  The only address the
    # test frame ever puts there is the return address of the call in the
    # prologue; a transfer to any other address is a jump to an absolute code
    # position that is not a label.  What happens then depends on the layout of
    # the code (which every rewrite legitimately changes), so the run stops
    # there with the outcome 'wild-jump' on both sides.
    ret_addr = 1 + 4                      # call <label> is 5 bytes long
    indirect = {op_to_instr[o].op_code for o in ('ijmp', 'ret', 'retv')}
    try:
        while n < max_ticks and not cpu.halted and cpu.pc < len(module.code):
            op = module.code[cpu.pc] if 0 <= cpu.pc < len(module.code) else None
            cpu.tick()
            n += 1
            if op in indirect and not cpu.halted and cpu.last_trap is None and cpu.pc != ret_addr:
                return ['wild-jump', state_out(cpu, p, dd)[12]]
    except BaseException as e:  # noqa
        return ['host-exc', type(e).__name__]
    st = state_out(cpu, p, dd)
    if not cpu.halted and cpu.pc < len(module.code):
        return ['limit', st[12]]
    # drop pc and trapped_addr: code after the window legitimately moves
    return ['end', st[1], st[2], st[3], st[4], st[5], st[6], st[7], st[8], st[10], st[11], st[12]]


def exec_one(pre, window):
    """-> None (optimize leaves the window alone) | (before, after, final-after) | {'exc'...}"""
    w = QvmCode()
    w.add(*dec_instrs(window))
    before = list(w._instrs)
    fb = [i.final for i in before]
    try:
        w.optimize()
    except BaseException as e:  # noqa
        return {'exc': type(e).__name__}
    after = list(w._instrs)
    try:
        fa = [i.final for i in after]
    except BaseException as e:  # noqa
        return {'final-exc': type(e).__name__}
    if fa == fb:
        return None
    p = QvmCode()
    p.add(*dec_instrs(pre))
    defines_wl = any(i.op.name == '_LABEL' and i.args[0] == 'wl' for i in before)
    rb = run_body(p._instrs + before, defines_wl)
    ra = run_body(p._instrs + after, defines_wl)
    return rb, ra, [[str(x) for x in f] for f in fa]


def exec_window(case):
    """{'pre': [...], 'window': [...]} -> {'changed': bool, 'before': outcome, 'after': outcome,
    'minimal': smallest contiguous sub-window whose outcomes differ from the same pre-state}"""
    r = exec_one(case['pre'], case['window'])
    if r is None:
        return {'changed': False}
    if isinstance(r, dict):
        return r
    rb, ra, fa = r
    out = {'changed': True, 'before': rb, 'after': ra, 'after_final': fa,
           'diff': peepobs.diffkind(rb, ra)}
    if out['diff'] is not None:
        w = case['window']
        n = len(w)
        out['minimal'], out['min_diff'] = w, out['diff']
        done = False
        for k in range(1, n):
            for a in range(0, n - k + 1):
                sub = w[a:a + k]
                r2 = exec_one(case['pre'], sub)
                if isinstance(r2, tuple):
                    dk = peepobs.diffkind(r2[0], r2[1])
                    if dk is not None:
                        out['minimal'], out['min_diff'] = sub, dk
                        done = True
                        break
            if done:
                break
    return out


# ---------------------------------------------------------------- whole programs

def sections(bc):
    out = {}
    i = 0
    while i < len(bc):
        sid = bc[i]
        n, = struct.unpack('>I', bc[i + 1:i + 5])
        out[sid] = bc[i + 5:i + 5 + n].hex()
        i += 5 + n
    return out


def compile_any(src, level, debug):
    try:
        return None, compile_src(src, level, debug)
    except QSyntaxError as e:
        return ['syntax', None], None
    except CompileError as e:
        return ['compile', e.code.name], None
    except BaseException as e:  # noqa
        return ['internal', type(e).__name__], None


def run_code(code, script, max_ticks):
    try:
        bc = bytes(code)
    except BaseException as e:  # noqa
        return {'asm_exc': type(e).__name__}, None
    del machfn._registry[:]
    module = QModule.parse(bc)
    sc = script or {}
    p = MPeriph(Script(lines=list(sc.get('lines', [])),
                       rnd=[bits2f(b) for b in sc.get('rnd', [])],
                       timer=[bits2f(b) for b in sc.get('timer', [])],
                       inkey=list(sc.get('inkey', []))))
    m = QvmMachine(module, impl=p)
    cpu = m.cpu
    n = 0
    stop = 'end'
    exc = None
    try:
        while n < max_ticks:
            if cpu.halted or cpu.pc >= len(module.code):
                break
            cpu.tick()
            n += 1
        else:
            stop = 'limit'
    except InputExhausted:
        stop = 'need-input'
    except BaseException as e:  # noqa
        stop = 'host-exc'
        exc = type(e).__name__
    evs = [machfn.ev_canon(e) for e in p.events]
    res = {'stop': stop, 'exc': exc, 'halted': bool(cpu.halted), 'reason': cpu.halt_reason.value,
           'trap': cpu.last_trap.value if (cpu.last_trap is not None and cpu.halt_reason.value == 3) else 0,
           'events': evs, 'ticks': n}
    return res, bc


def level_case(case):
    """{src, script, levels, max_ticks}: compile + run at each level (no debug info)"""
    out = {}
    for lv in case['levels']:
        err, code = compile_any(case['src'], lv, False)
        if err:
            out[str(lv)] = {'verdict': err}
            continue
        res, bc = run_code(code, case.get('script'), case.get('max_ticks', 20000))
        res['verdict'] = 'ok'
        out[str(lv)] = res
    return out


def uses_resume(code):
    return any(i.op.name in ('ERRRES', 'ERRRESN') for i in code._instrs) or \
        any(i.op.name == 'ERRHAND' and i.args and i.args[0] == 1 for i in code._instrs)


def dbg_case(case):
    """{src, script, levels, max_ticks}: the same source with and without debug
    info at each level: parsed instruction lists, sections 1-3, run results.
    At level 2 also the level-1 marked list and the result of the real
    optimize() applied to it."""
    out = {}
    for lv in case['levels']:
        r = {}
        for dbg in (False, True):
            key = 'g' if dbg else 'n'
            err, code = compile_any(case['src'], lv, dbg)
            if err:
                r[key] = {'verdict': err}
                continue
            d = {'verdict': 'ok', 'resume': uses_resume(code)}
            ids = {}
            d['instrs'] = parsed(code._instrs, ids)
            res, bc = run_code(code, case.get('script'), case.get('max_ticks', 20000))
            d['run'] = res
            if bc is not None:
                s = sections(bc)
                d['sec'] = [s.get(1), s.get(2), s.get(3)]
                d['has5'] = 5 in s
                if lv == 1:
                    d['code'] = s.get(4)
            r[key] = d
        if lv == 2:
            # the unoptimised marked list of the same pipeline, then the real optimize()
            for dbg in (False, True):
                key = 'pre_g' if dbg else 'pre_n'
                err, code = compile_any(case['src'], 1, dbg)
                if err:
                    r[key] = {'verdict': err}
                    continue
                ids = {}
                pre = parsed(code._instrs, ids)
                try:
                    code.optimize()
                    post = parsed(code._instrs, ids)
                    r[key] = {'verdict': 'ok', 'pre': pre, 'post': post}
                except BaseException as e:  # noqa
                    r[key] = {'verdict': 'ok', 'pre': pre, 'opt_exc': type(e).__name__}
        out[str(lv)] = r
    return out


def instr_sizes(_):
    """op (final name) -> encoded size, from the instruction table"""
    import qvm.instrs as qi
    out = {}
    for i in qi.instructions:
        out[i.op] = 1 + sum(o.size for o in i.operands)
    return out
