"""C05: analysis of the base programs (line classifier, block context of every
insertion point) and the fault catalogue with its injectors.  Pure Python.

An injection is a dict:
  kind      fault kind (catalogue name)          variant   text naming the variant
  prepend   valid helper lines put before the program (module level)
  append    valid helper lines put after the program (module level)
  at        insertion point p (new lines go before original line p), or None
  lines     lines inserted at p                  fault     index in `lines` of the offending line
  replace   {original line index: new text | None (delete)}
  expect    ('compile', {codes}) | ('syntax',) | ('diag',)   ('diag' = any located diagnostic)
  where     list of tags of the lines on which the diagnostic may be: ('ins', i) | ('orig', j) |
            ('pre', i) | ('app', i)
  control   lines that replace `lines` in the control program (valid: must compile)
"""
import re

KW_BLOCK = [
    (r'^IF\b.*\bTHEN\s*$', 'if'), (r'^ELSEIF\b', 'elseif'), (r'^ELSE\s*$', 'else'),
    (r'^END IF\s*$', 'endif'), (r'^FOR\b', 'for'), (r'^NEXT\b', 'next'), (r'^DO\b', 'do'),
    (r'^LOOP\b', 'loop'), (r'^WHILE\b', 'while'), (r'^WEND\s*$', 'wend'),
    (r'^SELECT CASE\b', 'select'), (r'^CASE ELSE\s*$', 'caseelse'), (r'^CASE\b', 'case'),
    (r'^END SELECT\s*$', 'endselect'), (r'^SUB\b', 'sub'), (r'^END SUB\s*$', 'endsub'),
    (r'^FUNCTION\b', 'function'), (r'^END FUNCTION\s*$', 'endfunction'),
    (r'^TYPE\b', 'type'), (r'^END TYPE\s*$', 'endtype'),
]
OPEN = {'if': 'endif', 'for': 'next', 'do': 'loop', 'while': 'wend', 'select': 'endselect',
        'sub': 'endsub', 'function': 'endfunction', 'type': 'endtype'}
CLOSE = {v: k for k, v in OPEN.items()}
TERMINATOR_TEXT = {'endif': 'END IF', 'next': 'NEXT', 'loop': 'LOOP', 'wend': 'WEND',
                   'endselect': 'END SELECT', 'endsub': 'END SUB',
                   'endfunction': 'END FUNCTION', 'endtype': 'END TYPE'}


def strip_comment(line):
    out, q = [], False
    for ch in line:
        if ch == '"':
            q = not q
        if ch == "'" and not q:
            break
        out.append(ch)
    return ''.join(out).rstrip()


def split_prefix(line):
    """-> (label or line number or None, rest) of a stripped source line"""
    s = line.strip()
    m = re.match(r'^(\d+)\s+(.*)$', s)
    if m:
        return m.group(1), m.group(2)
    m = re.match(r'^([A-Za-z][A-Za-z0-9]*):\s*(.*)$', s)
    if m and m.group(1).upper() not in ('ELSE', 'CLS', 'BEEP', 'END', 'PRINT', 'RETURN'):
        return m.group(1), m.group(2)
    return None, s


def classify(line):
    s = strip_comment(line).strip()
    if s.upper().startswith('REM'):
        return 'simple'
    _lab, rest = split_prefix(s)
    if rest == '':
        return 'simple'
    for rx, k in KW_BLOCK:
        if re.match(rx, rest):
            return k
    return 'simple'


class Prog:
    def __init__(self, name, lines):
        self.name = name
        self.lines = list(lines)
        self.kinds = [classify(l) for l in lines]
        self.labels = {}          # label -> (line index, routine)
        self.ctx = []             # ctx[p] for insertion point p in 0..n
        self.blocks = []          # (kind, open idx, close idx, depth, parent kind or None)
        self.multi_next = set()   # lines "NEXT a, b" that close several FOR blocks
        self._analyse()

    def _analyse(self):
        stack = []                # entries: dict(kind, idx, has_else, seen_case)
        routine = ('main', None)
        n = len(self.lines)
        for p in range(n + 1):
            self.ctx.append({
                'stack': [dict(e) for e in stack],
                'routine': routine,
                'in_type': any(e['kind'] == 'type' for e in stack),
                'before_first_case': bool(stack) and stack[-1]['kind'] == 'select'
                                     and not stack[-1]['seen_case'],
            })
            if p == n:
                break
            k = self.kinds[p]
            lab, _rest = split_prefix(strip_comment(self.lines[p]))
            if lab is not None:
                self.labels[lab.lower()] = (p, routine)
            if k in OPEN:
                stack.append({'kind': k, 'idx': p, 'has_else': False, 'seen_case': False})
                if k in ('sub', 'function'):
                    m = re.match(r'^\s*(?:SUB|FUNCTION)\s+([A-Za-z][A-Za-z0-9]*)', self.lines[p])
                    routine = (k, m.group(1).lower())
            elif k in CLOSE:
                nclose = 1
                if k == 'next':
                    m = re.match(r'^NEXT\b(.*)$', split_prefix(strip_comment(self.lines[p]))[1])
                    nclose = max(1, len([x for x in m.group(1).split(',') if x.strip()]))
                    if nclose > 1:
                        self.multi_next.add(p)
                for _ in range(nclose):
                    e = stack.pop()
                    assert e['kind'] == CLOSE[k], (self.name, p, e, k)
                    self.blocks.append((e['kind'], e['idx'], p, len(stack),
                                        stack[-1]['kind'] if stack else None))
                if k in ('endsub', 'endfunction'):
                    routine = ('main', None)
            elif k == 'else' and stack and stack[-1]['kind'] == 'if':
                stack[-1]['has_else'] = True
            elif k in ('case', 'caseelse') and stack and stack[-1]['kind'] == 'select':
                stack[-1]['seen_case'] = True
        assert not stack, self.name
        # an IF that gets its ELSE later also "has an else" for a site before it
        for p in range(n + 1):
            for e in self.ctx[p]['stack']:
                if e['kind'] == 'if':
                    close = [b for b in self.blocks if b[0] == 'if' and b[1] == e['idx']][0][2]
                    depth_else = False
                    d = 0
                    for j in range(e['idx'] + 1, close):
                        kj = self.kinds[j]
                        if kj in OPEN:
                            d += 1
                        elif kj in CLOSE:
                            d -= 1
                        elif kj == 'else' and d == 0:
                            depth_else = True
                    e['else_anywhere'] = depth_else

    def points(self):
        """insertion points where an ordinary statement may be put"""
        out = []
        for p, c in enumerate(self.ctx):
            if c['in_type'] or c['before_first_case']:
                continue
            out.append(p)
        return out


# --------------------------------------------------------------------------
# helpers shared by the variants

TYPE_HELPER = ['TYPE zqt', '  a AS INTEGER', '  b AS STRING', 'END TYPE']
SUB_HELPER = ['SUB zqs (a AS INTEGER)', 'END SUB']
FUNC_HELPER = ['FUNCTION zqf% (zqp AS INTEGER)', '  zqf% = zqp', 'END FUNCTION']

WRAPPERS = ['plain', 'colon', 'ifthen', 'ifelse', 'label']


def wrap(stmt, w):
    if w == 'plain':
        return stmt
    if w == 'colon':
        return 'zqw% = 1: ' + stmt
    if w == 'ifthen':
        return 'IF zqw% THEN ' + stmt
    if w == 'ifelse':
        return 'IF zqw% THEN zqw% = 2 ELSE ' + stmt
    if w == 'label':
        return 'zqlbl: ' + stmt
    raise ValueError(w)


def TM():
    return ('compile', {'TYPE_MISMATCH'})


def C(*codes):
    return ('compile', set(codes))


class V:
    """one variant of a fault kind: a single offending statement with optional
    valid context"""

    def __init__(self, name, stmt, expect, pre=(), post=(), prepend=(), append=(), wrappers=None,
                 control='zqok% = 1', only=None, fault=None, stmt_is_block=False):
        self.name = name
        self.stmt = stmt if isinstance(stmt, (list, tuple)) else [stmt]
        self.expect = expect
        self.pre = list(pre)
        self.post = list(post)
        self.prepend = list(prepend)
        self.append = list(append)
        multi = len(self.stmt) > 1 or stmt_is_block
        self.wrappers = wrappers if wrappers is not None else (['plain'] if multi else WRAPPERS)
        self.control = control
        self.only = only          # predicate on ctx: where the variant applies
        self.fault = 0 if fault is None else fault   # index in stmt of the offending line


def stmt_variants():
    """fault kind -> variants (statement-style faults: insert at a site)"""
    T, S_, F = TYPE_HELPER, SUB_HELPER, FUNC_HELPER
    S3 = ['SUB zqs3 (t AS STRING, big AS LONG, n AS INTEGER)', 'END SUB']
    F3 = ['FUNCTION zqf3% (t AS STRING, big AS LONG, n AS INTEGER)', '  zqf3% = n', 'END FUNCTION']
    K = {}
    K['assign-mismatch'] = [
        V('int=str', 'zqa% = "s"', TM()), V('str=int', 'zqa$ = 1', TM()),
        V('dbl=str', 'zqa# = "s"', TM()), V('str=sng', 'zqa$ = 1.5', TM()),
        V('lng=strvar', 'zqa& = zqb$', TM(), pre=['zqb$ = "v"']),
        V('single=str', 'zqa = "s"', TM()),
        V('field=str', 'zqr.a = "s"', TM(), pre=['DIM zqr AS zqt'], prepend=T),
        V('strfield=int', 'zqr.b = 7', TM(), pre=['DIM zqr AS zqt'], prepend=T),
        V('elem=str', 'zqar(1) = "s"', TM(), pre=['DIM zqar(3) AS INTEGER']),
        V('dimmed=str', 'zqd = "s"', TM(), pre=['DIM zqd AS LONG']),
    ]
    K['binop-mismatch'] = [
        V('int+str', 'zqa% = 1 + "s"', TM()), V('str*int', 'zqa$ = "a" * 2', TM()),
        V('str-str', 'zqa$ = "a" - "b"', TM()), V('and-str', 'PRINT 1 AND "x"', TM()),
        V('int<str', 'zqa% = 1 < "a"', TM()), V('str\\int', 'PRINT "a" \\ 2', TM()),
        V('mod-str', 'zqa% = 2 MOD "x"', TM()), V('neg-str', 'zqa% = -zqb$', TM(), pre=['zqb$ = "v"']),
        V('not-str', 'PRINT NOT "x"', TM()), V('str+int', 'zqa$ = "foo" + 1', TM()),
        V('str/int', 'zqa$ = "foo" / 3', TM()), V('str^int', 'PRINT "a" ^ 2', TM()),
        V('rec+int', 'PRINT zqr + 10', TM(), pre=['DIM zqr AS zqt'], prepend=T),
        V('str=int-in-if', 'IF zqb$ = 1 THEN zqa% = 1', TM(), pre=['zqb$ = "v"'],
          wrappers=['plain', 'colon', 'label']),
    ]
    K['binop-mismatch-in-condition'] = [
        V('if int+str', 'IF 1 + "s" THEN zqa% = 1', TM(), wrappers=['plain', 'colon', 'label']),
        V('if and-str', 'IF 1 AND "s" THEN zqa% = 1', TM(), wrappers=['plain', 'colon', 'label']),
        V('do-while int+str', ['DO WHILE 1 + "s"', 'LOOP'], TM()),
    ]
    K['cond-if-string'] = [
        V('literal', 'IF "s" THEN zqa% = 1', TM(), wrappers=['plain', 'colon', 'label']),
        V('variable', 'IF zqb$ THEN zqa% = 1 ELSE zqa% = 2', TM(), pre=['zqb$ = "v"'],
          wrappers=['plain', 'colon', 'label']),
        V('block', ['IF zqb$ THEN', '  zqa% = 1', 'END IF'], TM(), pre=['zqb$ = "v"']),
        V('elseif', ['IF zqa% THEN', 'ELSEIF zqb$ THEN', 'END IF'], TM(), pre=['zqb$ = "v"'],
          fault=1),
        V('concat', 'IF zqb$ + "x" THEN zqa% = 1', TM(), pre=['zqb$ = "v"'],
          wrappers=['plain', 'colon', 'label']),
    ]
    K['cond-if-record'] = [
        V('single-line', 'IF zqr THEN zqa% = 1', TM(), pre=['DIM zqr AS zqt'], prepend=T,
          wrappers=['plain', 'colon', 'label']),
        V('block', ['IF zqr THEN', 'END IF'], TM(), pre=['DIM zqr AS zqt'], prepend=T),
    ]
    K['cond-if-array'] = [
        V('single-line', 'IF zqar THEN zqa% = 1', TM(), pre=['DIM zqar(3) AS INTEGER'],
          wrappers=['plain', 'colon']),
        V('block', ['IF zqar THEN', 'END IF'], TM(), pre=['DIM zqar(3) AS INTEGER']),
    ]
    K['array-operand'] = [
        V('print', 'PRINT zqar + 1', TM(), pre=['DIM zqar(3) AS INTEGER']),
        V('assign', 'zqa% = zqar', TM(), pre=['DIM zqar(3) AS INTEGER']),
        V('while', ['WHILE zqar', 'WEND'], TM(), pre=['DIM zqar(3) AS INTEGER']),
    ]
    DG = ('diag',)
    K['terminator-in-single-line-if'] = [
        V('end-if', 'IF zqw% THEN END IF', DG, wrappers=['plain', 'colon']),
        V('wend', 'IF zqw% THEN WEND', DG, wrappers=['plain', 'colon']),
        V('loop', 'IF zqw% THEN zqw% = 2 ELSE LOOP', DG, wrappers=['plain', 'colon']),
        V('end-select', 'IF zqw% THEN END SELECT', DG, wrappers=['plain', 'colon']),
        V('next', 'IF zqw% THEN NEXT', DG, wrappers=['plain', 'colon'],
          only=lambda c: not any(e['kind'] == 'for' for e in c['stack'])),
    ]
    K['cond-while'] = [
        V('literal', ['WHILE "s"', 'WEND'], TM()),
        V('variable', ['WHILE zqb$', '  zqa% = 1', 'WEND'], TM(), pre=['zqb$ = "v"']),
        V('record', ['WHILE zqr', 'WEND'], TM(), pre=['DIM zqr AS zqt'], prepend=T),
        V('binop', ['WHILE 1 + "s"', 'WEND'], TM()),
    ]
    K['cond-do-string'] = [
        V('do-while', ['DO WHILE zqb$', 'LOOP'], TM(), pre=['zqb$ = "v"']),
        V('do-until-literal', ['DO UNTIL "s"', 'LOOP'], TM()),
        V('loop-while', ['DO', 'LOOP WHILE zqb$'], TM(), pre=['zqb$ = "v"'], fault=1),
        V('loop-until-literal', ['DO', 'LOOP UNTIL "s"'], TM(), fault=1),
    ]
    K['sub-arg-mismatch'] = [
        V('literal', 'zqs "s"', TM(), append=S_), V('call', 'CALL zqs("s")', TM(), append=S_),
        V('byref-single', 'zqs zqb!', TM(), pre=['zqb! = 1'], append=S_),
        V('strvar', 'zqs zqb$', TM(), pre=['zqb$ = "v"'], append=S_),
        V('num-for-string', 'zqs2 5', TM(), append=['SUB zqs2 (a AS STRING)', 'END SUB']),
    ]
    K['function-arg-mismatch'] = [
        V('assign', 'zqa% = zqf%("s")', TM(), append=F), V('print', 'PRINT zqf%("s")', TM(), append=F),
        V('strvar', 'zqa% = zqf%(zqb$)', TM(), pre=['zqb$ = "v"'], append=F),
        V('byref-long', 'zqa% = zqf%(zqb&)', TM(), pre=['zqb& = 1'], append=F),
    ]
    K['array-index-mismatch'] = [
        V('implicit', 'zqa% = zqia%("s")', TM()),
        V('dimmed-store', 'zqar("s") = 1', TM(), pre=['DIM zqar(5) AS INTEGER']),
        V('dimmed-load', 'PRINT zqar(zqb$)', TM(), pre=['DIM zqar(5) AS INTEGER', 'zqb$ = "v"']),
    ]
    K['print-using-format'] = [
        V('literal', 'PRINT USING 5; 1', TM()),
        V('variable', 'PRINT USING zqa%; 1', TM(), pre=['zqa% = 1']),
    ]
    K['builtin-arg-mismatch'] = [
        V('len', 'PRINT LEN(5)', TM()), V('chr', 'zqa$ = CHR$("A")', TM()),
        V('left', 'PRINT LEFT$("abc", "2")', TM()), V('asc', 'PRINT ASC(65)', TM()),
        V('ucase', 'zqa$ = UCASE$(1)', TM()), V('int', 'PRINT INT("A")', TM()),
    ]
    K['for-variable-string'] = [V('for', ['FOR zqb$ = 1 TO 2', 'NEXT'], TM())]
    K['for-bound-string'] = [
        V('from', ['FOR zqi% = "a" TO 2', 'NEXT'], TM()),
        V('to', ['FOR zqi% = 1 TO "b"', 'NEXT'], TM()),
        V('step', ['FOR zqi% = 1 TO 2 STEP "c"', 'NEXT'], TM()),
    ]
    K['select-case-mismatch'] = [
        V('str-case', ['SELECT CASE zqa%', 'CASE "a"', 'END SELECT'], TM(), fault=1),
        V('num-case', ['SELECT CASE zqb$', 'CASE 1', 'END SELECT'], TM(), pre=['zqb$ = "v"'], fault=1),
        V('range', ['SELECT CASE zqa%', 'CASE 1 TO "z"', 'END SELECT'], TM(), fault=1),
    ]
    K['assign-whole-record'] = [
        V('copy', 'zqr = zqr2', TM(), pre=['DIM zqr AS zqt', 'DIM zqr2 AS zqt'], prepend=T),
    ]
    K['print-record'] = [V('print', 'PRINT zqr', TM(), pre=['DIM zqr AS zqt'], prepend=T)]

    LND = C('LABEL_NOT_DEFINED')
    K['undefined-label'] = [
        V('goto', 'GOTO zqnolabel', LND), V('gosub', 'GOSUB zqnolabel', LND),
        V('restore', 'RESTORE zqnolabel', LND), V('on-error', 'ON ERROR GOTO zqnolabel', LND),
        V('goto-lineno', 'GOTO 9999', LND), V('return', 'RETURN zqnolabel', LND),
        V('gosub-lineno', 'GOSUB 9998', LND),
        # the boundary line number 0 (falsy in Python)
        V('goto-lineno-0', 'GOTO 0', LND), V('gosub-lineno-0', 'GOSUB 0', LND),
        V('return-lineno-0', 'RETURN 0', LND), V('restore-lineno-0', 'RESTORE 0', LND),
    ]
    in_routine = lambda c: c['routine'][0] != 'main'   # noqa
    in_main = lambda c: c['routine'][0] == 'main'      # noqa
    K['label-in-other-routine'] = [
        V('main-label-from-procedure', 'GOTO zqmain', LND, prepend=['zqmain:'], only=in_routine),
        V('gosub-main-label', 'GOSUB zqmain', LND, prepend=['zqmain:'], only=in_routine),
        V('procedure-label-from-main', 'GOTO zqinner', LND,
          append=['SUB zqs2', 'zqinner:', 'END SUB'], only=in_main),
        V('on-error-procedure-label', 'ON ERROR GOTO zqinner', LND,
          append=['SUB zqs2', 'zqinner:', 'END SUB']),
    ]
    DD = C('DUPLICATE_DEFINITION')
    K['duplicate-label'] = [
        V('adjacent', ['zqdup:', 'zqdup:'], C('DUPLICATE_LABEL'), fault=1),
        V('apart', ['zqdup: zqa% = 1', 'zqa% = 2', 'zqdup: zqa% = 3'], C('DUPLICATE_LABEL'), fault=2),
        V('lineno', ['7771 zqa% = 1', '7771 zqa% = 2'], C('DUPLICATE_LABEL'), fault=1),
        V('main-and-procedure', 'zqmain: zqa% = 1', C('DUPLICATE_LABEL'), prepend=['zqmain:'],
          wrappers=['plain']),
    ]
    K['duplicate-const'] = [
        V('same-routine', ['CONST zqc = 1', 'CONST zqc = 2'], DD, fault=1),
        V('const-after-variable', ['zqc = 1', 'CONST zqc = 2'], DD, fault=1),
    ]
    K['duplicate-dim'] = [
        V('dim-dim', ['DIM zqv AS INTEGER', 'DIM zqv AS LONG'], DD, fault=1),
        V('use-then-dim', ['zqv = 1', 'DIM zqv AS LONG'], DD, fault=1),
        V('dim-array-twice', ['DIM zqar(3) AS INTEGER', 'DIM zqar(4) AS INTEGER'], DD, fault=1),
        V('dim-named-as-sub', 'DIM zqs AS INTEGER', DD, append=S_, wrappers=['plain', 'colon']),
        V('variable-named-as-sub', 'zqs = 10', DD, append=S_),
    ]
    K['argument-count'] = [
        V('sub-more', 'zqs 1, 2', C('ARGUMENT_COUNT_MISMATCH'), append=S_),
        V('sub-none', 'zqs', C('ARGUMENT_COUNT_MISMATCH'), append=S_),
        V('call-more', 'CALL zqs(1, 2)', C('ARGUMENT_COUNT_MISMATCH'), append=S_),
        V('function-more', 'zqa% = zqf%(1, 2)', C('ARGUMENT_COUNT_MISMATCH'), append=F),
        V('function-none', 'zqa% = zqf%', C('ARGUMENT_COUNT_MISMATCH'), append=F),
        V('function-in-print', 'PRINT zqf%(1, 2, 3)', C('ARGUMENT_COUNT_MISMATCH'), append=F),
        V('builtin', 'PRINT LEN("a", "b")', C('ARGUMENT_COUNT_MISMATCH')),
        # wrong count where the remaining arguments no longer line up with the parameter types
        V('sub-dropped-first', 'zqs3 70000, zqc%', C('ARGUMENT_COUNT_MISMATCH'), pre=['zqc% = 1'], append=S3),
        V('call-dropped-middle', 'CALL zqs3(zqc%, "t")', C('ARGUMENT_COUNT_MISMATCH'), pre=['zqc% = 1'], append=S3),
        V('sub-extra-last', 'zqs3 "a", zqb&, zqc%, "x"', C('ARGUMENT_COUNT_MISMATCH'),
          pre=['zqb& = 1', 'zqc% = 1'], append=S3),
        V('function-dropped-first', 'zqa% = zqf3%(70000, zqc%)', C('ARGUMENT_COUNT_MISMATCH'),
          pre=['zqc% = 1'], append=F3),
    ]
    K['array-rank'] = [
        V('fewer', 'zqar(1) = 1', C('WRONG_NUMBER_OF_DIMENSIONS'), pre=['DIM zqar(3, 3) AS INTEGER']),
        V('more', 'PRINT zqar(1, 2)', C('WRONG_NUMBER_OF_DIMENSIONS'), pre=['DIM zqar(3) AS INTEGER']),
        V('implicit', 'zqia%(1, 2) = 1', C('WRONG_NUMBER_OF_DIMENSIONS'), pre=['zqia%(1) = 1']),
    ]
    K['undefined-type'] = [
        V('dim', 'DIM zqv AS zqnotype', C('TYPE_NOT_DEFINED'), wrappers=['plain', 'colon', 'ifthen']),
        V('dim-array', 'DIM zqar(3) AS zqnotype', C('TYPE_NOT_DEFINED'), wrappers=['plain', 'colon']),
    ]
    K['undefined-field'] = [
        V('store', 'zqr.nofield = 1', C('ELEMENT_NOT_DEFINED'), pre=['DIM zqr AS zqt'], prepend=T),
        V('load', 'PRINT zqr.nofield', C('ELEMENT_NOT_DEFINED'), pre=['DIM zqr AS zqt'], prepend=T),
    ]
    K['undefined-sub'] = [
        V('call', 'CALL zqnosub(1)', C('SUBPROGRAM_NOT_FOUND')),
        V('implicit-call', 'zqnosub 1', C('SUBPROGRAM_NOT_FOUND')),
        V('bare', 'zqnosub', C('SUBPROGRAM_NOT_FOUND'), wrappers=['plain', 'colon', 'ifthen', 'ifelse']),
        V('function-as-sub', 'CALL zqf(1)', C('SUBPROGRAM_NOT_FOUND'), append=F),
    ]
    no = lambda k: (lambda c: not any(e['kind'] == k for e in c['stack']))   # noqa
    K['exit-for-outside'] = [V('exit-for', 'EXIT FOR', C('INVALID_EXIT'), only=no('for'))]
    K['exit-do-outside'] = [V('exit-do', 'EXIT DO', C('INVALID_EXIT'), only=no('do'))]
    K['exit-sub-outside'] = [V('exit-sub', 'EXIT SUB', C('INVALID_EXIT'),
                               only=lambda c: c['routine'][0] != 'sub')]
    K['exit-function-outside'] = [V('exit-function', 'EXIT FUNCTION', C('INVALID_EXIT'),
                                    only=lambda c: c['routine'][0] != 'function')]
    SY = ('syntax',)
    K['illegal-literal'] = [
        V('int-overflow', 'zqa% = 32768%', SY), V('int-underflow', 'zqa% = -32769%', SY),
        V('single-overflow-suffix', 'zqa! = 1e50!', SY), V('single-overflow', 'zqa! = 1e50', SY),
        V('long-overflow-suffix', 'zqa& = 2147483648&', SY), V('long-overflow', 'zqa& = 3000000000', SY),
        V('hex-too-large', 'zqa& = &HFFFFFFFFF&', SY), V('hex-too-large-nosuffix', 'zqa& = &HFFFFFFFFF', SY),
        V('hex-malformed', 'zqa% = &HG1', SY), V('hex-empty', 'zqa% = &H', SY),
        V('octal-digit', 'zqa% = &O8', SY), V('fraction-int-suffix', 'zqa% = 2.1%', SY),
        V('string-suffix', 'zqa& = 100$', SY), V('exp-double-suffix', 'zqa# = 1e400#', SY),
        V('in-print', 'PRINT 32768%', SY), V('in-condition', 'IF 70000% THEN zqa% = 1', SY,
                                             wrappers=['plain', 'colon', 'label']),
    ]
    K['literal-double-overflow'] = [V('1d400', 'zqa# = 1d400', SY), V('print', 'PRINT 1d999', SY)]
    K['nonconstant-const'] = [
        V('variable', 'CONST zqc = zqv + 1', C('INVALID_CONSTANT'), wrappers=['plain', 'colon', 'ifthen']),
        V('rnd', 'CONST zqc = RND', C('INVALID_CONSTANT'), wrappers=['plain', 'colon']),
        V('dimmed', 'CONST zqc = zqd * 2', C('INVALID_CONSTANT'), pre=['DIM zqd AS INTEGER'],
          wrappers=['plain', 'colon']),
    ]
    K['assign-to-const'] = [
        V('local', 'zqc = 6', DD, pre=['CONST zqc = 5']),
        V('global', 'zqg = 2', DD, prepend=['CONST zqg = 1']),
        V('typed', 'zqc% = 6', DD, pre=['CONST zqc% = 5']),
    ]
    K['illegal-in-procedure'] = [
        V('dim-shared', 'DIM SHARED zqv AS LONG', C('ILLEGAL_IN_SUB'), only=in_routine,
          wrappers=['plain', 'colon']),
        V('data', 'DATA 1, 2', C('ILLEGAL_IN_SUB'), only=in_routine, wrappers=['plain']),
        V('sub', ['SUB zqin', 'END SUB'], C('ILLEGAL_IN_SUB'), only=in_routine),
        V('function', ['FUNCTION zqin', 'END FUNCTION'], C('ILLEGAL_IN_SUB'), only=in_routine),
        V('type', ['TYPE zqin', '  a AS INTEGER', 'END TYPE'], C('ILLEGAL_IN_SUB'), only=in_routine),
    ]
    K['static-outside-procedure'] = [
        V('static', 'STATIC zqv AS INTEGER', C('ILLEGAL_OUTSIDE_SUB'), only=in_main,
          wrappers=['plain', 'colon']),
    ]
    K['invalid-dimensions'] = [
        V('dim', 'DIM zqar(30 TO 20) AS STRING', C('INVALID_DIMENSIONS'), wrappers=['plain', 'colon']),
        V('dim-shared', 'DIM SHARED zqar(5 TO 1) AS INTEGER', C('INVALID_DIMENSIONS'), only=in_main,
          wrappers=['plain']),
    ]
    return K


STMT_KINDS = stmt_variants()


def top(c):
    return c['stack'][-1]['kind'] if c['stack'] else None


def has_label(line):
    return split_prefix(strip_comment(line))[0] is not None


def block_variants(prog, p):
    """block-structure faults at insertion point p: (kind, variant, lines, fault, expect, where)"""
    c = prog.ctx[p]
    out = []
    st = c['stack']
    has_if = any(e['kind'] == 'if' for e in st)
    t = top(c)
    EWI = ('compile', {'ELSE_WITHOUT_IF'})
    misplaced = ('diag-misplaced',)   # syntax error or ELSE_WITHOUT_IF / BLOCK_MISMATCH
    for word, kind in (('ELSE', 'else'), ('ELSEIF zqa% THEN', 'elseif')):
        if not has_if:
            out.append((f'{kind}-without-if', 'no-if', [word], 0, EWI, None))
        elif t != 'if':
            out.append((f'{kind}-in-nested-block', f'in-{t}-inside-if', [word], 0, EWI, None))
        else:
            e = st[-1]
            if e['has_else']:
                out.append((f'{kind}-after-else', 'after-else', [word], 0, misplaced, None))
            elif kind == 'else' and e.get('else_anywhere'):
                # the block's own ELSE follows: that one becomes the second ELSE
                out.append(('else-before-else', 'second-else-later', [word], 0, misplaced, 'any'))
    if t != 'select':
        out.append(('case-without-select', f'in-{t or "toplevel"}', ['CASE 1'], 0, ('diag',), None))
        out.append(('case-else-without-select', f'in-{t or "toplevel"}', ['CASE ELSE'], 0, ('diag',), None))
    if t != 'type':
        out.append(('field-outside-type', f'in-{t or "toplevel"}', ['zqf AS INTEGER'], 0, ('diag',), None))
    for ek, text in TERMINATOR_TEXT.items():
        if t == CLOSE[ek]:
            continue
        out.append(('terminator-without-opener', f'{ek}-in-{t or "toplevel"}', [text], 0, ('syntax',), None))
    openers = [('if', 'IF zqa% THEN'), ('for', 'FOR zqi% = 1 TO 2'), ('do', 'DO'),
               ('while', 'WHILE zqa%'), ('select', 'SELECT CASE zqa%')]
    if not st:
        openers += [('sub', 'SUB zqx'), ('function', 'FUNCTION zqx'), ('type', 'TYPE zqx')]
    for ok, text in openers:
        # detected at EOF on the opener's line (no enclosing block) or at the
        # enclosing block's terminator (wrong terminator)
        out.append(('unclosed-inserted-opener', f'{ok}-in-{t or "toplevel"}', [text], 0, ('diag-block',),
                    'opener-or-enclosing'))
    return out


def modification_variants(prog):
    """faults made by editing the base program's own lines"""
    out = []
    seen_next = set()
    for (k, o, cidx, depth, parent) in prog.blocks:
        # delete the terminator
        if cidx not in prog.multi_next:
            out.append({'kind': 'unclosed-deleted-terminator', 'variant': f'{k}-depth{depth}',
                        'replace': {cidx: None}, 'expect': ('diag-block',),
                        'where_special': ('unclosed', o, cidx)})
        if k == 'for' and cidx not in seen_next:
            seen_next.add(cidx)
            line = prog.lines[cidx]
            m = re.match(r'^(\s*(?:\d+\s+)?)NEXT\b(.*)$', line)
            if m:
                rest = m.group(2).strip()
                if rest == '':
                    new = m.group(1) + 'NEXT zqwrong%'
                else:
                    parts = [x.strip() for x in rest.split(',')]
                    parts[0] = 'zqwrong%'
                    new = m.group(1) + 'NEXT ' + ', '.join(parts)
                out.append({'kind': 'next-wrong-variable', 'variant': f'depth{depth}',
                            'replace': {cidx: new}, 'expect': ('compile', {'BLOCK_MISMATCH'}),
                            'where': [('orig', cidx)]})
        if k == 'do':
            ol, cl = prog.lines[o].strip(), prog.lines[cidx].strip()
            if re.match(r'^DO\s+(WHILE|UNTIL)\b', ol) and re.match(r'^LOOP\s*$', cl):
                ind = prog.lines[cidx][:len(prog.lines[cidx]) - len(prog.lines[cidx].lstrip())]
                out.append({'kind': 'do-loop-both-conditions', 'variant': f'depth{depth}',
                            'replace': {cidx: ind + 'LOOP UNTIL zqa% = 1'},
                            'expect': ('compile', {'BLOCK_MISMATCH'}), 'where': [('orig', cidx)]})
        if k == 'type':
            out.append({'kind': 'statement-in-type', 'variant': 'print', 'at': o + 1,
                        'lines': ['  PRINT 1'], 'fault': 0, 'expect': ('syntax',), 'where': [('ins', 0)]})
            fld = prog.lines[o + 1]
            out.append({'kind': 'duplicate-field', 'variant': 'repeat-first', 'at': cidx,
                        'lines': [fld], 'fault': 0, 'expect': ('syntax',), 'where': [('ins', 0)]})
            out.append({'kind': 'duplicate-type', 'variant': 'copy-at-end',
                        'append': prog.lines[o:cidx + 1], 'expect': ('compile', {'DUPLICATE_DEFINITION'}),
                        'where': [('app', 0)]})
        if k == 'select' and cidx > o + 1 and prog.kinds[o + 1] == 'case':
            out.append({'kind': 'statement-before-case', 'variant': 'print', 'at': o + 1,
                        'lines': ['  PRINT 1'], 'fault': 0, 'expect': ('syntax',), 'where': [('ins', 0)]})
        if k in ('sub', 'function') and depth == 0:
            word = 'SUB' if k == 'sub' else 'FUNCTION'
            m = re.match(r'^\s*(?:SUB|FUNCTION)\s+([A-Za-z][A-Za-z0-9]*[%&!#$]?)', prog.lines[o])
            name = m.group(1)
            out.append({'kind': f'duplicate-{k}', 'variant': 'copy-at-end',
                        'append': [f'{word} {name}', f'END {word}'],
                        'expect': ('compile', {'DUPLICATE_DEFINITION'}), 'where': [('app', 0)]})
            other = 'FUNCTION' if k == 'sub' else 'SUB'
            bare = re.sub(r'[%&!#$]$', '', name)
            out.append({'kind': f'duplicate-{k}', 'variant': 'other-kind-same-name',
                        'append': [f'{other} {bare}', f'END {other}'],
                        'expect': ('compile', {'DUPLICATE_DEFINITION'}), 'where': [('app', 0)]})
    for lab, (idx, routine) in prog.labels.items():
        # repeat an existing label / line number at the end of the same routine or of the module
        if lab.isdigit():
            out.append({'kind': 'duplicate-label', 'variant': 'existing-lineno',
                        'append': [f'{lab} zqa% = 1'], 'expect': ('compile', {'DUPLICATE_LABEL'}),
                        'where': [('app', 0)]})
        else:
            out.append({'kind': 'duplicate-label', 'variant': 'existing-label',
                        'append': [f'{lab}: zqa% = 1'], 'expect': ('compile', {'DUPLICATE_LABEL'}),
                        'where': [('app', 0)]})
            out.append({'kind': 'duplicate-label', 'variant': 'existing-label-earlier',
                        'prepend': [f'{lab}:'], 'expect': ('compile', {'DUPLICATE_LABEL'}),
                        'where': [('orig', idx)]})
    return out


def enumerate_injections(prog, pidx):
    """deterministic list of injections for one base program.  Every applicable
    site x every fault kind; the variant and the wrapper rotate with the site."""
    inj = []
    pts = prog.points()
    for si, p in enumerate(pts):
        c = prog.ctx[p]
        for ki, (kind, variants) in enumerate(sorted(STMT_KINDS.items())):
            app = [v for v in variants if v.only is None or v.only(c)]
            in_case_body = top(c) == 'select'
            if in_case_body:
                # a label directly in a CASE body makes SelectBlock.__init__ assert
                # (known finding label-in-case-body, checked on its own): keep it out
                # of the fault programs
                app = [v for v in app if not any(has_label(x) for x in v.stmt + v.pre)]
            if not app:
                continue
            v = app[(si + pidx + ki) % len(app)]
            ws = [x for x in v.wrappers if not (in_case_body and x == 'label')]
            w = ws[(si + 2 * pidx + ki) % len(ws)]
            stmts = list(v.stmt)
            if len(stmts) == 1:
                stmts = [wrap(stmts[0], w)]
            lines = list(v.pre) + stmts
            fault = len(v.pre) + v.fault
            inj.append({'prog': prog.name, 'kind': kind, 'variant': f'{v.name}/{w}',
                        'prepend': list(v.prepend), 'append': list(v.append), 'at': p,
                        'lines': lines + list(v.post), 'fault': fault, 'expect': v.expect,
                        'where': [('ins', fault)],
                        'control': list(v.pre) + [v.control] + list(v.post)})
        for (kind, variant, lines, fault, expect, special) in block_variants(prog, p):
            d = {'prog': prog.name, 'kind': kind, 'variant': variant, 'at': p, 'lines': lines,
                 'fault': fault, 'expect': expect, 'where': [('ins', fault)], 'block': True}
            if special == 'any':
                d['where'] = 'any'
            elif special == 'opener-or-enclosing':
                d['where_special'] = ('inserted-opener', p)
            inj.append(d)
    for d in modification_variants(prog):
        d = dict(d)
        d['prog'] = prog.name
        d.setdefault('block', d['kind'] in ('unclosed-deleted-terminator', 'next-wrong-variable',
                                            'do-loop-both-conditions', 'statement-in-type',
                                            'duplicate-field', 'statement-before-case'))
        inj.append(d)
    return inj


def build(prog, d, control=False):
    """-> (source text, set of acceptable 1-based lines or None for 'any line of the text')"""
    rows = []
    for i, l in enumerate(d.get('prepend', [])):
        rows.append((l, ('pre', i)))
    rep = d.get('replace', {})
    ins = d.get('lines', [])
    if control:
        ins = d.get('control', [])
    at = d.get('at')
    for j, l in enumerate(prog.lines):
        if at is not None and j == at:
            for i, x in enumerate(ins):
                rows.append((x, ('ins', i)))
        if j in rep and not control:
            if rep[j] is None:
                continue
            rows.append((rep[j], ('orig', j)))
        else:
            rows.append((l, ('orig', j)))
    if at is not None and at == len(prog.lines):
        for i, x in enumerate(ins):
            rows.append((x, ('ins', i)))
    for i, l in enumerate(d.get('append', [])):
        rows.append((l, ('app', i)))
    src = '\n'.join(r[0] for r in rows) + '\n'
    if control:
        return src, None
    pos = {tag: n + 1 for n, (_t, tag) in enumerate(rows)}
    where = d.get('where')
    sp = d.get('where_special')
    if sp is not None and sp[0] == 'unclosed':
        # the opener whose terminator was deleted, any enclosing opener (the
        # terminator of an enclosing block of the same kind closes the inner one),
        # or the terminator of an enclosing block (reported as a wrong terminator)
        _u, o, cidx = sp
        lines = {pos[('orig', o)]}
        for (k2, o2, c2, _dep, _par) in prog.blocks:
            if o2 < o and c2 > cidx:
                lines.add(pos[('orig', o2)])
                lines.add(pos[('orig', c2)])
        return src, lines
    if sp is not None and sp[0] == 'inserted-opener':
        lines = {pos[('ins', 0)]}
        if d['lines'][0].startswith(('SELECT', 'TYPE')):
            # the statement after an unclosed SELECT CASE / TYPE header is itself
            # illegal there (not a CASE / not a field)
            lines.add(pos[('ins', 0)] + 1)
        for e in prog.ctx[sp[1]]['stack']:
            blk = [b for b in prog.blocks if b[1] == e['idx']][0]
            lines.add(pos[('orig', blk[2])])
            lines.add(pos[('orig', blk[1])])
        return src, lines
    if where == 'any':
        return src, None
    return src, {pos[t] for t in where}


# --------------------------------------------------------------------------
# repeat families: the offending construct (jump target, CONST operand, whole
# statement) ALSO occurs, validly or verbatim, elsewhere in the program.  A
# compiler that remembers/caches/shares something per name or per node shows up
# as an accepted fault or as a diagnostic on the line of the other occurrence.
# Small self-contained programs; every case: {'family','kind','variant','src',
# 'expect', 'lines_ok' (set of 1-based lines) | 'valid': True}.

def _mk(rows):
    """rows: list of (text, tag) -> (src, {tag: 1-based line})"""
    src = '\n'.join(r[0] for r in rows) + '\n'
    pos = {}
    for n, (_t, tag) in enumerate(rows):
        if tag is not None:
            pos.setdefault(tag, n + 1)
    return src, pos


JUMPS = {
    'goto': 'GOTO {t}', 'gosub': 'GOSUB {t}', 'restore': 'RESTORE {t}', 'return': 'RETURN {t}',
    'on-error': 'ON ERROR GOTO {t}',
}
FAULT_JUMPS = ['goto', 'gosub', 'restore', 'return']
JUMP_WRAPPERS = ['plain', 'ifthen', 'colon', 'ifelse']


def _routine(kind, name, body):
    """kind 'main' | 'sub' | 'function' -> rows"""
    if kind == 'main':
        return body
    if kind == 'sub':
        return [(f'SUB {name}', None)] + body + [('END SUB', None)]
    return [(f'FUNCTION {name}%', None)] + body + [(f'  {name}% = 1', None), ('END FUNCTION', None)]


def label_reuse_cases():
    """A label / line number owned by one routine is the target of 0..2 VALID jumps
    inside its routine and of one jump from ANOTHER routine (LABEL_NOT_DEFINED on
    the line of that jump).  Bounded exhaustive over: the faulty jump (GOTO, GOSUB,
    RESTORE, RETURN) x the valid jump (the same four + ON ERROR GOTO for a module
    level label + none) x label / line number x (owner routine, jumping routine) in
    {main, SUB, FUNCTION} x source order of the two routines x valid jump before /
    after the label definition; the wrapper of the faulty jump rotates.  Controls:
    the same text without the foreign jump is accepted."""
    out = []
    pairs = [('main', 'sub'), ('main', 'function'), ('sub', 'main'), ('function', 'main'),
             ('sub', 'sub'), ('function', 'sub')]
    n = 0
    seen_ctrl = set()
    for form in ('label', 'lineno'):
        t = 'zqtgt' if form == 'label' else '4100'
        deflines = [('zqtgt:', None)] if form == 'label' else [('4100 zqn% = zqn% + 1', None)]
        for (own, oth) in pairs:
            # RESTORE / ON ERROR GOTO refer to module level labels (DATA is module level):
            # they are valid jumps only in the main module, and RESTORE <module label>
            # inside a procedure is not counted as a fault
            valids = ['goto', 'gosub', 'return', 'none'] + (['restore', 'on-error'] if own == 'main' else [])
            for vj in valids:
                for direction in ('back', 'fwd'):
                    if vj == 'none' and direction == 'fwd':
                        continue
                    vline = [] if vj == 'none' else [('IF zqn% < 3 THEN ' + JUMPS[vj].format(t=t), 'valid')]
                    body = [('zqn% = zqn% + 1', None)]
                    if own == 'main':
                        body.append(('DATA 1, 2', None))
                    owner_body = (deflines + body + vline) if direction == 'back' else (vline + deflines + body)
                    for order in ('owner-first', 'other-first'):
                        for fj in FAULT_JUMPS:
                            if fj == 'restore' and own == 'main':
                                continue
                            w = JUMP_WRAPPERS[n % len(JUMP_WRAPPERS)]
                            n += 1
                            for ctrl in (False, True):
                                fl = ('zqok% = 1', 'fault') if ctrl else (wrap(JUMPS[fj].format(t=t), w), 'fault')
                                other_body = [('zqm% = 2', None), fl, ('zqm% = 3', None)]
                                ro = _routine(own, 'zqown', owner_body)
                                rt = _routine(oth, 'zqoth', other_body)
                                rows = (ro + rt) if order == 'owner-first' else (rt + ro)
                                src, pos = _mk(rows)
                                if ctrl:
                                    if src in seen_ctrl:
                                        continue
                                    seen_ctrl.add(src)
                                    out.append({'family': 'label-reuse', 'kind': 'control:label-reuse',
                                                'variant': f'{form}/{own}->{oth}/valid-{vj}-{direction}/{order}',
                                                'src': src, 'valid': True})
                                else:
                                    out.append({
                                        'family': 'label-reuse',
                                        'kind': 'label-in-other-routine-reused' if vj != 'none'
                                        else 'label-in-other-routine',
                                        'variant': f'{fj}/{w}/{form}/{oth}-jumps-into-{own}/'
                                                   f'valid-{vj}-{direction}/{order}',
                                        'src': src, 'expect': C('LABEL_NOT_DEFINED'),
                                        'lines_ok': {pos['fault']}})
    return out


# templates whose offending operand is {K}: (kind, name, pre, stmt lines, fault index,
# prepend helpers, append helpers)
_SUBS = ['SUB zqs (a AS INTEGER)', 'END SUB']
_SUBS2 = ['SUB zqs2 (a AS STRING)', 'END SUB']
_FUNI = ['FUNCTION zqf% (zqp AS INTEGER)', '  zqf% = zqp', 'END FUNCTION']
_FUNS = ['FUNCTION zqg% (zqp AS STRING)', '  zqg% = LEN(zqp)', 'END FUNCTION']
_FUN2 = ['FUNCTION zqh% (zqp AS INTEGER, zqq AS LONG)', '  zqh% = zqp', 'END FUNCTION']

CONST_STR_TEMPLATES = [      # {K} is a STRING constant where a number is demanded
    ('assign-mismatch', 'int=K', [], ['zqa% = {K}'], 0, [], []),
    ('assign-mismatch', 'dbl=K', [], ['zqa# = {K}'], 0, [], []),
    ('assign-mismatch', 'elem=K', ['DIM zqar(3) AS INTEGER'], ['zqar(1) = {K}'], 0, [], []),
    ('assign-mismatch', 'field=K', ['DIM zqr AS zqt'], ['zqr.a = {K}'], 0, TYPE_HELPER, []),
    ('binop-mismatch', 'int+K', [], ['zqa% = 1 + {K}'], 0, [], []),
    ('binop-mismatch', 'K*int', [], ['PRINT {K} * 2'], 0, [], []),
    ('binop-mismatch', 'and-K', [], ['PRINT 1 AND {K}'], 0, [], []),
    ('binop-mismatch', 'mod-K', [], ['zqa% = 2 MOD {K}'], 0, [], []),
    ('binop-mismatch', 'neg-K', [], ['zqa% = -{K}'], 0, [], []),
    ('binop-mismatch', 'not-K', [], ['PRINT NOT {K}'], 0, [], []),
    ('binop-mismatch', 'int<K', [], ['zqa% = 1 < {K}'], 0, [], []),
    ('cond-if-string', 'single-line', [], ['IF {K} THEN zqa% = 1'], 0, [], []),
    ('cond-if-string', 'block', [], ['IF {K} THEN', '  zqa% = 1', 'END IF'], 0, [], []),
    ('cond-if-string', 'elseif', [], ['IF zqa% THEN', 'ELSEIF {K} THEN', 'END IF'], 1, [], []),
    ('cond-while', 'while', [], ['WHILE {K}', 'WEND'], 0, [], []),
    ('cond-do-string', 'do-while', [], ['DO WHILE {K}', 'LOOP'], 0, [], []),
    ('cond-do-string', 'do-until', [], ['DO UNTIL {K}', 'LOOP'], 0, [], []),
    ('cond-do-string', 'loop-while', [], ['DO', 'LOOP WHILE {K}'], 1, [], []),
    ('cond-do-string', 'loop-until', [], ['DO', 'LOOP UNTIL {K}'], 1, [], []),
    ('sub-arg-mismatch', 'implicit-call', [], ['zqs {K}'], 0, [], _SUBS),
    ('sub-arg-mismatch', 'call', [], ['CALL zqs({K})'], 0, [], _SUBS),
    ('function-arg-mismatch', 'assign', [], ['zqa% = zqf%({K})'], 0, [], _FUNI),
    ('function-arg-mismatch', 'print', [], ['PRINT zqf%({K})'], 0, [], _FUNI),
    ('function-arg-mismatch', 'second-arg', [], ['zqa% = zqh%(1, {K})'], 0, [], _FUN2),
    ('function-arg-mismatch', 'in-expression', [], ['zqa% = 2 * zqf%({K}) + 1'], 0, [], _FUNI),
    ('array-index-mismatch', 'store', ['DIM zqar(5) AS INTEGER'], ['zqar({K}) = 1'], 0, [], []),
    ('array-index-mismatch', 'load', ['DIM zqar(5) AS INTEGER'], ['PRINT zqar({K})'], 0, [], []),
    ('builtin-arg-mismatch', 'chr', [], ['zqb$ = CHR$({K})'], 0, [], []),
    ('builtin-arg-mismatch', 'int', [], ['PRINT INT({K})'], 0, [], []),
    ('builtin-arg-mismatch', 'left', [], ['PRINT LEFT$("abc", {K})'], 0, [], []),
    ('for-bound-string', 'from', [], ['FOR zqi% = {K} TO 2', 'NEXT'], 0, [], []),
    ('for-bound-string', 'to', [], ['FOR zqi% = 1 TO {K}', 'NEXT'], 0, [], []),
    ('for-bound-string', 'step', [], ['FOR zqi% = 1 TO 2 STEP {K}', 'NEXT'], 0, [], []),
    ('select-case-mismatch', 'case', [], ['SELECT CASE zqa%', 'CASE {K}', 'END SELECT'], 1, [], []),
    ('select-case-mismatch', 'case-second', [], ['SELECT CASE zqa%', 'CASE 1, {K}', 'END SELECT'], 1, [], []),
    ('select-case-mismatch', 'range', [], ['SELECT CASE zqa%', 'CASE 1 TO {K}', 'END SELECT'], 1, [], []),
    ('select-case-mismatch', 'is', [], ['SELECT CASE zqa%', 'CASE IS > {K}', 'END SELECT'], 1, [], []),
    ('select-case-mismatch', 'selector', [], ['SELECT CASE {K}', 'CASE 1', 'END SELECT'], 1, [], []),
]
CONST_NUM_TEMPLATES = [      # {K} is a NUMERIC constant where a string is demanded
    ('assign-mismatch', 'str=K', [], ['zqa$ = {K}'], 0, [], []),
    ('assign-mismatch', 'strfield=K', ['DIM zqr AS zqt'], ['zqr.b = {K}'], 0, TYPE_HELPER, []),
    ('binop-mismatch', 'str+K', [], ['zqa$ = "foo" + {K}'], 0, [], []),
    ('binop-mismatch', 'K<str', [], ['zqa% = {K} < "a"'], 0, [], []),
    ('sub-arg-mismatch', 'num-for-string', [], ['zqs2 {K}'], 0, [], _SUBS2),
    ('sub-arg-mismatch', 'call-num-for-string', [], ['CALL zqs2({K})'], 0, [], _SUBS2),
    ('function-arg-mismatch', 'num-for-string', [], ['zqa% = zqg%({K})'], 0, [], _FUNS),
    ('function-arg-mismatch', 'print-num-for-string', [], ['PRINT zqg%({K})'], 0, [], _FUNS),
    ('builtin-arg-mismatch', 'len', [], ['PRINT LEN({K})'], 0, [], []),
    ('builtin-arg-mismatch', 'asc', [], ['PRINT ASC({K})'], 0, [], []),
    ('builtin-arg-mismatch', 'ucase', [], ['zqa$ = UCASE$({K})'], 0, [], []),
    ('print-using-format', 'format', [], ['PRINT USING {K}; 1'], 0, [], []),
    ('select-case-mismatch', 'num-case', ['zqb$ = "v"'], ['SELECT CASE zqb$', 'CASE {K}', 'END SELECT'], 1, [], []),
    ('select-case-mismatch', 'num-range', ['zqb$ = "v"'], ['SELECT CASE zqb$', 'CASE "a" TO {K}', 'END SELECT'],
     1, [], []),
    ('select-case-mismatch', 'num-selector', [], ['SELECT CASE {K}', 'CASE "a"', 'END SELECT'], 1, [], []),
]
CONST_STR_VALUES = [('zqk$', '"s"', 'literal'), ('zqk$', '"a" + "b"', 'composite')]
CONST_NUM_VALUES = [('zqk%', '5', 'int-literal'), ('zqk', '5', 'untyped-literal'),
                    ('zqk#', '2.5', 'double-literal'), ('zqk&', '2 + 3', 'composite')]
CONST_PLACEMENTS = ['alone', 'before', 'after', 'both', 'after-in-sub', 'before-and-after-in-sub']
CONST_CONTEXTS = ['main', 'in-sub-global-const', 'in-sub-local-const']


def const_operand_cases():
    """Every type / argument fault template with the offending operand a CONST
    (string or numeric; literal or composite value) that is ALSO referenced validly
    on other lines: none / before / after / both / later inside a SUB; the faulty
    statement at module level or inside a SUB (global or local CONST).  Expected:
    TYPE_MISMATCH on the line of the faulty statement.  Controls: the same text
    with the faulty statement replaced by a valid one is accepted."""
    out = []
    seen_ctrl = set()
    for templates, values, is_str in ((CONST_STR_TEMPLATES, CONST_STR_VALUES, True),
                                      (CONST_NUM_TEMPLATES, CONST_NUM_VALUES, False)):
        for (kind, name, pre, stmt, fault, prepend, append) in templates:
            for (cn, cv, cvname) in values:
                use1 = f'PRINT {cn}'
                use2 = f'zqu$ = {cn} + "x"' if is_str else f'zqu# = {cn} * 2'
                for plc in CONST_PLACEMENTS:
                    for cx in CONST_CONTEXTS:
                        if cx == 'in-sub-local-const' and 'in-sub' in plc:
                            continue
                        for ctrl in (False, True):
                            decl = [(f'CONST {cn} = {cv}', None)]
                            body = []
                            if plc in ('before', 'both', 'before-and-after-in-sub'):
                                body += [(use1, None), (use2, None)]
                            body += [(x, None) for x in pre]
                            if ctrl:
                                body.append(('zqok% = 1', None))
                            else:
                                body += [(x.replace('{K}', cn), 'fault' if i == fault else None)
                                         for i, x in enumerate(stmt)]
                            body.append(('zqv% = 1', None))
                            if plc in ('after', 'both'):
                                body += [(use2, None), (use1, None)]
                            tail = []
                            if 'in-sub' in plc:
                                tail = [('SUB zqref', None), (use1, None), ('END SUB', None)]
                            hp = [(x, None) for x in prepend]
                            ha = [(x, None) for x in append]
                            if cx == 'main':
                                rows = decl + hp + body + tail + ha
                            elif cx == 'in-sub-global-const':
                                rows = decl + hp + [('zqhost', None), ('SUB zqhost', None)] + body + \
                                    [('END SUB', None)] + tail + ha
                            else:
                                rows = hp + [('zqhost', None), ('SUB zqhost', None)] + decl + body + \
                                    [('END SUB', None)] + tail + ha
                            src, pos = _mk(rows)
                            var = f'{name}/{cvname}/{plc}/{cx}'
                            if ctrl:
                                if src in seen_ctrl:
                                    continue
                                seen_ctrl.add(src)
                                out.append({'family': 'const-operand', 'kind': 'control:const-operand',
                                            'variant': var, 'src': src, 'valid': True})
                            else:
                                out.append({'family': 'const-operand', 'kind': f'{kind}:const-operand',
                                            'variant': var, 'src': src, 'expect': TM(),
                                            'lines_ok': {pos['fault']}})
    return out


DUP_EXCLUDE_WRAP = {'label'}


def duplicated_statement_cases():
    """Every variant of every statement-style fault kind of the catalogue, with the
    offending statement (its pre lines once) repeated verbatim 1..2 more times
    further down, separated by valid lines, at module level and inside a SUB:
    the diagnostic must be on the FIRST occurrence (both occurrences are checked by
    the same pass in source order).  The valid helper lines are not repeated."""
    out = []
    for kind, variants in sorted(STMT_KINDS.items()):
        for v in variants:
            if any(has_label(x) for x in v.stmt + v.pre):
                continue            # repeating a label definition is another fault
            for cx in ('main', 'sub', 'function'):
                c = {'stack': [] if cx == 'main' else [{'kind': cx}],
                     'routine': ('main', None) if cx == 'main' else (cx, 'zqhost')}
                if v.only is not None and not v.only(c):
                    continue
                if cx != 'main' and any(re.match(r'^\s*(DIM SHARED|DATA)\b', x) for x in v.pre + v.stmt):
                    continue
                for reps in (2, 3):
                    body = [(x, None) for x in v.pre]
                    for r in range(reps):
                        body += [(x, 'fault' if (i == v.fault and r == 0) else None)
                                 for i, x in enumerate(v.stmt)]
                        body += [(y, None) for y in v.post]
                        body.append((f'zqsep{r}% = {r}', None))
                    hp = [(x, None) for x in v.prepend]
                    ha = [(x, None) for x in v.append]
                    if cx == 'main':
                        rows = hp + body + ha
                    elif cx == 'sub':
                        rows = hp + [('zqhost', None), ('SUB zqhost', None)] + body + [('END SUB', None)] + ha
                    else:
                        rows = hp + [('zqx% = zqhost%', None), ('FUNCTION zqhost%', None)] + body + \
                            [('END FUNCTION', None)] + ha
                    src, pos = _mk(rows)
                    out.append({'family': 'duplicated-statement', 'kind': f'{kind}:repeated',
                                'variant': f'{v.name}/x{reps}/{cx}', 'src': src, 'expect': v.expect,
                                'lines_ok': {pos['fault']}})
    return out


def repeat_families():
    return label_reuse_cases() + const_operand_cases() + duplicated_statement_cases()
