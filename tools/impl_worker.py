"""Runs inside /venv/bin/python with PYTHONPATH=/repo: applies a function of
tools/implfns to every case and prints one 'R <json>' line per case.  Host
exceptions raised by repository code are part of the observable behaviour and
are returned as {'exc': type, 'where': innermost repo function, 'msg': ...}."""
import sys, os, io, json, traceback, importlib

real_out = os.fdopen(os.dup(1), 'w')
sys.stdout = io.StringIO()


def exc_info(e):
    tb = traceback.extract_tb(e.__traceback__)
    where = None
    repo = os.environ.get('QBEE_REPO', '/repo')
    for fr in reversed(tb):
        if fr.filename.startswith(repo + os.sep):
            where = f'{os.path.relpath(fr.filename, repo)}:{fr.name}'
            break
    return {'exc': type(e).__name__, 'where': where, 'msg': str(e)[:200]}


def main():
    req = json.loads(sys.stdin.read())
    modname, fname = req['fn'].split('.')
    mod = importlib.import_module('implfns.' + modname)
    fn = getattr(mod, fname)
    for case in req['cases']:
        sys.stdout = io.StringIO()
        try:
            r = fn(case)
        except RecursionError as e:
            r = {'exc': 'RecursionError', 'where': None, 'msg': ''}
        except BaseException as e:  # noqa
            r = exc_info(e)
        real_out.write('R ' + json.dumps(r) + '\n')
        real_out.flush()


main()
