#!/usr/bin/env python3
"""Builds findings/C06.json from (a) the curated table of root causes below and
(b) soak logs of the C06 search (C06_LOG=<file> ./check C06 --tier thorough).

A C06 signature is  <base>@<form>:  base = what escaped (exception type,
innermost /repo function, raising line + message class), form = the construct
the input was generated from.  A finding lists, for each of its base
signatures, exactly the forms it was observed in (plus the families that
have no construct identity: random corpus mutations, random programs, sampled
keyword triples, replayed witnesses).  The same exception in a NEW construct
(e.g. after a type check has been dropped from a compile pass) is therefore
still reported.

usage: tools/mkc06findings.py [soak.jsonl ...]   (run from the repo root)
The observed (base, form) pairs are kept in tools/props/c06_observed.json and
merged with the logs given, so the findings file can be regenerated later."""
import json
import os
import re
import sys

sys.path.insert(0, os.path.dirname(os.path.abspath(__file__)))
sys.path.insert(0, os.path.join(os.path.dirname(os.path.abspath(__file__)), 'props'))
import c06  # noqa

ANON_FORMS = ['corpus', 'prog', 'block3', 'known-witness', 'replay', 'shrink']
CHAIN_FORMS = ['neg-nest', 'not-nest', 'exp-chain', 'exp-chain-var', 'long-sum', 'long-strcat',
               'paren-sum', 'long-print', 'long-colon', 'index-nest', 'fn-nest', 'paren']

# id, regexes over the base signature, description, minimal witness, fix file, note on the model
IE = r'C06/internal-exception\('
CURATED = [
    ('D05-exp-signed-operand',
     [IE + r'AssertionError,qbee/grammar\.py:parse_right_assoc_binary_expr,.*\)'],
     'a sign in front of the right operand of ^ (`2 ^ -1`): AssertionError in '
     'parse_right_assoc_binary_expr - the atom rule leaves the sign tokens in the list '
     '(theorem C06_right_assoc_unary_minus_refuted)',
     'x = 2 ^ -1', 'C06-D05-exp-signed-operand.diff',
     'after the fix parse_right strips the leading sign tokens and wraps the result in unary '
     'nodes: exponent_shape k>0 then yields a tree, C06_right_assoc_real_shapes_partial becomes '
     'total and the _refuted lemma goes away'),
    ('D09-locate-missing-argument',
     [IE + r'InternalError,qbee/codegen\.py:BaseCodeGen\.gen_code_for_node,'
      r'raise-InternalError:Cannot-generate-code-for-node-None\)'],
     'LOCATE with a row but no column (`LOCATE 5`): InternalError "Cannot generate code for node: '
     'None" (gen_locate_stmt tests node.row twice; `LOCATE , 5` silently drops the column)',
     'LOCATE 5', 'C06-D09-locate-missing-column.diff', None),
    ('D28-second-else',
     [IE + r'AssertionError,qbee/stmt\.py:IfBlock\.__init__,assert-all\)'],
     'a second ELSE, or an ELSEIF after the ELSE, in an IF block: AssertionError in '
     'IfBlock.__init__ (IfBlock.create_block appends a block with condition None)',
     'IF x THEN\nELSE\nELSE\nEND IF', 'C06-D28-second-else.diff', None),
    ('label-inside-select',
     [IE + r'AssertionError,qbee/stmt\.py:SelectBlock\.__init__,assert-all\)'],
     'a label or line number on a line inside a SELECT CASE body: AssertionError in '
     'SelectBlock.__init__ (the body is asserted to hold Stmt nodes only, a Label is not a Stmt)',
     'SELECT CASE x\nCASE 1\nlq: y = 1\nEND SELECT', None, None),
    ('D28-case-outside-select',
     [IE + r'AttributeError,qbee/qvm_codegen\.py:gen_[a-z_]*case[a-z_]*,.*\)',
      IE + r'AttributeError,qbee/stmt\.py:[A-Za-z]+\.__getattr__,raise-AttributeError\)',
      IE + r'InternalError,qbee/codegen\.py:BaseCodeGen\.gen_code_for_node,'
      r'raise-InternalError:Cannot-generate-code-for-node-CaseElseStmt\)'],
     'CASE / CASE ELSE outside SELECT CASE (alone, or inside another block): AttributeError in '
     'the case-clause generators (node.parent.parent.value)',
     'CASE 1', 'C06-D28-case-without-select.diff', None),
    ('field-declaration-outside-type',
     [IE + r'InternalError,qbee/codegen\.py:BaseCodeGen\.gen_code_for_node,'
      r'raise-InternalError:Cannot-generate-code-for-node-VarDeclClause\)'],
     '`name AS type` outside a TYPE block is accepted by the grammar and by the passes and '
     'reaches the code generator: InternalError "Cannot generate code for node"',
     'fq AS INTEGER', None, None),
    ('else-in-nested-block',
     [IE + r'InternalError,qbee/codegen\.py:BaseCodeGen\.gen_code_for_node,'
      r'raise-InternalError:Cannot-generate-code-for-node-Else(If)?Stmt\)'],
     'an ELSE / ELSEIF inside a loop that is inside an IF block passes the ELSE-without-IF check '
     '(any IfBlock ancestor) and reaches the code generator: InternalError',
     'IF x THEN\nDO\nELSE\nLOOP\nEND IF', 'C06-else-in-nested-block.diff', None),
    ('D28-unchecked-operand-type',
     [IE + r'KeyError,qbee/qvm_codegen\.py:QvmCode\.assembled,bytes:op_code-op_to_instr-op-\.op_code:'
      r'conv[%&!#$][%&!#$]\)',
      IE + r'AssertionError,qbee/qvm_codegen\.py:gen_code_for_conv,assert-not-node\.type\.is_array\)'],
     'a string or an array where a statement expects a number and no compile pass checks it '
     '(IF "a" THEN, COLOR "s", FOR i = 1 TO "s", DEF SEG = s$, LOCATE , , "a", DIM q(s$), ...): '
     'an invalid conv instruction -> KeyError in QvmCode.assembled, or an assert in gen_code_for_conv',
     'IF "a" THEN PRINT 1', 'C06-D28-unchecked-operand-conv.diff', None),
    ('D28-record-as-value',
     [IE + r'ValueError,qbee/expr\.py:Type\.type_char,.*Cannot-get-type_char-of-Type\.USER_DEFINED\)'],
     'a record variable used as a value (whole-record assignment `a = b`, record as a condition, '
     'bound, operand or argument): ValueError "Cannot get type_char" in the code generator',
     'TYPE t\nx AS INTEGER\nEND TYPE\nDIM a AS t\nDIM b AS t\na = b', None, None),
    ('binary-op-type-check-dead',
     [IE + r'ValueError,qbee/expr\.py:Type\.type_char,.*Cannot-get-type_char-of-Type\.UNKNOWN\)',
      IE + r'EvalError,qbee/expr\.py:BinaryOp\.eval,.*\)',
      IE + r'AttributeError,qbee/compiler\.py:[A-Za-z0-9_.]*(perform_argument_matching|__check_function_args),'
      r'.*NoneType-object-has-no-attribute-upper\)'],
     'Pass2.process_binary_op_pre tests `node.type == Type.UNKNOWN`, which is always false '
     '(Type.__eq__): `1 + "a"` is only rejected where another check happens to look at it; '
     'elsewhere ValueError (type_char of UNKNOWN), EvalError in the folder at -O1/-O2, or '
     'AttributeError (Type.name is None) while formatting the argument-mismatch message',
     'COLOR 1 + "a"', 'C06-binary-op-unknown-type.diff', None),
    ('array-operand-of-operator',
     [IE + r'AssertionError,qbee/qvm_codegen\.py:gen_binary_op,assert-False\)'],
     'an array name as an operand of a comparison (`arr <> arr`): `assert False` in gen_binary_op',
     'DIM arr(3) AS INTEGER\nIF arr <> arr THEN PRINT 1', 'C06-array-operand-of-operator.diff', None),
    ('undefined-element-unchecked',
     [IE + r'ValueError,qvm/memlayout\.py:get_dotted_index,.*\)'],
     'an undefined record element in an operand no pass asks the type of (`SOUND r.nope, 1`): '
     'ValueError in get_dotted_index (Lvalue.type, which reports ELEMENT_NOT_DEFINED, is lazy)',
     'TYPE t\nx AS INTEGER\nEND TYPE\nDIM r AS t\nSOUND r.nope, 1',
     'C06-undefined-element-unchecked-operand.diff', None),
    ('bload-one-argument',
     [IE + r'ValueError,qbee/grammar\.py:parse_bload_stmt,.*\)'],
     'BLOAD with a file name only (valid for the grammar): ValueError "not enough values to '
     'unpack" in the parse action',
     'BLOAD "f"', 'C06-bload-one-argument.diff', None),
    ('read-input-into-non-variable',
     [IE + r'AssertionError,qbee/qvm_codegen\.py:gen_lvalue_write,.*\)'],
     'READ / INPUT into a CONST name or a function call: AssertionError in gen_lvalue_write',
     'CONST k = 1\nREAD k', 'C06-read-input-into-non-variable.diff', None),
    ('peephole-string-concat',
     [IE + r'ValueError,qbee/qvm_codegen\.py:QvmCode\.assembled\.get_string_literal_idx,.*\)'],
     'VALID program: at -O2 the peephole pass joins `push$ "a"; push$ "b"; add` into one literal '
     'built from the quoted forms (`a""b`) that is not in the literal table: ValueError in bytes(code)',
     's$ = UCASE$("a" + "b")', None, None),
    ('D03-string-comparison-folded',
     [IE + r'ValueError,qbee/expr\.py:NumericLiteral\.__init__,.*\)'],
     'VALID program: a comparison of two string constants is folded by concatenating them '
     '(`"a" = "a"` -> int("aa")): ValueError at -O1/-O2',
     'IF "a" = "a" THEN PRINT 1', None, None),
    ('D02-folded-constant-out-of-range',
     [IE + r'(OverflowError|error),qbee/qvm_codegen\.py:QvmCode\.assembled\.bconv\.<lambda>,.*\)'],
     'a folded constant that does not fit its type (`y& = 1E38 * 10`, `y = 3E+38 OR 1`, '
     '`x& = 2000000000 + 2000000000`): struct.error / OverflowError in bytes(code) at -O1/-O2 '
     '(-O0 compiles and traps at run time)',
     'y& = 1E38 * 10', None, None),
    ('D34-nonfinite-constant-conversion',
     [IE + r'(OverflowError|ValueError),qbee/qvm_codegen\.py:QvmCode\.optimize,.*\)'],
     'a non-finite constant followed by a conversion (`arr(1.8D308#) = 1`, `IF 1D308*10 - 1D308*10 '
     'THEN`): OverflowError / ValueError from round() in QvmCode.optimize at -O2',
     'IF 1D308 * 10 - 1D308 * 10 THEN PRINT 1', None, None),
    ('dim-bound-not-an-integer',
     [IE + r'(TypeError|OverflowError|ValueError),qbee/stmt\.py:ArrayDimRange\.static_[lu]bound,.*\)'],
     'a constant DIM bound that is a string or not finite (`DIM q("a")`, `DIM q(1D308 * 10)`): '
     'TypeError / OverflowError from int(round(...)) in ArrayDimRange.static_ubound',
     'DIM q("a")', None, None),
    ('D30-frame-size-field',
     [IE + r'error,qbee/qvm_codegen\.py:QvmCode\.assembled,bytes:bargs-struct\.pack-HH-.*\)'],
     'an array so large that the frame size does not fit the 16-bit operand of `frame` '
     '(`DIM qq(1D+308)`, `DIM a(40000, 4000) AS DOUBLE`): struct.error in bytes(code)',
     'DIM qq(100000)', None, None),
    ('D12-restore-label-without-data',
     [IE + r'ValueError,qbee/qvm_codegen\.py:QvmCode\.get_data_label_index,.*\)'],
     'RESTORE to a label / line number with no DATA before the next label: ValueError in '
     'get_data_label_index',
     'RESTORE l1\nl1: PRINT 1\nl2: DATA 1', None, None),
    ('D36-non-cp437-character',
     [IE + r'UnicodeEncodeError,qbee/qvm_codegen\.py:QvmCode\.__bytes__,.*\)'],
     'a string literal or DATA item with a character outside code page 437 (only reachable '
     'through Compiler.compile(text), the CLI decodes files as cp437): UnicodeEncodeError in '
     'bytes(code)',
     'PRINT "€"', 'C06-D36-non-cp437-string-literal.diff', None),
    ('const-division-by-zero-debug-info',
     [IE + r'(ZeroDivisionError|OverflowError),qbee/expr\.py:BinaryOp\._eval_numeric\.(<lambda>|limit),bytes:.*\)'],
     'CONST whose value cannot be evaluated (`CONST k = 1.5 / 0`, `CONST k = 2 ^ .5` whose float '
     'result is range-checked as an integer) compiles, but with -g the debug section evaluates '
     'it: ZeroDivisionError / OverflowError in bytes(code)',
     'CONST kc = 1.5 / 0', None, None),
    ('unary-op-on-string-folded',
     [IE + r'EvalError,qbee/expr\.py:UnaryOp\.eval,.*\)'],
     'LOOP WHILE / UNTIL with a string constant (`LOOP WHILE "s"`): the NOT emitted for the '
     'condition is evaluated by the peephole pass: EvalError at -O2',
     'DO\nLOOP WHILE "s"', None, None),
    ('input-separator-without-prompt',
     [IE + r'AssertionError,qbee/node\.py:Node\.children,assert-all\)'],
     'INPUT with a separator but no prompt string (`INPUT , x`, `INPUT ; ; x`): the grammar makes '
     'the prompt optional inside the (prompt separator) group, the separator lands in the variable '
     'list: AssertionError in Node.children',
     'INPUT , x', 'C06-input-separator-without-prompt.diff', None),
    ('exp-folded-to-non-real-or-float',
     [IE + r'TypeError,qbee/expr\.py:BinaryOp\._eval_numeric\.limit,.*\)'],
     'constant ^ whose result is complex or a float in an integral type (`y% = (-1) ^ .5`, '
     '`x = 2 ^ (-1)`): TypeError in the folder\'s range check at -O1/-O2 (and for CONST at every level)',
     'y% = (-1) ^ .5', None, None),
    ('builtin-function-without-arguments',
     [IE + r'IndexError,qbee/expr\.py:BuiltinFuncCall\.type\.<lambda>,.*\)'],
     'a builtin function that needs an argument written without one inside an expression '
     '(`PRINT ABS - (1.1)`): its type is asked for (self.args[0]) before the argument count is '
     'checked: IndexError',
     'PRINT ABS - (1.1)', None, None),
    ('block-statement-in-single-line-if',
     [IE + r'InternalError,qbee/codegen\.py:BaseCodeGen\.gen_code_for_node,'
      r'raise-InternalError:Cannot-generate-code-for-node-(?!Else|CaseElse)[A-Za-z]+Stmt\)'],
     'a block statement as the THEN / ELSE part of a single-line IF (`IF x THEN SUB s`, '
     '`IF x THEN NEXT`): the block parser never sees it, the code generator has no generator '
     'for it: InternalError',
     'IF x THEN SUB s', None, None),
    ('fold-logical-op-huge-operand',
     [IE + r'error,qbee/expr\.py:Type\.can_hold,.*\)'],
     'a logical operator on a constant beyond LONG (`y = 1D+308 IMP 1`): the folder asks whether '
     'a SINGLE can hold a huge int: struct.error at -O1/-O2',
     'y = 1D+308 IMP 1', None, None),
    ('nesting-depth-recursion',
     [IE + r'RecursionError,.*\)'],
     'expression nesting of about 10 levels (parentheses, calls, indices) exhausts the Python '
     'stack inside pyparsing: RecursionError escapes parse_string',
     'x = ((((((((((((1))))))))))))', None, None),
    ('expression-chain-exponential-time',
     [r'C06/timeout\((parse_string|process_tree|bind|fold|gen_code|optimize|bytes|str)\)'],
     'VALID programs: compile time doubles with every further operand of an operator chain or '
     'level of unary operators (measured CPU time of `y = x + x + ... + x`: 10 terms 0.9 s, 14 terms '
     '4.7 s, 18 terms 58 s, 22 terms > 60 s; 30 signs `y = ---...-1` > 20 s): BinaryOp.type / '
     'UnaryOp.type re-evaluate the operand types recursively several times per node in every pass. '
     'Compilation of a 25-term sum does not terminate in practice',
     'y = ' + ' + '.join(['x'] * 26), None, None),
]


NM = 'Models/Tokens.v is not affected (the construct is covered by the search only); '
FIX_NOTES = {
    'D09-locate-missing-argument': NM + 'after the fix `LOCATE 5` and `LOCATE , 5` compile (column '
                                   'pushed as -1 / as given) at all six configurations',
    'D28-second-else': NM + 'after the fix the witness is a SyntaxError "ELSE after ELSE" located at '
                       'the second ELSE',
    'D28-case-outside-select': NM + 'after the fix the witness is CompileError CASE_WITHOUT_SELECT '
                               '(new error code) located at the CASE statement',
    'else-in-nested-block': NM + 'after the fix the witness is CompileError ELSE_WITHOUT_IF located at '
                            'the ELSE; ELSE/ELSEIF of a well-formed IF block never reach the passes',
    'D28-unchecked-operand-type': NM + 'after the fix gen_code_for_conv raises CompileError '
                                  'TYPE_MISMATCH located at the operand (gen_color goes through it too)',
    'binary-op-type-check-dead': NM + 'after the fix `1 + "a"` is TYPE_MISMATCH in Pass2 wherever it '
                                 'occurs (Type.is_unknown), Type.name of an unknown type is "unknown"',
    'array-operand-of-operator': NM + 'after the fix an array operand of a binary operator is '
                                 'TYPE_MISMATCH in Pass2',
    'undefined-element-unchecked': NM + 'after the fix Pass2.process_lvalue_pre evaluates node.type: '
                                   'ELEMENT_NOT_DEFINED / INVALID_IDENTIFIER located at the lvalue',
    'bload-one-argument': NM + 'after the fix the offset defaults to 0 and the statement compiles',
    'read-input-into-non-variable': NM + 'after the fix Pass3 reports DUPLICATE_DEFINITION located at '
                                    'the target, as for an assignment to a function',
    'D36-non-cp437-character': NM + 'after the fix the string literal / DATA parse actions raise a '
                               'located SyntaxError for a character cp437 cannot encode',
    'input-separator-without-prompt': NM + 'after the fix the grammar requires the prompt string '
                                      'inside the (prompt separator) group: SyntaxError',
}


def main():
    logs = sys.argv[1:]
    observed = {}
    example = {}
    OBS = os.path.join(os.path.dirname(os.path.abspath(__file__)), 'props', 'c06_observed.json')
    if os.path.exists(OBS):      # (base signature -> forms) pairs of earlier soaks
        for b, forms in json.load(open(OBS)).items():
            observed.setdefault(b, set()).update(forms)
            example.setdefault(b, '')
    for f in logs:
        for line in open(f):
            try:
                e = json.loads(line)
            except Exception:  # noqa
                continue
            if 'sig' not in e:
                continue
            base = e['sig'].split('@')[0]
            form = c06.form_of({'fam': e.get('fam', e['suite']), 'cls': e['class']})
            if e['sig'].count('@') == 0:
                form = None
            observed.setdefault(base, set()).add(form)
            if base not in example or len(e['src']) < len(example[base]):
                example[base] = e['src']
    # the curated witnesses themselves are inputs too
    import vlib  # noqa
    wit = [c[3] for c in CURATED]
    for w, r in zip(wit, c06.run_check(wit)):
        for sig, lv, dbg, v in c06.signatures({'fam': 'known-witness', 'cls': '', 'src': w,
                                               'form': 'known-witness'}, r):
            base = sig.split('@')[0]
            observed.setdefault(base, set()).add('known-witness' if '@' in sig else None)
            example.setdefault(base, w)
    # a time-out is attributed to the step of compile() that was running; on a
    # host of another speed the same chain may time out one step earlier or later
    for st in ('parse_string', 'process_tree', 'bind', 'fold', 'gen_code', 'optimize', 'bytes', 'str'):
        observed.setdefault(f'C06/timeout({st})', set()).update(CHAIN_FORMS)
    out = []
    assigned = set()
    for fid, bases, desc, wit, fix, note in CURATED:
        mine = sorted(b for b in observed if any(re.fullmatch(r, b) for r in bases))
        assigned.update(mine)
        if not mine:
            print(f'warning: {fid}: no observed signature', file=sys.stderr)
            continue
        alts = []
        for b in mine:
            forms = sorted(x for x in observed[b] if x is not None)
            if None in observed[b] and not forms:
                alts.append(re.escape(b))
            else:
                fl = sorted(set(forms) | set(ANON_FORMS) |
                            (set(CHAIN_FORMS) if b.startswith('C06/timeout') else set()))
                alts.append(re.escape(b) + '@(?:' + '|'.join(re.escape(x) for x in fl) + ')')
        entry = {'property': 'C06', 'id': fid, 'status': 'open',
                 'signature': '(?:' + '|'.join(alts) + ')',
                 'witness': {'src': wit, 'form': 'known-witness'},
                 'description': desc}
        if fix:
            entry['fix'] = 'fixes/' + fix
        note = note or FIX_NOTES.get(fid)
        if note:
            entry['fix_note'] = note
        out.append(entry)
    rest = sorted(set(observed) - assigned)
    for b in rest:
        print('UNASSIGNED', b, '|', repr(example[b][-120:]), file=sys.stderr)
    json.dump(out, open('findings/C06.json', 'w'), indent=1)
    json.dump({b: sorted(observed[b], key=lambda x: (x is None, x or '')) for b in sorted(observed)},
              open(OBS, 'w'), indent=0)
    print(f'{len(out)} findings, {len(assigned)} base signatures assigned, {len(rest)} unassigned')


if __name__ == '__main__':
    main()
