"""Marks known findings as fixed (status 'fixed' + the /repo fix commit).  A fixed
entry suppresses nothing: ctx.report only matches 'open' entries."""
import glob, json, subprocess
log = subprocess.check_output(['git', '-C', '/repo', 'log', '--format=%h %s']).decode().split('\n')
def commit(key):
    for l in log:
        if l[8:].startswith('fix:') and key in l:
            return l.split()[0], l[8:]
    raise SystemExit('no commit for ' + key)
FIX = {   # finding id -> key phrase of the fix commit subject
 ('C07', 'D17-exp-overflow'): '^ overflow', ('C07', 'D17-exp-complex'): '^ overflow',
 ('C07', 'D18-conv-inf'): 'infinite or NaN', ('C07', 'D27-err-before-error'): 'ERR before any error',
 ('C07', 'D37-string-code'): 'STRING$ with a character code',
 ('C07', 'D20-resume-next-zerodiv'): 'record the failing address',
 ('C07', 'D20-resume-next-without-debug-info'): 'cannot locate the statement',
 ('C03', 'D13-input-rejected-line'): 'INPUT converts every field',
 ('C03', 'D46-intdiv-float-operand'): 'integer division with a non-integer operand',
 ('C18', 'D13-input-stale-stack'): 'INPUT converts every field',
 ('C15', 'D11-bare-restore-last-part'): 'RESTORE without a label',
 ('C04', 'D15-readidx-default-wrong-cell'): 'reading an unset field',
 ('C11', 'D19-zero-division-trapped-addr'): 'record the failing address',
 ('C01', 'D11-restore-rewinds-to-last-part'): 'RESTORE without a label',
 ('C01', 'D15-unset-record-field-read'): 'reading an unset field',
 ('C01', 'D17-host-exception-instead-of-error'): '^ overflow',
 ('C01', 'D19-division-by-zero-line'): 'record the failing address',
 ('C01', 'N07-intdiv-float-operand-static-type'): 'integer division with a non-integer operand',
 ('C05', 'D32b-intdiv-float-type'): 'integer division with a non-integer operand',
 ('C13', 'D04b-integer-division-with-a-float-operand'): 'integer division with a non-integer operand',
}
for f in sorted(glob.glob('/verif/findings/*.json')):
    es = json.load(open(f)); ch = False
    for e in es:
        k = (e['property'], e['id'])
        if k in FIX and e.get('status') != 'fixed':
            h, subj = commit(FIX[k])
            e['status'] = 'fixed'; e['commit'] = h; e['fixed_by'] = subj; ch = True
            print('fixed:', 'property=' + e['property'], h, e['id'])
    if ch:
        json.dump(es, open(f, 'w'), indent=1)
